#define _POSIX_C_SOURCE 200809L
/* C side of the C16 harness.  This file knows ONLY the C declarations published for the runtime types (written here by hand
 * from the property statement / the headers), never a Rust definition.  It drives real values created by the Rust static
 * library purely through those fields and function pointers.
 * stdin : case lines "16 <kind> <elem> | ints ; ints ; ..."     stdout: "rows # fails=..." (same format as harness/rt) */
#include <stdbool.h>
#include <stddef.h>
#include <stdint.h>
#include <stdio.h>
#include <stdlib.h>
#include <string.h>

/* ---- the published declarations ------------------------------------------------------------------------------- */
typedef struct { void *instance; void (*drop_fn)(void *); } CBoxV;
typedef struct { const void *instance; const void *(*clone_fn)(const void *); void (*drop_fn)(const void *); } CArcV;
typedef struct { const void *data; uintptr_t len; } CSliceRefV;
typedef struct { void *data; uintptr_t len; } CSliceMutV;
typedef struct CVecV { void *data; uintptr_t len; uintptr_t capacity; void (*drop_fn)(void *, uintptr_t, uintptr_t);
                       uintptr_t (*reserve_fn)(struct CVecV *, uintptr_t); } CVecV;
typedef struct { uint8_t b[3]; } E3;
typedef struct { int64_t a, b; } __attribute__((aligned(16))) E16;
#define DECL_ELEM(T, S) \
  typedef struct { void *context; bool (*func)(void *, T); } Callback_##S; \
  typedef struct { void *iter; int32_t (*func)(void *, T *out); } CIterator_##S; \
  typedef struct { uint32_t tag; T some; } COption_##S;       /* None = 0, Some = 1 */
DECL_ELEM(uint8_t, u8) DECL_ELEM(uint64_t, u64) DECL_ELEM(E3, e3) DECL_ELEM(E16, e16)
typedef struct { uint32_t tag; union { uint64_t ok; uint8_t err; }; } CResult_u64_u8;   /* Ok = 0, Err = 1 */
typedef struct { uint32_t tag; union { E16 ok; E3 err; }; } CResult_e16_e3;

/* ---- Rust static library ------------------------------------------------------------------------------------------ */
extern size_t rt_take_drops(int64_t *out, size_t cap);
extern uint64_t rt_mk_tok(int64_t v);
extern int64_t rt_tok_val(const void *tokref);
extern void rt_drop_tok(uint64_t t);
extern size_t rt_sizes(size_t *out);
extern void rt_mk_box(CBoxV *out, int64_t v);
extern void rt_mk_arc(CArcV *out, int64_t v);
extern void rt_mk_arc_empty(CArcV *out);
extern void rt_mk_arcsome(CArcV *out, int64_t v);
extern int64_t rt_arc_count(const void *p);
extern void rt_arc_drop_in_rust(CArcV *a);
extern void *rt_slice_u8(CSliceRefV *, size_t, int64_t), *rt_slice_u64(CSliceRefV *, size_t, int64_t), *rt_slice_e3(CSliceRefV *, size_t, int64_t), *rt_slice_e16(CSliceRefV *, size_t, int64_t);
extern void rt_slicem_u8(CSliceMutV *, void *, size_t), rt_slicem_u64(CSliceMutV *, void *, size_t), rt_slicem_e3(CSliceMutV *, void *, size_t), rt_slicem_e16(CSliceMutV *, void *, size_t);
extern void rt_free_slice(void *, size_t, size_t, size_t);
extern void rt_mk_vec_tok(CVecV *, size_t), rt_mk_vec_u8(CVecV *, size_t), rt_mk_vec_e3(CVecV *, size_t), rt_mk_vec_e16(CVecV *, size_t);
extern size_t rt_read_vec_tok(const CVecV *, int64_t *, size_t), rt_read_vec_u8(const CVecV *, int64_t *, size_t), rt_read_vec_e3(const CVecV *, int64_t *, size_t), rt_read_vec_e16(const CVecV *, int64_t *, size_t);
extern void *rt_mk_sink(size_t stop);
extern size_t rt_sink_read(void *, int64_t *, size_t);
extern void rt_mk_cb_u8(Callback_u8 *, void *), rt_mk_cb_u64(Callback_u64 *, void *), rt_mk_cb_e3(Callback_e3 *, void *), rt_mk_cb_e16(Callback_e16 *, void *);
extern void *rt_mk_script(const int64_t *, size_t);
extern void rt_mk_it_u8(CIterator_u8 *, void *), rt_mk_it_u64(CIterator_u64 *, void *), rt_mk_it_e3(CIterator_e3 *, void *), rt_mk_it_e16(CIterator_e16 *, void *);
extern void rt_opt_u8(COption_u8 *, int32_t, int64_t), rt_opt_u64(COption_u64 *, int32_t, int64_t), rt_opt_e3(COption_e3 *, int32_t, int64_t), rt_opt_e16(COption_e16 *, int32_t, int64_t);
extern void rt_res_u64_u8(CResult_u64_u8 *, int32_t, int64_t), rt_res_e16_e3(CResult_e16_e3 *, int32_t, int64_t);
extern int64_t rt_read_opt_u64(const COption_u64 *), rt_read_res_u64_u8(const CResult_u64_u8 *);

extern size_t rt_feed_u8(Callback_u8, const int64_t *, size_t), rt_feed_u64(Callback_u64, const int64_t *, size_t), rt_feed_e3(Callback_e3, const int64_t *, size_t), rt_feed_e16(Callback_e16, const int64_t *, size_t);
extern int32_t rt_adv_u8(CIterator_u8 *, int64_t *), rt_adv_u64(CIterator_u64 *, int64_t *), rt_adv_e3(CIterator_e3 *, int64_t *), rt_adv_e16(CIterator_e16 *, int64_t *);

/* ---- plumbing ----------------------------------------------------------------------------------------------------- */
#define MAXR 4096
static int64_t rowbuf[MAXR][64]; static int rowlen[MAXR]; static int nrows;
static char fails[4096];
static void fail(const char *m) { if (strlen(fails) + strlen(m) + 2 < sizeof fails) { if (fails[0]) strcat(fails, "|"); strcat(fails, m); } }
static int64_t outv[1 << 16]; static int outn; static int first_row;
static void row_begin(void) { if (!first_row) printf(" ; "); first_row = 0; outn = 0; }
static void row_put(int64_t v) { outv[outn++] = v; }
static void row_end(void) { for (int i = 0; i < outn; i++) printf(i ? " %lld" : "%lld", (long long)outv[i]); }
static void drops_row(void) { static int64_t d[4096]; size_t n = rt_take_drops(d, 4096); row_begin(); for (size_t i = 0; i < n; i++) row_put(d[i]); row_end(); }
static int64_t e3v(E3 x) { return x.b[0] | ((int64_t)x.b[1] << 8) | ((int64_t)x.b[2] << 16); }
static E3 mk_e3(int64_t v) { E3 r = {{(uint8_t)v, (uint8_t)(v >> 8), (uint8_t)(v >> 16)}}; return r; }
static E16 mk_e16(int64_t v) { E16 r; r.a = v; r.b = ~v; return r; }

static size_t esize(int elem) { return elem == 0 ? 1 : elem == 1 ? 8 : elem == 4 ? 3 : 16; }
static size_t ealign(int elem) { return elem == 0 ? 1 : elem == 1 ? 8 : elem == 4 ? 1 : 16; }
static void put_elem(int elem, void *dst, int64_t v) {
  if (elem == 0) *(uint8_t *)dst = (uint8_t)v; else if (elem == 1) { uint64_t t = rt_mk_tok(v); memcpy(dst, &t, 8); }
  else if (elem == 4) { E3 x = mk_e3(v); memcpy(dst, &x, 3); } else { E16 x = mk_e16(v); memcpy(dst, &x, 16); } }
static int64_t get_elem(int elem, const void *src) {
  if (elem == 0) return *(const uint8_t *)src; if (elem == 1) return rt_tok_val(src);
  if (elem == 4) { E3 x; memcpy(&x, src, 3); return e3v(x); } E16 x; memcpy(&x, src, 16); if (x.b != ~x.a) fail("e16_second_half_corrupt"); return x.a; }

/* ---- kinds -------------------------------------------------------------------------------------------------------- */
static void k_box(void) {            /* rows: v  -> release through {instance, drop_fn} */
  for (int r = 0; r < nrows; r++) {
    CBoxV b; rt_mk_box(&b, rowbuf[r][0]);
    if (rt_tok_val(b.instance) != rowbuf[r][0]) fail("box_instance_does_not_point_at_the_value");
    if (b.drop_fn && b.instance) b.drop_fn(b.instance);          /* the published release sequence */
    drops_row();
  }
}

static void arc_obs(CArcV *pool, int *live, int n) {
  row_begin();
  for (int i = 0; i < n; i++) {
    if (!live[i]) { row_put(0); row_put(0); row_put(0); continue; }
    if (!pool[i].instance) { row_put(1); row_put(0); row_put(0); continue; }
    row_put(live[i] == 2 ? 3 : 2); row_put(rt_arc_count(pool[i].instance)); row_put(rt_tok_val(pool[i].instance));
  }
  row_end();
}
static void k_arc(void) {            /* ops of model 10 restricted to {0 new CArc, 1 new CArcSome, 5 empty, 6 clone, 12 drop} */
  static CArcV pool[256]; static int live[256]; int n = 0;
  for (int r = 0; r <= nrows; r++) {
    int64_t *op = rowbuf[r]; int cleanup = (r == nrows);
    int from = cleanup ? 0 : -1, to = cleanup ? n : 0;
    if (!cleanup) { from = 0; to = 1; }
    for (int it = from; it < to; it++) {
      int64_t c = cleanup ? 12 : op[0]; int64_t h = cleanup ? it : op[1];
      int ok = 0, newslot = -1;
      if (c == 0 && n < 255) { rt_mk_arc(&pool[n], op[2]); live[n] = 1; newslot = n++; ok = 1; }
      else if (c == 1 && n < 255) { rt_mk_arcsome(&pool[n], op[2]); live[n] = 2; newslot = n++; ok = 1; }
      else if (c == 5 && n < 255) { rt_mk_arc_empty(&pool[n]); live[n] = 1; newslot = n++; ok = 1; }
      else if (c == 6 && h >= 0 && h < n && live[h] && n < 255) {
        CArcV *s = &pool[h], ret;
        if (s->instance) { ret.instance = s->clone_fn(s->instance); ret.clone_fn = s->clone_fn; ret.drop_fn = s->drop_fn; }
        else { ret.instance = NULL; ret.clone_fn = NULL; ret.drop_fn = NULL; }
        pool[n] = ret; live[n] = live[h]; newslot = n++; ok = 1;
      }
      else if (c == 12 && h >= 0 && h < n && live[h]) {
        CArcV *s = &pool[h];
        if (h % 2) { if (s->drop_fn && s->instance) s->drop_fn(s->instance); }   /* released by C through the fields ... */
        else rt_arc_drop_in_rust(s);                                            /* ... or handed back to Rust's Drop */
        live[h] = 0; ok = 1;
      }
      row_begin(); row_put(c); row_put(ok); row_put(newslot); row_end();
      drops_row();
      arc_obs(pool, live, n);
    }
  }
}

static void k_vec(int elem) {        /* ops of model 11 restricted to {0 x push, 1 pop, 4 n reserve, 8 read}; all done by C */
  CVecV v; size_t es = esize(elem);
  if (elem == 0) rt_mk_vec_u8(&v, 0); else if (elem == 1) rt_mk_vec_tok(&v, 0); else if (elem == 4) rt_mk_vec_e3(&v, 0); else rt_mk_vec_e16(&v, 0);
  for (int r = 0; r < nrows; r++) {
    int64_t *op = rowbuf[r];
    if (op[0] == 0) {
      if (v.capacity - v.len < 1) v.reserve_fn(&v, 1);
      if (v.capacity - v.len < 1) { fail("reserve_fn_made_no_room"); }
      else { put_elem(elem, (char *)v.data + v.len * es, op[1]); v.len += 1; }
      row_begin(); row_put(0); row_end();
    } else if (op[0] == 1) {
      row_begin(); row_put(1);
      if (v.len == 0) row_put(0); else { v.len -= 1; void *p = (char *)v.data + v.len * es; row_put(1); row_put(get_elem(elem, p));
        if (elem == 1) { uint64_t t; memcpy(&t, p, 8); rt_drop_tok(t); static int64_t d[8]; rt_take_drops(d, 8); } }
      row_end();
    } else if (op[0] == 4) {
      if (v.capacity - v.len < (uintptr_t)op[1]) { uintptr_t c = v.reserve_fn(&v, op[1]); if (c != v.capacity) fail("reserve_fn_return_value_is_not_the_capacity"); }
      if (v.capacity - v.len < (uintptr_t)op[1]) fail("reserve_fn_made_no_room");
      row_begin(); row_put(4); row_end();
    } else if (op[0] == 8) {
      static int64_t viaRust[4096]; size_t n;
      if (elem == 0) n = rt_read_vec_u8(&v, viaRust, 4096); else if (elem == 1) n = rt_read_vec_tok(&v, viaRust, 4096);
      else if (elem == 4) n = rt_read_vec_e3(&v, viaRust, 4096); else n = rt_read_vec_e16(&v, viaRust, 4096);
      if (n != v.len) fail("rust_sees_another_length");
      row_begin(); row_put(8); row_put(v.len); row_put(v.len <= v.capacity);
      for (size_t i = 0; i < v.len; i++) { int64_t x = get_elem(elem, (char *)v.data + i * es); row_put(x); if (i < 4096 && viaRust[i] != x) fail("rust_sees_other_contents"); }
      row_end();
    } else { row_begin(); row_put(-2); row_end(); }
    drops_row();
  }
  if (v.drop_fn) v.drop_fn(v.data, v.len, v.capacity);          /* the published release */
  row_begin(); row_put(99); row_end();
  drops_row();
}

#define CB_CASE(S, T, MK, CONV) { Callback_##S cb; MK(&cb, sink); \
    for (; i < n; i++) { cnt++; T x = CONV(items[i]); if (!cb.func(cb.context, x)) { i++; break; } } }
static void k_cb(int elem) {         /* rows: stop items...  -> invoke {context, func} per item until it returns false */
  for (int r = 0; r < nrows; r++) {
    int64_t stop = rowbuf[r][0]; int64_t *items = rowbuf[r] + 1; int n = rowlen[r] - 1; int i = 0; int64_t cnt = 0;
    void *sink = rt_mk_sink((size_t)stop);
    if (elem == 0) CB_CASE(u8, uint8_t, rt_mk_cb_u8, (uint8_t))
    else if (elem == 1) CB_CASE(u64, uint64_t, rt_mk_cb_u64, (uint64_t))
    else if (elem == 4) CB_CASE(e3, E3, rt_mk_cb_e3, mk_e3)
    else CB_CASE(e16, E16, rt_mk_cb_e16, mk_e16)
    static int64_t got[4096]; size_t g = rt_sink_read(sink, got, 4096);
    row_begin(); row_put(cnt); row_end();
    row_begin(); for (size_t k = 0; k < g && k < 4096; k++) row_put(got[k]); row_end();
    row_begin(); for (; i < n; i++) row_put(items[i]); row_end();
  }
}

#define IT_CASE(S, T, MK, VAL) { CIterator_##S it; MK(&it, script); \
    for (int k = 0; k < nops; k++) { T out; memset(&out, 0xAB, sizeof out); int32_t rc = it.func(it.iter, &out); \
      /* monitor: call k must deliver entry k of the source's script (v >= 0: an item, code 0; -1 or past the end: no item, non-zero code) */ \
      { int64_t want = k < slen ? sc[k] : -1; char m[160]; \
        if (want >= 0 && rc != 0) { snprintf(m, sizeof m, "iterator_call_%d:_the_source_yields_%lld_but_the_next_function_returned_%d_(0_means_an_item)", k, (long long)want, (int)rc); fail(m); } \
        else if (want < 0 && rc == 0) { snprintf(m, sizeof m, "iterator_call_%d:_the_source_is_at_its_end_but_the_next_function_returned_0_(an_item)", k); fail(m); } \
        else if (want >= 0 && (int64_t)(VAL) != want) { snprintf(m, sizeof m, "iterator_call_%d:_item_%lld_arrived_as_%lld", k, (long long)want, (long long)(VAL)); fail(m); } } \
      if (rc == 0) { row_put(1); row_put(VAL); } else { row_put(0); row_put(0); } } }
static void k_it(int elem) {         /* rows: n script...  -> advance {iter, func} n times; 0 means an item was written */
  for (int r = 0; r < nrows; r++) {
    int nops = (int)rowbuf[r][0]; void *script = rt_mk_script(rowbuf[r] + 1, rowlen[r] - 1);
    const int64_t *sc = rowbuf[r] + 1; int slen = (int)rowlen[r] - 1;
    row_begin();
    if (elem == 0) IT_CASE(u8, uint8_t, rt_mk_it_u8, out)
    else if (elem == 1) IT_CASE(u64, uint64_t, rt_mk_it_u64, (int64_t)out)
    else if (elem == 4) IT_CASE(e3, E3, rt_mk_it_e3, e3v(out))
    else IT_CASE(e16, E16, rt_mk_it_e16, (out.b == ~out.a ? out.a : -777))
    row_end();
  }
}

static void k_slice(int elem) {      /* rows: n seed i v -> read {data,len}; write v at i through the mutable view; rows: contents */
  for (int r = 0; r < nrows; r++) {
    size_t n = (size_t)rowbuf[r][0]; int64_t seed = rowbuf[r][1]; size_t i = (size_t)rowbuf[r][2]; int64_t v = rowbuf[r][3];
    CSliceRefV s; void *base; size_t es = esize(elem);
    if (elem == 0) base = rt_slice_u8(&s, n, seed); else if (elem == 1) base = rt_slice_u64(&s, n, seed); else if (elem == 4) base = rt_slice_e3(&s, n, seed); else base = rt_slice_e16(&s, n, seed);
    if (s.len != n) fail("slice_len_field_wrong"); if (n && s.data != base) fail("slice_data_field_wrong");
    CSliceMutV m;
    if (elem == 0) rt_slicem_u8(&m, base, n); else if (elem == 1) rt_slicem_u64(&m, base, n); else if (elem == 4) rt_slicem_e3(&m, base, n); else rt_slicem_e16(&m, base, n);
    if (m.len != n || (n && m.data != base)) fail("mut_slice_fields_wrong");
    if (i < n) { if (elem == 0) ((uint8_t *)m.data)[i] = (uint8_t)v; else if (elem == 1) ((uint64_t *)m.data)[i] = (uint64_t)v;
                 else if (elem == 4) ((E3 *)m.data)[i] = mk_e3(v); else ((E16 *)m.data)[i] = mk_e16(v); }
    row_begin(); row_put(s.len);
    for (size_t k = 0; k < s.len; k++) { const char *p = (const char *)s.data + k * es;
      int64_t x = elem == 0 ? *(const uint8_t *)p : elem == 1 ? (int64_t)*(const uint64_t *)p : elem == 4 ? e3v(*(const E3 *)p) : ((const E16 *)p)->a; row_put(x); }
    row_end();
    rt_free_slice(base, n, es, ealign(elem));
  }
}

static void k_tags(void) {           /* rows: variant v -> [COption tag, payload, CResult tag, payload] for the 4 element layouts */
  for (int r = 0; r < nrows; r++) {
    int32_t k = (int32_t)rowbuf[r][0]; int64_t v = rowbuf[r][1];
    COption_u8 a; COption_u64 b; COption_e3 c; COption_e16 d; CResult_u64_u8 e; CResult_e16_e3 f;
    rt_opt_u8(&a, k, v); rt_opt_u64(&b, k, v); rt_opt_e3(&c, k, v); rt_opt_e16(&d, k, v); rt_res_u64_u8(&e, k, v); rt_res_e16_e3(&f, k, v);
    row_begin();
    row_put(a.tag); row_put(a.tag ? a.some : 0); row_put(b.tag); row_put(b.tag ? (int64_t)b.some : 0); row_put(c.tag); row_put(c.tag ? e3v(c.some) : 0);
    row_put(d.tag); row_put(d.tag ? d.some.a : 0); row_put(e.tag); row_put(e.tag ? e.err : (int64_t)e.ok); row_put(f.tag); row_put(f.tag ? e3v(f.err) : f.ok.a);
    row_end();
    /* and the other direction: C writes, Rust reads */
    COption_u64 w; memset(&w, 0, sizeof w); w.tag = k ? 1 : 0; if (k) w.some = (uint64_t)v;
    CResult_u64_u8 x; memset(&x, 0, sizeof x); x.tag = k ? 1 : 0; if (k) x.err = (uint8_t)v; else x.ok = (uint64_t)v;
    if (rt_read_opt_u64(&w) != (k ? v : -1)) fail("rust_reads_another_option_than_c_wrote");
    if (rt_read_res_u64_u8(&x) != (k ? -(int64_t)(uint8_t)v - 1 : v)) fail("rust_reads_another_result_than_c_wrote");
  }
}

static void k_sizes(void) {
  size_t rs[32]; size_t n = rt_sizes(rs);
  size_t cs[] = { sizeof(CBoxV), _Alignof(CBoxV), sizeof(CArcV), sizeof(CArcV), sizeof(CSliceRefV), sizeof(CSliceMutV), sizeof(CVecV), sizeof(Callback_u64), sizeof(CIterator_e16),
                  sizeof(COption_u8), sizeof(COption_u64), sizeof(COption_e3), sizeof(COption_e16), sizeof(CResult_u64_u8), sizeof(CResult_e16_e3), _Alignof(COption_e16), _Alignof(CResult_u64_u8) };
  row_begin();
  for (size_t i = 0; i < n && i < sizeof cs / sizeof cs[0]; i++) { row_put((int64_t)rs[i]); if (rs[i] != cs[i]) { char m[64]; snprintf(m, sizeof m, "size_%zu_rust_%zu_c_%zu", i, rs[i], cs[i]); fail(m); } }
  row_end();
}

/* ---- the reverse direction: values BUILT HERE through the published layout, used by Rust ------------------------------- */
typedef struct { int64_t got[256]; size_t n; size_t stop; } CSink;
typedef struct { const int64_t *sc; int len; int pos; } CScript;
static int64_t e3v2(E3 x) { return (int64_t)x.b[0] | (int64_t)x.b[1] << 8 | (int64_t)x.b[2] << 16; }
#define REV_FUNCS(S, T, VAL, MK) \
  static bool c_cb_##S(void *ctx, T x) { CSink *s = ctx; if (s->n < 256) s->got[s->n] = VAL; s->n++; return s->n != s->stop; } \
  static int32_t c_next_##S(void *st, T *out) { CScript *s = st; int64_t v = s->pos < s->len ? s->sc[s->pos] : -1; if (s->pos < s->len) s->pos++; \
                                                 if (v >= 0) { *out = MK(v); return 0; } return 1; }
static E3 mk_e3r(int64_t v) { E3 e; e.b[0] = (uint8_t)v; e.b[1] = (uint8_t)(v >> 8); e.b[2] = (uint8_t)(v >> 16); return e; }
static E16 mk_e16r(int64_t v) { E16 e; e.a = v; e.b = ~v; return e; }
REV_FUNCS(u8, uint8_t, (int64_t)x, (uint8_t))
REV_FUNCS(u64, uint64_t, (int64_t)x, (uint64_t))
REV_FUNCS(e3, E3, e3v2(x), mk_e3r)
REV_FUNCS(e16, E16, (x.b == ~x.a ? x.a : -777), mk_e16r)

static void k_cb_rev(int elem) {     /* kind 9, rows: stop items... -> Rust feeds the items into a callback built here; rows: count ; got ; not offered */
  for (int r = 0; r < nrows; r++) {
    int64_t *items = rowbuf[r] + 1; int n = rowlen[r] - 1; CSink sink; sink.n = 0; sink.stop = (size_t)rowbuf[r][0]; size_t cnt;
    if (elem == 0) { Callback_u8 cb = { &sink, c_cb_u8 }; cnt = rt_feed_u8(cb, items, (size_t)n); }
    else if (elem == 1) { Callback_u64 cb = { &sink, c_cb_u64 }; cnt = rt_feed_u64(cb, items, (size_t)n); }
    else if (elem == 4) { Callback_e3 cb = { &sink, c_cb_e3 }; cnt = rt_feed_e3(cb, items, (size_t)n); }
    else { Callback_e16 cb = { &sink, c_cb_e16 }; cnt = rt_feed_e16(cb, items, (size_t)n); }
    /* monitor: called once per item in order until it returned false; the reported count is the number of calls */
    size_t want = (sink.stop >= 1 && sink.stop <= (size_t)n) ? sink.stop : (size_t)n;
    if (sink.n != want) fail("c_built_callback:_invoked_another_number_of_times_than_items_up_to_the_stop");
    if (cnt != sink.n) fail("c_built_callback:_reported_count_differs_from_the_number_of_invocations");
    for (size_t i = 0; i < sink.n && i < 256 && i < (size_t)n; i++) if (sink.got[i] != items[i]) { fail("c_built_callback:_item_arrived_altered_or_out_of_order"); break; }
    row_begin(); row_put((int64_t)cnt); row_end();
    row_begin(); for (size_t i = 0; i < sink.n && i < 256; i++) row_put(sink.got[i]); row_end();
    row_begin(); for (int i = (int)cnt; i < n; i++) row_put(items[i]); row_end();
  }
}
static void k_it_rev(int elem) {     /* kind 10, rows: n script... -> Rust calls Iterator::next n times on an iterator built here; '1 v' / '0 0' per call */
  for (int r = 0; r < nrows; r++) {
    int nops = (int)rowbuf[r][0]; CScript sc = { rowbuf[r] + 1, rowlen[r] - 1, 0 };
    row_begin();
    for (int k = 0; k < nops; k++) {
      int64_t out = 0; int32_t rc;
      int64_t want = k < sc.len ? sc.sc[k] : -1;
      if (elem == 0) { static CIterator_u8 it; if (k == 0) { it.iter = &sc; it.func = c_next_u8; } rc = rt_adv_u8(&it, &out); }
      else if (elem == 1) { static CIterator_u64 it; if (k == 0) { it.iter = &sc; it.func = c_next_u64; } rc = rt_adv_u64(&it, &out); }
      else if (elem == 4) { static CIterator_e3 it; if (k == 0) { it.iter = &sc; it.func = c_next_e3; } rc = rt_adv_e3(&it, &out); }
      else { static CIterator_e16 it; if (k == 0) { it.iter = &sc; it.func = c_next_e16; } rc = rt_adv_e16(&it, &out); }
      if (want >= 0 && (rc != 1 || out != want)) fail("c_built_iterator:_rust_did_not_receive_the_item_the_next_function_delivered_(0_=_item)");
      if (want < 0 && rc != 0) fail("c_built_iterator:_rust_saw_an_item_although_the_next_function_reported_the_end");
      if (rc == 1) { row_put(1); row_put(out); } else { row_put(0); row_put(0); }
    }
    row_end();
  }
}

/* ---- kind 11: an arc BUILT HERE as a handle table; Rust clones / reads / releases it through the stored functions -------------------------- */
typedef struct { uint64_t value; int live; } ANode;          /* instance = &node->value = the node */
static ANode anodes[4096]; static int n_anodes, a_clones, a_drops, a_bad;
static const void *c_arc_clone(const void *p) {
  const ANode *src = (const ANode *)p; if (!p || !src->live) a_bad++;
  ANode *nn = &anodes[n_anodes++]; nn->value = src ? src->value : 0; nn->live = 1; a_clones++; return nn;      /* a DISTINCT handle */
}
static void c_arc_drop(const void *p) { ANode *n = (ANode *)p; if (!p || !n->live) a_bad++; else n->live = 0; a_drops++; }
extern uint64_t rt_arc_rev(CArcV a, size_t n);
static void k_arc_rev(void) {         /* rows 'v n' -> sum read through the n+1 handles ; clone_fn runs ; drop_fn runs */
  for (int r = 0; r < nrows; r++) {
    int64_t v = rowbuf[r][0]; size_t n = (size_t)(rowlen[r] > 1 ? rowbuf[r][1] : 0); if (n > 2000) n = 2000;
    n_anodes = 0; a_clones = a_drops = a_bad = 0;
    ANode *root = &anodes[n_anodes++]; root->value = (uint64_t)v; root->live = 1;
    CArcV a = { root, c_arc_clone, c_arc_drop };
    uint64_t sum = rt_arc_rev(a, n);
    int live = 0; for (int i = 0; i < n_anodes; i++) live += anodes[i].live;
    if (a_bad) fail("c_built_arc:_a_handle_was_cloned_or_released_after_its_release_(or_a_null_handle_was_passed)");
    if (live) fail("c_built_arc:_handles_returned_by_clone_fn_were_never_released");
    if ((size_t)a_clones != n) fail("c_built_arc:_clone_fn_ran_another_number_of_times_than_rust_cloned");
    row_begin(); row_put((int64_t)sum); row_put(a_clones); row_put(a_drops); row_end();
  }
}

/* ---- kind 12: a vector BUILT HERE (malloc'ed buffer, reserve/drop functions of this file); Rust pushes to it and releases it -------------------- */
static int v_reserves, v_drops; static uintptr_t v_drop_len, v_drop_cap; static void *v_drop_data; static void *v_cur_data; static uintptr_t v_cur_cap;
static uintptr_t c_vec_reserve(struct CVecV *v, uintptr_t additional) {
  v_reserves++;
  if (v->data != v_cur_data || v->capacity != v_cur_cap) fail("c_built_vec:_reserve_fn_called_on_a_vector_whose_buffer_or_capacity_is_not_the_one_this_side_handed_out");
  uintptr_t need = v->len + additional, ncap = v->capacity * 2 > need ? v->capacity * 2 : need; if (ncap < 4) ncap = 4;
  uint64_t *nb = malloc(ncap * sizeof(uint64_t)); if (v->len) memcpy(nb, v->data, v->len * sizeof(uint64_t)); free(v->data);      /* always MOVES */
  v->data = nb; v->capacity = ncap; v_cur_data = nb; v_cur_cap = ncap; return ncap;
}
static void c_vec_drop(void *data, uintptr_t len, uintptr_t cap) {
  if (data != v_cur_data) { fail("c_built_vec:_drop_fn_was_handed_a_buffer_this_side_never_allocated_(a_copy_made_by_rust_carries_the_c_side's_functions)"); return; }
  v_drops++; v_drop_data = data; v_drop_len = len; v_drop_cap = cap; free(data);
}
extern uint64_t rt_vec_rev(struct CVecV v, size_t n, uint64_t base);
static void k_vec_rev(void) {          /* rows 'init n base' -> checksum of the contents ; reserve_fn runs > 0 ; len handed to drop_fn */
  for (int r = 0; r < nrows; r++) {
    size_t init = (size_t)rowbuf[r][0] % 64, n = (size_t)(rowlen[r] > 1 ? rowbuf[r][1] : 0) % 2000; uint64_t base = (uint64_t)(rowlen[r] > 2 ? rowbuf[r][2] : 1);
    struct CVecV v; v.capacity = init; v.len = init; v.data = malloc((init ? init : 1) * sizeof(uint64_t));
    for (size_t i = 0; i < init; i++) ((uint64_t *)v.data)[i] = 1000 + i;
    v.drop_fn = c_vec_drop; v.reserve_fn = (void *)c_vec_reserve;
    v_reserves = v_drops = 0; v_cur_data = v.data; v_cur_cap = v.capacity; v_drop_len = v_drop_cap = 0; v_drop_data = 0;
    uint64_t sum = rt_vec_rev(v, n, base);
    if (v_drops != 1) fail("c_built_vec:_drop_fn_ran_another_number_of_times_than_once");
    else {
      if (v_drop_len != init + n) fail("c_built_vec:_drop_fn_was_not_handed_the_vector's_length");
      if (v_drop_data != v_cur_data || v_drop_cap != v_cur_cap) fail("c_built_vec:_drop_fn_was_not_handed_the_buffer_and_capacity_reserve_fn_produced");
    }
    if (n > 0 && v_reserves == 0) fail("c_built_vec:_the_vector_grew_without_reserve_fn");
    uint64_t want = 0; for (size_t i = 0; i < init; i++) want = want * 31 + (1000 + i); for (size_t i = 0; i < n; i++) want = want * 31 + (base + i);
    if (sum != want) fail("c_built_vec:_contents_after_the_pushes_differ");
    row_begin(); row_put((int64_t)(init + n)); row_put((int64_t)v_drop_len); row_put(v_drops); row_end();
  }
}

/* ---- kind 13: boxed slices {instance: {data, len}, drop_fn} in both directions ------------------------------------------------------------ */
typedef struct { CSliceMutV instance; void (*drop_fn)(CSliceMutV *); } CSliceBoxV;
static int sb_drops, sb_bad; static void *sb_data; static uintptr_t sb_len;
static void c_sbox_drop(CSliceMutV *inst) { sb_drops++; if (inst->data != sb_data || inst->len != sb_len) sb_bad++; free(inst->data); }
extern uint64_t rt_sbox_rev(CSliceBoxV b);
extern void rt_mk_sbox(CSliceBoxV *out, size_t n, uint64_t base);
static void k_sbox(void) {            /* rows 'n base' -> checksum read by Rust from a C-built box ; drop_fn runs ; checksum read by C from a Rust-built box */
  for (int r = 0; r < nrows; r++) {
    size_t n = (size_t)rowbuf[r][0] % 512; uint64_t base = (uint64_t)(rowlen[r] > 1 ? rowbuf[r][1] : 1);
    uint64_t *buf = malloc((n ? n : 1) * sizeof(uint64_t)); uint64_t want = 0;
    for (size_t i = 0; i < n; i++) { buf[i] = base + i; want = want * 31 + buf[i]; }
    CSliceBoxV b = { { buf, n }, c_sbox_drop }; sb_drops = sb_bad = 0; sb_data = buf; sb_len = n;
    uint64_t got = rt_sbox_rev(b);
    if (got != want) fail("c_built_slice_box:_rust_read_other_contents");
    if (sb_drops != 1) fail("c_built_slice_box:_drop_fn_ran_another_number_of_times_than_once_(an_empty_box_still_owns_its_buffer)");
    if (sb_bad) fail("c_built_slice_box:_drop_fn_was_handed_another_instance");
    CSliceBoxV rb; rt_mk_sbox(&rb, n, base);
    uint64_t got2 = 0; for (size_t i = 0; i < rb.instance.len; i++) got2 = got2 * 31 + ((uint64_t *)rb.instance.data)[i];
    if (rb.instance.len != n || got2 != want) fail("rust_built_slice_box:_{data,_len}_read_by_c_differ");
    if (rb.drop_fn) rb.drop_fn(&rb.instance); else fail("rust_built_slice_box:_no_drop_function");
    row_begin(); row_put((int64_t)got); row_put(sb_drops); row_put((int64_t)got2); row_end();
  }
}

/* ---- kind 14: slices {data, len} BUILT HERE, read and written by Rust.  An empty slice is described the way C code does it: {NULL, 0} (odd base)
 * or a pointer to nothing in particular with length 0 (even base) ------------------------------------------------------------------------------ */
extern uint64_t rt_slice_rev(CSliceRefV s, uintptr_t *len_seen);
extern uintptr_t rt_slicem_rev(CSliceMutV s, uint64_t v);
static void k_slice_rev(void) {       /* rows 'n base' -> checksum Rust read ; length Rust saw ; elements Rust wrote ; checksum of what C finds afterwards */
  for (int r = 0; r < nrows; r++) {
    size_t n = (size_t)rowbuf[r][0] % 512; uint64_t base = (uint64_t)(rowlen[r] > 1 ? rowbuf[r][1] : 1);
    uint64_t *buf = n ? malloc(n * sizeof(uint64_t)) : ((base & 1) ? NULL : (uint64_t *)&sb_len); uint64_t want = 0;
    for (size_t i = 0; i < n; i++) { buf[i] = base + i; want = want * 31 + buf[i]; }
    CSliceRefV s = { buf, n }; uintptr_t seen = 12345;
    uint64_t got = rt_slice_rev(s, &seen);
    if (got != want || seen != n) fail("c_built_slice:_rust_read_other_contents_or_another_length");
    CSliceMutV m = { buf, n };
    uintptr_t wrote = rt_slicem_rev(m, base ^ 0x55);
    if (wrote != n) fail("c_built_mutable_slice:_rust_visited_another_number_of_elements");
    uint64_t after = 0, want2 = 0; for (size_t i = 0; i < n; i++) { after = after * 31 + buf[i]; want2 = want2 * 31 + ((base ^ 0x55) + i); }
    if (after != want2) fail("c_built_mutable_slice:_rust's_writes_did_not_land_in_the_buffer");
    row_begin(); row_put((int64_t)got); row_put((int64_t)seen); row_put((int64_t)wrote); row_put((int64_t)after); row_end();
    if (n) free(buf);
  }
}

int main(void) {
  static char line[1 << 20];
  while (fgets(line, sizeof line, stdin)) {
    char *bar = strchr(line, '|'); if (!bar) continue; *bar = 0;
    long kind = 0, elem = 0, model = 0; sscanf(line, "%ld %ld %ld", &model, &kind, &elem);
    nrows = 0; char *p = bar + 1; char *save1;
    for (char *row = strtok_r(p, ";", &save1); row && nrows < MAXR; row = strtok_r(NULL, ";", &save1)) {
      int n = 0; char *save2; for (char *t = strtok_r(row, " \n", &save2); t && n < 64; t = strtok_r(NULL, " \n", &save2)) rowbuf[nrows][n++] = atoll(t);
      if (n) { rowlen[nrows] = n; nrows++; }
    }
    fails[0] = 0; first_row = 1; { static int64_t d[4096]; rt_take_drops(d, 4096); }
    switch (kind) {
      case 1: k_box(); break; case 2: k_arc(); break; case 3: k_vec((int)elem); break; case 4: k_cb((int)elem); break;
      case 5: k_it((int)elem); break; case 6: k_slice((int)elem); break; case 7: k_tags(); break; case 8: k_sizes(); break; case 9: k_cb_rev((int)elem); break; case 10: k_it_rev((int)elem); break; case 11: k_arc_rev(); break; case 12: k_vec_rev(); break; case 13: k_sbox(); break; case 14: k_slice_rev(); break;
      default: row_begin(); row_put(-3); row_end();
    }
    printf(" # fails=%s\n", fails[0] ? fails : "-");
  }
  return 0;
}
