//! Rust side of the C16 harness: constructs REAL cglue runtime values and hands their bytes to a C program that knows
//! only the published C declarations; observers (drop log, expectations) are exported as extern "C" functions.
use cglue::arc::{CArc, CArcSome};
use cglue::boxed::CBox;
use cglue::callback::OpaqueCallback;
use cglue::iter::CIterator;
use cglue::option::COption;
use cglue::result::CResult;
use cglue::slice::{CSliceMut, CSliceRef};
use cglue::vec::CVec;
use std::cell::RefCell;
use std::sync::Arc;

thread_local! { static DROPS: RefCell<Vec<i64>> = RefCell::new(Vec::new()); }
fn log_drop(v: i64) { DROPS.with(|d| d.borrow_mut().push(v)); }

/// heap-owning droppable token: one pointer
#[repr(transparent)]
pub struct Tok(Box<i64>);
impl Drop for Tok { fn drop(&mut self) { log_drop(*self.0) } }
#[repr(C)] #[derive(Clone, Copy)] pub struct E3(pub [u8; 3]);
#[repr(C, align(16))] #[derive(Clone, Copy)] pub struct E16(pub i64, pub i64);

#[no_mangle] pub extern "C" fn rt_take_drops(out: *mut i64, cap: usize) -> usize {
    DROPS.with(|d| { let mut d = d.borrow_mut(); let n = d.len().min(cap); for i in 0..n { unsafe { *out.add(i) = d[i]; } } d.clear(); n })
}
#[no_mangle] pub extern "C" fn rt_mk_tok(v: i64) -> Tok { Tok(Box::new(v)) }
#[no_mangle] pub extern "C" fn rt_tok_val(t: &Tok) -> i64 { *t.0 }
#[no_mangle] pub extern "C" fn rt_drop_tok(t: Tok) { drop(t) }

// ---- sizes as rustc sees them (compared with sizeof/offsetof in C)
#[no_mangle] pub extern "C" fn rt_sizes(out: *mut usize) -> usize {
    use std::mem::{align_of, size_of};
    let v = [
        size_of::<CBox<u64>>(), align_of::<CBox<u64>>(), size_of::<CArc<u64>>(), size_of::<CArcSome<u64>>(),
        size_of::<CSliceRef<u8>>(), size_of::<CSliceMut<E16>>(), size_of::<CVec<E3>>(), size_of::<OpaqueCallback<u64>>(), size_of::<CIterator<E16>>(),
        size_of::<COption<u8>>(), size_of::<COption<u64>>(), size_of::<COption<E3>>(), size_of::<COption<E16>>(),
        size_of::<CResult<u64, u8>>(), size_of::<CResult<E16, E3>>(), align_of::<COption<E16>>(), align_of::<CResult<u64, u8>>(),
    ];
    for (i, x) in v.iter().enumerate() { unsafe { *out.add(i) = *x; } }
    v.len()
}

// ---- box
#[no_mangle] pub extern "C" fn rt_mk_box(out: *mut CBox<'static, Tok>, v: i64) { unsafe { out.write(CBox::from(Tok(Box::new(v)))) } }

// ---- arcs: payload Tok
#[no_mangle] pub extern "C" fn rt_mk_arc(out: *mut CArc<Tok>, v: i64) { unsafe { out.write(CArc::from(Tok(Box::new(v)))) } }
#[no_mangle] pub extern "C" fn rt_mk_arc_empty(out: *mut CArc<Tok>) { unsafe { out.write(CArc::default()) } }
#[no_mangle] pub extern "C" fn rt_mk_arcsome(out: *mut CArcSome<Tok>, v: i64) { unsafe { out.write(CArcSome::from(Tok(Box::new(v)))) } }
#[no_mangle] pub extern "C" fn rt_arc_count(p: *const Tok) -> i64 {
    unsafe { let a = std::mem::ManuallyDrop::new(Arc::from_raw(p)); Arc::strong_count(&a) as i64 }
}
/// Rust-side operations on values that C holds (to cross-check that C-made clones are proper values)
#[no_mangle] pub extern "C" fn rt_arc_drop_in_rust(a: *mut CArc<Tok>) { unsafe { std::ptr::drop_in_place(a) } }

// ---- slices over the 4 element types
macro_rules! slice_fns { ($t:ty, $mk:ident, $mkm:ident, $conv:expr) => {
    #[no_mangle] pub extern "C" fn $mk(out: *mut CSliceRef<'static, $t>, n: usize, seed: i64) -> *mut $t {
        let v: Vec<$t> = (0..n).map(|i| ($conv)(seed + i as i64)).collect();
        let s: &'static mut [$t] = Box::leak(v.into_boxed_slice());
        let p = s.as_mut_ptr();
        unsafe { out.write(CSliceRef::from(&*s)) };
        p
    }
    #[no_mangle] pub extern "C" fn $mkm(out: *mut CSliceMut<'static, $t>, base: *mut $t, n: usize) {
        unsafe { out.write(CSliceMut::from(std::slice::from_raw_parts_mut(base, n))) }
    }
} }
slice_fns!(u8, rt_slice_u8, rt_slicem_u8, |v: i64| v as u8);
slice_fns!(u64, rt_slice_u64, rt_slicem_u64, |v: i64| v as u64);
slice_fns!(E3, rt_slice_e3, rt_slicem_e3, |v: i64| E3([v as u8, (v >> 8) as u8, (v >> 16) as u8]));
slice_fns!(E16, rt_slice_e16, rt_slicem_e16, |v: i64| E16(v, !v));
#[no_mangle] pub extern "C" fn rt_free_slice(p: *mut u8, n: usize, esz: usize, eal: usize) {
    if n * esz > 0 { unsafe { std::alloc::dealloc(p, std::alloc::Layout::from_size_align(n * esz, eal).unwrap()) } }
}

// ---- vectors
macro_rules! vec_fns { ($t:ty, $mk:ident, $chk:ident, $val:expr) => {
    #[no_mangle] pub extern "C" fn $mk(out: *mut CVec<$t>, spare: usize) { unsafe { out.write(CVec::from(Vec::<$t>::with_capacity(spare))) } }
    /// read a vector that C has been driving, through the Rust API
    #[no_mangle] pub extern "C" fn $chk(v: &CVec<$t>, out: *mut i64, cap: usize) -> usize {
        let n = v.len().min(cap);
        for i in 0..n { unsafe { *out.add(i) = ($val)(&v[i]); } }
        if v.capacity() < v.len() { return usize::MAX; }
        v.len()
    }
} }
vec_fns!(Tok, rt_mk_vec_tok, rt_read_vec_tok, |t: &Tok| *t.0);
vec_fns!(u8, rt_mk_vec_u8, rt_read_vec_u8, |t: &u8| *t as i64);
vec_fns!(E3, rt_mk_vec_e3, rt_read_vec_e3, |t: &E3| t.0[0] as i64 | (t.0[1] as i64) << 8 | (t.0[2] as i64) << 16);
vec_fns!(E16, rt_mk_vec_e16, rt_read_vec_e16, |t: &E16| t.0);

// ---- callbacks: a Rust closure sink that stops on its stop-th call; C invokes it through {context, func}
pub struct Sink { pub got: Vec<i64>, pub stop: usize }
macro_rules! cb_fns { ($t:ty, $mk:ident, $val:expr) => {
    #[no_mangle] pub extern "C" fn $mk(out: *mut OpaqueCallback<'static, $t>, sink: *mut Sink) {
        let s: &'static mut Sink = unsafe { &mut *sink };
        let f: &'static mut dyn FnMut($t) -> bool = Box::leak(Box::new(move |x: $t| { s.got.push(($val)(&x)); s.got.len() != s.stop }));
        // From<&mut T: FnMut> needs a sized closure type: box the trait object behind a small adapter
        let adapter: &'static mut Box<dyn FnMut($t) -> bool> = Box::leak(Box::new(Box::new(move |x: $t| f(x))));
        unsafe { out.write(OpaqueCallback::from(adapter)) }
    }
} }
cb_fns!(u8, rt_mk_cb_u8, |x: &u8| *x as i64);
cb_fns!(u64, rt_mk_cb_u64, |x: &u64| *x as i64);
cb_fns!(E3, rt_mk_cb_e3, |x: &E3| x.0[0] as i64 | (x.0[1] as i64) << 8 | (x.0[2] as i64) << 16);
cb_fns!(E16, rt_mk_cb_e16, |x: &E16| x.0);
#[no_mangle] pub extern "C" fn rt_mk_sink(stop: usize) -> *mut Sink { Box::into_raw(Box::new(Sink { got: Vec::new(), stop })) }
#[no_mangle] pub extern "C" fn rt_sink_read(s: *mut Sink, out: *mut i64, cap: usize) -> usize {
    let s = unsafe { &*s }; let n = s.got.len().min(cap); for i in 0..n { unsafe { *out.add(i) = s.got[i]; } } s.got.len()
}

// ---- iterators: a scripted (possibly non-fused) source; C advances it through {iter, func}
pub struct Script { pub items: Vec<i64>, pub pos: usize }
macro_rules! it_fns { ($t:ty, $name:ident, $mk:ident, $conv:expr) => {
    pub struct $name(pub *mut Script);
    impl Iterator for $name { type Item = $t; fn next(&mut self) -> Option<$t> {
        let s = unsafe { &mut *self.0 }; let r = s.items.get(s.pos).copied(); if s.pos < s.items.len() { s.pos += 1; }
        match r { Some(v) if v >= 0 => Some(($conv)(v)), _ => None } } }
    #[no_mangle] pub extern "C" fn $mk(out: *mut CIterator<'static, $t>, s: *mut Script) {
        let it: &'static mut $name = Box::leak(Box::new($name(s)));
        unsafe { out.write(CIterator::new(it)) }
    }
} }
it_fns!(u8, ItU8, rt_mk_it_u8, |v: i64| v as u8);
it_fns!(u64, ItU64, rt_mk_it_u64, |v: i64| v as u64);
it_fns!(E3, ItE3, rt_mk_it_e3, |v: i64| E3([v as u8, (v >> 8) as u8, (v >> 16) as u8]));
it_fns!(E16, ItE16, rt_mk_it_e16, |v: i64| E16(v, !v));
#[no_mangle] pub extern "C" fn rt_mk_script(items: *const i64, n: usize) -> *mut Script {
    Box::into_raw(Box::new(Script { items: unsafe { std::slice::from_raw_parts(items, n) }.to_vec(), pos: 0 }))
}

// ---- option / result values written by Rust, read by C through {tag, payload}
#[no_mangle] pub extern "C" fn rt_opt_u8(out: *mut COption<u8>, some: i32, v: i64) { unsafe { out.write(if some != 0 { COption::Some(v as u8) } else { COption::None }) } }
#[no_mangle] pub extern "C" fn rt_opt_u64(out: *mut COption<u64>, some: i32, v: i64) { unsafe { out.write(if some != 0 { COption::Some(v as u64) } else { COption::None }) } }
#[no_mangle] pub extern "C" fn rt_opt_e3(out: *mut COption<E3>, some: i32, v: i64) { unsafe { out.write(if some != 0 { COption::Some(E3([v as u8, (v >> 8) as u8, (v >> 16) as u8])) } else { COption::None }) } }
#[no_mangle] pub extern "C" fn rt_opt_e16(out: *mut COption<E16>, some: i32, v: i64) { unsafe { out.write(if some != 0 { COption::Some(E16(v, !v)) } else { COption::None }) } }
#[no_mangle] pub extern "C" fn rt_res_u64_u8(out: *mut CResult<u64, u8>, err: i32, v: i64) { unsafe { out.write(if err != 0 { CResult::Err(v as u8) } else { CResult::Ok(v as u64) }) } }
#[no_mangle] pub extern "C" fn rt_res_e16_e3(out: *mut CResult<E16, E3>, err: i32, v: i64) { unsafe { out.write(if err != 0 { CResult::Err(E3([v as u8, (v >> 8) as u8, (v >> 16) as u8])) } else { CResult::Ok(E16(v, !v)) }) } }
/// values written by C, read back through the Rust API
#[no_mangle] pub extern "C" fn rt_read_opt_u64(o: &COption<u64>) -> i64 { match o { COption::None => -1, COption::Some(v) => *v as i64 } }
#[no_mangle] pub extern "C" fn rt_read_res_u64_u8(o: &CResult<u64, u8>) -> i64 { match o { CResult::Ok(v) => *v as i64, CResult::Err(e) => -(*e as i64) - 1 } }

// ---- the reverse direction: callbacks and iterators BUILT BY C (through the published {context, func} / {iter, func} layouts), used by Rust
macro_rules! rev_fns { ($t:ty, $feed:ident, $adv:ident, $conv:expr, $val:expr) => {
    /// feed `n` items into a callback that C built: returns the number of items offered (FeedCallback::feed_into)
    #[no_mangle] pub extern "C" fn $feed(cb: OpaqueCallback<'static, $t>, items: *const i64, n: usize) -> usize {
        use cglue::callback::FeedCallback;
        let v: Vec<$t> = unsafe { std::slice::from_raw_parts(items, n) }.iter().map(|x| ($conv)(*x)).collect();
        v.into_iter().feed_into(cb)
    }
    /// one Iterator::next on an iterator that C built: 1 and the item, or 0
    #[no_mangle] pub extern "C" fn $adv(it: &mut CIterator<'static, $t>, out: *mut i64) -> i32 {
        match it.next() { Some(v) => { unsafe { *out = ($val)(&v); } 1 } None => 0 }
    }
} }
rev_fns!(u8, rt_feed_u8, rt_adv_u8, |v: i64| v as u8, |x: &u8| *x as i64);
rev_fns!(u64, rt_feed_u64, rt_adv_u64, |v: i64| v as u64, |x: &u64| *x as i64);
rev_fns!(E3, rt_feed_e3, rt_adv_e3, |v: i64| E3([v as u8, (v >> 8) as u8, (v >> 16) as u8]), |x: &E3| x.0[0] as i64 | (x.0[1] as i64) << 8 | (x.0[2] as i64) << 16);
rev_fns!(E16, rt_feed_e16, rt_adv_e16, |v: i64| E16(v, !v), |x: &E16| if x.1 == !x.0 { x.0 } else { -777 });

// ---- a reference-counted handle BUILT BY C through the published {instance, clone_fn, drop_fn} layout (a handle table: every clone is a NEW record,
// the drop function releases exactly the record it is given): Rust clones it n times (clones of clones), reads the value through every handle and
// releases them all; odd n goes through CArcSome
#[no_mangle] pub extern "C" fn rt_arc_rev(a: CArc<u64>, n: usize) -> u64 {
    if n % 2 == 1 {
        let mut hs: Vec<CArcSome<u64>> = vec![a.transpose().expect("a non-empty handle")];
        for i in 0..n { let c = hs[i].clone(); hs.push(c); }
        let sum = hs.iter().map(|h| **h).sum();
        for h in hs { drop(h); }
        sum
    } else {
        let mut hs: Vec<CArc<u64>> = vec![a];
        for i in 0..n { let c = hs[i].clone(); hs.push(c); }
        let sum = hs.iter().map(|h| h.as_ref().map(|v| *v).unwrap_or(0)).sum();
        for h in hs { drop(h); }
        sum
    }
}

// ---- a vector BUILT BY C (malloc'ed buffer, C reserve/drop functions): Rust pushes n items (growth must go through reserve_fn, which MOVES the buffer),
// reads the contents back and releases it (one drop_fn(data, len, capacity) call with the vector's own values)
#[no_mangle] pub extern "C" fn rt_vec_rev(mut v: CVec<u64>, n: usize, base: u64) -> u64 {
    for i in 0..n { v.push(base + i as u64); }
    if n % 3 == 2 && !v.is_empty() { let x = v.remove(0); v.insert(0, x); }
    let mut poisoned = false;
    if n % 4 == 1 && v.len() >= 2 {
        // insert into a FULL vector: the C side's reserve function moves the buffer, and the element must land in the NEW one, between its neighbours
        let mut filler = 0usize;
        while v.len() < v.capacity() { v.push(7_000_000 + filler as u64); filler += 1; }
        let (a, b, len0) = (v[0], v[1], v.len());
        v.insert(1, 4242);
        if v.len() != len0 + 1 || v[0] != a || v[1] != 4242 || v[2] != b { poisoned = true; }
        if v.remove(1) != 4242 { poisoned = true; }
        for _ in 0..filler { if v.pop().is_none() { poisoned = true; } }
    }
    let sum = if poisoned { u64::MAX } else { v.iter().fold(0u64, |a, x| a.wrapping_mul(31).wrapping_add(*x)) };
    if n % 2 == 1 {
        // a COPY of the C-built vector is Rust's own: growing it past its capacity and releasing it must not involve the C side's functions
        // (the C driver's reserve/drop functions complain about any buffer they did not hand out)
        let mut c = v.clone();
        let extra = c.capacity() - c.len() + 1;
        for i in 0..extra { c.push(i as u64); }
        drop(c);
    }
    drop(v);
    sum
}

// ---- boxed slices: {instance: {data, len}, drop_fn(&mut {data, len})}
/// a boxed slice BUILT BY C: Rust reads it and releases it (exactly one drop_fn call on the instance, whatever its length)
#[no_mangle] pub extern "C" fn rt_sbox_rev(b: cglue::boxed::CSliceBox<'static, u64>) -> u64 { let s = b.iter().fold(0u64, |a, x| a.wrapping_mul(31).wrapping_add(*x)); drop(b); s }
/// a boxed slice built by Rust, for C to read through the fields and release through drop_fn
#[no_mangle] pub extern "C" fn rt_mk_sbox(out: *mut cglue::boxed::CSliceBox<'static, u64>, n: usize, base: u64) { let v: Vec<u64> = (0..n as u64).map(|i| base + i).collect(); unsafe { out.write(v.into_boxed_slice().into()) } }
/// kind 14: slices built by C.  Read through every way a callee gets at the elements (`as_slice`, `Deref`, the `From` conversion), written through
/// `as_slice_mut` / `DerefMut` / the `From` conversion.
#[no_mangle] pub extern "C" fn rt_slice_rev(s: CSliceRef<'static, u64>, len_seen: *mut usize) -> u64 {
    let a = s.as_slice().iter().fold(0u64, |a, x| a.wrapping_mul(31).wrapping_add(*x));
    let b = s.iter().fold(0u64, |a, x| a.wrapping_mul(31).wrapping_add(*x));
    let l = s.len(); let e = s.is_empty();
    let r: &[u64] = s.into();
    let c = r.iter().fold(0u64, |a, x| a.wrapping_mul(31).wrapping_add(*x));
    unsafe { *len_seen = if a == b && b == c && r.len() == l && e == (l == 0) { l } else { usize::MAX } };
    a
}
#[no_mangle] pub extern "C" fn rt_slicem_rev(mut s: CSliceMut<'static, u64>, v: u64) -> usize {
    let mut n = 0usize;
    for x in s.iter_mut() { *x = 0; n += 1; }
    let seen = s.as_slice().len();
    let r: &mut [u64] = s.into();
    for (i, x) in r.iter_mut().enumerate() { *x = v.wrapping_add(i as u64); }
    if seen == n && r.len() == n { n } else { usize::MAX }
}
