//! Scenario 104 (C01/C02): `#[cglue_forward]` — the generated `impl Trait for Fwd<O>` forwards every by-reference method to the value behind
//! the handle.  The same call history runs directly on a value, through `Fwd(&mut value)`, through `Fwd(Box<value>)`, and through an opaque
//! object whose INSTANCE is a `Fwd(&mut value)`; results, the calls the implementor saw and the final state must agree.
//! ops: '0 i' read   '1 i v' write   '2 n' fill(&[u32] of n items)   '3' name_len   '4 a b tag' swap2 (three arguments, order matters)   '5 x' bump(impl Into<u64>)   '6 v' twice and '7' describe (provided methods that the implementor overrides)
//! params: [handle 0 Fwd(&mut T) / 1 Fwd(Box<T>) / 2 trait_obj!(Fwd(&mut T)) / 3 trait_obj!(Fwd(&mut T)) with a CArc context]
use crate::*;
use cglue::forward::{Forward, ForwardMut, Fwd};

#[cglue_trait]
#[cglue_forward]
pub trait Reg {
    fn read(&self, i: usize) -> Option<u32>;
    fn write(&mut self, i: usize, v: u32) -> bool;
    fn fill(&mut self, vs: &[u32]) -> usize;
    fn name_len(&self) -> usize;
    fn swap2(&mut self, a: usize, b: usize, tag: i64) -> i64;
    fn bump(&mut self, by: impl Into<u64>) -> u64;
    /// provided methods that the implementor OVERRIDES (with other behaviour than the default bodies): the handle must still reach the override
    fn twice(&mut self, v: u32) -> u64 { self.write(0, v); self.write(1, v); 0 }
    fn describe(&self) -> usize { self.name_len() }
}

pub struct Bank { id: i64, regs: Vec<u32>, total: u64, label: String }
impl Bank { pub fn new(id: i64) -> Self { LIVE.fetch_add(1, SeqCst); Bank { id, regs: vec![5, 6, 7, 8], total: 0, label: format!("bank{}ü", id) } } }
impl Drop for Bank { fn drop(&mut self) { LIVE.fetch_sub(1, SeqCst); DROPS.with(|d| d.borrow_mut().push(-1000 - self.id)); } }
impl Reg for Bank {
    fn read(&self, i: usize) -> Option<u32> { log_call(vec![self.id, 0, i as i64]); self.regs.get(i).copied() }
    fn write(&mut self, i: usize, v: u32) -> bool { log_call(vec![self.id, 1, i as i64, v as i64]); match self.regs.get_mut(i) { Some(r) => { *r = v; true } None => false } }
    fn fill(&mut self, vs: &[u32]) -> usize { log_call(vec![self.id, 2, vs.len() as i64, vs.iter().fold(3i64, |h, x| (h * 131 + *x as i64) % 1_000_003)]); self.regs = vs.to_vec(); vs.len() }
    fn name_len(&self) -> usize { log_call(vec![self.id, 3]); self.label.len() }
    fn swap2(&mut self, a: usize, b: usize, tag: i64) -> i64 { log_call(vec![self.id, 4, a as i64, b as i64, tag]); if a < self.regs.len() && b < self.regs.len() { self.regs.swap(a, b); tag * 2 + a as i64 - b as i64 } else { -tag } }
    fn bump(&mut self, by: impl Into<u64>) -> u64 { let by = by.into(); log_call(vec![self.id, 5, by as i64]); self.total = self.total.wrapping_add(by); self.total }
    fn twice(&mut self, v: u32) -> u64 { log_call(vec![self.id, 6, v as i64]); self.total = self.total.wrapping_add(2 * v as u64); self.total + 1000 }
    fn describe(&self) -> usize { log_call(vec![self.id, 7]); self.label.len() + 100 }
}

fn call<T: Reg>(t: &mut T, op: &[i64]) -> Vec<i64> {
    let a = |i: usize| op.get(i).copied().unwrap_or(0);
    match op[0] {
        0 => vec![0, t.read(a(1) as usize).map(|v| v as i64).unwrap_or(-1)],
        1 => vec![1, t.write(a(1) as usize, a(2) as u32) as i64],
        2 => { let vs: Vec<u32> = (0..a(1) as u32).map(|i| i * 7 + 2).collect(); vec![2, t.fill(&vs) as i64] }
        3 => vec![3, t.name_len() as i64],
        4 => vec![4, t.swap2(a(1) as usize, a(2) as usize, a(3))],
        5 => vec![5, if a(1) % 2 == 0 { t.bump(a(1) as u32) } else { t.bump(a(1) as u8) } as i64],
        6 => vec![6, t.twice(a(1) as u32) as i64],
        _ => vec![7, t.describe() as i64],
    }
}
fn state(b: &Bank) -> Vec<i64> { let mut v = vec![b.total as i64, b.regs.len() as i64]; v.extend(b.regs.iter().map(|x| *x as i64)); v }

pub fn run(params: &[i64], ops: &Rows, mon: &mut Mon) -> Rows {
    let kind = params.get(0).copied().unwrap_or(0);
    let mut d = Bank::new(1);
    let res_d: Rows = ops.iter().map(|op| call(&mut d, op)).collect();
    let log_d = take_log();
    let st_d = state(&d);
    let arc = Arc::new(());
    let mut res_o: Rows = vec![];
    let st_o;
    match kind {
        0 => { let mut f = Bank::new(1); { let mut h = (&mut f).forward_mut(); for op in ops { res_o.push(call(&mut h, op)); } } st_o = state(&f); }
        1 => { let mut h = Fwd(Box::new(Bank::new(1))); for op in ops { res_o.push(call(&mut h, op)); } st_o = state(&h.0); }
        2 => { let mut f = Bank::new(1); { let mut obj = <RegBase<Fwd<&mut Bank>, cglue::trait_group::NoContext> as From<_>>::from((&mut f).forward_mut()); for op in ops { res_o.push(call(&mut obj, op)); } } st_o = state(&f); }
        _ => { let mut f = Bank::new(1); { let mut obj = <RegBase<Fwd<&mut Bank>, CArc<()>> as From<_>>::from(((&mut f).forward_mut(), CArc::<()>::from(arc.clone()))); for op in ops { res_o.push(call(&mut obj, op)); } } st_o = state(&f); }
    }
    if Arc::strong_count(&arc) != 1 { mon.fail(format!("context count {} after the object is gone", Arc::strong_count(&arc))); }
    let log_o = take_log();
    if res_d != res_o { let k = res_d.iter().zip(res_o.iter()).position(|(a, b)| a != b).unwrap_or(0); mon.fail(format!("call {} returns {:?} directly but {:?} through the forwarding handle", k, res_d.get(k), res_o.get(k))); }
    if log_d != log_o { let k = log_d.iter().zip(log_o.iter()).position(|(a, b)| a != b).unwrap_or(log_d.len().min(log_o.len())); mon.fail(format!("the implementor saw {:?} directly but {:?} through the forwarding handle (entry {}; {} vs {} calls)", log_d.get(k), log_o.get(k), k, log_d.len(), log_o.len())); }
    if st_d != st_o { mon.fail(format!("final state {:?} directly, {:?} through the forwarding handle", st_d, st_o)); }
    drop(d);
    let _ = take_drops();
    res_o
}
