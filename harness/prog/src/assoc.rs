//! Scenario 111 (C01): WRAPPED ASSOCIATED TYPES.  A bank of cells hands out its cells as wrapped children: borrowed (`#[wrap_with_obj_ref]`),
//! mutably borrowed (`#[wrap_with_obj_mut]`), owned copies (`#[wrap_with_obj]`), and the same three as GROUP objects.  WHICH cell a method returns
//! depends on its argument and on the bank's state (`select`), so successive calls of one method return DIFFERENT children: every call made through
//! a child must reach that child — its id, its counters — exactly as when the bank is used directly.
//! ops: '0 i' select(i)      '1' cur(): [cid, total]           '2 i' at(i): [cid, total]        '3 i v' at_mut(i).bump(v)      '4 v' cur_mut().bump(v)
//!      '5 i v' snap(i): an owned copy, bump(v) on the copy, [cid, total of the copy]     '6 i' g_at(i): [cid, total]
//!      '7 i v' g_at_mut(i).bump(v)      '8 i v' g_snap(i) likewise owned
//!      '9 i j' TWO children obtained from ONE `&self` method and both still in use: at(i), at(j), then [first.cid(), second.cid()]
//! params: [container 0 Box / 1 &mut / 2 Box + a (zero-sized, uncounted) context]
use crate::*;

#[cglue_trait]
pub trait Cell2 {
    fn cid(&self) -> i64;
    fn bump(&mut self, v: i64) -> i64;
    fn total(&self) -> i64;
}
/// the read-only face of a cell: a BORROWED child (`&Cell`) can only be an object of traits without `&mut self` methods
#[cglue_trait]
pub trait CellR {
    fn rid(&self) -> i64;
    fn rtotal(&self) -> i64;
}
#[cglue_trait]
pub trait Tag2 { fn tag(&self) -> i64; }
cglue_trait_group!(CellGrp, Cell2, { Tag2 });
cglue_trait_group!(CellRGrp, CellR, { Tag2 });

#[cglue_trait]
pub trait Bank {
    #[wrap_with_obj_ref(CellR)]
    type R: CellR + 'static;
    #[wrap_with_obj_mut(Cell2)]
    type M: Cell2 + 'static;
    #[wrap_with_obj(Cell2)]
    type O: Cell2 + 'static;
    #[wrap_with_group_ref(CellRGrp)]
    type GR: CellR + 'static;
    #[wrap_with_group_mut(CellGrp)]
    type GM: Cell2 + 'static;
    #[wrap_with_group(CellGrp)]
    type GO: Cell2 + 'static;
    fn select(&mut self, i: i64) -> i64;
    fn cur(&self) -> &Self::R;
    fn at(&self, i: i64) -> &Self::R;
    fn cur_mut(&mut self) -> &mut Self::M;
    fn at_mut(&mut self, i: i64) -> &mut Self::M;
    fn snap(&self, i: i64) -> Self::O;
    fn g_at(&self, i: i64) -> &Self::GR;
    fn g_at_mut(&mut self, i: i64) -> &mut Self::GM;
    fn g_snap(&self, i: i64) -> Self::GO;
}

pub struct Slot { id: i64, hits: i64, sum: i64 }
impl Slot { fn new(id: i64) -> Self { LIVE.fetch_add(1, SeqCst); Slot { id, hits: 0, sum: 0 } } }
impl Drop for Slot { fn drop(&mut self) { LIVE.fetch_sub(1, SeqCst); log_drop(self.id); } }
impl Cell2 for Slot {
    fn cid(&self) -> i64 { log_call(vec![self.id, 0]); self.id }
    fn bump(&mut self, v: i64) -> i64 { log_call(vec![self.id, 1, v]); self.hits += 1; self.sum = self.sum.wrapping_mul(31).wrapping_add(v); self.sum }
    fn total(&self) -> i64 { log_call(vec![self.id, 2]); self.hits * 1000003 + self.sum }
}
impl CellR for Slot {
    fn rid(&self) -> i64 { log_call(vec![self.id, 4]); self.id }
    fn rtotal(&self) -> i64 { log_call(vec![self.id, 5]); self.hits * 1000003 + self.sum }
}
impl Tag2 for Slot { fn tag(&self) -> i64 { log_call(vec![self.id, 3]); -self.id } }
cglue_impl_group!(Slot, CellGrp, { Tag2 });
cglue_impl_group!(Slot, CellRGrp, { Tag2 });

pub struct Slots { cells: Vec<Slot>, cur: usize }
impl Slots {
    fn new(n: usize) -> Self { Slots { cells: (0..n).map(|k| Slot::new(10 * (k as i64 + 1))).collect(), cur: 0 } }
    fn ix(&self, i: i64) -> usize { (i.rem_euclid(self.cells.len() as i64)) as usize }
    fn copy_of(&self, i: i64) -> Slot { let s = &self.cells[self.ix(i)]; let mut c = Slot::new(s.id + 5); c.hits = s.hits; c.sum = s.sum; c }
    fn state(&self) -> Vec<i64> { let mut v = vec![self.cur as i64]; for c in &self.cells { v.extend([c.id, c.hits, c.sum]); } v }
}
impl Bank for Slots {
    type R = Slot; type M = Slot; type O = Slot; type GR = Slot; type GM = Slot; type GO = Slot;
    fn select(&mut self, i: i64) -> i64 { log_call(vec![-1, 10, i]); self.cur = self.ix(i); self.cur as i64 }
    fn cur(&self) -> &Slot { log_call(vec![-1, 11]); &self.cells[self.cur] }
    fn at(&self, i: i64) -> &Slot { log_call(vec![-1, 12, i]); &self.cells[self.ix(i)] }
    fn cur_mut(&mut self) -> &mut Slot { log_call(vec![-1, 13]); let c = self.cur; &mut self.cells[c] }
    fn at_mut(&mut self, i: i64) -> &mut Slot { log_call(vec![-1, 14, i]); let k = self.ix(i); &mut self.cells[k] }
    fn snap(&self, i: i64) -> Slot { log_call(vec![-1, 15, i]); self.copy_of(i) }
    fn g_at(&self, i: i64) -> &Slot { log_call(vec![-1, 16, i]); &self.cells[self.ix(i)] }
    fn g_at_mut(&mut self, i: i64) -> &mut Slot { log_call(vec![-1, 17, i]); let k = self.ix(i); &mut self.cells[k] }
    fn g_snap(&self, i: i64) -> Slot { log_call(vec![-1, 18, i]); self.copy_of(i) }
}

fn drive<B: Bank>(b: &mut B, ops: &Rows) -> Rows {
    let mut out: Rows = vec![];
    for op in ops {
        let a = |k: usize| op.get(k).copied().unwrap_or(0);
        out.push(match a(0) {
            0 => vec![0, b.select(a(1))],
            1 => { let c = b.cur(); vec![1, c.rid(), c.rtotal()] }
            2 => { let c = b.at(a(1)); vec![2, c.rid(), c.rtotal()] }
            3 => { let c = b.at_mut(a(1)); let r = c.bump(a(2)); vec![3, c.cid(), r] }
            4 => { let c = b.cur_mut(); let r = c.bump(a(1)); vec![4, c.cid(), r] }
            5 => { let mut c = b.snap(a(1)); let r = c.bump(a(2)); vec![5, c.cid(), r, c.total()] }
            6 => { let c = b.g_at(a(1)); vec![6, c.rid(), c.rtotal()] }
            7 => { let c = b.g_at_mut(a(1)); let r = c.bump(a(2)); vec![7, c.cid(), r] }
            8 => { let mut c = b.g_snap(a(1)); let r = c.bump(a(2)); vec![8, c.cid(), r, c.total()] }
            9 => { let x = b.at(a(1)); let y = b.at(a(2)); let ry = y.rid(); let rx = x.rid(); vec![9, rx, ry] }
            _ => vec![-1],
        });
    }
    out
}

/// a context without a reference count (the leak of a context reference per BORROWED child is C07's known finding, not this scenario's subject)
#[derive(Clone, Default)]
pub struct ZC;

/// the cells as seen through `at(k)`: [(id, hits*1000003+sum)*]
fn read_out<B: Bank>(b: &B, n: usize) -> Vec<i64> { let mut s = vec![]; for k in 0..n as i64 { let c = b.at(k); s.extend([c.rid(), c.rtotal()]); } s }

pub fn run(params: &[i64], ops: &Rows, mon: &mut Mon) -> Rows {
    let kind = params.get(0).copied().unwrap_or(0);
    let n = 3;
    let mut plain = Slots::new(n);
    let res_d = drive(&mut plain, ops);
    let log_d = take_log();
    let state_d = read_out(&plain, n);
    let _ = take_log();
    drop(plain);
    let drops_d = take_drops();
    let (res_o, log_o, state_o) = match kind {
        1 => { let mut v = Slots::new(n); let (r, l) = { let mut o: BankMut = trait_obj!(&mut v as Bank); let r = drive(&mut o, ops); (r, take_log()) }; let s = read_out(&v, n); let _ = take_log(); (r, l, s) }
        2 => { let mut o: BankCtxBox<ZC> = trait_obj!((Slots::new(n), ZC) as Bank); let r = drive(&mut o, ops); let l = take_log(); let s = read_out(&o, n); let _ = take_log(); (r, l, s) }
        _ => { let mut o: BankBox = trait_obj!(Slots::new(n) as Bank); let r = drive(&mut o, ops); let l = take_log(); let s = read_out(&o, n); let _ = take_log(); (r, l, s) }
    };
    let drops_o = take_drops();
    if state_d != state_o { mon.fail(format!("final state of the cells is {:?} directly but {:?} through the object ([(id, hits*1000003+sum)*])", state_d, state_o)); }
    // the signature of the one-slot-per-method aliasing: of two children of one `&self` method that are in use at once, the FIRST reaches the second's cell
    let alias_sig = |k: usize| -> bool { ops.get(k).map(|o| o.get(0) == Some(&9)).unwrap_or(false) && match (res_d.get(k), res_o.get(k)) { (Some(d), Some(o)) => d.len() == 3 && o.len() == 3 && o[2] == d[2] && o[1] == d[2] && d[1] != d[2], _ => false } };
    let mut aliased = false;
    if res_d != res_o {
        for k in 0..res_d.len().max(res_o.len()) {
            if res_d.get(k) == res_o.get(k) { continue; }
            if alias_sig(k) { if !aliased { mon.fail(format!("call {} returns {:?} directly but {:?} through the object (two children of one &self method in use at once: the first one now reaches the second one's instance)", k, res_d.get(k), res_o.get(k))); } aliased = true; continue; }
            mon.fail(format!("call {} returns {:?} directly but {:?} through the object", k, res_d.get(k), res_o.get(k)));
            break;
        }
    }
    if log_d != log_o {
        // where the aliasing showed, the log differs in exactly the entries of those calls (the instance id of the first child's call): compare the rest
        let strip = |l: &Vec<Vec<i64>>| -> Vec<Vec<i64>> { if aliased { l.iter().filter(|e| !(e.len() == 2 && e[1] == 4)).cloned().collect() } else { l.clone() } };
        let (a, b) = (strip(&log_d), strip(&log_o));
        if a != b {
            let k = a.iter().zip(b.iter()).position(|(x, y)| x != y).unwrap_or(a.len().min(b.len()));
            mon.fail(format!("the implementor saw {:?} directly but {:?} through the object (log entry {}: [instance id (-1 = the bank), method, arguments])", a.get(k), b.get(k), k));
        }
    }
    if drops_d != drops_o { mon.fail(format!("destructor runs {:?} directly, {:?} through the object", drops_d, drops_o)); }
    res_o
}
