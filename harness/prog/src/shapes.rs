//! Scenario 101 (C01/C02/C13): every automatically converted argument/return shape, called directly and through an opaque object
//! built from an identical value; per call the result, the argument digests recorded by the implementation and the final state
//! must agree, and every call must reach the same method exactly once.
use crate::*;

#[repr(C)]
#[derive(Clone, Copy, Debug, PartialEq)]
pub struct Pod { pub a: u8, pub b: u32, pub c: i64 }

/// by-value payload with a destructor (moved through the out-parameter of integer results)
#[repr(C)]
pub struct Droppy(pub *mut i64);
impl Droppy { pub fn new(v: i64) -> Self { Droppy(Box::into_raw(Box::new(v))) } pub fn val(&self) -> i64 { unsafe { *self.0 } } }
impl Drop for Droppy { fn drop(&mut self) { let v = self.val(); unsafe { drop(Box::from_raw(self.0)); } DROPS.with(|d| d.borrow_mut().push(v)); } }

/// an element type whose size (12) is not a multiple of its alignment (4)... i.e. size != alignment: slices of it start at addresses that are not multiples of the size
#[repr(C)]
#[derive(Clone, Copy, Debug, PartialEq)]
pub struct Rgb3 { pub r: u32, pub g: u32, pub b: u32 }
fn digest3(v: &[Rgb3]) -> i64 { v.iter().fold(29i64, |a, x| (a * 131 + x.r as i64 * 7 + x.g as i64 * 3 + x.b as i64) % 1_000_000_007) }

/// a user error type with integer codes of its own (any non-zero i32, negative and wide ones included)
#[derive(Debug, PartialEq)]
pub struct DevErr(pub i32);
impl cglue::result::IntError for DevErr {
    fn into_int_err(self) -> core::num::NonZeroI32 { core::num::NonZeroI32::new(self.0).expect("DevErr codes are non-zero") }
    fn from_int_err(err: core::num::NonZeroI32) -> Self { DevErr(err.get()) }
}

#[cglue_trait]
#[int_result]
pub trait ShapesRef {
    fn p(&self, x: u32, y: i64) -> u64;
    fn op(&self, o: Option<u32>) -> Option<u32>;
    fn opr<'a>(&'a self, o: Option<&'a u32>) -> Option<&'a u32>;
    fn into_(&self, x: impl Into<u64>) -> u64;
    fn outp(&self, out: &mut u32);
    fn cb(&self, cb: OpaqueCallback<u32>) -> usize;
    fn pod(&self, p: Pod) -> Pod;
    fn rs(&self) -> &[u8];
    fn rstr(&self) -> &str;
    fn res(&self, x: i32) -> Result<u64, ()>;
    #[no_int_result]
    fn res_c(&self, x: i32) -> Result<u32, u8>;
    fn res_io(&self, x: i32) -> Result<u64, std::io::Error>;
    /// options and results whose payloads are easy to lose: nested options, Some(0) / Some(false), by-value structs, equal Ok and Err types
    fn opn(&self, o: Option<Option<u32>>) -> Option<Option<u32>>;
    fn opb(&self, o: Option<bool>, z: Option<u8>) -> Option<u8>;
    fn oppod(&self, o: Option<Pod>) -> Option<Pod>;
    #[no_int_result]
    fn resuu(&self, x: i64) -> Result<u64, u64>;
    #[no_int_result]
    fn resopt(&self, x: i32) -> Result<Option<u32>, u8>;
    /// primitive leaves that pass through unconverted: char (all planes), bool, signed bytes, 128-bit integers, floats
    fn prim_c(&self, c: char, up: bool) -> char;
    fn prim_w(&self, x: i128, y: i8) -> u128;
    fn prim_f(&self, x: f32, y: f64) -> f64;
    fn prim_b(&self, x: u16, y: char) -> bool;
    /// integer results WITHOUT a success payload (no output slot) and with a user error type whose codes are arbitrary non-zero i32s
    fn res_iu(&self, x: i32) -> Result<(), std::io::Error>;
    fn res_du(&self, x: i32) -> Result<(), DevErr>;
    fn res_dv(&self, x: i32) -> Result<u32, DevErr>;
    fn res_drop(&self, x: i32) -> Result<Droppy, ()>;
    fn ext(&self, x: i64) -> i64;
    /// default bodies (overridden by the implementor, with and without explicit lifetime generics) and one that is NOT overridden
    fn dflt<'a>(&'a self, x: &'a u32) -> &'a u32 { x }
    fn dflt2(&self, _x: i64) -> i64 { -1 }
    fn dflt3(&self) -> i64 { self.ext(5) + 1 }
    fn dflt4<'a>(&'a self, s: &'a str) -> usize { s.len() + 1000 }
}

#[cglue_trait]
#[int_result]
pub trait ShapesMut {
    fn sl(&mut self, v: &[u8]) -> usize;
    fn sl64(&mut self, v: &[u64]) -> u64;
    fn slz(&mut self, v: &[()]) -> usize;
    fn slm(&mut self, v: &mut [u8]);
    fn st(&mut self, s: &str) -> usize;
    /// owned strings: a Rust String (all of its bytes, interior NULs included) and the library's C strings (the text up to the first NUL), by value
    /// and borrowed; the callee reports what it saw
    fn owned(&mut self, s: String) -> usize;
    fn cs(&mut self, s: cglue::repr_cstring::ReprCString) -> cglue::repr_cstring::ReprCString;
    fn cstr(&mut self, s: cglue::repr_cstring::ReprCStr) -> usize;
    fn it(&mut self, it: CIterator<u32>) -> u64;
    fn rsm(&mut self) -> &mut [u8];
    /// mutable slices of 12-byte elements, as argument and as result
    fn slm3(&mut self, v: &mut [Rgb3]) -> usize;
    fn rsm3(&mut self, w: usize) -> &mut [Rgb3];
    fn rgb_digest(&self) -> i64;
    fn rs2(&self) -> &[u8];
    fn res_e(&mut self, x: i32) -> Result<(), ()>;
}

pub struct Obj { pub id: i64, pub state: i64, pub buf: Vec<u8>, pub s: String, pub cell: u32, pub rgbw: Vec<u32> }
impl Obj {
    pub fn new(id: i64) -> Self { LIVE.fetch_add(1, SeqCst); Obj { id, state: id * 7 + 1, buf: vec![1, 2, 3, id as u8], s: format!("o{}é\0z", id), cell: 40 + id as u32, rgbw: (0..21u32).map(|i| i * 11 + 5).collect() } }
}
impl Drop for Obj { fn drop(&mut self) { LIVE.fetch_sub(1, SeqCst); DROPS.with(|d| d.borrow_mut().push(-1000 - self.id)); } }

fn digest(b: &[u8]) -> i64 { b.iter().fold(17i64, |a, x| (a * 31 + *x as i64) % 1_000_000_007) }

impl ShapesRef for Obj {
    fn p(&self, x: u32, y: i64) -> u64 { log_call(vec![self.id, 0, x as i64, y]); (x as u64).wrapping_add(y as u64).wrapping_add(self.state as u64) }
    fn op(&self, o: Option<u32>) -> Option<u32> { log_call(vec![self.id, 6, o.map(|x| x as i64).unwrap_or(-1)]); o.map(|x| x.wrapping_add(1)).filter(|x| x % 3 != 0) }
    fn opr<'a>(&'a self, o: Option<&'a u32>) -> Option<&'a u32> { log_call(vec![self.id, 7, o.map(|x| x as *const u32 as i64).unwrap_or(0), o.map(|x| *x as i64).unwrap_or(-1)]); match o { Some(x) if *x % 2 == 0 => Some(x), Some(_) => Some(&self.cell), None => None } }
    fn into_(&self, x: impl Into<u64>) -> u64 { let x = x.into(); log_call(vec![self.id, 8, x as i64]); x.wrapping_mul(3) }
    fn outp(&self, out: &mut u32) { log_call(vec![self.id, 9, out as *mut u32 as i64, *out as i64]); *out = out.wrapping_add(self.cell); }
    /// delivers k items (CBMODE, set by the driver; default state%7) through one of the library's three delivery paths (CBMODE): a call loop, `Extend`, `feed_into`;
    /// returns the number of items it produced
    fn cb(&self, mut cb: OpaqueCallback<u32>) -> usize {
        log_call(vec![self.id, 10]);
        let (mode, k) = CBMODE.with(|c| c.get());
        let k = if k < 0 { (self.state % 7) as u32 } else { k as u32 };
        let mut n = 0;
        match mode {
            0 => { for i in 0..k { n += 1; if !cb.call(i * 10) { break; } } }
            1 => { cb.extend((0..k).map(|i| { n += 1; i * 10 })); }
            _ => { use cglue::callback::FeedCallback; (0..k).map(|i| { n += 1; i * 10 }).feed_into(cb); }
        }
        n
    }
    fn pod(&self, p: Pod) -> Pod { log_call(vec![self.id, 12, p.a as i64, p.b as i64, p.c]); Pod { a: p.a.wrapping_add(1), b: p.b ^ 0xffff, c: -p.c } }
    fn rs(&self) -> &[u8] { log_call(vec![self.id, 13]); &self.buf }
    fn rstr(&self) -> &str { log_call(vec![self.id, 14]); &self.s }
    fn res(&self, x: i32) -> Result<u64, ()> { log_call(vec![self.id, 16, x as i64]); if x < 0 { Err(()) } else { Ok(x as u64 * 2) } }
    fn res_c(&self, x: i32) -> Result<u32, u8> { log_call(vec![self.id, 18, x as i64]); if x >= 0 { Ok(x as u32) } else { Err(x.wrapping_neg() as u8) } }
    fn opn(&self, o: Option<Option<u32>>) -> Option<Option<u32>> { log_call(vec![self.id, 35, match o { None => -2, Some(None) => -1, Some(Some(x)) => x as i64 }]); match o { None => Some(None), Some(None) => Some(Some(7)), Some(Some(x)) => if x % 2 == 0 { None } else { Some(Some(x.wrapping_add(1))) } } }
    fn opb(&self, o: Option<bool>, z: Option<u8>) -> Option<u8> { log_call(vec![self.id, 36, o.map(|b| b as i64).unwrap_or(-1), z.map(|b| b as i64).unwrap_or(-1)]); match (o, z) { (Some(false), Some(0)) => Some(0), (Some(b), Some(v)) => Some(v.wrapping_add(b as u8)), (None, v) => v, (Some(_), None) => None } }
    fn oppod(&self, o: Option<Pod>) -> Option<Pod> { log_call(vec![self.id, 37, o.map(|p| p.a as i64 + p.b as i64 * 3 + p.c).unwrap_or(-1)]); o.map(|p| Pod { a: p.a.wrapping_add(2), b: !p.b, c: p.c.wrapping_mul(3) }).filter(|p| p.a != 1) }
    fn resuu(&self, x: i64) -> Result<u64, u64> { log_call(vec![self.id, 38, x]); if x % 3 == 0 { Ok(x as u64) } else { Err(x as u64) } }
    fn resopt(&self, x: i32) -> Result<Option<u32>, u8> { log_call(vec![self.id, 39, x as i64]); match x.rem_euclid(3) { 0 => Ok(None), 1 => Ok(Some(x as u32)), _ => Err(x as u8) } }
    fn prim_c(&self, c: char, up: bool) -> char { log_call(vec![self.id, 31, c as i64, up as i64]); if up { char::from_u32(c as u32 + 1).unwrap_or('\u{10FFFF}') } else { c } }
    fn prim_w(&self, x: i128, y: i8) -> u128 { log_call(vec![self.id, 32, (x >> 64) as i64, x as i64, y as i64]); (x as u128).rotate_left(17) ^ (y as i128 as u128) }
    fn prim_f(&self, x: f32, y: f64) -> f64 { log_call(vec![self.id, 33, x.to_bits() as i64, y.to_bits() as i64]); x as f64 * 0.5 + y }
    fn prim_b(&self, x: u16, y: char) -> bool { log_call(vec![self.id, 34, x as i64, y as i64]); (x as u32) < (y as u32) }
    fn res_iu(&self, x: i32) -> Result<(), std::io::Error> { log_call(vec![self.id, 26, x as i64]); if x == 0 { Ok(()) } else if x == 1 { Err(std::io::Error::new(std::io::ErrorKind::Other, "no code")) } else { Err(std::io::Error::from_raw_os_error(x)) } }
    fn res_du(&self, x: i32) -> Result<(), DevErr> { log_call(vec![self.id, 27, x as i64]); if x == 0 { Ok(()) } else { Err(DevErr(x)) } }
    fn res_dv(&self, x: i32) -> Result<u32, DevErr> { log_call(vec![self.id, 28, x as i64]); if x % 2 == 0 { Ok((x as u32).wrapping_mul(3)) } else { Err(DevErr(x)) } }
    fn res_io(&self, x: i32) -> Result<u64, std::io::Error> { log_call(vec![self.id, 19, x as i64]); if x == 0 { Ok(99) } else if x == 1 { Err(std::io::Error::new(std::io::ErrorKind::Other, "no code")) } else { Err(std::io::Error::from_raw_os_error(x)) } }
    fn res_drop(&self, x: i32) -> Result<Droppy, ()> { log_call(vec![self.id, 20, x as i64]); if x >= 0 { Ok(Droppy::new(x as i64)) } else { Err(()) } }
    fn ext(&self, x: i64) -> i64 { log_call(vec![self.id, 21, x]); x }
    fn dflt<'a>(&'a self, x: &'a u32) -> &'a u32 { log_call(vec![self.id, 22, *x as i64]); if *x % 2 == 0 { x } else { &self.cell } }
    fn dflt2(&self, x: i64) -> i64 { log_call(vec![self.id, 23, x]); x * 2 }
    fn dflt4<'a>(&'a self, s: &'a str) -> usize { log_call(vec![self.id, 25, s.len() as i64]); s.len() }
}

impl ShapesMut for Obj {
    fn sl(&mut self, v: &[u8]) -> usize { log_call(vec![self.id, 1, v.as_ptr() as i64, v.len() as i64, digest(v)]); self.state += v.len() as i64; self.buf = v.to_vec(); v.len() }
    fn sl64(&mut self, v: &[u64]) -> u64 { log_call(vec![self.id, 2, v.as_ptr() as i64, v.len() as i64]); v.iter().fold(0u64, |a, x| a.wrapping_add(*x)) }
    fn slz(&mut self, v: &[()]) -> usize { log_call(vec![self.id, 3, v.len() as i64]); v.len() }
    fn slm(&mut self, v: &mut [u8]) { log_call(vec![self.id, 4, v.as_ptr() as i64, v.len() as i64, digest(v)]); for x in v.iter_mut() { *x = x.wrapping_add(1); } }
    fn owned(&mut self, s: String) -> usize { log_call(vec![self.id, 40, s.len() as i64, digest(s.as_bytes())]); self.s = s; self.s.len() }
    fn cs(&mut self, s: cglue::repr_cstring::ReprCString) -> cglue::repr_cstring::ReprCString { let t: &str = s.as_ref(); log_call(vec![self.id, 41, t.len() as i64, digest(t.as_bytes())]); let mut r = String::from(t); r.push('é'); r.push_str(t); cglue::repr_cstring::ReprCString::from(r.as_str()) }
    fn cstr(&mut self, s: cglue::repr_cstring::ReprCStr) -> usize { let t: &str = s.as_ref(); log_call(vec![self.id, 42, t.len() as i64, digest(t.as_bytes())]); t.len() }
    fn st(&mut self, s: &str) -> usize { log_call(vec![self.id, 5, s.as_ptr() as i64, s.len() as i64, digest(s.as_bytes())]); self.s = s.to_string(); s.chars().count() }
    fn it(&mut self, it: CIterator<u32>) -> u64 { let v: Vec<u32> = it.collect(); log_call(vec![self.id, 11, v.len() as i64]); v.iter().map(|x| *x as u64).sum() }
    fn rsm(&mut self) -> &mut [u8] { log_call(vec![self.id, 15]); &mut self.buf }
    fn slm3(&mut self, v: &mut [Rgb3]) -> usize { log_call(vec![self.id, 29, v.as_ptr() as i64, v.len() as i64, digest3(v)]); for x in v.iter_mut() { x.g = x.g.wrapping_add(1000); x.b ^= 0xff; } v.len() }
    /// a view of 5 elements into the object's own word buffer, starting at word w (0..=2): its address is base + 4w
    fn rsm3(&mut self, w: usize) -> &mut [Rgb3] { log_call(vec![self.id, 30, w as i64]); let w = w % 3; unsafe { std::slice::from_raw_parts_mut(self.rgbw.as_mut_ptr().add(w) as *mut Rgb3, 5) } }
    fn rgb_digest(&self) -> i64 { self.rgbw.iter().fold(31i64, |a, x| (a * 257 + *x as i64) % 1_000_000_007) }
    fn res_e(&mut self, x: i32) -> Result<(), ()> { log_call(vec![self.id, 17, x as i64]); self.state += 1; if x % 2 == 0 { Ok(()) } else { Err(()) } }
    fn rs2(&self) -> &[u8] { log_call(vec![self.id, 13]); &self.buf }
}

/// one call; args come from the op row; returns a canonical result row.  Pointer-valued observations are made relative to the
/// caller's buffers (offsets), so that direct and opaque runs are comparable.
#[allow(unused_variables)]
fn call_ref<T: ShapesRef>(t: &mut T, op: &[i64], scratch: &mut Scratch) -> Vec<i64> {
    let a = |i: usize| op.get(i).copied().unwrap_or(0);
    match op[0] {
        0 => vec![0, t.p(a(1) as u32, a(2)) as i64],
        6 => { let o = if a(1) < 0 { None } else { Some(a(1) as u32) }; vec![6, t.op(o).map(|x| x as i64).unwrap_or(-1)] }
        7 => { let v = a(1) as u32; let o = if a(1) < 0 { None } else { Some(&v) }; let r = t.opr(o); let row = vec![7, r.map(|x| *x as i64).unwrap_or(-1), r.map(|x| (x as *const u32 == &v as *const u32) as i64).unwrap_or(-1)]; rel_last(&v as *const u32 as i64, true); row }
        8 => vec![8, if a(1) % 2 == 0 { t.into_(a(1) as u32) } else { t.into_(a(1) as u8) } as i64],
        9 => { let mut out = a(1) as u32; let p = &mut out as *mut u32 as i64; t.outp(&mut out); rel_last(p, false); vec![9, out as i64] }
        10 if op.len() > 4 && a(4).rem_euclid(3) != 0 => {
            // a COLLECTING sink — `(&mut vec).into()` (sink 1) or `from_extend()` (sink 2) — never asks to stop: every item the callee produces arrives
            let k = a(3).rem_euclid(64);
            CBMODE.with(|c| c.set((a(2).rem_euclid(3), k)));
            let mut got: Vec<u32> = if a(1) % 2 == 0 { Vec::new() } else { Vec::with_capacity(3) };
            let n = if a(4).rem_euclid(3) == 1 { t.cb((&mut got).into()) } else { use cglue::callback::FromExtend; t.cb(got.from_extend()) };
            if got.len() != k as usize || n != k as usize { expect_fail(format!("callback argument: the callee had {} items for a collecting sink (a vector), produced {} and the vector received {}", k, n, got.len())); }
            if got.iter().enumerate().any(|(i, x)| *x != i as u32 * 10) { expect_fail(format!("callback argument: the items arrived altered or out of order: {:?}", got)); }
            let mut r = vec![10, n as i64]; r.extend(got.iter().map(|x| *x as i64)); r
        }
        10 => {
            let stop = a(1) as usize; let mut got: Vec<u32> = vec![]; let mut after_stop = 0usize;
            let mut f = |x: u32| { if stop != 0 && got.len() >= stop { after_stop += 1; } got.push(x); got.len() != stop };
            CBMODE.with(|c| c.set((a(2).rem_euclid(3), if op.len() > 3 { a(3).rem_euclid(9) } else { -1 })));
            let n = t.cb((&mut f).into());
            // absolute expectations (a fault in the library's delivery paths hits the direct call and the object alike)
            if after_stop > 0 { expect_fail(format!("callback argument: the caller's closure answered stop after {} items and was invoked {} more times", stop, after_stop)); }
            if n != got.len() { expect_fail(format!("callback argument: the callee produced {} items but the caller's closure received {}", n, got.len())); }
            if got.iter().enumerate().any(|(i, x)| *x != i as u32 * 10) { expect_fail(format!("callback argument: the items arrived altered or out of order: {:?}", got)); }
            let mut r = vec![10, n as i64]; r.extend(got.iter().map(|x| *x as i64)); r
        }
        12 => { let p = Pod { a: a(1) as u8, b: a(2) as u32, c: a(3) }; let r = t.pod(p); vec![12, r.a as i64, r.b as i64, r.c] }
        13 => { let r = t.rs(); vec![13, r.len() as i64, digest(r)] }
        14 => { let r = t.rstr(); vec![14, r.len() as i64, digest(r.as_bytes())] }
        16 => vec![16, match t.res(a(1) as i32) { Ok(v) => v as i64, Err(()) => -1 }],
        18 => vec![18, match t.res_c(a(1) as i32) { Ok(v) => v as i64, Err(e) => -(e as i64) }],
        19 => vec![19, match t.res_io(a(1) as i32) { Ok(v) => v as i64, Err(e) => -(e.raw_os_error().filter(|c| *c != 0).unwrap_or(0xffff) as i64) - 1_000_000 /* errors without an OS code are documented to become 0xffff */ }],
        35 => { let o = match a(1).rem_euclid(3) { 0 => None, 1 => Some(None), _ => Some(Some(a(2) as u32)) }; vec![35, match t.opn(o) { None => -2, Some(None) => -1, Some(Some(x)) => x as i64 }] }
        36 => { let o = match a(1).rem_euclid(3) { 0 => None, 1 => Some(false), _ => Some(true) }; let z = if a(2) < 0 { None } else { Some(a(2) as u8) }; vec![36, t.opb(o, z).map(|v| v as i64).unwrap_or(-1)] }
        37 => { let o = if a(1) < 0 { None } else { Some(Pod { a: a(1) as u8, b: a(2) as u32, c: a(3) }) }; match t.oppod(o) { None => vec![37, -1], Some(p) => vec![37, p.a as i64, p.b as i64, p.c] } }
        38 => vec![38, match t.resuu(a(1)) { Ok(v) => v as i64, Err(e) => -(e as i64) - 1 }],
        39 => vec![39, match t.resopt(a(1) as i32) { Ok(None) => -1, Ok(Some(v)) => v as i64, Err(e) => -1000 - e as i64 }],
        31 => { let c = char::from_u32((a(1) as u32) % 0x110000).unwrap_or('\u{FFFD}'); vec![31, t.prim_c(c, a(2) % 2 == 1) as i64] }
        32 => { let x = ((a(1) as i128) << 64) | (a(2) as u64 as i128); let r = t.prim_w(x, a(3) as i8); vec![32, (r >> 64) as i64, r as i64] }
        33 => { let r = t.prim_f(f32::from_bits(a(1) as u32), f64::from_bits(a(2) as u64)); vec![33, r.to_bits() as i64] }
        34 => { let c = char::from_u32((a(2) as u32) % 0x110000).unwrap_or('a'); vec![34, t.prim_b(a(1) as u16, c) as i64] }
        26 => vec![26, match t.res_iu(a(1) as i32) { Ok(()) => 0, Err(e) => -(e.raw_os_error().filter(|c| *c != 0).unwrap_or(0xffff) as i64) - 1_000_000 }],
        27 => vec![27, match t.res_du(a(1) as i32) { Ok(()) => 0, Err(e) => e.0 as i64 }],
        28 => vec![28, match t.res_dv(a(1) as i32) { Ok(v) => v as i64 + (1 << 40), Err(e) => e.0 as i64 }],
        20 => { let r = t.res_drop(a(1) as i32); let row = vec![20, match &r { Ok(d) => d.val(), Err(()) => -1 }]; drop(r); row }
        22 => { let v = a(1) as u32; let r = t.dflt(&v); vec![22, *r as i64, (r as *const u32 == &v as *const u32) as i64] }
        23 => vec![23, t.dflt2(a(1))],
        24 => vec![24, t.dflt3()],
        25 => { let s = scratch.strings[(a(1) as usize) % scratch.strings.len()].clone(); vec![25, t.dflt4(&s) as i64] }
        _ => vec![21, t.ext(a(1))],
    }
}

fn call_mut<T: ShapesMut>(t: &mut T, op: &[i64], scratch: &mut Scratch) -> Vec<i64> {
    let a = |i: usize| op.get(i).copied().unwrap_or(0);
    match op[0] {
        1 => { let n = (a(1) as usize).min(scratch.bytes.len()); let s = &scratch.bytes[..n]; let r = t.sl(s); rel_last(s.as_ptr() as i64, false); vec![1, r as i64] }
        2 => { let n = (a(1) as usize).min(scratch.words.len()); let s = &scratch.words[..n]; let r = t.sl64(s); rel_last(s.as_ptr() as i64, false); vec![2, r as i64] }
        3 => { let v = vec![(); a(1) as usize]; vec![3, t.slz(&v) as i64] }
        4 => { let n = (a(1) as usize).min(scratch.bytes.len()); let p = scratch.bytes.as_ptr() as i64; t.slm(&mut scratch.bytes[..n]); rel_last(p, false); vec![4, digest(&scratch.bytes)] }
        5 => { let s = scratch.strings[(a(1) as usize) % scratch.strings.len()].clone(); let r = t.st(&s); rel_last(s.as_ptr() as i64, false); vec![5, r as i64] }
        11 => {
            // the items the caller sends are known: whatever the source iterator looks like (exact size hint, no size hint, a filter), the callee
            // must see exactly them — this is checked absolutely, since the conversion happens on the caller's side in the direct run as well
            let n = a(1) as u32;
            let items: Vec<u32> = (0..n).map(|i| i * 3 + 1).collect();
            let want: u64 = items.iter().map(|x| *x as u64).sum();
            let r = match a(1) % 3 {
                0 => { let mut it = items.into_iter(); t.it((&mut it).into()) }
                1 => { let mut k = 0u32; let mut it = std::iter::from_fn(move || { if k < n { k += 1; Some((k - 1) * 3 + 1) } else { None } }); t.it((&mut it).into()) }
                _ => { let mut it = (0..n * 2).filter(|i| i % 2 == 0).map(|i| (i / 2) * 3 + 1); t.it((&mut it).into()) }
            };
            if r != want { expect_fail(format!("iterator argument of {} items (source kind {}): the callee summed {} instead of {}", n, a(1) % 3, r, want)); }
            vec![11, r as i64]
        }
        15 => { let r = t.rsm(); if !r.is_empty() { r[0] = r[0].wrapping_add(5); } let d = digest(r); let again = digest(t.rs2()); vec![15, d, again] }
        17 => vec![17, t.res_e(a(1) as i32).is_ok() as i64],
        40 => { let s = scratch.strings[(a(1) as usize) % scratch.strings.len()].clone(); let want = s.len(); let r = t.owned(s); if r != want { expect_fail(format!("String argument of {} bytes: the callee received {} bytes", want, r)); } vec![40, r as i64] }
        41 | 42 => {
            // absolute expectation: a C string carries the text up to its first NUL — all of it, whatever bytes it contains
            let s = scratch.strings[(a(1) as usize) % scratch.strings.len()].clone();
            let prefix: &str = s.split('\0').next().unwrap_or("");
            if op[0] == 41 {
                let r = t.cs(cglue::repr_cstring::ReprCString::from(s.as_str()));
                let got: &str = r.as_ref();
                let want = format!("{}é{}", prefix, prefix);
                if got != want { expect_fail(format!("ReprCString argument/result for the text {:?}: got back {:?}, expected {:?}", prefix, got, want)); }
                vec![41, got.len() as i64, digest(got.as_bytes())]
            } else {
                let owned = cglue::repr_cstring::ReprCString::from(s.as_str());
                let b: &cglue::repr_cstring::ReprCStr = std::borrow::Borrow::borrow(&owned);
                let r = t.cstr(*b);
                if r != prefix.len() { expect_fail(format!("ReprCStr argument for the text {:?}: the callee saw {} bytes", prefix, r)); }
                vec![42, r as i64]
            }
        }
        29 => {     // '29 w n': a &mut [Rgb3] argument of n (<= 8) elements starting at word w (0..=2) of the caller's buffer; the callee's writes must be visible
            let (w, n) = ((a(1) as usize) % 3, (a(2) as usize).min(8));
            let base = scratch.rgbw.as_ptr() as i64;
            let v = unsafe { std::slice::from_raw_parts_mut(scratch.rgbw.as_mut_ptr().add(w) as *mut Rgb3, n) };
            let before = digest3(v);
            let r = t.slm3(v);
            rel_last(base, false);
            let mut want: Vec<Rgb3> = (0..n).map(|i| { let k = (w + 3 * i) as u32; Rgb3 { r: k * 13 + 1, g: (k + 1) * 13 + 1, b: (k + 2) * 13 + 1 } }).collect();
            if n > 0 && before != digest3(&want) { /* an earlier op 29 wrote here already: only relative checks below */ } else {
                for x in want.iter_mut() { x.g = x.g.wrapping_add(1000); x.b ^= 0xff; }
                let now = unsafe { std::slice::from_raw_parts(scratch.rgbw.as_ptr().add(w) as *const Rgb3, n) };
                if now != &want[..] { expect_fail(format!("&mut [12-byte elements] argument at word offset {} ({} elements): the callee's writes are not visible to the caller", w, n)); }
            }
            vec![29, r as i64, scratch.rgbw.iter().fold(31i64, |a, x| (a * 257 + *x as i64) % 1_000_000_007)]
        }
        30 => {     // '30 w': a &mut [Rgb3] RESULT (5 elements at word w of the object's buffer); the caller's writes must reach the object
            let w = (a(1) as usize) % 3;
            let r = t.rsm3(w);
            let (len, d0) = (r.len(), digest3(r));
            if len != 5 { expect_fail(format!("&mut [12-byte elements] result at word offset {}: {} elements arrived instead of 5", w, len)); }
            for x in r.iter_mut() { x.r = x.r.wrapping_add(7); }
            vec![30, len as i64, d0, t.rgb_digest()]
        }
        _ => vec![-1],
    }
}

/// C04 at the level a C caller sees: a boxed single-trait object read as raw words through the documented layout
/// {vtbl, container {instance {instance, drop_fn}, context {instance, clone_fn, drop_fn}, ret_tmp}}.
fn layout_probe(mon: &mut Mon) {
    use cglue::trait_group::{CGlueObjRef, GetContainer};
    let arc = Arc::new(());
    let obj = trait_obj!((Obj::new(1), CArc::<()>::from(arc.clone())) as ShapesRef);
    let words = unsafe { std::slice::from_raw_parts(&obj as *const _ as *const usize, std::mem::size_of_val(&obj) / std::mem::size_of::<usize>()) };
    let vt = obj.get_vtbl() as *const _ as usize;
    let inst = obj.ccont_ref().cobj_ref().0 as *const _ as *const u8 as usize;
    let ctx = Arc::as_ptr(&arc) as usize;
    if words.len() < 6 { mon.fail(format!("a boxed object with an arc context is {} words (expected at least vtbl + box + arc = 6)", words.len())); }
    else {
        if words[0] != vt { mon.fail("word 0 of a single-trait object is not its vtable pointer (published layout: {vtbl, container})".to_string()); }
        if words[1] != inst { mon.fail("word 1 of a boxed single-trait object is not the instance pointer (published layout: container = {instance, context, ret_tmp}, CBox = {instance, drop_fn})".to_string()); }
        if words[3] != ctx { mon.fail("word 3 of a boxed single-trait object with an arc context is not the context's instance pointer (container = {instance, context, ret_tmp})".to_string()); }
    }
    let plain = trait_obj!(Obj::new(1) as ShapesRef);
    let w = unsafe { std::slice::from_raw_parts(&plain as *const _ as *const usize, std::mem::size_of_val(&plain) / std::mem::size_of::<usize>()) };
    if w.len() != 3 || w[0] != plain.get_vtbl() as *const _ as usize { mon.fail(format!("a boxed object without context is {} words with the vtable pointer {} word 0 (expected 3 words: vtbl, instance, drop_fn)", w.len(), if w.first() == Some(&(plain.get_vtbl() as *const _ as usize)) { "in" } else { "NOT in" })); }
    drop(plain); drop(obj);
    let _ = take_log(); let _ = take_drops();
}

thread_local! { static CBMODE: std::cell::Cell<(i64, i64)> = std::cell::Cell::new((0, -1)); }
thread_local! { static EXPECT: RefCell<Vec<String>> = RefCell::new(Vec::new()); }
/// an absolute expectation of the caller (independent of the direct-vs-opaque comparison) failed
fn expect_fail(s: String) { let d = crate::alloc::domain(0); EXPECT.with(|e| e.borrow_mut().push(s)); crate::alloc::domain(d); }

/// the implementation logged an absolute address: rewrite it as an offset from the caller's buffer
fn rel_last(base: i64, nonnull_only: bool) { LOG.with(|l| { if let Some(e) = l.borrow_mut().last_mut() { if e.len() > 2 && !(nonnull_only && e[2] == 0) { e[2] -= base; } } }); }

pub struct Scratch { bytes: Vec<u8>, words: Vec<u64>, strings: Vec<String>, rgbw: Vec<u32> }
impl Scratch { fn new() -> Self { Scratch { rgbw: (0..27u32).map(|i| i * 13 + 1).collect(), bytes: (0..24u8).collect(), words: (0..9u64).map(|i| i * i + 1).collect(), strings: vec!["".into(), "a".into(), "héllo".into(), "€😀".into(), "plain ascii text".into(), "ab\0cd".into(), "\0".into(), "tail\0".into(), "\u{fffd}x\u{10ffff}".into()] } } }

fn final_state(o: &Obj) -> Vec<i64> { vec![o.state, digest(&o.buf), digest(o.s.as_bytes()), o.cell as i64] }

fn is_ref_op(op: &[i64]) -> bool { matches!(op[0], 0 | 6 | 7 | 8 | 9 | 10 | 12 | 13 | 14 | 16 | 18 | 19 | 20 | 21 | 22 | 23 | 24 | 25 | 26 | 27 | 28 | 31 | 32 | 33 | 34 | 35 | 36 | 37 | 38 | 39) }

/// params: [trait: 0 ShapesRef / 1 ShapesMut ; container: 0 Box, 1 &mut, 2 & (ShapesRef only), 3 Box with a CArc context,
///          4 CArcSome (ShapesRef only), 5 a clone of a CArcSome that the caller keeps, with a CArc context (ShapesRef only)]
pub fn run(params: &[i64], ops: &Rows, mon: &mut Mon) -> Rows {
    let which = params.get(0).copied().unwrap_or(0);
    let kind = params.get(1).copied().unwrap_or(0);
    let mine: Vec<&Vec<i64>> = ops.iter().filter(|op| is_ref_op(op) == (which == 0)).collect();
    let mut out: Rows = vec![];
    // ---- direct
    let mut d = Obj::new(1);
    let mut sd = Scratch::new();
    let res_d: Rows = mine.iter().map(|op| if which == 0 { call_ref(&mut d, op, &mut sd) } else { call_mut(&mut d, op, &mut sd) }).collect();
    let log_d = take_log();
    let drops_d: Vec<i64> = take_drops();
    let st_d = final_state(&d);
    // ---- opaque
    let mut so = Scratch::new();
    let mut res_o: Rows = vec![];
    let mut st_o = None;
    let arc = Arc::new(());
    macro_rules! drive { ($obj:expr) => {{ let mut obj = $obj; for op in mine.iter() { res_o.push(if which == 0 { unreachable!() } else { call_mut(&mut obj, op, &mut so) }); } drop(obj); }} }
    macro_rules! drive_ref { ($obj:expr) => {{ let mut obj = $obj; for op in mine.iter() { res_o.push(call_ref(&mut obj, op, &mut so)); } drop(obj); }} }
    match (which, kind) {
        (0, 0) => drive_ref!(trait_obj!(Obj::new(1) as ShapesRef)),
        (0, 1) => { let mut o = Obj::new(1); drive_ref!(trait_obj!(&mut o as ShapesRef)); st_o = Some(final_state(&o)); }
        (0, 2) => { let o = Obj::new(1); drive_ref!(trait_obj!(&o as ShapesRef)); st_o = Some(final_state(&o)); }
        (0, 4) => drive_ref!(trait_obj!(CArcSome::from(Obj::new(1)) as ShapesRef)),
        (0, 5) => { let shared = CArcSome::from(Obj::new(1)); drive_ref!(trait_obj!((shared.clone(), CArc::<()>::from(arc.clone())) as ShapesRef)); st_o = Some(final_state(&shared)); }
        (0, _) => drive_ref!(trait_obj!((Obj::new(1), CArc::<()>::from(arc.clone())) as ShapesRef)),
        (_, 0) | (_, 2) => drive!(trait_obj!(Obj::new(1) as ShapesMut)),
        (_, 1) => { let mut o = Obj::new(1); drive!(trait_obj!(&mut o as ShapesMut)); st_o = Some(final_state(&o)); }
        (_, _) => drive!(trait_obj!((Obj::new(1), CArc::<()>::from(arc.clone())) as ShapesMut)),
    }
    if Arc::strong_count(&arc) != 1 { mon.fail(format!("context count {} after the object is gone", Arc::strong_count(&arc))); }
    let log_o = take_log();
    let drops_o: Vec<i64> = take_drops();
    // ---- monitor: direct == opaque
    if res_d != res_o { let k = res_d.iter().zip(res_o.iter()).position(|(a, b)| a != b).unwrap_or(0); mon.fail(format!("call {} returns {:?} directly but {:?} through the object", k, res_d.get(k), res_o.get(k))); }
    if log_d != log_o { let k = log_d.iter().zip(log_o.iter()).position(|(a, b)| a != b).unwrap_or(log_d.len().min(log_o.len())); mon.fail(format!("implementation saw {:?} directly but {:?} through the object (entry {}; {} vs {} calls)", log_d.get(k), log_o.get(k), k, log_d.len(), log_o.len())); }
    if let Some(s) = &st_o { if *s != st_d { mon.fail(format!("final state {:?} directly, {:?} through the object", st_d, s)); } }
    let dd: Vec<i64> = drops_d.iter().copied().filter(|x| *x > -1000).collect();
    let dobj: Vec<i64> = drops_o.iter().copied().filter(|x| *x > -1000).collect();
    if dd != dobj { mon.fail(format!("payload destructors {:?} directly, {:?} through the object", dd, dobj)); }
    drop(d);
    let _ = take_drops();
    if which == 0 { thunk_pass(&mine, mon); layout_probe(mon); }
    { let d = crate::alloc::domain(0); let fails = EXPECT.with(|e| std::mem::take(&mut *e.borrow_mut())); for f in fails.into_iter().take(3) { mon.fail(f); } crate::alloc::domain(d); }
    for r in res_o { out.push(r); }
    out
}

/// C13 at the level a C caller sees: the vtable entry of an integer-result method is called DIRECTLY with a caller-owned slot.
/// On success the code is 0 and the slot holds the payload; on failure the code is non-zero and the slot is exactly as the caller left it
/// (a live value parked there is neither overwritten nor destroyed).
fn thunk_pass(mine: &[&Vec<i64>], mon: &mut Mon) {
    use cglue::trait_group::GetContainer;
    use core::mem::MaybeUninit;
    const SENT: u64 = 0xA5A5_5A5A_DEAD_BEEF;
    let reference = Obj::new(1);
    let obj = trait_obj!(Obj::new(1) as ShapesRef);
    let _ = take_log(); let _ = take_drops();
    for (k, op) in mine.iter().enumerate() {
        let x = op.get(1).copied().unwrap_or(0) as i32;
        match op[0] {
            16 | 19 => {
                let want: Option<u64> = if op[0] == 16 { reference.res(x).ok() } else { reference.res_io(x).ok() };
                let mut slot = MaybeUninit::new(SENT);
                let code = if op[0] == 16 { unsafe { (obj.get_vtbl().res())(obj.ccont_ref(), x, &mut slot) } } else { unsafe { (obj.get_vtbl().res_io())(obj.ccont_ref(), x, &mut slot) } };
                let got = unsafe { slot.assume_init() };
                match want {
                    Some(w) => { if code != 0 || got != w { mon.fail(format!("call {}: vtable entry returned code {} and slot {:#x} for Ok({})", k, code, got, w)); } }
                    None => { if code == 0 { mon.fail(format!("call {}: vtable entry returned the success code for an error", k)); }
                              if got != SENT { mon.fail(format!("call {}: vtable entry modified the caller's ok_out slot on the error path (now {:#x})", k, got)); } }
                }
            }
            20 => {
                let want = reference.res_drop(x).ok().map(|d| d.val());
                let _ = take_drops();
                match want {
                    Some(w) => {
                        let mut slot = MaybeUninit::<Droppy>::uninit();
                        let code = unsafe { (obj.get_vtbl().res_drop())(obj.ccont_ref(), x, &mut slot) };
                        if code != 0 { mon.fail(format!("call {}: vtable entry returned code {} for Ok", k, code)); } else {
                            let d = unsafe { slot.assume_init() };
                            if d.val() != w { mon.fail(format!("call {}: slot holds {} for Ok({})", k, d.val(), w)); }
                            if !take_drops().is_empty() { mon.fail(format!("call {}: the payload was destroyed before the caller received it", k)); }
                            drop(d);
                            if take_drops() != vec![w] { mon.fail(format!("call {}: payload destructor did not run exactly once", k)); }
                        }
                    }
                    None => {
                        let parked = Droppy::new(-4242);
                        let addr = parked.0;
                        let mut slot = MaybeUninit::new(parked);
                        let code = unsafe { (obj.get_vtbl().res_drop())(obj.ccont_ref(), x, &mut slot) };
                        if code == 0 { mon.fail(format!("call {}: vtable entry returned the success code for an error", k)); }
                        let same = unsafe { (*slot.as_ptr()).0 == addr };
                        if !same { mon.fail(format!("call {}: vtable entry modified the caller's ok_out slot on the error path (the value parked there is lost)", k)); std::mem::forget(slot); unsafe { drop(Box::from_raw(addr)); } }
                        else {
                            if !take_drops().is_empty() { mon.fail(format!("call {}: the value parked in the caller's slot was destroyed on the error path", k)); std::mem::forget(slot); }
                            else { drop(unsafe { slot.assume_init() }); }
                        }
                        let _ = take_drops();
                    }
                }
            }
            _ => {}
        }
    }
    drop(obj); drop(reference);
    let _ = take_log(); let _ = take_drops();
}
