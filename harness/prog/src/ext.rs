//! Scenario 105 (C01/C02): the traits the LIBRARY itself makes CGlue-compatible (cglue::ext): futures' Stream and Sink, core::fmt::Debug and
//! Display, core::convert::AsRef.  One stateful implementor; the same call history runs directly and through an opaque object per trait;
//! results, the calls the implementor saw and (for Sink) its final state must agree.
//! ops: '0' Stream::poll_next   '1' Sink::poll_ready   '2 v' Sink::start_send(v)   '3' Sink::poll_flush   '4' Sink::poll_close
//!      '5' format!("{:?}")     '6' format!("{}")      '7' AsRef<[u8; 4]>::as_ref
//! params: [container 0 Box / 1 Box with a CArc context]  (by-reference objects of these traits are ambiguous for trait_obj!: &mut T implements them too)
use crate::*;
use core::pin::Pin;
use core::task::{Context, Poll, RawWaker, RawWakerVTable, Waker};
use futures::{Sink, Stream};

pub struct Chan { id: i64, script: Vec<i64>, pos: usize, buf: Vec<u32>, flushed: Vec<u32>, closed: bool, tag: [u8; 4] }
impl Chan { pub fn new(id: i64) -> Self { LIVE.fetch_add(1, SeqCst); Chan { id, script: vec![5, -1, 6, 7, -2, 8], pos: 0, buf: vec![], flushed: vec![], closed: false, tag: [1, 2, 3, id as u8] } } }
impl Drop for Chan { fn drop(&mut self) { LIVE.fetch_sub(1, SeqCst); DROPS.with(|d| d.borrow_mut().push(-1000 - self.id)); } }

impl Stream for Chan {
    type Item = u32;
    /// script: v >= 0 an item, -1 Pending, -2 the end (and items again afterwards: not fused)
    fn poll_next(mut self: Pin<&mut Self>, _cx: &mut Context<'_>) -> Poll<Option<u32>> {
        let e = self.script.get(self.pos).copied().unwrap_or(-2);
        self.pos += 1;
        log_call(vec![self.id, 0, e]);
        // a pending poll arranges to be woken: once through the borrowed waker, once through a clone that is woken by value
        if e == -1 { _cx.waker().wake_by_ref(); _cx.waker().clone().wake(); }
        match e { -1 => Poll::Pending, x if x < 0 => Poll::Ready(None), v => Poll::Ready(Some(v as u32)) }
    }
}
impl Sink<u32> for Chan {
    type Error = u8;
    fn poll_ready(self: Pin<&mut Self>, _cx: &mut Context<'_>) -> Poll<Result<(), u8>> { log_call(vec![self.id, 1, self.buf.len() as i64]); _cx.waker().wake_by_ref(); if self.closed { Poll::Ready(Err(9)) } else if self.buf.len() >= 2 { Poll::Pending } else { Poll::Ready(Ok(())) } }
    fn start_send(mut self: Pin<&mut Self>, item: u32) -> Result<(), u8> { log_call(vec![self.id, 2, item as i64]); if self.closed { return Err(9); } if item == 13 { return Err(13); } self.buf.push(item); Ok(()) }
    fn poll_flush(mut self: Pin<&mut Self>, _cx: &mut Context<'_>) -> Poll<Result<(), u8>> { log_call(vec![self.id, 3, self.buf.len() as i64]); _cx.waker().clone().wake(); let b = std::mem::take(&mut self.buf); self.flushed.extend(b); Poll::Ready(Ok(())) }
    fn poll_close(mut self: Pin<&mut Self>, _cx: &mut Context<'_>) -> Poll<Result<(), u8>> { log_call(vec![self.id, 4, self.buf.len() as i64]); _cx.waker().wake_by_ref(); { let c = _cx.waker().clone(); let c2 = c.clone(); drop(c); c2.wake_by_ref(); } self.closed = true; if self.buf.is_empty() { Poll::Ready(Ok(())) } else { Poll::Ready(Err(7)) } }
}
impl core::fmt::Debug for Chan { fn fmt(&self, f: &mut core::fmt::Formatter<'_>) -> core::fmt::Result { log_call(vec![self.id, 5]); write!(f, "Chan#{}é", self.id) } }
impl core::fmt::Display for Chan { fn fmt(&self, f: &mut core::fmt::Formatter<'_>) -> core::fmt::Result { log_call(vec![self.id, 6]); write!(f, "channel {}", self.id * 3) } }
impl AsRef<[u8; 4]> for Chan { fn as_ref(&self) -> &[u8; 4] { log_call(vec![self.id, 7]); &self.tag } }

// the caller's waker: counts wakes (by value and by reference), clones and releases of clones
static WAKES: AtomicI64 = AtomicI64::new(0);
static WCLONES: AtomicI64 = AtomicI64::new(0);
static WRELEASED: AtomicI64 = AtomicI64::new(0);
unsafe fn nw_clone(_: *const ()) -> RawWaker { WCLONES.fetch_add(1, SeqCst); RawWaker::new(1 as *const (), &NW) }
unsafe fn nw_wake(p: *const ()) { WAKES.fetch_add(1, SeqCst); nw_drop(p); }
unsafe fn nw_wake_ref(_: *const ()) { WAKES.fetch_add(1, SeqCst); }
unsafe fn nw_drop(p: *const ()) { if !p.is_null() { WRELEASED.fetch_add(1, SeqCst); } }
static NW: RawWakerVTable = RawWakerVTable::new(nw_clone, nw_wake, nw_wake_ref, nw_drop);
fn with_cx<R>(f: impl FnOnce(&mut Context<'_>) -> R) -> R { let w = unsafe { Waker::from_raw(RawWaker::new(core::ptr::null(), &NW)) }; let mut cx = Context::from_waker(&w); f(&mut cx) }

fn poll_code(p: Poll<Result<(), u8>>) -> Vec<i64> { match p { Poll::Pending => vec![-1], Poll::Ready(Ok(())) => vec![0], Poll::Ready(Err(e)) => vec![1, e as i64] } }
fn digest(s: &str) -> i64 { s.bytes().fold(7i64, |h, b| (h * 31 + b as i64) % 1_000_003) }

fn wakes() -> i64 { WAKES.load(SeqCst) }
fn c_stream<S: Stream<Item = u32>>(s: &mut S) -> Vec<i64> { let w0 = wakes(); let p = with_cx(|cx| unsafe { Pin::new_unchecked(&mut *s) }.poll_next(cx)); let mut r = match p { Poll::Pending => vec![0, -1], Poll::Ready(None) => vec![0, -2], Poll::Ready(Some(v)) => vec![0, v as i64] }; r.push(wakes() - w0); r }
fn c_sink<S: Sink<u32, Error = u8>>(s: &mut S, op: &[i64]) -> Vec<i64> {
    let mut r = vec![op[0]];
    let w0 = wakes();
    let pin = unsafe { Pin::new_unchecked(&mut *s) };
    match op[0] {
        1 => r.extend(poll_code(with_cx(|cx| pin.poll_ready(cx)))),
        2 => r.extend(match pin.start_send(op.get(1).copied().unwrap_or(0) as u32) { Ok(()) => vec![0], Err(e) => vec![1, e as i64] }),
        3 => r.extend(poll_code(with_cx(|cx| pin.poll_flush(cx)))),
        _ => r.extend(poll_code(with_cx(|cx| pin.poll_close(cx)))),
    }
    r.push(100 + wakes() - w0);      // wakes of the caller's waker during this call
    r
}
fn c_dbg<S: core::fmt::Debug>(s: &S) -> Vec<i64> { let t = format!("{:?}", s); vec![5, t.len() as i64, digest(&t)] }
fn c_dsp<S: core::fmt::Display>(s: &S) -> Vec<i64> { let t = format!("{}", s); vec![6, t.len() as i64, digest(&t)] }
fn c_asref<S: AsRef<[u8; 4]>>(s: &S) -> Vec<i64> { let t = s.as_ref(); vec![7, t[0] as i64, t[1] as i64, t[2] as i64, t[3] as i64] }

fn family(op: &[i64]) -> usize { match op[0] { 0 => 0, 1 | 2 | 3 | 4 => 1, 5 => 2, 6 => 3, _ => 4 } }
fn fam_of_method(m: i64) -> usize { match m { 0 => 0, 1 | 2 | 3 | 4 => 1, 5 => 2, 6 => 3, _ => 4 } }
fn sink_state(c: &Chan) -> Vec<i64> { let mut v = vec![c.closed as i64, c.buf.len() as i64]; v.extend(c.buf.iter().map(|x| *x as i64)); v.push(-1); v.extend(c.flushed.iter().map(|x| *x as i64)); v }

pub fn run(params: &[i64], ops: &Rows, mon: &mut Mon) -> Rows {
    let kind = params.get(0).copied().unwrap_or(0);
    WCLONES.store(0, SeqCst); WRELEASED.store(0, SeqCst);
    let mut d = Chan::new(1);
    let res_d: Rows = ops.iter().map(|op| match family(op) { 0 => c_stream(&mut d), 1 => c_sink(&mut d, op), 2 => c_dbg(&d), 3 => c_dsp(&d), _ => c_asref(&d) }).collect();
    let log_d = take_log();
    let st_d = sink_state(&d);
    let mut res_o: Rows = vec![vec![]; ops.len()];
    let mut log_o: Vec<Vec<Vec<i64>>> = vec![vec![]; 5];
    let st_o: Option<Vec<i64>> = None;
    macro_rules! each { ($fam:expr, $obj:expr, |$o:ident, $op:ident| $call:expr) => {{ let mut $o = $obj; for (k, $op) in ops.iter().enumerate() { if family($op) == $fam { res_o[k] = $call; } } drop($o); log_o[$fam] = take_log(); }} }
    if kind == 0 {
        each!(0, trait_obj!(Chan::new(1) as Stream), |o, op| c_stream(&mut o));
        each!(1, trait_obj!(Chan::new(1) as Sink), |o, op| c_sink(&mut o, op));
        each!(2, trait_obj!(Chan::new(1) as Debug), |o, op| c_dbg(&o));
        each!(3, trait_obj!(Chan::new(1) as Display), |o, op| c_dsp(&o));
        each!(4, trait_obj!(Chan::new(1) as AsRef), |o, op| c_asref(&o));
    } else {
        let arc = Arc::new(());
        let c = || CArc::<()>::from(arc.clone());
        each!(0, trait_obj!((Chan::new(1), c()) as Stream), |o, op| c_stream(&mut o));
        each!(1, trait_obj!((Chan::new(1), c()) as Sink), |o, op| c_sink(&mut o, op));
        each!(2, trait_obj!((Chan::new(1), c()) as Debug), |o, op| c_dbg(&o));
        each!(3, trait_obj!((Chan::new(1), c()) as Display), |o, op| c_dsp(&o));
        each!(4, trait_obj!((Chan::new(1), c()) as AsRef), |o, op| c_asref(&o));
        if Arc::strong_count(&arc) != 1 { mon.fail(format!("context count {} after the objects are gone", Arc::strong_count(&arc))); }
    }
    if WCLONES.load(SeqCst) != WRELEASED.load(SeqCst) { mon.fail(format!("the caller's waker was cloned {} times and its clones released {} times", WCLONES.load(SeqCst), WRELEASED.load(SeqCst))); }
    if res_d != res_o { let k = res_d.iter().zip(res_o.iter()).position(|(a, b)| a != b).unwrap_or(0); mon.fail(format!("call {} returns {:?} directly but {:?} through the object of its trait", k, res_d.get(k), res_o.get(k))); }
    for fam in 0..5 {
        let want: Vec<&Vec<i64>> = log_d.iter().filter(|e| fam_of_method(e[1]) == fam).collect();
        let got: Vec<&Vec<i64>> = log_o[fam].iter().collect();
        if want != got { mon.fail(format!("ext trait {}: the implementor saw {:?} directly but {:?} through the object", fam, want.iter().take(5).collect::<Vec<_>>(), got.iter().take(5).collect::<Vec<_>>())); }
    }
    if let Some(s) = st_o { if s != st_d { mon.fail(format!("final sink state {:?} directly, {:?} through the objects", st_d, s)); } }
    drop(d);
    let _ = take_drops();
    res_o
}
