//! Scenario 108 (C08, parts of C01/C06): a group with three optional traits; eight implementor types enable the eight subsets.
//! For every (enabled set, requested set, cast operation, container kind) the operation must succeed exactly when requested is a
//! subset of enabled; after success every mandatory and requested trait must reach the same instance, casting back must keep every
//! enabled trait, and the instance is destroyed exactly once.
//! ops: rows [castop, request mask]   castop 0 check / 1 as_ref / 2 as_mut / 3 cast (+ upcast back) / 4 into
//! params: [enabled mask 0..7, container 0 Box / 1 &mut / 2 &]
//! output row per op: [castop, request, success, peek, a, b, c, still-enabled mask after upcast (cast only, else -1)]  (-1 = not called)
use crate::*;
use cglue_macro::check;

#[cglue_trait] pub trait Peek { fn peek(&self) -> i64; }
#[cglue_trait] pub trait OptA { fn a(&self) -> i64; }
#[cglue_trait] pub trait OptB { fn b(&self, x: i64) -> i64; }
#[cglue_trait] pub trait OptC { fn c(&self) -> i64; }

cglue_trait_group!(Grp, Peek, { OptA, OptB, OptC });

fn ca<T: OptA>(t: &T) -> i64 { t.a() }
fn cb<T: OptB>(t: &T) -> i64 { t.b(5) }
fn cc<T: OptC>(t: &T) -> i64 { t.c() }

macro_rules! implementor {
    ($name:ident, $mask:expr, [$($tr:ident),*]) => {
        pub struct $name { id: i64 }
        impl $name { fn new(id: i64) -> Self { LIVE.fetch_add(1, SeqCst); $name { id } } }
        impl Drop for $name { fn drop(&mut self) { LIVE.fetch_sub(1, SeqCst); DROPS.with(|d| d.borrow_mut().push(self.id)); } }
        impl Peek for $name { fn peek(&self) -> i64 { log_call(vec![self.id, 0]); self.id * 10 } }
        cglue_impl_group!($name, Grp, { $($tr),* });
    };
}
implementor!(N0, 0, []);
implementor!(N1, 1, [OptA]);
implementor!(N2, 2, [OptB]);
implementor!(N3, 3, [OptA, OptB]);
implementor!(N4, 4, [OptC]);
implementor!(N5, 5, [OptA, OptC]);
implementor!(N6, 6, [OptB, OptC]);
implementor!(N7, 7, [OptA, OptB, OptC]);
macro_rules! impl_a { ($($n:ident),*) => { $( impl OptA for $n { fn a(&self) -> i64 { log_call(vec![self.id, 1]); self.id * 10 + 1 } } )* } }
macro_rules! impl_b { ($($n:ident),*) => { $( impl OptB for $n { fn b(&self, x: i64) -> i64 { log_call(vec![self.id, 2, x]); self.id * 10 + 2 + x } } )* } }
macro_rules! impl_c { ($($n:ident),*) => { $( impl OptC for $n { fn c(&self) -> i64 { log_call(vec![self.id, 3]); self.id * 10 + 3 } } )* } }
impl_a!(N1, N3, N5, N7);
impl_b!(N2, N3, N6, N7);
impl_c!(N4, N5, N6, N7);

/// one (operation, request) on a freshly built group object `$mk` (an expression building it)
macro_rules! one {
    ($op:expr, $req:expr, $mk:expr, $row:ident, [$($tr:tt)+], [$($slot:expr => $call:ident),*]) => {{
        match $op {
            0 => { let g = $mk; let ok = check!(g impl $($tr)+); $row[2] = ok as i64; }
            1 => { let g = $mk; match as_ref!(g impl $($tr)+) { Some(r) => { $row[2] = 1; $row[3] = r.peek(); $( $row[$slot] = $call(r); )* } None => { $row[2] = 0; } } }
            2 => { let mut g = $mk; match as_mut!(g impl $($tr)+) { Some(r) => { $row[2] = 1; $row[3] = r.peek(); $( $row[$slot] = $call(&*r); )* } None => { $row[2] = 0; } } }
            3 => { let g = $mk; match cast!(g impl $($tr)+) {
                    Some(c) => { $row[2] = 1; $row[3] = c.peek(); $( $row[$slot] = $call(&c); )*
                                 let back = c.upcast();
                                 $row[7] = (check!(back impl OptA) as i64) | (check!(back impl OptB) as i64) << 1 | (check!(back impl OptC) as i64) << 2;
                                 if back.peek() != $row[3] { $row[7] = -2; } }
                    None => { $row[2] = 0; } } }
            _ => { let g = $mk; match into!(g impl $($tr)+) { Some(c) => { $row[2] = 1; $row[3] = c.peek(); $( $row[$slot] = $call(&c); )* } None => { $row[2] = 0; } } }
        }
    }};
}
macro_rules! by_req {
    ($op:expr, $req:expr, $mk:expr, $row:ident) => {
        match $req {
            1 => one!($op, $req, $mk, $row, [OptA], [4 => ca]),
            2 => one!($op, $req, $mk, $row, [OptB], [5 => cb]),
            3 => one!($op, $req, $mk, $row, [OptB + OptA], [4 => ca, 5 => cb]),
            4 => one!($op, $req, $mk, $row, [OptC], [6 => cc]),
            5 => one!($op, $req, $mk, $row, [OptA + OptC], [4 => ca, 6 => cc]),
            6 => one!($op, $req, $mk, $row, [OptC + OptB], [5 => cb, 6 => cc]),
            _ => one!($op, $req, $mk, $row, [OptC + OptA + OptB], [4 => ca, 5 => cb, 6 => cc]),
        }
    };
}
macro_rules! by_container {
    ($ty:ident, $cont:expr, $op:expr, $req:expr, $row:ident) => {
        match $cont {
            0 => by_req!($op, $req, group_obj!($ty::new(3) as Grp), $row),
            1 => { let mut n = $ty::new(3); by_req!($op, $req, group_obj!(&mut n as Grp), $row) }
            _ => { let n = $ty::new(3); by_req!($op, $req, group_obj!(&n as Grp), $row) }
        }
    };
}

pub fn run(params: &[i64], ops: &Rows, mon: &mut Mon) -> Rows {
    let enabled = params.get(0).copied().unwrap_or(0) & 7;
    let cont = params.get(1).copied().unwrap_or(0);
    let mut out = vec![];
    for (k, op) in ops.iter().enumerate() {
        let (castop, req) = (op[0], op[1].max(1).min(7));
        let mut row: Vec<i64> = vec![castop, req, -1, -1, -1, -1, -1, -1];
        let _ = take_drops(); let _ = take_log();
        match enabled {
            0 => by_container!(N0, cont, castop, req, row), 1 => by_container!(N1, cont, castop, req, row),
            2 => by_container!(N2, cont, castop, req, row), 3 => by_container!(N3, cont, castop, req, row),
            4 => by_container!(N4, cont, castop, req, row), 5 => by_container!(N5, cont, castop, req, row),
            6 => by_container!(N6, cont, castop, req, row), _ => by_container!(N7, cont, castop, req, row),
        }
        // ---- monitor (independent of any model)
        let want = (req & enabled) == req;
        if (row[2] == 1) != want { mon.fail(format!("op{} castop {} request {:03b} on enabled {:03b}: success={} expected {}", k, castop, req, enabled, row[2], want)); }
        if row[2] == 1 && castop != 0 {
            if row[3] != 30 { mon.fail(format!("op{} mandatory trait reached another instance ({})", k, row[3])); }
            for (bit, slot, exp) in [(1, 4, 31), (2, 5, 37), (4, 6, 33)] {
                if req & bit != 0 && row[slot] != exp { mon.fail(format!("op{} requested trait bit {} returned {} instead of {}", k, bit, row[slot], exp)); }
            }
            if castop == 3 && row[7] != enabled { mon.fail(format!("op{} after casting back the enabled set is {:03b} instead of {:03b}", k, row[7], enabled)); }
        }
        let d = take_drops();
        if d != vec![3] { mon.fail(format!("op{} instance destructor ran {:?} (expected exactly once)", k, d)); }
        let log = take_log();
        if log.iter().any(|l| l[0] != 3) { mon.fail(format!("op{} a call reached another instance", k)); }
        out.push(row);
    }
    out
}
