//! Scenario 107 (C01): CONSUMING calls.  A trait with by-reference methods and one `self` method; the same history (hits and reads, then the
//! consuming call) runs directly on a value and through every owned kind of object: boxed single-trait object, boxed with a CArc context,
//! group object, a successful `cast!` of the group, an `into!` of the group.  The consuming method reports what it saw of its own value —
//! including whether the value's destructor had ALREADY run when the method executed — and the destructor must run once, after the method.
//! ops: '0 v' hit(v)   '1' id   (the consuming call `finish(tag)` is appended by the driver)      params: [container 0..4] [tag]
use crate::*;
use std::sync::atomic::AtomicI64 as A64;

static CLOSED: A64 = A64::new(0);      // destructor runs of Session values since the last reset
static OPEN: A64 = A64::new(0);        // live Session values

#[cglue_trait]
pub trait Conn {
    fn hit(&mut self, v: u32) -> u64;
    fn id(&self) -> i64;
    /// consuming: reports [id, hits, sum, tag, destructor runs seen so far, live values seen]
    fn finish(self, tag: i64) -> [i64; 6];
}
#[cglue_trait]
pub trait Extra { fn extra(&self) -> i64; }

pub struct Session { id: i64, hits: i64, sum: u64 }
impl Session { fn new(id: i64) -> Self { OPEN.fetch_add(1, SeqCst); LIVE.fetch_add(1, SeqCst); Session { id, hits: 0, sum: 0 } } }
impl Drop for Session { fn drop(&mut self) { CLOSED.fetch_add(1, SeqCst); OPEN.fetch_sub(1, SeqCst); LIVE.fetch_sub(1, SeqCst); log_drop(-1000 - self.id); } }
impl Conn for Session {
    fn hit(&mut self, v: u32) -> u64 { log_call(vec![self.id, 0, v as i64]); self.hits += 1; self.sum = self.sum.wrapping_mul(31).wrapping_add(v as u64); self.sum }
    fn id(&self) -> i64 { log_call(vec![self.id, 1]); self.id }
    fn finish(self, tag: i64) -> [i64; 6] { log_call(vec![self.id, 2, tag]); [self.id, self.hits, self.sum as i64, tag, CLOSED.load(SeqCst), OPEN.load(SeqCst)] }
}
impl Extra for Session { fn extra(&self) -> i64 { log_call(vec![self.id, 3]); self.id * 100 + self.hits } }

cglue_trait_group!(ConnGrp, Conn, { Extra });
cglue_impl_group!(Session, ConnGrp, { Extra });

fn drive<T: Conn>(mut t: T, ops: &Rows, tag: i64) -> Rows {
    let mut out: Rows = vec![];
    for op in ops { out.push(match op[0] { 0 => vec![0, t.hit(op.get(1).copied().unwrap_or(0) as u32) as i64], _ => vec![1, t.id()] }); }
    let r = t.finish(tag);
    let mut row = vec![2]; row.extend(r.iter().copied()); row.push(CLOSED.load(SeqCst)); row.push(OPEN.load(SeqCst));
    out.push(row);
    out
}

pub fn run(params: &[i64], ops: &Rows, mon: &mut Mon) -> Rows {
    let kind = params.get(0).copied().unwrap_or(0);
    let tag = params.get(1).copied().unwrap_or(7);
    CLOSED.store(0, SeqCst); OPEN.store(0, SeqCst);
    let res_d = drive(Session::new(1), ops, tag);
    let log_d = take_log(); let drops_d = take_drops();
    CLOSED.store(0, SeqCst); OPEN.store(0, SeqCst);
    let arc = Arc::new(());
    let res_o = match kind {
        0 => drive(trait_obj!(Session::new(1) as Conn), ops, tag),
        1 => drive(trait_obj!((Session::new(1), CArc::<()>::from(arc.clone())) as Conn), ops, tag),
        2 => drive(group_obj!(Session::new(1) as ConnGrp), ops, tag),
        3 => { let g = group_obj!(Session::new(1) as ConnGrp); match cast!(g impl Extra) { Some(c) => { let e = c.extra(); if e != 100 { mon.fail(format!("cast group: extra() = {} before any call", e)); } let _ = take_log(); drive(c, ops, tag) } None => { mon.fail("cast!(impl Extra) failed although Extra is enabled".into()); vec![] } } }
        _ => { let g = group_obj!((Session::new(1), CArc::<()>::from(arc.clone())) as ConnGrp); match into!(g impl Extra) { Some(c) => drive(c, ops, tag), None => { mon.fail("into!(impl Extra) failed although Extra is enabled".into()); vec![] } } }
    };
    let log_o = take_log(); let drops_o = take_drops();
    if Arc::strong_count(&arc) != 1 { mon.fail(format!("context count {} after the consuming call", Arc::strong_count(&arc))); }
    if res_d != res_o { let k = res_d.iter().zip(res_o.iter()).position(|(a, b)| a != b).unwrap_or(res_d.len().min(res_o.len())); mon.fail(format!("call {} returns {:?} directly but {:?} through the object (consuming call row: [2, id, hits, sum, tag, destructor runs seen inside, live values seen inside, destructor runs after, live after])", k, res_d.get(k), res_o.get(k))); }
    if log_d != log_o { mon.fail(format!("the implementor saw {:?} directly but {:?} through the object", log_d.iter().rev().take(3).collect::<Vec<_>>(), log_o.iter().rev().take(3).collect::<Vec<_>>())); }
    if drops_d != drops_o { mon.fail(format!("destructor runs {:?} directly, {:?} through the object", drops_d, drops_o)); }
    // absolute: inside the consuming method nothing was destroyed yet and exactly one value lives; afterwards it is destroyed exactly once
    if let Some(r) = res_o.last() { if r.len() == 9 && (r[5] != 0 || r[6] != 1 || r[7] != 1 || r[8] != 0) { mon.fail(format!("consuming call through the object: destructor runs/live values seen inside the method {} / {}, after it {} / {} (expected 0 / 1 and 1 / 0)", r[5], r[6], r[7], r[8])); } }
    res_o
}
