//! Behavioural harness for the code generator: traits made CGlue-compatible by the REAL macros, implementors that carry state,
//! log every call and count destructors; the same histories are executed directly and through every kind of opaque object.
//! stdin: case lines "<scenario> <params> | ops"; stdout: "rows # k=v fails=.." (format of harness/rt).
#![allow(clippy::all, dead_code, unused_imports)]
use cglue::arc::{CArc, CArcSome};
use cglue::callback::OpaqueCallback;
use cglue::iter::CIterator;
use cglue::prelude::v1::*;
use cglue::*;
use std::cell::RefCell;
use std::io::BufRead;
use std::sync::atomic::{AtomicI64, Ordering::SeqCst};
use std::sync::Arc;

mod acro;
mod alloc;
mod assoc;
mod casts;
mod consume;
mod ext;
mod fwd;
mod generic;
mod life;
mod shapes;

#[global_allocator]
static GLOBAL: alloc::Track = alloc::Track;

pub static LIVE: AtomicI64 = AtomicI64::new(0);
thread_local! {
    pub static LOG: RefCell<Vec<Vec<i64>>> = RefCell::new(Vec::new());   // call log: [instance id, method id, args digest..]
    pub static DROPS: RefCell<Vec<i64>> = RefCell::new(Vec::new());
}
pub fn log_call(row: Vec<i64>) { LOG.with(|l| l.borrow_mut().push(row)); }
pub fn log_drop(v: i64) { DROPS.with(|d| d.borrow_mut().push(v)); }
pub fn take_log() -> Vec<Vec<i64>> { LOG.with(|l| std::mem::take(&mut *l.borrow_mut())) }
pub fn take_drops() -> Vec<i64> { DROPS.with(|l| std::mem::take(&mut *l.borrow_mut())) }

pub type Rows = Vec<Vec<i64>>;
#[derive(Default)]
pub struct Mon { pub fails: Vec<String> }
impl Mon { pub fn fail(&mut self, s: String) { let d = alloc::domain(0); if self.fails.len() < 8 { self.fails.push(s.clone()); } drop(s); alloc::domain(d); } }

fn ints(s: &str) -> Vec<i64> { s.split_whitespace().map(|t| t.parse::<i64>().expect("int")).collect() }

fn main() {
    std::panic::set_hook(Box::new(|_| {}));
    let stdin = std::io::stdin();
    for line in stdin.lock().lines() {
        let line = line.unwrap();
        if line.trim().is_empty() { continue; }
        let (hd, body) = match line.find('|') { Some(i) => (&line[..i], &line[i + 1..]), None => (&line[..], "") };
        let hdr = ints(hd);
        let ops: Rows = if body.trim().is_empty() { vec![] } else { body.split(';').map(ints).collect() };
        let _ = take_log(); let _ = take_drops();
        alloc::flush();
        let live0 = LIVE.load(SeqCst);
        let mut mon = Mon::default();
        let base = alloc::snap();
        alloc::domain(1);
        let rows = match hdr[0] {
            101 => shapes::run(&hdr[1..], &ops, &mut mon),
            102 => generic::run(&hdr[1..], &ops, &mut mon),
            107 => consume::run(&hdr[1..], &ops, &mut mon),
            109 => acro::run(&hdr[1..], &ops, &mut mon),
            111 => assoc::run(&hdr[1..], &ops, &mut mon),
            104 => fwd::run(&hdr[1..], &ops, &mut mon),
            105 => ext::run(&hdr[1..], &ops, &mut mon),
            106 => life::run(&hdr[1..], &ops, &mut mon),
            108 => casts::run(&hdr[1..], &ops, &mut mon),
            _ => vec![vec![-3]],
        };
        alloc::domain(0);
        let live1 = LIVE.load(SeqCst);
        if live1 != live0 { mon.fail(format!("{} instances still alive after the case", live1 - live0)); }
        let text: Vec<String> = rows.iter().map(|r| r.iter().map(|v| v.to_string()).collect::<Vec<_>>().join(" ")).collect();
        drop(rows);
        let _ = take_log(); let _ = take_drops();
        let after = alloc::snap();
        println!("{} # leak_bytes={} leak_blocks={} mismatch={} double={} unknown={} fails={}", text.join(" ; "),
            after.live_bytes - base.live_bytes, after.live_blocks - base.live_blocks, after.mismatch - base.mismatch, after.double - base.double, after.unknown - base.unknown,
            if mon.fails.is_empty() { "-".to_string() } else { mon.fails.join("|").replace(' ', "_") });
    }
}
