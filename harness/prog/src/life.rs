//! Scenario 106 (C06/C07): lifecycle histories over a pool of opaque objects sharing one reference-counted context.
//! ops (h = pool slot; slots are numbered in creation order; an op on a dead/wrong-kind slot is rejected):
//!  '0 id' create a boxed Node object with a clone of the context     '8 id' create a boxed Clone-able object     '9 id' create a RefNode object
//!  '10 id e' create a boxed group object (enabled optional traits: bit0 Clone)
//!  '1 h' call a by-reference method      '2 h' obtain an owned wrapped child (Node::child)      '3 h' obtain a borrowed wrapped child, use and release it
//!  '4 h' consuming call returning a wrapped child (Node::into_child)     '5 h' consuming call returning a plain value (Node::fin)
//!  '6 h' clone (Clone objects and groups with Clone enabled)             '7 h' drop
//!  '16 h' consuming call returning a plain value on a GROUP object (GFin::gfin)     '17 h' consuming call returning a wrapped child on a GROUP object (GFin::ginto_child)
//!  '18 h' obtain an owned wrapped child through a &mut self method (Node::child_mut)     '19 h' the same on a GROUP object (GFin::gchild_mut)
//!  '20 h' obtain an owned child wrapped as a GROUP object (#[wrap_with_group]; Clone enabled)
//!  '15 -77' create a boxed Peek2 object around a ZERO-SIZED instance
//!  '11 h' cast! the group to Clone (fails and destroys the group when Clone is not enabled)   '12 h' upcast a cast group back
//! after the script every slot is dropped in order.
//! output per op: [code ok new-slot] ; [context count above baseline ; live instances ; destructors that ran since the last op (ids)]
//! params: [context kind]  0 (default) the shared context is a `CArc<c_void>` (erased form of a CArc<()>: the count is the Arc's strong count);
//!                         1 a ZERO-SIZED user context whose Clone and Drop maintain a count in a static (a handle onto one process-wide library)
//!                         2 the erased form of a CArc whose payload is over-aligned (64 bytes)      3 a foreign CArc (published layout, its own counting functions)
use crate::*;

/// the shared context in its ERASED form, as plugin entry points receive it: every creation goes through CArc::<T>::into_opaque
pub mod arc_ctx {
    use crate::*;
    use cglue_macro::check;
    pub type Ctx = CArc<cglue::trait_group::c_void>;
    thread_local! { static CTX_PROBE: std::cell::Cell<*const Arc<()>> = std::cell::Cell::new(std::ptr::null()); }
    fn ctx_begin(arc: &Arc<()>) { CTX_PROBE.with(|c| c.set(arc as *const Arc<()>)); }
    fn ctx_end() { CTX_PROBE.with(|c| c.set(std::ptr::null())); }
    fn mk_ctx(arc: &Arc<()>) -> Ctx { CArc::<()>::from(arc.clone()).into_opaque() }
    /// how many references to the shared context exist right now (None outside a run)
    fn cur_count() -> Option<i64> { let p = CTX_PROBE.with(|c| c.get()); if p.is_null() { None } else { Some(Arc::strong_count(unsafe { &*p }) as i64) } }
    include!("life_body.rs");
}

/// a zero-sized user context: holds no data, but every holder must have obtained it through Clone and releases it through Drop
pub mod zst_ctx {
    use crate::*;
    use cglue_macro::check;
    static Z_LIVE: AtomicI64 = AtomicI64::new(0);
    static Z_ON: AtomicI64 = AtomicI64::new(0);
    pub struct ZCtx(());
    impl ZCtx { fn open() -> Self { Z_LIVE.fetch_add(1, SeqCst); ZCtx(()) } }
    impl Clone for ZCtx { fn clone(&self) -> Self { Z_LIVE.fetch_add(1, SeqCst); ZCtx(()) } }
    impl Drop for ZCtx { fn drop(&mut self) { Z_LIVE.fetch_sub(1, SeqCst); } }
    pub type Ctx = ZCtx;
    fn ctx_begin(_arc: &Arc<()>) { Z_LIVE.store(1, SeqCst); Z_ON.store(1, SeqCst); }
    fn ctx_end() { Z_ON.store(0, SeqCst); }
    fn mk_ctx(_arc: &Arc<()>) -> Ctx { ZCtx::open() }
    fn cur_count() -> Option<i64> { if Z_ON.load(SeqCst) == 1 { Some(Z_LIVE.load(SeqCst)) } else { None } }
    include!("life_body.rs");
}

/// the erased context of a payload that is OVER-ALIGNED (64 bytes): the reference counters of its allocation do not sit where they sit for
/// `Arc<c_void>`-like payloads, so only the functions stored in the handle (instantiated for the payload type) may touch them
pub mod arc64_ctx {
    use crate::*;
    use cglue_macro::check;
    #[repr(align(64))]
    pub struct Wide(pub u8);
    pub type Ctx = CArc<cglue::trait_group::c_void>;
    thread_local! { static OWN: RefCell<Option<Arc<Wide>>> = RefCell::new(None); }
    fn ctx_begin(_arc: &Arc<()>) { let d = crate::alloc::domain(0); OWN.with(|c| *c.borrow_mut() = Some(Arc::new(Wide(7)))); crate::alloc::domain(d); }
    fn ctx_end() { let d = crate::alloc::domain(0); OWN.with(|c| *c.borrow_mut() = None); crate::alloc::domain(d); }
    fn mk_ctx(_arc: &Arc<()>) -> Ctx { OWN.with(|c| CArc::<Wide>::from(c.borrow().as_ref().unwrap().clone()).into_opaque()) }
    fn cur_count() -> Option<i64> { OWN.with(|c| c.borrow().as_ref().map(|a| Arc::strong_count(a) as i64)) }
    include!("life_body.rs");
}

/// a FOREIGN context: a handle that was not made by this library's `From<Arc<T>>` but built through the published three-field layout
/// (instance, clone function, release function) by "another module" whose functions keep the count in a record of their own.  Every
/// reference a derived object holds must have been taken through the stored clone function and is given back through the stored release function.
pub mod foreign_ctx {
    use crate::*;
    use cglue_macro::check;
    use cglue::trait_group::c_void;
    pub type Ctx = CArc<c_void>;
    #[repr(C)]
    struct Mirror { instance: *const c_void, clone_fn: Option<unsafe extern "C" fn(*const c_void) -> *const c_void>, drop_fn: Option<unsafe extern "C" fn(*const c_void)> }
    static F_COUNT: AtomicI64 = AtomicI64::new(0);
    static F_ON: AtomicI64 = AtomicI64::new(0);
    static F_BAD: AtomicI64 = AtomicI64::new(0);
    static RECORD: u64 = 0x5eed;
    unsafe extern "C" fn f_clone(p: *const c_void) -> *const c_void { if p != &RECORD as *const u64 as *const c_void { F_BAD.fetch_add(1, SeqCst); } F_COUNT.fetch_add(1, SeqCst); p }
    unsafe extern "C" fn f_drop(p: *const c_void) { if p != &RECORD as *const u64 as *const c_void { F_BAD.fetch_add(1, SeqCst); } F_COUNT.fetch_sub(1, SeqCst); }
    fn ctx_begin(_arc: &Arc<()>) { F_COUNT.store(1, SeqCst); F_ON.store(1, SeqCst); F_BAD.store(0, SeqCst); }
    fn ctx_end() { F_ON.store(0, SeqCst); }
    fn mk_ctx(_arc: &Arc<()>) -> Ctx {
        assert_eq!(std::mem::size_of::<Mirror>(), std::mem::size_of::<Ctx>());
        F_COUNT.fetch_add(1, SeqCst);
        unsafe { std::mem::transmute::<Mirror, Ctx>(Mirror { instance: &RECORD as *const u64 as *const c_void, clone_fn: Some(f_clone), drop_fn: Some(f_drop) }) }
    }
    /// (a function entered with another instance pointer than the record's shows up as an impossible count)
    fn cur_count() -> Option<i64> { if F_ON.load(SeqCst) == 1 { Some(F_COUNT.load(SeqCst) + 1000 * F_BAD.load(SeqCst)) } else { None } }
    include!("life_body.rs");
}

pub fn run(params: &[i64], ops: &Rows, mon: &mut Mon) -> Rows {
    match params.get(0).copied().unwrap_or(0) { 1 => zst_ctx::run(params, ops, mon), 2 => arc64_ctx::run(params, ops, mon), 3 => foreign_ctx::run(params, ops, mon), _ => arc_ctx::run(params, ops, mon) }
}
