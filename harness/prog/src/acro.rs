//! Scenario 109 (C01/C08): a group whose optional traits have ACRONYM-style names (their case-sensitive order differs from the order of their
//! lower-cased names: IOPort < IdPort but "idport" < "ioport") and IDENTICAL method lists (same names, same signatures).  Every view of the group
//! (as_ref!, as_mut!, cast!, upcast, into!) must reach the method of the REQUESTED trait; a swapped vtable slot stays type-correct and silent here.
//! params: [container 0 Box / 1 &mut / 2 Box with a CArc context]      ops are ignored (one fixed call sequence)
//! output: the values read through the views, in order (the monitor compares them with direct calls on an identical value)
use crate::*;
use cglue_macro::check;

#[cglue_trait] pub trait DBase { fn id(&self) -> i64; }
#[cglue_trait] pub trait IOPort { fn name(&self) -> i64; fn bump(&mut self) -> i64; fn bumps(&self) -> i64; }
#[cglue_trait] pub trait IdPort { fn name(&self) -> i64; fn bump(&mut self) -> i64; fn bumps(&self) -> i64; }
#[cglue_trait] pub trait AC { fn name(&self) -> i64; }
#[cglue_trait] pub trait Ab { fn name(&self) -> i64; }

cglue_trait_group!(DevGroup, DBase, { IOPort, IdPort, AC, Ab });

pub struct Dev { io: i64, idb: i64 }
impl Dev { fn new() -> Self { LIVE.fetch_add(1, SeqCst); Dev { io: 0, idb: 0 } } }
impl Drop for Dev { fn drop(&mut self) { LIVE.fetch_sub(1, SeqCst); DROPS.with(|d| d.borrow_mut().push(77)); } }
impl DBase for Dev { fn id(&self) -> i64 { 7 } }
impl IOPort for Dev { fn name(&self) -> i64 { 100 } fn bump(&mut self) -> i64 { self.io += 1; self.io } fn bumps(&self) -> i64 { self.io } }
impl IdPort for Dev { fn name(&self) -> i64 { 200 } fn bump(&mut self) -> i64 { self.idb += 10; self.idb } fn bumps(&self) -> i64 { self.idb } }
impl AC for Dev { fn name(&self) -> i64 { 300 } }
impl Ab for Dev { fn name(&self) -> i64 { 400 } }
cglue_impl_group!(Dev, DevGroup, { IOPort, IdPort, AC, Ab });

macro_rules! seq {
    ($g:ident, $out:ident) => {{
        $out.push($g.id());
        if let Some(r) = as_ref!($g impl IdPort) { $out.push(r.name()); $out.push(r.bumps()); } else { $out.push(-1); $out.push(-1); }
        if let Some(r) = as_ref!($g impl IOPort) { $out.push(r.name()); $out.push(r.bumps()); } else { $out.push(-1); $out.push(-1); }
        if let Some(r) = as_mut!($g impl IdPort) { $out.push(r.bump()); } else { $out.push(-1); }
        if let Some(r) = as_mut!($g impl IOPort) { $out.push(r.bump()); $out.push(r.bump()); } else { $out.push(-1); $out.push(-1); }
        if let Some(r) = as_ref!($g impl IOPort + IdPort) { $out.push(IOPort::name(r)); $out.push(IdPort::name(r)); $out.push(IOPort::bumps(r)); $out.push(IdPort::bumps(r)); } else { $out.extend([-1, -1, -1, -1]); }
        if let Some(r) = as_ref!($g impl AC) { $out.push(r.name()); } else { $out.push(-1); }
        if let Some(r) = as_ref!($g impl Ab) { $out.push(r.name()); } else { $out.push(-1); }
        if let Some(r) = as_ref!($g impl Ab + AC + IdPort) { $out.push(AC::name(r)); $out.push(Ab::name(r)); $out.push(IdPort::name(r)); } else { $out.extend([-1, -1, -1]); }
        $out.push(check!($g impl IOPort + IdPort + AC + Ab) as i64);
    }};
}

/// the owned paths: cast (one trait), back, cast (two traits), back, into (all four)
macro_rules! owned {
    ($g:ident, $out:ident) => {{
        match cast!($g impl IdPort) {
            Some(mut c) => { $out.push(c.name()); $out.push(c.bump()); let back = c.upcast();
                match cast!(back impl IOPort + IdPort) {
                    Some(c2) => { $out.push(IOPort::name(&c2)); $out.push(IdPort::name(&c2)); $out.push(IOPort::bumps(&c2)); $out.push(IdPort::bumps(&c2)); let back2 = c2.upcast();
                        match into!(back2 impl Ab + AC + IOPort + IdPort) { Some(f) => { $out.push(IOPort::name(&f)); $out.push(IdPort::name(&f)); $out.push(AC::name(&f)); $out.push(Ab::name(&f)); $out.push(IdPort::bumps(&f)); } None => $out.extend([-1, -1, -1, -1, -1]) } }
                    None => $out.extend([-1; 9]) } }
            None => $out.extend([-1; 11]),
        }
    }};
}

pub fn run(params: &[i64], _ops: &Rows, mon: &mut Mon) -> Rows {
    let cont = params.get(0).copied().unwrap_or(0);
    let want: Vec<i64> = vec![7, 200, 0, 100, 0, 10, 1, 2, 100, 200, 2, 10, 300, 400, 300, 400, 200, 1];
    let mut out: Vec<i64> = vec![];
    let arc = Arc::new(());
    let _ = take_drops();
    match cont {
        1 => { let mut d = Dev::new(); { let mut g = group_obj!(&mut d as DevGroup); seq!(g, out); } out.push(d.io * 1000 + d.idb); }
        0 => { let mut g = group_obj!(Dev::new() as DevGroup); seq!(g, out); owned!(g, out); }
        _ => { let mut g = group_obj!((Dev::new(), CArc::<()>::from(arc.clone())) as DevGroup); seq!(g, out); owned!(g, out); }
    }
    let want_full: Vec<i64> = if cont == 1 { let mut w = want.clone(); w.push(2 * 1000 + 10); w } else { let mut w = want.clone(); w.extend([200, 20, 100, 200, 2, 20, 100, 200, 300, 400, 20]); w };
    if out != want_full { let k = out.iter().zip(want_full.iter()).position(|(a, b)| a != b).unwrap_or(out.len().min(want_full.len())); mon.fail(format!("view call {} of the acronym-named group returned {:?}, the requested trait's method returns {:?} (all values {:?})", k, out.get(k), want_full.get(k), out)); }
    if Arc::strong_count(&arc) != 1 { mon.fail(format!("context count {} after the group is gone", Arc::strong_count(&arc))); }
    let d = take_drops();
    if d != vec![77] { mon.fail(format!("instance destructor ran {:?} (expected exactly once)", d)); }
    vec![out]
}
