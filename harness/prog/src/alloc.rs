//! Tracking + quarantining global allocator.
//!
//! Every block gets a header in front of it (magic, size, align, domain).  `dealloc` checks
//! the layout handed to it against the one recorded at allocation (free-with-wrong-size),
//! detects double frees (magic says FREED) and frees of pointers that are not block starts
//! (bad magic).  Blocks allocated while DOMAIN==1 ("under test") are *quarantined* when
//! freed: poisoned, kept out of circulation until `flush()`, so addresses are never reused
//! within a case and a second free is recognised as such instead of corrupting the heap.
use std::alloc::{GlobalAlloc, Layout, System};
use std::sync::atomic::{AtomicI64, AtomicPtr, AtomicU64, AtomicUsize, Ordering::SeqCst};

const LIVE: u64 = 0x4c49_5645_a110_c8ed;
const FREED: u64 = 0xf4ee_d000_dead_beef;
const HDR: usize = 48;

#[repr(C)]
struct Header {
    magic: u64,
    size: usize,
    align: usize,
    domain: usize,
    base: *mut u8,     // what System.alloc returned
    next: *mut Header, // quarantine list
}

pub struct Track;

pub static DOMAIN: AtomicUsize = AtomicUsize::new(0);
pub static LIVE_BYTES: AtomicI64 = AtomicI64::new(0);
pub static LIVE_BLOCKS: AtomicI64 = AtomicI64::new(0);
pub static ERR_MISMATCH: AtomicU64 = AtomicU64::new(0);
pub static ERR_DOUBLE: AtomicU64 = AtomicU64::new(0);
pub static ERR_UNKNOWN: AtomicU64 = AtomicU64::new(0);
pub static N_ALLOC: AtomicU64 = AtomicU64::new(0);
pub static N_FREE: AtomicU64 = AtomicU64::new(0);
static QUARANTINE: AtomicPtr<Header> = AtomicPtr::new(std::ptr::null_mut());

fn prefix(align: usize) -> usize {
    let a = align.max(16);
    (HDR + a - 1) / a * a
}

unsafe impl GlobalAlloc for Track {
    unsafe fn alloc(&self, layout: Layout) -> *mut u8 {
        let pre = prefix(layout.align());
        let total = Layout::from_size_align_unchecked(pre + layout.size(), layout.align().max(16));
        let base = System.alloc(total);
        if base.is_null() {
            return base;
        }
        let user = base.add(pre);
        let h = user.sub(HDR) as *mut Header;
        let dom = DOMAIN.load(SeqCst);
        h.write(Header { magic: LIVE, size: layout.size(), align: layout.align(), domain: dom, base, next: std::ptr::null_mut() });
        if dom == 1 {
            LIVE_BYTES.fetch_add(layout.size() as i64, SeqCst);
            LIVE_BLOCKS.fetch_add(1, SeqCst);
            N_ALLOC.fetch_add(1, SeqCst);
        }
        user
    }

    unsafe fn dealloc(&self, ptr: *mut u8, layout: Layout) {
        let h = ptr.sub(HDR) as *mut Header;
        let magic = (*h).magic;
        if magic == FREED {
            ERR_DOUBLE.fetch_add(1, SeqCst);
            return;
        }
        if magic != LIVE {
            // not the start of a block we handed out: cannot free it safely
            ERR_UNKNOWN.fetch_add(1, SeqCst);
            return;
        }
        if (*h).size != layout.size() || (*h).align != layout.align() {
            ERR_MISMATCH.fetch_add(1, SeqCst);
        }
        let dom = (*h).domain;
        if dom == 1 {
            LIVE_BYTES.fetch_sub((*h).size as i64, SeqCst);
            LIVE_BLOCKS.fetch_sub(1, SeqCst);
            N_FREE.fetch_add(1, SeqCst);
            (*h).magic = FREED;
            std::ptr::write_bytes(ptr, 0xDD, (*h).size);
            // push on the quarantine list
            loop {
                let head = QUARANTINE.load(SeqCst);
                (*h).next = head;
                if QUARANTINE.compare_exchange(head, h, SeqCst, SeqCst).is_ok() {
                    break;
                }
            }
        } else {
            let pre = prefix((*h).align);
            let total = Layout::from_size_align_unchecked(pre + (*h).size, (*h).align.max(16));
            (*h).magic = 0;
            System.dealloc((*h).base, total);
        }
    }
}

/// Really release quarantined blocks (call between cases, single-threaded).
pub fn flush() {
    unsafe {
        let mut h = QUARANTINE.swap(std::ptr::null_mut(), SeqCst);
        while !h.is_null() {
            let next = (*h).next;
            let pre = prefix((*h).align);
            let total = Layout::from_size_align_unchecked(pre + (*h).size, (*h).align.max(16));
            (*h).magic = 0;
            System.dealloc((*h).base, total);
            h = next;
        }
    }
}

#[derive(Clone, Copy, Debug, PartialEq)]
pub struct Snap {
    pub live_bytes: i64,
    pub live_blocks: i64,
    pub mismatch: u64,
    pub double: u64,
    pub unknown: u64,
    pub allocs: u64,
}

pub fn snap() -> Snap {
    Snap {
        live_bytes: LIVE_BYTES.load(SeqCst),
        live_blocks: LIVE_BLOCKS.load(SeqCst),
        mismatch: ERR_MISMATCH.load(SeqCst),
        double: ERR_DOUBLE.load(SeqCst),
        unknown: ERR_UNKNOWN.load(SeqCst),
        allocs: N_ALLOC.load(SeqCst),
    }
}

pub fn domain(d: usize) -> usize {
    DOMAIN.swap(d, SeqCst)
}
