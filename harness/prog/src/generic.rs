//! Scenario 102 (C01/C02): traits with TYPE and LIFETIME parameters.  One implementor type implements two instantiations of the same
//! generic trait (with different behaviour); every history is executed directly and through opaque objects of each instantiation, built
//! from an identical value; results, the calls the implementor saw and its final state must agree.
//! ops: '0 x' Store<u32>::put   '1 i' Store<u32>::get   '2' Store<u32>::all   '3 x' Store<u64>::put   '4 i' Store<u64>::get   '5' Store<u64>::all
//!      '6 n' Store<u32>::feed(callback)   '7 a b c' Store<Pod>::put   '8 i' Store<Pod>::get   '9' Named<'a>::name   '10 i' Named<'a>::pick
//! params: [container 0 Box / 1 &mut / 2 Box with a CArc context]
use crate::shapes::Pod;
use crate::*;

#[cglue_trait]
pub trait Store<T: Copy + 'static> {
    fn put(&mut self, x: T) -> usize;
    fn get(&self, i: usize) -> Option<T>;
    fn all(&self) -> &[T];
    fn feed(&self, cb: OpaqueCallback<T>) -> usize;
    #[int_result]
    fn checked(&self, i: usize) -> Result<T, ()>;
}

#[cglue_trait]
pub trait Named<'a, T: Copy + 'static> {
    fn name(&self) -> &str;
    fn pick(&self, i: usize) -> Option<&T>;
}

pub struct Multi { id: i64, a: Vec<u32>, b: Vec<u64>, c: Vec<Pod>, t: Vec<u32>, label: String }
impl Multi { pub fn new(id: i64) -> Self { LIVE.fetch_add(1, SeqCst); Multi { id, a: vec![1, 2], b: vec![10], c: vec![], t: vec![11, 22, 33, 44], label: format!("multi{}é", id) } } }
impl Drop for Multi { fn drop(&mut self) { LIVE.fetch_sub(1, SeqCst); DROPS.with(|d| d.borrow_mut().push(-1000 - self.id)); } }

impl Store<u32> for Multi {
    fn put(&mut self, x: u32) -> usize { log_call(vec![self.id, 0, x as i64]); self.a.push(x); self.a.len() }
    fn get(&self, i: usize) -> Option<u32> { log_call(vec![self.id, 1, i as i64]); self.a.get(i).copied() }
    fn all(&self) -> &[u32] { log_call(vec![self.id, 2]); &self.a }
    fn feed(&self, mut cb: OpaqueCallback<u32>) -> usize { log_call(vec![self.id, 6]); let mut n = 0; for x in &self.a { n += 1; if !cb.call(*x) { break; } } n }
    fn checked(&self, i: usize) -> Result<u32, ()> { log_call(vec![self.id, 11, i as i64]); self.a.get(i).copied().ok_or(()) }
}
impl Store<u64> for Multi {
    fn put(&mut self, x: u64) -> usize { log_call(vec![self.id, 3, x as i64]); self.b.insert(0, x); self.b.len() + 100 }
    fn get(&self, i: usize) -> Option<u64> { log_call(vec![self.id, 4, i as i64]); self.b.get(i).map(|v| v.wrapping_mul(3)) }
    fn all(&self) -> &[u64] { log_call(vec![self.id, 5]); &self.b }
    fn feed(&self, mut cb: OpaqueCallback<u64>) -> usize { log_call(vec![self.id, 12]); let mut n = 0; for x in self.b.iter().rev() { n += 1; if !cb.call(*x) { break; } } n }
    fn checked(&self, i: usize) -> Result<u64, ()> { log_call(vec![self.id, 13, i as i64]); self.b.get(i).copied().ok_or(()) }
}
impl Store<Pod> for Multi {
    fn put(&mut self, x: Pod) -> usize { log_call(vec![self.id, 7, x.a as i64, x.b as i64, x.c]); self.c.push(x); self.c.len() + 200 }
    fn get(&self, i: usize) -> Option<Pod> { log_call(vec![self.id, 8, i as i64]); self.c.get(i).copied() }
    fn all(&self) -> &[Pod] { log_call(vec![self.id, 14]); &self.c }
    fn feed(&self, mut cb: OpaqueCallback<Pod>) -> usize { log_call(vec![self.id, 15]); let mut n = 0; for x in &self.c { n += 1; if !cb.call(*x) { break; } } n }
    fn checked(&self, i: usize) -> Result<Pod, ()> { log_call(vec![self.id, 16, i as i64]); self.c.get(i).copied().ok_or(()) }
}
impl<'a> Named<'a, u32> for Multi {
    fn name(&self) -> &str { log_call(vec![self.id, 9]); &self.label }
    fn pick(&self, i: usize) -> Option<&u32> { log_call(vec![self.id, 10, i as i64]); self.t.get(i) }
}


fn c32<S: Store<u32>>(s: &mut S, op: &[i64]) -> Vec<i64> {
    let a = |i: usize| op.get(i).copied().unwrap_or(0);
    match op[0] {
        0 => vec![0, s.put(a(1) as u32) as i64],
        1 => vec![1, s.get(a(1) as usize).map(|v| v as i64).unwrap_or(-1), match s.checked(a(1) as usize) { Ok(v) => v as i64, Err(()) => -1 }],
        2 => { let r = s.all(); let mut row = vec![2, r.len() as i64]; row.extend(r.iter().map(|v| *v as i64)); row }
        _ => { let stop = a(1) as usize; let mut got: Vec<i64> = vec![]; let mut f = |x: u32| { got.push(x as i64); got.len() != stop }; let n = s.feed((&mut f).into()); let mut r = vec![6, n as i64]; r.extend(got); r }
    }
}
fn c64<S: Store<u64>>(s: &mut S, op: &[i64]) -> Vec<i64> {
    let a = |i: usize| op.get(i).copied().unwrap_or(0);
    match op[0] {
        3 => vec![3, s.put(a(1) as u64) as i64],
        4 => vec![4, s.get(a(1) as usize).map(|v| v as i64).unwrap_or(-1), match s.checked(a(1) as usize) { Ok(v) => v as i64, Err(()) => -1 }],
        _ => { let r = s.all(); let mut row = vec![5, r.len() as i64]; row.extend(r.iter().map(|v| *v as i64)); let mut got: Vec<i64> = vec![]; let mut f = |x: u64| { got.push(x as i64); true }; let n = s.feed((&mut f).into()); row.push(n as i64); row.extend(got); row }
    }
}
fn cpod<S: Store<Pod>>(s: &mut S, op: &[i64]) -> Vec<i64> {
    let a = |i: usize| op.get(i).copied().unwrap_or(0);
    match op[0] {
        7 => vec![7, s.put(Pod { a: a(1) as u8, b: a(2) as u32, c: a(3) }) as i64],
        _ => { let g = s.get(a(1) as usize); let mut row = vec![8]; match g { Some(p) => row.extend([1, p.a as i64, p.b as i64, p.c]), None => row.push(0) }
               row.push(match s.checked(a(1) as usize) { Ok(p) => p.c, Err(()) => -1 }); row.push(s.all().len() as i64); row }
    }
}
fn cnamed<'a, S: Named<'a, u32>>(s: &mut S, op: &[i64]) -> Vec<i64> {
    let a = |i: usize| op.get(i).copied().unwrap_or(0);
    match op[0] {
        9 => { let n = s.name(); vec![9, n.len() as i64, n.bytes().fold(7i64, |h, b| (h * 31 + b as i64) % 1_000_003)] }
        _ => { let r = s.pick(a(1) as usize); vec![10, r.map(|v| *v as i64).unwrap_or(-1)] }
    }
}

fn family(op: &[i64]) -> i64 { match op[0] { 0 | 1 | 2 | 6 => 0, 3 | 4 | 5 => 1, 7 | 8 => 2, _ => 3 } }
fn state(m: &Multi) -> Vec<i64> { let mut v = vec![m.a.len() as i64, m.b.len() as i64, m.c.len() as i64]; v.extend(m.a.iter().map(|x| *x as i64)); v.extend(m.b.iter().map(|x| *x as i64)); v }

pub fn run(params: &[i64], ops: &Rows, mon: &mut Mon) -> Rows {
    let kind = params.get(0).copied().unwrap_or(0);
    // ---- direct
    let mut d = Multi::new(1);
    let res_d: Rows = ops.iter().map(|op| match family(op) { 0 => c32(&mut d, op), 1 => c64(&mut d, op), 2 => cpod(&mut d, op), _ => cnamed(&mut d, op) }).collect();
    let log_d = take_log();
    let st_d = state(&d);
    // ---- opaque: one object per instantiation, each built around the SAME kind of value; the history is split by family, so the per-family
    //      results and logs are compared with the direct run's (a family's methods only touch that family's part of the state)
    let arc = Arc::new(());
    let mut res_o: Rows = vec![vec![]; ops.len()];
    let mut log_o: Vec<Vec<Vec<i64>>> = vec![vec![]; 4];
    macro_rules! drive { ($fam:expr, $f:ident, $obj:expr) => {{ let mut obj = $obj; for (k, op) in ops.iter().enumerate() { if family(op) == $fam { res_o[k] = $f(&mut obj, op); } } drop(obj); log_o[$fam as usize] = take_log(); }} }
    match kind {
        0 => { drive!(0, c32, trait_obj!(Multi::new(1) as Store<u32>)); drive!(1, c64, trait_obj!(Multi::new(1) as Store<u64>)); drive!(2, cpod, trait_obj!(Multi::new(1) as Store<Pod>)); drive!(3, cnamed, trait_obj!(Multi::new(1) as Named<u32>)); }
        1 => { let mut m = Multi::new(1); drive!(0, c32, trait_obj!(&mut m as Store<u32>)); drive!(1, c64, trait_obj!(&mut m as Store<u64>)); drive!(2, cpod, trait_obj!(&mut m as Store<Pod>)); drive!(3, cnamed, trait_obj!(&mut m as Named<u32>));
               if state(&m) != st_d { mon.fail(format!("final state {:?} directly, {:?} through the objects", st_d, state(&m))); } }
        _ => { let c = || CArc::<()>::from(arc.clone());
               drive!(0, c32, trait_obj!((Multi::new(1), c()) as Store<u32>)); drive!(1, c64, trait_obj!((Multi::new(1), c()) as Store<u64>)); drive!(2, cpod, trait_obj!((Multi::new(1), c()) as Store<Pod>)); drive!(3, cnamed, trait_obj!((Multi::new(1), c()) as Named<u32>)); }
    }
    if Arc::strong_count(&arc) != 1 { mon.fail(format!("context count {} after the objects are gone", Arc::strong_count(&arc))); }
    if res_d != res_o { let k = res_d.iter().zip(res_o.iter()).position(|(a, b)| a != b).unwrap_or(0); mon.fail(format!("call {} returns {:?} directly but {:?} through the object of its instantiation", k, res_d.get(k), res_o.get(k))); }
    for fam in 0..4 {
        let want: Vec<&Vec<i64>> = log_d.iter().filter(|e| fam_of_method(e[1]) == fam).collect();
        let got: Vec<&Vec<i64>> = log_o[fam as usize].iter().collect();
        if want != got { mon.fail(format!("instantiation {}: the implementor saw {:?} directly but {:?} through the object", fam, want.iter().take(4).collect::<Vec<_>>(), got.iter().take(4).collect::<Vec<_>>())); }
    }
    drop(d);
    let _ = take_drops();
    res_o
}
fn fam_of_method(m: i64) -> i64 { match m { 0 | 1 | 2 | 6 | 11 => 0, 3 | 4 | 5 | 12 | 13 => 1, 7 | 8 | 14 | 15 | 16 => 2, _ => 3 } }
