// shared body of scenario 106, included once per context type by life.rs (which defines Ctx, mk_ctx, cur_count, ctx_begin, ctx_end)

#[cglue_trait] pub trait Peek2 { fn peek2(&self) -> i64; }

#[cglue_trait]
pub trait Node {
    #[wrap_with_obj(Peek2)]
    type Child: Peek2 + 'static;
    fn peek(&self) -> i64;
    /// an owned child wrapped as a GROUP object (it receives a clone of the context like any owned child)
    #[wrap_with_group(LifeGrp)]
    type GKid: Peek2 + GFin + 'static;
    fn gkid(&self) -> Self::GKid;
    fn child(&self) -> Self::Child;
    fn child_mut(&mut self) -> Self::Child;
    fn into_child(self) -> Self::Child;
    /// a consuming call whose wrapped child may not come about
    fn try_child(self, fail: i64) -> Result<Self::Child, ()>;
    fn fin(self) -> i64;
}

#[cglue_trait]
pub trait RefNode {
    #[wrap_with_obj_ref(Peek2)]
    type R: Peek2 + 'static;
    fn child_ref(&self) -> &Self::R;
}

/// consuming methods on a group object (the group container's own cobj_base_owned takes it apart)
#[cglue_trait]
pub trait GFin {
    #[wrap_with_obj(Peek2)]
    type GChild: Peek2 + 'static;
    fn gfin(self) -> i64;
    fn ginto_child(self) -> Self::GChild;
    fn gchild_mut(&mut self) -> Self::GChild;
}

cglue_trait_group!(LifeGrp, { Peek2, GFin }, { Clone });

pub struct Inst { id: i64, sub: Option<Box<Inst>> }
impl Inst { fn new(id: i64) -> Self { LIVE.fetch_add(1, SeqCst); Inst { id, sub: None } } fn with_sub(id: i64) -> Self { let mut i = Inst::new(id); i.sub = Some(Box::new(Inst::new(id + 500))); i } }
// at the moment an instance is destroyed: how many references to the shared context exist (probe set by `run`)
thread_local! { static SEEN_AT_DROP: RefCell<Vec<i64>> = RefCell::new(Vec::new()); }
impl Drop for Inst {
    fn drop(&mut self) {
        LIVE.fetch_sub(1, SeqCst);
        DROPS.with(|d| d.borrow_mut().push(self.id));
        if let Some(n) = cur_count() { let d = crate::alloc::domain(0); SEEN_AT_DROP.with(|v| v.borrow_mut().push(n)); crate::alloc::domain(d); }
    }
}
impl Clone for Inst { fn clone(&self) -> Self { Inst::new(self.id + 1000) } }
impl Peek2 for Inst { fn peek2(&self) -> i64 { self.id } }
impl Node for Inst {
    type Child = Inst;
    type GKid = Inst;
    fn gkid(&self) -> Inst { Inst::new(self.id + 100) }
    fn peek(&self) -> i64 { self.id }
    fn child(&self) -> Inst { Inst::new(self.id + 100) }
    fn child_mut(&mut self) -> Inst { Inst::new(self.id + 100) }
    fn into_child(self) -> Inst { Inst::new(self.id + 200) }
    fn try_child(self, fail: i64) -> Result<Inst, ()> { if fail != 0 { Err(()) } else { Ok(Inst::new(self.id + 200)) } }
    fn fin(self) -> i64 { self.id + 300 }
}
impl GFin for Inst { type GChild = Inst; fn gfin(self) -> i64 { self.id + 300 } fn ginto_child(self) -> Inst { Inst::new(self.id + 200) } fn gchild_mut(&mut self) -> Inst { Inst::new(self.id + 100) } }
impl RefNode for Inst { type R = Inst; fn child_ref(&self) -> &Inst { self.sub.as_ref().unwrap() } }

/// a ZERO-SIZED instance: boxing it allocates nothing, but it still has a destructor that must run exactly once
pub struct Zst;
impl Zst { fn new() -> Self { LIVE.fetch_add(1, SeqCst); Zst } }
impl Drop for Zst {
    fn drop(&mut self) {
        LIVE.fetch_sub(1, SeqCst);
        DROPS.with(|d| d.borrow_mut().push(-77));
        if let Some(n) = cur_count() { let d = crate::alloc::domain(0); SEEN_AT_DROP.with(|v| v.borrow_mut().push(n)); crate::alloc::domain(d); }
    }
}
impl Peek2 for Zst { fn peek2(&self) -> i64 { -77 } }

pub struct InstNoClone(Inst);
impl Peek2 for InstNoClone { fn peek2(&self) -> i64 { self.0.id } }
impl GFin for InstNoClone { type GChild = Inst; fn gfin(self) -> i64 { self.0.id + 300 } fn ginto_child(self) -> Inst { Inst::new(self.0.id + 200) } fn gchild_mut(&mut self) -> Inst { Inst::new(self.0.id + 100) } }
cglue_impl_group!(Inst, LifeGrp, { Clone });
cglue_impl_group!(InstNoClone, LifeGrp, {});

/// a context payload that records where it is destroyed: inside a generated vtable wrapper (the callee) or after it returned
pub struct CtxP;
thread_local! { static CTX_DROP_SITES: RefCell<Vec<i64>> = RefCell::new(Vec::new()); }
impl Drop for CtxP {
    fn drop(&mut self) {
        let d = crate::alloc::domain(0);   // the backtrace machinery caches symbol tables: not allocations of the code under test
        let bt = format!("{}", std::backtrace::Backtrace::force_capture());
        CTX_DROP_SITES.with(|v| v.borrow_mut().push(bt.contains("cglue_wrapped_") as i64));
        drop(bt);
        crate::alloc::domain(d);
    }
}

enum H<'a> {
    Dead,
    Node(NodeCtxBox<'a, Ctx>),
    Child(Peek2CtxBox<'a, Ctx>),
    Cl(cglue::ext::core::clone::CloneCtxBox<'a, Ctx>),
    RefN(RefNodeCtxBox<'a, Ctx>),
    Grp(LifeGrpCtxBox<'a, Ctx>),
    GrpC(LifeGrpWithClone<'a, CBox<'a, cglue::trait_group::c_void>, Ctx>),
}

fn take<'a>(pool: &mut Vec<H<'a>>, i: i64) -> H<'a> { if i >= 0 && (i as usize) < pool.len() { std::mem::replace(&mut pool[i as usize], H::Dead) } else { H::Dead } }

pub fn run(_params: &[i64], ops: &Rows, mon: &mut Mon) -> Rows {
    let arc = Arc::new(());
    ctx_begin(&arc);
    let base = cur_count().unwrap();
    let live0 = LIVE.load(SeqCst);
    let mut pool: Vec<H> = vec![];
    let mut out: Rows = vec![];
    let mut all: Vec<Vec<i64>> = ops.clone();
    let mut k = 0; let mut cleanup = false;
    let mut last_ids_ok = true;
    loop {
        if k == all.len() { if cleanup { break; } cleanup = true; for i in 0..pool.len() { all.push(vec![7, i as i64]); } if k == all.len() { break; } }
        let op = all[k].clone();
        let c = op[0];
        let h = op.get(1).copied().unwrap_or(-1);
        let ctx = || -> Ctx { mk_ctx(&arc) };
        let mut res: Option<Option<H>> = None;
        match c {
            0 => res = Some(Some(H::Node(trait_obj!((Inst::new(op[1]), ctx()) as Node)))),
            15 => res = Some(Some(H::Child(trait_obj!((Zst::new(), ctx()) as Peek2)))),
            8 => res = Some(Some(H::Cl(trait_obj!((Inst::new(op[1]), ctx()) as Clone)))),
            9 => res = Some(Some(H::RefN(trait_obj!((Inst::with_sub(op[1]), ctx()) as RefNode)))),
            10 => res = Some(Some(if op.get(2).copied().unwrap_or(0) & 1 == 1 { H::Grp(group_obj!((Inst::new(op[1]), ctx()) as LifeGrp)) } else { H::Grp(group_obj!((InstNoClone(Inst::new(op[1])), ctx()) as LifeGrp)) })),
            1 => { if h >= 0 && (h as usize) < pool.len() { match &pool[h as usize] {
                    H::Node(o) => { let _ = o.peek(); res = Some(None); }
                    H::Child(o) => { let _ = o.peek2(); res = Some(None); }
                    H::Grp(o) => { let _ = o.peek2(); res = Some(None); }
                    H::GrpC(o) => { let _ = o.peek2(); res = Some(None); }
                    _ => {} } } }
            2 => { if h >= 0 && (h as usize) < pool.len() { if let H::Node(o) = &pool[h as usize] { let ch = o.child(); res = Some(Some(H::Child(ch))); } } }
            3 => { if h >= 0 && (h as usize) < pool.len() { if let H::RefN(o) = &pool[h as usize] { let r = o.child_ref(); if r.peek2() < 500 { last_ids_ok = false; } res = Some(None); } } }
            4 => { match take(&mut pool, h) { H::Node(o) => res = Some(Some(H::Child(o.into_child()))), other => { if h >= 0 && (h as usize) < pool.len() { pool[h as usize] = other; } } } }
            5 => { match take(&mut pool, h) { H::Node(o) => { let _ = o.fin(); res = Some(None); } other => { if h >= 0 && (h as usize) < pool.len() { pool[h as usize] = other; } } } }
            6 => { if h >= 0 && (h as usize) < pool.len() { match &pool[h as usize] {
                    H::Cl(o) => res = Some(Some(H::Cl(o.clone()))),
                    H::GrpC(o) => res = Some(Some(H::GrpC(o.clone()))),
                    _ => {} } } }
            7 => { match take(&mut pool, h) { H::Dead => {}, x => {
                    // the object being destroyed still holds its context clone while its instance is destroyed
                    let before = cur_count().unwrap();
                    let _ = SEEN_AT_DROP.with(|v| std::mem::take(&mut *v.borrow_mut()));
                    drop(x);
                    let seen = SEEN_AT_DROP.with(|v| std::mem::take(&mut *v.borrow_mut()));
                    if seen.iter().any(|n| *n < before) { mon.fail(format!("op{} an instance was destroyed after its object had already released the context (count {} at that moment, {} before the drop)", k, seen.iter().min().unwrap(), before)); }
                    res = Some(None); } } }
            11 => { match take(&mut pool, h) { H::Grp(g) => { match cast!(g impl Clone) { Some(c) => res = Some(Some(H::GrpC(c))), None => res = Some(None) } } other => { if h >= 0 && (h as usize) < pool.len() { pool[h as usize] = other; } } } }
            12 => { match take(&mut pool, h) { H::GrpC(g) => res = Some(Some(H::Grp(if op.get(2) == Some(&1) { From::from(g) /* the cast back spelled with `From` */ } else { g.upcast() }))), other => { if h >= 0 && (h as usize) < pool.len() { pool[h as usize] = other; } } } }
            21 => {
                // the consuming entry called DIRECTLY through the vtable, as a C caller does: no caller-side guard exists, so the object's own context
                // reference is what must keep the context alive until the instance is destroyed (reported with op code 5: the model's consuming call)
                match take(&mut pool, h) {
                    H::Node(o) => {
                        use cglue::trait_group::GetContainer;
                        let before = cur_count().unwrap();
                        let _ = SEEN_AT_DROP.with(|v| std::mem::take(&mut *v.borrow_mut()));
                        let f = o.get_vtbl().fin();
                        let cont = o.into_ccont();
                        let _ = unsafe { f(cont) };
                        let seen = SEEN_AT_DROP.with(|v| std::mem::take(&mut *v.borrow_mut()));
                        if seen.iter().any(|n| *n < before) { mon.fail(format!("op{} consuming entry called directly through the vtable: the instance was destroyed when its object's context reference was already released (count {} at that moment, {} before the call)", k, seen.iter().min().unwrap(), before)); }
                        res = Some(None);
                    }
                    other => { if h >= 0 && (h as usize) < pool.len() { pool[h as usize] = other; } }
                }
            }
            16 => { match take(&mut pool, h) { H::Grp(o) => { let _ = o.gfin(); res = Some(None); } H::GrpC(o) => { let _ = o.gfin(); res = Some(None); } other => { if h >= 0 && (h as usize) < pool.len() { pool[h as usize] = other; } } } }
            17 => { match take(&mut pool, h) { H::Grp(o) => res = Some(Some(H::Child(o.ginto_child()))), H::GrpC(o) => res = Some(Some(H::Child(o.ginto_child()))), other => { if h >= 0 && (h as usize) < pool.len() { pool[h as usize] = other; } } } }
            20 => { if h >= 0 && (h as usize) < pool.len() { if let H::Node(o) = &pool[h as usize] { let g = o.gkid(); res = Some(Some(H::Grp(g))); } } }
            18 => { if h >= 0 && (h as usize) < pool.len() { if let H::Node(o) = &mut pool[h as usize] { let ch = o.child_mut(); res = Some(Some(H::Child(ch))); } } }
            19 => { if h >= 0 && (h as usize) < pool.len() { let ch = match &mut pool[h as usize] { H::Grp(o) => Some(o.gchild_mut()), H::GrpC(o) => Some(o.gchild_mut()), _ => None }; if let Some(ch) = ch { res = Some(Some(H::Child(ch))); } } }
            13 | 14 => {
                // a consuming call on the object that holds the LAST reference to its context
                let _ = CTX_DROP_SITES.with(|v| std::mem::take(&mut *v.borrow_mut()));
                let private = CArc::from(CtxP);
                let o = trait_obj!((Inst::new(op[1]), private) as Node);
                // (third field 1: the same through the FALLIBLE consuming method — 13: it fails, nothing comes back; 14: it succeeds)
                let fallible = op.get(2) == Some(&1);
                if c == 13 { if fallible { if o.try_child(1).is_ok() { mon.fail(format!("op{} try_child(fail) returned a child", k)); } } else { let _ = o.fin(); } }
                else if fallible { match o.try_child(0) { Ok(ch) => drop(ch), Err(()) => mon.fail(format!("op{} try_child(succeed) returned no child", k)) } }
                else { let ch = o.into_child(); drop(ch); }
                let sites = CTX_DROP_SITES.with(|v| std::mem::take(&mut *v.borrow_mut()));
                if sites != vec![0] { mon.fail(format!("op{} context payload destroyed {:?} (1 = inside the callee's wrapper, expected exactly once, after it returned)", k, sites)); }
                res = Some(None);
            }
            _ => {}
        }
        let c = if c == 21 { 5 } else { c };
        let row = match res { None => vec![c, 0, -1], Some(None) => vec![c, 1, -1], Some(Some(x)) => { pool.push(x); vec![c, 1, pool.len() as i64 - 1] } };
        out.push(row);
        let mut obs = vec![cur_count().unwrap() - base, LIVE.load(SeqCst) - live0];
        obs.extend(take_drops());
        out.push(obs);
        k += 1;
    }
    drop(pool);
    // ---- monitor: after every derived object is gone the context count is back to its starting value, nothing is alive
    let lvl = cur_count().unwrap() - base;
    ctx_end();
    if lvl != 0 { mon.fail(format!("context count is {} above its starting value after all derived objects are gone", lvl)); }
    if !last_ids_ok { mon.fail("borrowed child reached the wrong instance".to_string()); }
    out
}
