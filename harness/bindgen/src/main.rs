// Harness around the REAL cglue-bindgen sources (included by path, not copied):
//   bgh c   <cfg.toml|-> <header>      -> processed header on stdout (codegen::c::parse_header)
//   bgh cpp <cfg.toml|-> <header>      -> processed header on stdout (codegen::cpp::parse_header)
//   bgh auto <cfg.toml|-> <header>     -> the dispatch main.rs performs (is_cpp, then is_c)
//   bgh batch <dir>                    -> for every <dir>/<n>.in (+ optional <n>.toml, <n>.mode) writes <n>.out / <n>.err
#![allow(dead_code)]
#[path = "/repo/cglue-bindgen/src/config.rs"]
pub mod config;
#[path = "/repo/cglue-bindgen/src/types.rs"]
pub mod types;
#[path = "/repo/cglue-bindgen/src/codegen/mod.rs"]
pub mod codegen;

use config::Config;
use std::fs;

fn cfg(path: &str) -> Config {
    if path == "-" || !std::path::Path::new(path).exists() {
        return Config::default();
    }
    toml::from_str(&fs::read_to_string(path).unwrap()).unwrap()
}

fn process(mode: &str, config: &Config, header: &str) -> Result<String, String> {
    let r = std::panic::catch_unwind(|| match mode {
        "c" => codegen::c::parse_header(header, config).map_err(|e| e.to_string()),
        "cpp" => codegen::cpp::parse_header(header, config).map_err(|e| e.to_string()),
        _ => {
            if codegen::cpp::is_cpp(header).map_err(|e| e.to_string())? {
                codegen::cpp::parse_header(header, config).map_err(|e| e.to_string())
            } else if codegen::c::is_c(header).map_err(|e| e.to_string())? {
                codegen::c::parse_header(header, config).map_err(|e| e.to_string())
            } else {
                Err("Unsupported header format!".to_string())
            }
        }
    });
    match r {
        Ok(x) => x,
        Err(_) => Err("panic".to_string()),
    }
}

fn main() {
    let a: Vec<String> = std::env::args().collect();
    match a[1].as_str() {
        "batch" => {
            let dir = &a[2];
            let mut names: Vec<String> = fs::read_dir(dir)
                .unwrap()
                .filter_map(|e| {
                    let n = e.unwrap().file_name().into_string().unwrap();
                    n.strip_suffix(".in").map(|s| s.to_string())
                })
                .collect();
            names.sort();
            for n in names {
                let header = fs::read_to_string(format!("{}/{}.in", dir, n)).unwrap();
                let config = cfg(&format!("{}/{}.toml", dir, n));
                let mode = fs::read_to_string(format!("{}/{}.mode", dir, n)).unwrap_or_else(|_| "auto".to_string());
                match process(mode.trim(), &config, &header) {
                    Ok(o) => fs::write(format!("{}/{}.out", dir, n), o).unwrap(),
                    Err(e) => fs::write(format!("{}/{}.err", dir, n), e).unwrap(),
                }
            }
        }
        mode => {
            let config = cfg(&a[2]);
            let header = fs::read_to_string(&a[3]).unwrap();
            match process(mode, &config, &header) {
                Ok(o) => print!("{}", o),
                Err(e) => {
                    eprintln!("ERR {}", e);
                    std::process::exit(2);
                }
            }
        }
    }
}
