use cglue::prelude::v1::*;
use cglue::trait_group::{compare_layouts, VerifyLayout};
fn v(i: i64) -> VerifyLayout { match i { 0 => VerifyLayout::Valid, 1 => VerifyLayout::Invalid, _ => VerifyLayout::Unknown } }
fn c(x: &VerifyLayout) -> i64 { match x { VerifyLayout::Valid => 0, VerifyLayout::Invalid => 1, VerifyLayout::Unknown => 2 } }
fn main() {
    for a in 0..3 { for b in 0..3 { print!("{} ", c(&v(a).and(v(b)))); } }
    println!();
}
