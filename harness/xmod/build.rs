use std::process::Command;
fn main() {
    let rustc = std::env::var("RUSTC").unwrap_or_else(|_| "rustc".into());
    let v = Command::new(rustc).arg("--version").output().map(|o| String::from_utf8_lossy(&o.stdout).trim().to_string()).unwrap_or_default();
    println!("cargo:rustc-env=XMOD_RUSTC={}", v);
}
