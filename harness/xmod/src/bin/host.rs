//! C05 host: module 0 is the `xmod` code linked into this binary, module 1 is the same source built separately as a cdylib (argv[1]; "single" =
//! reference run where every operation is carried out by module 0).  stdin: case lines '5 | code m a b c ; ...', stdout: one line per case
//!   'ok result slot ; ... ; -1 m live tokens leaked_blocks foreign_free unknown_free size_mismatch ; ... # fails=..'
use cglue::prelude::v1::*;
use std::io::{BufRead, Write};
use xmod::*;

enum V { Dead, Ctx(Ctx), Obj(Obj), Grp(Grp), Vec(CVec<u64>), TArc(cglue::arc::CArc<Token>), TBox(cglue::boxed::CBox<'static, u64>), TSBox(cglue::boxed::CSliceBox<'static, u64>) }

fn stats_of(t: &ModTable) -> Stats { let mut s = Stats::default(); (t.stats)(&mut s); s }

fn main() {
    let args: Vec<String> = std::env::args().collect();
    let single = args.len() < 2 || args[1] == "single";
    let _lib;
    let plugin: &ModTable = if single { &TABLE } else {
        unsafe {
            let lib = libloading::Library::new(&args[1]).expect("cannot load the plugin");
            let f: libloading::Symbol<extern "C" fn() -> *const ModTable> = lib.get(b"xm_table").expect("xm_table");
            let t = &*f();
            if args.len() > 2 && args[2] == "info" {
                let b: libloading::Symbol<extern "C" fn(*mut u8, usize) -> usize> = lib.get(b"xm_build").unwrap();
                let mut buf = [0u8; 256];
                let n = b(buf.as_mut_ptr(), 256);
                let mut own = [0u8; 256];
                let m = xm_build(own.as_mut_ptr(), 256);
                println!("host: {} | plugin: {}", String::from_utf8_lossy(&own[..m]), String::from_utf8_lossy(&buf[..n]));
                return;
            }
            _lib = lib;
            t
        }
    };
    let mods: [&ModTable; 2] = [&TABLE, plugin];
    let stdin = std::io::stdin();
    let out = std::io::stdout();
    let mut out = out.lock();
    for line in stdin.lock().lines() {
        let line = line.unwrap();
        if line.trim().is_empty() { continue; }
        let body = line.splitn(2, '|').nth(1).unwrap_or("");
        let ops: Vec<Vec<i64>> = body.split(';').map(|r| r.split_whitespace().map(|x| x.parse().unwrap()).collect()).filter(|r: &Vec<i64>| !r.is_empty()).collect();
        let mut pool: Vec<V> = Vec::with_capacity(1024);
        let mut res: Vec<[i64; 3]> = Vec::with_capacity(ops.len() + 8);
        let key: [u8; 8] = [1, 2, 3, 4, 5, 6, 7, 8];
        let mut probes: Vec<i64> = vec![0; 64]; let mut nprobes = 0usize;      // (allocated before the baseline is taken)
        let base = [stats_of(mods[0]), stats_of(mods[1])];
        for op in &ops {
            let g = |i: usize| op.get(i).copied().unwrap_or(0);
            let m = mods[if single { 0 } else { (g(1) & 1) as usize }];
            let h = g(2);
            let valid = h >= 0 && (h as usize) < pool.len();
            let mut r = [0i64, 0, -1];
            match g(0) {
                0 => { pool.push(V::Ctx((m.make_ctx)())); r = [1, 0, pool.len() as i64 - 1]; }
                // '31 m': a context whose payload reports where its last reference is released (printed like op 0)
                31 => { if nprobes < 64 { let cell: *mut i64 = &mut probes[nprobes]; nprobes += 1; pool.push(V::Ctx((m.make_ctx_probed)(cell))); } else { pool.push(V::Ctx((m.make_ctx)())); } r = [1, 0, pool.len() as i64 - 1]; }
                1 => if valid { if let V::Ctx(c) = &pool[h as usize] { let n = (m.ctx_clone)(c); pool.push(V::Ctx(n)); r = [1, 0, pool.len() as i64 - 1]; } }
                2 | 6 => {
                    let c = g(3);
                    if c >= 0 && (c as usize) < pool.len() {
                        if let V::Ctx(cx) = &pool[c as usize] {
                            let cl = (m.ctx_clone)(cx);
                            if g(0) == 2 { pool.push(V::Obj((m.make_obj)(g(2) as u64, cl))); } else { pool.push(V::Grp((m.make_grp)(g(2) as u64, cl, g(4) as u32))); }
                            r = [1, 0, pool.len() as i64 - 1];
                        }
                    }
                }
                3 => if valid { match &pool[h as usize] { V::Obj(o) => r = [1, (m.obj_get)(o) as i64, -1], V::Grp(o) => r = [1, (m.grp_get)(o) as i64, -1], _ => {} } }
                4 => if valid { if let V::Obj(o) = &mut pool[h as usize] { r = [1, (m.obj_add)(o, g(3) as u64) as i64, -1]; } }
                18 => if valid { if let V::Obj(o) = &pool[h as usize] { r = [1, (m.obj_label_len)(o) as i64, -1]; } }
                5 => if valid {
                    match std::mem::replace(&mut pool[h as usize], V::Dead) {
                        V::Obj(o) => r = [1, (m.obj_into_total)(o) as i64, -1],
                        V::Grp(o) => r = [1, (m.grp_into_total)(o) as i64, -1],
                        other => pool[h as usize] = other,
                    }
                }
                7 => if valid {
                    match std::mem::replace(&mut pool[h as usize], V::Dead) {
                        V::Grp(o) => {
                            let mut c = COption::None;
                            let back = (m.grp_clone)(o, &mut c);
                            pool[h as usize] = V::Grp(back);
                            match c { COption::Some(n) => { pool.push(V::Grp(n)); r = [1, 1, pool.len() as i64 - 1]; } COption::None => r = [1, 0, -1] }
                        }
                        other => pool[h as usize] = other,
                    }
                }
                8 => if valid { if let V::Grp(o) = &mut pool[h as usize] { let k = (g(3).max(0) as usize).min(8); r = [1, (m.grp_put)(o, (&key[..k]).into(), g(4) as u64), -1]; } }
                9 => if valid { if let V::Grp(o) = &pool[h as usize] { r = [1, (m.grp_sum)(o), -1]; } }
                10 => if valid { if let V::Grp(o) = &pool[h as usize] { r = [1, (m.grp_visit_local_cb)(o, g(3).max(1) as u64), -1]; } }
                11 => if valid { if let V::Grp(o) = &mut pool[h as usize] { r = [1, (m.grp_fill_local_iter)(o, g(3).max(0) as u64), -1]; } }
                12 => if valid { if let V::Grp(o) = &pool[h as usize] { r = [1, (m.grp_has_store)(o) as i64, -1]; } }
                13 => { pool.push(V::Vec((m.make_vec)(g(2).max(0) as u64))); r = [1, 0, pool.len() as i64 - 1]; }
                14 => if valid { if let V::Vec(v) = &mut pool[h as usize] { r = [1, (m.vec_push)(v, g(3) as u64) as i64, -1]; } }
                15 => if valid { if let V::Vec(v) = &pool[h as usize] { r = [1, (m.vec_sum)(v) as i64, -1]; } }
                19 => if valid { if let V::Vec(v) = &mut pool[h as usize] { r = [1, (m.vec_insert)(v, g(3).max(0) as u64, g(4) as u64), -1]; } }
                20 => if valid { if let V::Vec(v) = &mut pool[h as usize] { r = [1, (m.vec_pop)(v), -1]; } }
                21 => if valid { if let V::Vec(v) = &mut pool[h as usize] { r = [1, (m.vec_remove)(v, g(3).max(0) as u64), -1]; } }
                22 => if valid { if let V::Vec(v) = &mut pool[h as usize] { r = [1, (m.vec_reserve)(v, g(3).max(0) as u64) as i64, -1]; } }
                23 => if valid { if let V::Vec(v) = &pool[h as usize] { let n = (m.vec_clone)(v); pool.push(V::Vec(n)); r = [1, 0, pool.len() as i64 - 1]; } }
                24 => { pool.push(V::TArc((m.make_tarc)())); r = [1, 0, pool.len() as i64 - 1]; }
                25 => if valid { if let V::TArc(c) = &pool[h as usize] { let n = (m.tarc_clone)(c); pool.push(V::TArc(n)); r = [1, 0, pool.len() as i64 - 1]; } }
                26 => if valid { match std::mem::replace(&mut pool[h as usize], V::Dead) { V::TArc(c) => { pool.push(V::Ctx((m.tarc_opaque)(c))); r = [1, 0, pool.len() as i64 - 1]; } other => pool[h as usize] = other } }
                27 => { pool.push(V::TBox((m.make_box)(g(2) as u64))); r = [1, 0, pool.len() as i64 - 1]; }
                28 => if valid { if let V::TBox(b) = &pool[h as usize] { r = [1, (m.box_get)(b) as i64, -1]; } }
                29 => { pool.push(V::TSBox((m.make_sbox)(g(2) as u64, g(3).max(0) as u64))); r = [1, 0, pool.len() as i64 - 1]; }
                30 => if valid { if let V::TSBox(b) = &pool[h as usize] { r = [1, (m.sbox_sum)(b) as i64, -1]; } }
                16 => if valid { if let V::Vec(v) = &pool[h as usize] { let s: &[u64] = &v[..]; r = [1, (m.slice_sum)(s.into()) as i64, -1]; } }
                17 => if valid {
                    match std::mem::replace(&mut pool[h as usize], V::Dead) {
                        V::Dead => {}
                        V::Ctx(c) => { (m.ctx_drop)(c); r = [1, 0, -1]; }
                        V::Obj(o) => { (m.obj_drop)(o); r = [1, 0, -1]; }
                        V::Grp(o) => { (m.grp_drop)(o); r = [1, 0, -1]; }
                        V::Vec(v) => { (m.vec_drop)(v); r = [1, 0, -1]; }
                        V::TArc(c) => { (m.tarc_drop)(c); r = [1, 0, -1]; }
                        V::TBox(b) => { (m.box_drop)(b); r = [1, 0, -1]; }
                        V::TSBox(b) => { (m.sbox_drop)(b); r = [1, 0, -1]; }
                    }
                }
                _ => {}
            }
            res.push(r);
        }
        // release whatever is left, alternating the releasing module
        for (i, v) in pool.drain(..).enumerate() {
            let m = mods[if single { 0 } else { i & 1 }];
            match v { V::Dead => {}, V::Ctx(c) => (m.ctx_drop)(c), V::Obj(o) => (m.obj_drop)(o), V::Grp(o) => (m.grp_drop)(o), V::Vec(x) => (m.vec_drop)(x), V::TArc(c) => (m.tarc_drop)(c), V::TBox(b) => (m.box_drop)(b), V::TSBox(b) => (m.sbox_drop)(b) }
        }
        let now = [stats_of(mods[0]), stats_of(mods[1])];
        let mut s = String::new();
        for r in &res { s.push_str(&format!("{} {} {} ; ", r[0], r[1], r[2])); }
        let mut fails: Vec<String> = vec![];
        let inside = probes.iter().filter(|p| **p == 1).count();
        if inside > 0 { fails.push(format!("last_reference_of_a_context_released_inside_a_generated_wrapper_(the_creating_module's_code_still_running)={}", inside)); }
        for k in 0..(if single { 1 } else { 2 }) {
            let (a, b) = (&base[k], &now[k]);
            let leaked = (b.allocs - a.allocs) as i64 - (b.frees - a.frees) as i64;
            s.push_str(&format!("-1 {} {} {} {} {} {} {} ; ", k, b.live - a.live, b.tokens - a.tokens, leaked, b.foreign_free - a.foreign_free, b.unknown_free - a.unknown_free, b.size_mismatch - a.size_mismatch));
            if b.live != a.live { fails.push(format!("module{}_live_instances={}", k, b.live - a.live)); }
            if b.tokens != a.tokens { fails.push(format!("module{}_live_context_tokens={}", k, b.tokens - a.tokens)); }
            if leaked != 0 { fails.push(format!("module{}_leaked_blocks={}", k, leaked)); }
            if b.foreign_free != a.foreign_free { fails.push(format!("module{}_freed_foreign_memory={}", k, b.foreign_free - a.foreign_free)); }
            if b.unknown_free != a.unknown_free { fails.push(format!("module{}_freed_unknown_pointer={}", k, b.unknown_free - a.unknown_free)); }
            if b.size_mismatch != a.size_mismatch { fails.push(format!("module{}_free_size_mismatch={}", k, b.size_mismatch - a.size_mismatch)); }
        }
        let s = s.trim_end_matches(" ; ").to_string();
        writeln!(out, "{} # fails={}", s, if fails.is_empty() { "-".to_string() } else { fails.join("|") }).unwrap();
    }
}
