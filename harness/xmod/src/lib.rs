//! C05: one "module" of code using cglue — compiled TWICE, separately: once into the host binary (module 0, linked statically) and once as
//! a cdylib (module 1, loaded with dlopen), possibly by another compiler version, optimisation level, layout seed.  Each artifact has its
//! own copy of std, its own tagging global allocator and its own live-instance counters.  Everything the two sides exchange goes through
//! `ModTable`: a #[repr(C)] table of extern "C" functions over cglue's FFI-safe types.
#![allow(clippy::missing_safety_doc)]
use cglue::prelude::v1::*;
use cglue::trait_group::c_void;
use cglue_macro::check;
use std::alloc::{GlobalAlloc, Layout, System};
use std::sync::atomic::{AtomicI64, AtomicU64, Ordering::SeqCst};
use std::sync::Arc;

// ------------------------------------------------------------------------------------------------ tagging allocator
const MAGIC: u64 = 0x7a67_a110_c05c_05c0;
const HDR: usize = 32;
static ANCHOR: u8 = 0;
pub static N_ALLOC: AtomicU64 = AtomicU64::new(0);
pub static N_FREE: AtomicU64 = AtomicU64::new(0);
pub static FOREIGN_FREE: AtomicU64 = AtomicU64::new(0);
pub static UNKNOWN_FREE: AtomicU64 = AtomicU64::new(0);
pub static SIZE_MISMATCH: AtomicU64 = AtomicU64::new(0);
pub static LIVE_BYTES: AtomicI64 = AtomicI64::new(0);

#[repr(C)]
struct Header { magic: u64, module: u64, size: usize, base: *mut u8 }

fn my_tag() -> u64 { &ANCHOR as *const u8 as u64 }
fn prefix(align: usize) -> usize { let a = align.max(16); (HDR + a - 1) / a * a }

pub struct TagAlloc;
unsafe impl GlobalAlloc for TagAlloc {
    unsafe fn alloc(&self, layout: Layout) -> *mut u8 {
        let pre = prefix(layout.align());
        let total = Layout::from_size_align_unchecked(pre + layout.size(), layout.align().max(16));
        let base = System.alloc(total);
        if base.is_null() { return base; }
        let user = base.add(pre);
        (user.sub(HDR) as *mut Header).write(Header { magic: MAGIC, module: my_tag(), size: layout.size(), base });
        N_ALLOC.fetch_add(1, SeqCst);
        LIVE_BYTES.fetch_add(layout.size() as i64, SeqCst);
        user
    }
    unsafe fn dealloc(&self, ptr: *mut u8, layout: Layout) {
        let h = ptr.sub(HDR) as *mut Header;
        if (*h).magic != MAGIC { UNKNOWN_FREE.fetch_add(1, SeqCst); return; }
        if (*h).module != my_tag() { FOREIGN_FREE.fetch_add(1, SeqCst); return; }   // not ours: leave it alone
        if (*h).size != layout.size() { SIZE_MISMATCH.fetch_add(1, SeqCst); }
        (*h).magic = 0;
        N_FREE.fetch_add(1, SeqCst);
        LIVE_BYTES.fetch_sub((*h).size as i64, SeqCst);
        let pre = prefix(layout.align());
        System.dealloc((*h).base, Layout::from_size_align_unchecked(pre + (*h).size, layout.align().max(16)));
    }
}
#[global_allocator]
static GLOBAL: TagAlloc = TagAlloc;

// ------------------------------------------------------------------------------------------------ the API (same source on both sides)
#[cglue_trait]
pub trait Counter {
    fn get(&self) -> u64;
    fn add(&mut self, x: u64) -> u64;
    fn label(&self) -> &str;
    fn into_total(self) -> u64;
}

#[cglue_trait]
#[int_result]
pub trait Store {
    fn put(&mut self, key: &[u8], v: u64) -> Result<(), ()>;
    fn sum(&self) -> u64;
    fn visit(&self, cb: OpaqueCallback<u64>);
    fn fill(&mut self, it: CIterator<u64>) -> usize;
}

cglue_trait_group!(Gadget, Counter, { Store, Clone });

pub static LIVE: AtomicI64 = AtomicI64::new(0);
pub static TOKENS: AtomicI64 = AtomicI64::new(0);

pub struct Impl { base: u64, label: String, items: Vec<(u8, u64)> }
impl Impl {
    fn new(seed: u64) -> Self {
        LIVE.fetch_add(1, SeqCst);
        let tail: String = std::iter::repeat((b'a' + (seed % 26) as u8) as char).take((seed % 5 + 1) as usize).collect();
        Impl { base: seed, label: format!("impl-{}", tail), items: vec![] }
    }
}
impl Drop for Impl { fn drop(&mut self) { LIVE.fetch_sub(1, SeqCst); } }
impl Clone for Impl { fn clone(&self) -> Self { LIVE.fetch_add(1, SeqCst); Impl { base: self.base, label: self.label.clone(), items: self.items.clone() } } }
impl Counter for Impl {
    fn get(&self) -> u64 { self.base }
    fn add(&mut self, x: u64) -> u64 { self.base = self.base.wrapping_add(x); self.base }
    fn label(&self) -> &str { &self.label }
    fn into_total(self) -> u64 { self.items.iter().fold(self.base, |a, (_, v)| a.wrapping_add(*v)) }
}
impl Store for Impl {
    fn put(&mut self, key: &[u8], v: u64) -> Result<(), ()> { if key.is_empty() { Err(()) } else { self.items.push((key[0], v)); Ok(()) } }
    fn sum(&self) -> u64 { self.items.iter().fold(0u64, |a, (_, v)| a.wrapping_add(*v)) }
    fn visit(&self, mut cb: OpaqueCallback<u64>) { for (_, v) in &self.items { if !cb.call(*v) { break; } } }
    fn fill(&mut self, it: CIterator<u64>) -> usize { let mut n = 0; for x in it { self.items.push((0, x)); n += 1; } n }
}
pub struct Plain(Impl);
impl Counter for Plain {
    fn get(&self) -> u64 { self.0.get() }
    fn add(&mut self, x: u64) -> u64 { self.0.add(x) }
    fn label(&self) -> &str { self.0.label() }
    fn into_total(self) -> u64 { let Plain(i) = self; i.into_total() }
}
pub struct Storing(Impl);
impl Counter for Storing {
    fn get(&self) -> u64 { self.0.get() }
    fn add(&mut self, x: u64) -> u64 { self.0.add(x) }
    fn label(&self) -> &str { self.0.label() }
    fn into_total(self) -> u64 { let Storing(i) = self; i.into_total() }
}
impl Store for Storing {
    fn put(&mut self, key: &[u8], v: u64) -> Result<(), ()> { self.0.put(key, v) }
    fn sum(&self) -> u64 { self.0.sum() }
    fn visit(&self, cb: OpaqueCallback<u64>) { self.0.visit(cb) }
    fn fill(&mut self, it: CIterator<u64>) -> usize { self.0.fill(it) }
}
cglue_impl_group!(Impl, Gadget, { Store, Clone });
cglue_impl_group!(Storing, Gadget, { Store });
cglue_impl_group!(Plain, Gadget, {});

/// the payload of a context (what a plugin's library handle is).  A PROBED token reports where it is destroyed: 1 = while a generated vtable
/// wrapper (`cglue_wrapped_*`, code of the module that created the object) is still on the stack, 2 = anywhere else.  The last reference of a context
/// must never go away inside a wrapper: with a library handle as context that unloads the code that is still running.
pub struct Token { probe: usize }
impl Token { fn new() -> Self { TOKENS.fetch_add(1, SeqCst); Token { probe: 0 } } }
impl Drop for Token {
    fn drop(&mut self) {
        TOKENS.fetch_sub(1, SeqCst);
        if self.probe != 0 {
            // the backtrace machinery allocates (and caches) on its own account: keep it out of this module's bookkeeping
            let (a0, f0, b0) = (N_ALLOC.load(SeqCst), N_FREE.load(SeqCst), LIVE_BYTES.load(SeqCst));
            let inside = { let bt = format!("{}", std::backtrace::Backtrace::force_capture()); bt.contains("cglue_wrapped_") };
            N_ALLOC.store(a0, SeqCst); N_FREE.store(f0, SeqCst); LIVE_BYTES.store(b0, SeqCst);
            unsafe { *(self.probe as *mut i64) = if inside { 1 } else { 2 }; }
        }
    }
}

pub type Ctx = CArc<c_void>;
pub type Obj = CounterArcBox<'static>;
pub type Grp = GadgetArcBox<'static>;

#[repr(C)]
#[derive(Default, Clone, Copy)]
pub struct Stats { pub live: i64, pub tokens: i64, pub allocs: u64, pub frees: u64, pub foreign_free: u64, pub unknown_free: u64, pub size_mismatch: u64, pub live_bytes: i64 }

#[repr(C)]
pub struct ModTable {
    pub make_ctx: extern "C" fn() -> Ctx,
    pub ctx_clone: extern "C" fn(&Ctx) -> Ctx,
    pub ctx_drop: extern "C" fn(Ctx),
    pub make_obj: extern "C" fn(u64, Ctx) -> Obj,
    pub obj_get: extern "C" fn(&Obj) -> u64,
    pub obj_add: extern "C" fn(&mut Obj, u64) -> u64,
    pub obj_label_len: extern "C" fn(&Obj) -> u64,
    pub obj_into_total: extern "C" fn(Obj) -> u64,
    pub obj_drop: extern "C" fn(Obj),
    pub make_grp: extern "C" fn(u64, Ctx, u32) -> Grp,
    pub grp_get: extern "C" fn(&Grp) -> u64,
    pub grp_clone: extern "C" fn(Grp, &mut COption<Grp>) -> Grp,
    pub grp_put: extern "C" fn(&mut Grp, CSliceRef<u8>, u64) -> i64,
    pub grp_sum: extern "C" fn(&Grp) -> i64,
    pub grp_visit_local_cb: extern "C" fn(&Grp, u64) -> i64,
    pub grp_fill_local_iter: extern "C" fn(&mut Grp, u64) -> i64,
    pub grp_has_store: extern "C" fn(&Grp) -> u32,
    pub grp_into_total: extern "C" fn(Grp) -> u64,
    pub grp_drop: extern "C" fn(Grp),
    pub make_vec: extern "C" fn(u64) -> CVec<u64>,
    pub vec_push: extern "C" fn(&mut CVec<u64>, u64) -> u64,
    pub vec_insert: extern "C" fn(&mut CVec<u64>, u64, u64) -> i64,
    pub vec_pop: extern "C" fn(&mut CVec<u64>) -> i64,
    pub vec_remove: extern "C" fn(&mut CVec<u64>, u64) -> i64,
    pub vec_reserve: extern "C" fn(&mut CVec<u64>, u64) -> u64,
    pub vec_clone: extern "C" fn(&CVec<u64>) -> CVec<u64>,
    pub vec_sum: extern "C" fn(&CVec<u64>) -> u64,
    pub slice_sum: extern "C" fn(CSliceRef<u64>) -> u64,
    pub vec_drop: extern "C" fn(CVec<u64>),
    pub stats: extern "C" fn(&mut Stats),
    // TYPED handles (not yet erased): their stored functions were instantiated for the concrete type in the creating module
    pub make_tarc: extern "C" fn() -> CArc<Token>,
    pub tarc_clone: extern "C" fn(&CArc<Token>) -> CArc<Token>,
    pub tarc_opaque: extern "C" fn(CArc<Token>) -> Ctx,
    pub tarc_drop: extern "C" fn(CArc<Token>),
    pub make_box: extern "C" fn(u64) -> CBox<'static, u64>,
    pub box_get: extern "C" fn(&CBox<'static, u64>) -> u64,
    pub box_drop: extern "C" fn(CBox<'static, u64>),
    pub make_sbox: extern "C" fn(u64, u64) -> cglue::boxed::CSliceBox<'static, u64>,
    pub sbox_sum: extern "C" fn(&cglue::boxed::CSliceBox<'static, u64>) -> u64,
    pub sbox_drop: extern "C" fn(cglue::boxed::CSliceBox<'static, u64>),
    pub make_ctx_probed: extern "C" fn(*mut i64) -> Ctx,
}

extern "C" fn make_ctx() -> Ctx { CArc::<Token>::from(Arc::new(Token::new())).into_opaque() }
extern "C" fn make_ctx_probed(cell: *mut i64) -> Ctx { let mut t = Token::new(); t.probe = cell as usize; CArc::<Token>::from(Arc::new(t)).into_opaque() }
extern "C" fn ctx_clone(c: &Ctx) -> Ctx { c.clone() }
extern "C" fn ctx_drop(c: Ctx) { drop(c) }
extern "C" fn make_obj(seed: u64, ctx: Ctx) -> Obj { trait_obj!((Impl::new(seed), ctx) as Counter) }
extern "C" fn obj_get(o: &Obj) -> u64 { o.get() }
extern "C" fn obj_add(o: &mut Obj, x: u64) -> u64 { o.add(x) }
extern "C" fn obj_label_len(o: &Obj) -> u64 { let l = o.label(); l.len() as u64 * 1000 + l.bytes().map(|b| b as u64).sum::<u64>() }
extern "C" fn obj_into_total(o: Obj) -> u64 { o.into_total() }
extern "C" fn obj_drop(o: Obj) { drop(o) }
extern "C" fn make_grp(seed: u64, ctx: Ctx, enabled: u32) -> Grp {
    match enabled {
        3 => group_obj!((Impl::new(seed), ctx) as Gadget),
        1 => group_obj!((Storing(Impl::new(seed)), ctx) as Gadget),
        _ => group_obj!((Plain(Impl::new(seed)), ctx) as Gadget),
    }
}
extern "C" fn grp_get(g: &Grp) -> u64 { g.get() }
extern "C" fn grp_clone(g: Grp, out: &mut COption<Grp>) -> Grp {
    if check!(g impl Clone) {
        let c = cast!(g impl Clone).unwrap();
        *out = COption::Some(c.clone().upcast());
        c.upcast()
    } else {
        *out = COption::None;
        g
    }
}
extern "C" fn grp_put(g: &mut Grp, key: CSliceRef<u8>, v: u64) -> i64 {
    match as_mut!(g impl Store) { Some(s) => if s.put(key.as_slice(), v).is_ok() { 1 } else { 0 }, None => -1 }
}
extern "C" fn grp_sum(g: &Grp) -> i64 { match as_ref!(g impl Store) { Some(s) => s.sum() as i64, None => -1 } }
extern "C" fn grp_visit_local_cb(g: &Grp, limit: u64) -> i64 {
    match as_ref!(g impl Store) {
        Some(s) => { let mut acc = 0u64; let mut n = 0u64; let mut f = |v: u64| { acc = acc.wrapping_add(v); n += 1; n < limit }; s.visit((&mut f).into()); acc as i64 }
        None => -1,
    }
}
extern "C" fn grp_fill_local_iter(g: &mut Grp, n: u64) -> i64 {
    match as_mut!(g impl Store) { Some(s) => { let mut it = (1..=n).map(|i| i * 3); s.fill((&mut it).into()) as i64 } None => -1 }
}
extern "C" fn grp_has_store(g: &Grp) -> u32 { check!(g impl Store) as u32 }
extern "C" fn grp_into_total(g: Grp) -> u64 { g.into_total() }
extern "C" fn grp_drop(g: Grp) { drop(g) }
extern "C" fn make_vec(n: u64) -> CVec<u64> { (0..n).map(|i| i * 7 + 1).collect::<Vec<_>>().into() }
extern "C" fn vec_push(v: &mut CVec<u64>, x: u64) -> u64 { v.push(x); v.len() as u64 }
extern "C" fn vec_insert(v: &mut CVec<u64>, i: u64, x: u64) -> i64 { if (i as usize) <= v.len() { v.insert(i as usize, x); v.len() as i64 } else { -1 } }
extern "C" fn vec_pop(v: &mut CVec<u64>) -> i64 { v.pop().map(|x| x as i64).unwrap_or(-1) }
extern "C" fn vec_remove(v: &mut CVec<u64>, i: u64) -> i64 { if (i as usize) < v.len() { v.remove(i as usize) as i64 } else { -1 } }
extern "C" fn vec_reserve(v: &mut CVec<u64>, n: u64) -> u64 { v.reserve(n as usize); (v.capacity() - v.len() >= n as usize) as u64 }
extern "C" fn vec_clone(v: &CVec<u64>) -> CVec<u64> { v.clone() }
extern "C" fn vec_sum(v: &CVec<u64>) -> u64 { v.iter().fold(0u64, |a, b| a.wrapping_add(*b)) }
extern "C" fn slice_sum(s: CSliceRef<u64>) -> u64 { s.as_slice().iter().fold(0u64, |a, b| a.wrapping_add(*b)) }
extern "C" fn vec_drop(v: CVec<u64>) { drop(v) }
extern "C" fn stats(s: &mut Stats) {
    *s = Stats { live: LIVE.load(SeqCst), tokens: TOKENS.load(SeqCst), allocs: N_ALLOC.load(SeqCst), frees: N_FREE.load(SeqCst),
                 foreign_free: FOREIGN_FREE.load(SeqCst), unknown_free: UNKNOWN_FREE.load(SeqCst), size_mismatch: SIZE_MISMATCH.load(SeqCst), live_bytes: LIVE_BYTES.load(SeqCst) };
}

extern "C" fn make_tarc() -> CArc<Token> { CArc::from(Arc::new(Token::new())) }
extern "C" fn tarc_clone(c: &CArc<Token>) -> CArc<Token> { c.clone() }
extern "C" fn tarc_opaque(c: CArc<Token>) -> Ctx { c.into_opaque() }
extern "C" fn tarc_drop(c: CArc<Token>) { drop(c) }
extern "C" fn make_box(v: u64) -> CBox<'static, u64> { CBox::from(v) }
extern "C" fn box_get(b: &CBox<'static, u64>) -> u64 { **b }
extern "C" fn box_drop(b: CBox<'static, u64>) { drop(b) }
extern "C" fn make_sbox(v: u64, n: u64) -> cglue::boxed::CSliceBox<'static, u64> { let b: Box<[u64]> = (0..n).map(|i| v.wrapping_add(i)).collect::<Vec<u64>>().into_boxed_slice(); b.into() }
extern "C" fn sbox_sum(b: &cglue::boxed::CSliceBox<'static, u64>) -> u64 { b.iter().fold(0u64, |a, x| a.wrapping_add(*x)) }
extern "C" fn sbox_drop(b: cglue::boxed::CSliceBox<'static, u64>) { drop(b) }

pub static TABLE: ModTable = ModTable {
    make_ctx, ctx_clone, ctx_drop, make_obj, obj_get, obj_add, obj_label_len, obj_into_total, obj_drop, make_grp, grp_get, grp_clone, grp_put, grp_sum,
    grp_visit_local_cb, grp_fill_local_iter, grp_has_store, grp_into_total, grp_drop, make_vec, vec_push, vec_insert, vec_pop, vec_remove, vec_reserve, vec_clone, vec_sum, slice_sum, vec_drop, stats,
    make_tarc, tarc_clone, tarc_opaque, tarc_drop, make_box, box_get, box_drop, make_sbox, sbox_sum, sbox_drop, make_ctx_probed,
};

#[no_mangle]
pub extern "C" fn xm_table() -> *const ModTable { &TABLE }

/// build fingerprint: compiler version and profile of THIS artifact
#[no_mangle]
pub extern "C" fn xm_build(out: *mut u8, cap: usize) -> usize {
    let s = format!("{} opt={} dbg={}", env!("XMOD_RUSTC"), if cfg!(debug_assertions) { "debug" } else { "release" }, std::mem::size_of::<Impl>());
    let n = s.len().min(cap);
    unsafe { std::ptr::copy_nonoverlapping(s.as_ptr(), out, n) };
    n
}
