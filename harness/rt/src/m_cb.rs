//! C15: OpaqueCallback / FeedCallback / FromExtend / CIterator.
use crate::tok::*;
use crate::{Mon, Rows};
use cglue::callback::{Callbackable, FeedCallback, FromExtend, OpaqueCallback};
use cglue::iter::AsCIterator;
use cglue::iter::CIterator;
use std::collections::VecDeque;

struct Scripted {
    script: Vec<Option<i64>>,
    pos: usize,
}
impl Iterator for Scripted {
    type Item = Tok;
    fn next(&mut self) -> Option<Tok> {
        let r = self.script.get(self.pos).copied().flatten();
        if self.pos < self.script.len() { self.pos += 1; }
        r.map(Tok::mk)
    }
}

fn feed(method: i64, items: Vec<Tok>, cb: OpaqueCallback<Tok>) -> i64 {
    let mut cb = cb;
    match method {
        0 => items.into_iter().feed_into_mut(&mut cb) as i64,
        1 => { cb.extend(items); -1 }
        2 => items.feed_into(cb) as i64,
        3 => { let mut n = 0; let mut it = items.into_iter(); while let Some(v) = it.next() { n += 1; if !Callbackable::call(&mut cb, v) { break; } } drop(it); n }
        _ => { let mut n = 0; let mut r = &mut cb; let mut it = items.into_iter(); while let Some(v) = it.next() { n += 1; if !Callbackable::call(&mut r, v) { break; } } drop(it); n }
    }
}

pub fn run(_params: &[i64], ops: &Rows, mon: &mut Mon) -> Rows {
    let mut out = Vec::new();
    for (k, op) in ops.iter().enumerate() {
        let _ = take_drops();
        if op[0] == 0 {
            let (kind, stop, method) = (op[1], op[2] as usize, op[3]);
            let vals: Vec<i64> = op[4..].to_vec();
            let items: Vec<Tok> = vals.iter().map(|v| Tok::mk(*v)).collect();
            let (cnt, got): (i64, Vec<i64>);
            let rest: Vec<i64>;
            match kind {
                0 => {
                    let mut store: Vec<Tok> = Vec::new();
                    let mut n = 0usize;
                    let mut f = |t: Tok| { store.push(t); n += 1; n != stop };
                    cnt = feed(method, items, OpaqueCallback::from(&mut f));
                    rest = take_drops();
                    got = store.iter().map(|t| t.val()).collect();
                }
                3 => {
                    // the same as kind 0, and then the SAME callback is fed a second sequence (by reference): a callback keeps no memory of an
                    // earlier stop — the closure decides again for every item (here it never stops again: its counter is past `stop`)
                    let mut store: Vec<Tok> = Vec::new();
                    let mut n = 0usize;
                    let mut f = |t: Tok| { store.push(t); n += 1; n != stop };
                    let mut cb = OpaqueCallback::from(&mut f);
                    let c1 = if method == 1 { cb.extend(items); -1 } else { items.into_iter().feed_into_mut(&mut cb) as i64 };
                    let rest1 = take_drops();
                    let second: Vec<Tok> = vec![Tok::mk(900), Tok::mk(901), Tok::mk(902)];
                    let c2 = if method == 1 { cb.extend(second); -1 } else { second.into_iter().feed_into_mut(&mut cb) as i64 };
                    let more = Callbackable::call(&mut &mut cb, Tok::mk(903));
                    let rest2 = take_drops();
                    drop(cb);
                    let all: Vec<i64> = store.iter().map(|t| t.val()).collect();
                    // what the closure must have seen: it stops a feed exactly when its own counter reaches `stop`, whichever feed that happens in
                    let first_n = if stop > 0 { stop.min(vals.len()) } else { vals.len() };
                    let mut want: Vec<i64> = vals[..first_n].to_vec();
                    let mut cnt_sim = first_n; let mut want_c2 = 0i64; let mut want_rest2: Vec<i64> = vec![];
                    let mut stopped = false;
                    for v in [900i64, 901, 902] { if stopped { want_rest2.push(v); continue; } want.push(v); cnt_sim += 1; want_c2 += 1; if cnt_sim == stop { stopped = true; } }
                    want.push(903); cnt_sim += 1;
                    let want_more = cnt_sim != stop;
                    if all != want || rest2 != want_rest2 || (c2 >= 0 && c2 != want_c2) || more != want_more { mon.fail(format!("case{} a callback that answered stop earlier was fed again: the closure received {:?} (expected {:?}), second count {} (expected {}), undelivered items destroyed {:?} (expected {:?}), a further call returned {} (expected {})", k, all, want, c2, want_c2, rest2, want_rest2, more, want_more)); }
                    drop(store);
                    let _ = take_drops();
                    // rows of the model's refeed case: [count 1] ; [count 2] ; everything received ; never offered 1 ; never offered 2 ; [last call]
                    out.push(vec![c1]); out.push(vec![c2]); out.push(all); out.push(rest1); out.push(rest2); out.push(vec![more as i64]);
                    continue;
                }
                4 => {
                    // a BORROWED source (`&mut` iterator; method 2: a CIterator wrapped around it) fed into a closure that stops: the source must
                    // be left with exactly the items never offered — nothing beyond the stopping item may be taken out of it, let alone destroyed
                    drop(items);
                    let _ = take_drops();
                    let mut src = Scripted { script: vals.iter().map(|v| Some(*v)).collect(), pos: 0 };
                    let mut store: Vec<Tok> = Vec::new();
                    let mut n = 0usize;
                    let mut f = |t: Tok| { store.push(t); n += 1; n != stop };
                    let mut cb = OpaqueCallback::from(&mut f);
                    cnt = match method {
                        1 => { cb.extend(&mut src); -1 }
                        2 => CIterator::new(&mut src).feed_into_mut(&mut cb) as i64,
                        _ => (&mut src).feed_into_mut(&mut cb) as i64,
                    };
                    drop(cb);
                    let d = take_drops();
                    if !d.is_empty() { mon.fail(format!("case{} items {:?} were taken from a borrowed source and destroyed though never offered to the callback", k, d)); }
                    let left: Vec<Tok> = src.collect();
                    rest = left.iter().map(|t| t.val()).collect();
                    got = store.iter().map(|t| t.val()).collect();
                    drop(left);
                }
                1 => {
                    // every other case the sink already HOLDS two items: a collecting callback appends, it never replaces (C15_feed is about any sink state)
                    let mut store: Vec<Tok> = Vec::new();
                    let pre = if vals.len() % 2 == 1 { 2 } else { 0 };
                    for i in 0..pre { store.push(Tok::mk(990 + i as i64)); }
                    cnt = feed(method, items, OpaqueCallback::from(&mut store));
                    rest = take_drops();
                    let held: Vec<i64> = store.iter().map(|t| t.val()).collect();
                    if held.len() < pre || held[..pre] != [990i64, 991][..pre] { mon.fail(format!("case{} a Vec sink that held [990, 991][..{}] before the feed holds {:?} afterwards: it lost or reordered its earlier contents", k, pre, held)); got = held; } else { got = held[pre..].to_vec(); }
                }
                _ => {
                    let mut store: VecDeque<Tok> = VecDeque::new();
                    let pre = if vals.len() % 2 == 1 { 2 } else { 0 };
                    for i in 0..pre { store.push_back(Tok::mk(990 + i as i64)); }
                    cnt = feed(method, items, store.from_extend());
                    rest = take_drops();
                    let held: Vec<i64> = store.iter().map(|t| t.val()).collect();
                    if held.len() < pre || held[..pre] != [990i64, 991][..pre] { mon.fail(format!("case{} a from_extend sink that held [990, 991][..{}] before the feed holds {:?} afterwards: it lost or reordered its earlier contents", k, pre, held)); got = held; } else { got = held[pre..].to_vec(); }
                }
            }
            let _ = take_drops();
            // monitor (model independent)
            if got[..] != vals[..got.len().min(vals.len())] || got.len() > vals.len() { mon.fail(format!("case{} sink received {:?} which is not a prefix of {:?}", k, got, vals)); }
            if cnt >= 0 && cnt as usize != got.len() { mon.fail(format!("case{} count {} but {} items delivered", k, cnt, got.len())); }
            let mut all = got.clone(); all.extend(rest.iter());
            if all != vals { mon.fail(format!("case{} delivered+left {:?} != items {:?}", k, all, vals)); }
            let want = if (kind == 0 || kind == 3 || kind == 4) && stop > 0 { stop.min(vals.len()) } else { vals.len() };
            if got.len() != want { mon.fail(format!("case{} delivered {} items, expected {}", k, got.len(), want)); }
            out.push(vec![cnt]);
            out.push(got);
            out.push(rest);
        } else {
            let n = op[1] as usize;
            let iops = &op[2..2 + n];
            let script: Vec<Option<i64>> = op[2 + n..].iter().map(|v| if *v < 0 { None } else { Some(*v) }).collect();
            let mut src = Scripted { script: script.clone(), pos: 0 };
            let mut row = Vec::new();
            let mut kept: Vec<Tok> = Vec::new();
            let mut i = 0;
            let mut expect_pos = 0usize;
            while i < iops.len() {
                if iops[i] == 0 {
                    let mut w = if k % 2 == 0 { CIterator::new(&mut src) } else if k % 3 == 0 { CIterator::from(&mut src) } else { src.as_citer() };
                    while i < iops.len() && iops[i] == 0 {
                        let r = w.next();
                        let e = script.get(expect_pos).copied().flatten();
                        if expect_pos < script.len() { expect_pos += 1; }
                        if r.as_ref().map(|t| t.val()) != e { mon.fail(format!("case{} wrapper yielded {:?} source script says {:?}", k, r.as_ref().map(|t| t.val()), e)); }
                        match r { Some(t) => { row.push(1); row.push(t.val()); kept.push(t); } None => { row.push(0); row.push(0); } }
                        i += 1;
                    }
                } else {
                    let r = src.next();
                    if expect_pos < script.len() { expect_pos += 1; }
                    match r { Some(t) => { row.push(1); row.push(t.val()); kept.push(t); } None => { row.push(0); row.push(0); } }
                    i += 1;
                }
            }
            let d = take_drops();
            if !d.is_empty() { mon.fail(format!("case{} {} values were dropped while iterating", k, d.len())); }
            drop(kept);
            let _ = take_drops();
            out.push(row);
        }
    }
    out
}
