//! C14: ReprCString / ReprCStr.
use crate::{Mon, Rows};
use cglue::repr_cstring::{ReprCStr, ReprCString};
use std::collections::hash_map::DefaultHasher;
use std::hash::{Hash, Hasher};

fn h<T: Hash>(t: &T) -> u64 {
    let mut s = DefaultHasher::new();
    t.hash(&mut s);
    s.finish()
}

pub fn run(_params: &[i64], ops: &Rows, mon: &mut Mon) -> Rows {
    let mut out = Vec::new();
    let mut kept: Vec<(ReprCString, Vec<u8>)> = Vec::new();
    for (k, op) in ops.iter().enumerate() {
        let kind = op[0];
        let input: Vec<u8> = op[1..].iter().map(|b| *b as u8).collect();
        let expect: Vec<u8> = input.iter().copied().take_while(|b| *b != 0).collect();
        let row = match kind {
            0 | 1 | 3 => {
                let c = if kind == 0 {
                    ReprCString::from(std::str::from_utf8(&input).expect("generator emits valid utf-8 for kind 0"))
                } else if kind == 3 {
                    ReprCString::from(String::from_utf8(input.clone()).expect("generator emits valid utf-8 for kind 3"))
                } else {
                    ReprCString::from(&input[..])
                };
                {
                    // the other read paths: Deref, Borrow<ReprCStr>, Display, Debug
                    use std::borrow::Borrow;
                    let d: &str = &c;
                    let b: &ReprCStr = c.borrow();
                    if d.as_bytes() != &expect[..] || b.as_ref().as_bytes() != &expect[..] { mon.fail(format!("case{} Deref/Borrow read back differs", k)); }
                    if format!("{}", c).as_bytes() != &expect[..] || format!("{}", b).as_bytes() != &expect[..] { mon.fail(format!("case{} Display differs", k)); }
                    let _ = format!("{:?} {:?}", c, b);
                }
                let s: Vec<u8> = c.as_ref().as_bytes().to_vec();
                let c2 = c.clone();
                let s2: Vec<u8> = c2.as_ref().as_bytes().to_vec();
                let eq = c == c2 && h(&c) == h(&c2) && h(&c) == h(&std::str::from_utf8(&s).unwrap_or(""));
                if s != expect { mon.fail(format!("case{} reads back {:?} expected {:?}", k, s, expect)); }
                if !eq { mon.fail(format!("case{} clone not equal / hash differs", k)); }
                let n1 = s.len() as i64 + 1;
                let n2 = s2.len() as i64 + 1;
                drop(c);
                if kept.len() < 16 { kept.push((c2, expect.clone())); } else { drop(c2); }
                let mut r = vec![1, 0, n1, n2, (s == s2) as i64, s.len() as i64];
                r.extend(s.iter().map(|b| *b as i64));
                r
            }
            4 => {
                // ANY byte slice (not necessarily UTF-8: Latin-1 text from a C caller, a cut multi-byte sequence): the owned buffer must hold the input up
                // to its first NUL and one NUL.  Read through the raw pointer only (the `str` views are for UTF-8 contents), then free.
                let c = ReprCString::from(&input[..]);
                let p: *const u8 = unsafe { std::mem::transmute_copy::<ReprCString, *const u8>(&c) };
                let mut got: Vec<u8> = Vec::new();
                unsafe { let mut q = p; while *q != 0 && got.len() <= input.len() + 8 { got.push(*q); q = q.add(1); } }
                if got != expect { mon.fail(format!("case{} ReprCString::from(&[u8]) holds the bytes {:?} for the input {:?} (expected the input up to its first NUL)", k, got, input)); }
                let n1 = got.len() as i64 + 1;
                drop(c);
                let mut r = vec![1, 0, n1, n1, 1, got.len() as i64];
                r.extend(got.iter().map(|b| *b as i64));
                r
            }
            _ => {
                let cs = std::ffi::CString::new(expect.clone()).unwrap();
                let r0 = ReprCStr::from(cs.as_c_str());
                let r1 = r0;
                let s: Vec<u8> = r0.as_ref().as_bytes().to_vec();
                if s != expect { mon.fail(format!("case{} ReprCStr reads back {:?} expected {:?}", k, s, expect)); }
                if !(r0 == r1) || h(&r0) != h(&r1) { mon.fail(format!("case{} ReprCStr copy differs", k)); }
                // the borrowed type hashes and compares by content too: like the text itself, like the owned string (Borrow<ReprCStr> makes maps keyed by
                // ReprCString answer look-ups by ReprCStr, which needs equal hashes), and differently-contented strings are different
                let owned = ReprCString::from(&expect[..]);
                let text = std::str::from_utf8(&expect).unwrap_or("");
                if std::str::from_utf8(&expect).is_ok() && (h(&r0) != h(&text) || h(&r0) != h(&owned)) { mon.fail(format!("case{} ReprCStr hashes differently from the same text / from the owned string with the same content", k)); }
                {
                    use std::borrow::Borrow;
                    let mut set = std::collections::HashSet::new();
                    set.insert(ReprCString::from(&expect[..]));
                    let key: &ReprCStr = owned.borrow();
                    if !set.contains(key) || !set.contains(&r0) { mon.fail(format!("case{} a set of ReprCString does not find its element through a ReprCStr key", k)); }
                    let mut other = expect.clone(); other.push(b'x');
                    let oc = std::ffi::CString::new(other).unwrap();
                    let r2 = ReprCStr::from(oc.as_c_str());
                    if r0 == r2 || set.contains(&r2) { mon.fail(format!("case{} ReprCStr equal to a longer string", k)); }
                }
                drop(owned);
                let mut r = vec![1, 0, s.len() as i64 + 1, s.len() as i64 + 1, 1, s.len() as i64];
                r.extend(s.iter().map(|b| *b as i64));
                r
            }
        };
        out.push(row);
    }
    // every pair of strings of the case (both orders): equal exactly when their contents are, and equal strings hash equal
    for i in 0..kept.len() { for j in 0..kept.len() {
        let (a, b) = (&kept[i], &kept[j]);
        let want = a.1 == b.1;
        if (a.0 == b.0) != want || (a.0 != b.0) == want { mon.fail(format!("strings {} and {} ({:?} vs {:?}): == is {} but their contents are {}", i, j, a.1, b.1, a.0 == b.0, if want { "equal" } else { "different" })); }
        if want && h(&a.0) != h(&b.0) { mon.fail(format!("strings {} and {} have equal contents but different hashes", i, j)); }
    } }
    drop(kept);
    out
}
