//! Correspondence + monitor harness for the cglue runtime types.
//! stdin : cases  "<model> <param>* | <int>* ; <int>* ; ..."
//! stdout: per case  "<row> ; <row> ; ... # k=v k=v ..."   (rows: same format as the model runner)
mod alloc;
mod tok;
mod m_vec;
mod m_arc { pub type Tok = crate::tok::Tok; include!("m_arc.rs"); }
/// the same harness over a payload aligned to 64 bytes (its Arc keeps the counts 64 bytes before the payload; an erased clone must still find them)
mod m_arc_a { pub type Tok = crate::tok::TokA64; include!("m_arc.rs"); }
mod m_intres;
mod m_cstr;
mod m_cb;
mod m_slice;
mod m_waker;
mod m_box;

use std::io::{BufRead, Write};

#[cfg(not(miri))]
#[global_allocator]
static GLOBAL: alloc::Track = alloc::Track;

pub type Rows = Vec<Vec<i64>>;

#[derive(Default)]
pub struct Mon {
    /// monitor failures found by the model-independent oracle of the property
    pub fails: Vec<String>,
}
impl Mon {
    pub fn fail(&mut self, s: String) {
        let d = alloc::domain(0);
        self.fails.push(s);
        alloc::domain(d);
    }
}

fn ints(s: &str) -> Vec<i64> {
    s.split_whitespace().map(|t| t.parse::<i64>().expect("int")).collect()
}

pub fn quiet<R>(f: impl FnOnce() -> R) -> Result<R, ()> {
    std::panic::catch_unwind(std::panic::AssertUnwindSafe(f)).map_err(|_| ())
}

fn main() {
    std::panic::set_hook(Box::new(|_| {}));
    let stdin = std::io::stdin();
    let stdout = std::io::stdout();
    let mut out = std::io::BufWriter::new(stdout.lock());
    for line in stdin.lock().lines() {
        let line = line.unwrap();
        if line.trim().is_empty() {
            continue;
        }
        let (hd, body) = match line.find('|') {
            Some(i) => (&line[..i], &line[i + 1..]),
            None => (&line[..], ""),
        };
        let hdr = ints(hd);
        let rows_in: Rows = if body.trim().is_empty() { vec![] } else { body.split(';').map(ints).collect() };
        alloc::flush();
        let _ = tok::take_drops();
        let base = alloc::snap();
        let mut mon = Mon::default();
        alloc::domain(1);
        let rows = match hdr[0] {
            10 => if hdr.get(2) == Some(&1) { m_arc_a::run(&hdr[1..], &rows_in, &mut mon) } else { m_arc::run(&hdr[1..], &rows_in, &mut mon) },
            11 => m_vec::run(&hdr[1..], &rows_in, &mut mon),
            12 => m_slice::run(&hdr[1..], &rows_in, &mut mon),
            13 => m_intres::run(&hdr[1..], &rows_in, &mut mon),
            14 => m_cstr::run(&hdr[1..], &rows_in, &mut mon),
            15 => m_cb::run(&hdr[1..], &rows_in, &mut mon),
            19 => m_waker::run(&hdr[1..], &rows_in, &mut mon),
            119 => m_waker::run_threads(&hdr[1..], &rows_in, &mut mon),
            110 => if hdr.get(3) == Some(&1) { m_arc_a::run_threads(&hdr[1..], &rows_in, &mut mon) } else { m_arc::run_threads(&hdr[1..], &rows_in, &mut mon) },
            210 => if hdr.get(1) == Some(&1) { m_arc_a::run_calls(&hdr[1..], &rows_in, &mut mon) } else { m_arc::run_calls(&hdr[1..], &rows_in, &mut mon) },
            21 => m_box::run(&hdr[1..], &rows_in, &mut mon),
            _ => vec![vec![-3]],
        };
        alloc::domain(0);
        let text: Vec<String> = rows.iter().map(|r| r.iter().map(|v| v.to_string()).collect::<Vec<_>>().join(" ")).collect();
        drop(rows);
        let after = alloc::snap();
        let stray = tok::take_drops();
        write!(
            out,
            "{} # leak_bytes={} leak_blocks={} mismatch={} double={} unknown={} allocs={} stray_drops={} fails={}\n",
            text.join(" ; "),
            after.live_bytes - base.live_bytes,
            after.live_blocks - base.live_blocks,
            after.mismatch - base.mismatch,
            after.double - base.double,
            after.unknown - base.unknown,
            after.allocs - base.allocs,
            stray.len(),
            if mon.fails.is_empty() { "-".to_string() } else { mon.fails.join("|").replace(' ', "_") }
        )
        .unwrap();
    }
    out.flush().unwrap();
}
