//! C19: wakers crossing the boundary.  A future wrapped with trait_obj!(.. as Future) executes a script of
//! waker operations inside its poll and retains wakers in a pool shared with the driver.
use crate::{Mon, Rows};
use cglue::prelude::v1::*;
use cglue::task::*;
use std::sync::Mutex;
use std::future::Future;
use std::pin::Pin;
use std::sync::atomic::{AtomicUsize, Ordering::SeqCst};
use std::sync::Arc;
use std::task::{Context, Poll, Waker};

/// The caller's waker: a raw vtable over a tracker that counts references by hand, so that a wake or a release performed on a reference
/// that is no longer alive is SEEN (an Arc-based waker would simply be kept alive by the harness's own clone).
struct Tracker {
    live: std::sync::atomic::AtomicI64,      // references alive: the executor's own waker plus every clone
    wakes: AtomicUsize,
    wakes_on_dead: AtomicUsize,              // wake / wake_by_ref issued while no reference was alive
    over_release: AtomicUsize,               // wake (by value) / drop issued while no reference was alive
}
/// a caller whose RawWaker carries a NULL data pointer keeps its state in a static (hand-written single-task executors do): the tracker is then found here
static NULL_DATA_TRACKER: std::sync::atomic::AtomicPtr<Tracker> = std::sync::atomic::AtomicPtr::new(std::ptr::null_mut());
unsafe fn tr<'a>(p: *const ()) -> &'a Tracker { if p.is_null() { &*NULL_DATA_TRACKER.load(SeqCst) } else { &*(p as *const Tracker) } }
unsafe fn t_clone(p: *const ()) -> std::task::RawWaker { tr(p).live.fetch_add(1, SeqCst); std::task::RawWaker::new(p, &T_VTABLE) }
unsafe fn t_wake(p: *const ()) { let t = tr(p); if t.live.load(SeqCst) <= 0 { t.wakes_on_dead.fetch_add(1, SeqCst); } t.wakes.fetch_add(1, SeqCst); if t.live.fetch_sub(1, SeqCst) <= 0 { t.over_release.fetch_add(1, SeqCst); } }
unsafe fn t_wake_by_ref(p: *const ()) { let t = tr(p); if t.live.load(SeqCst) <= 0 { t.wakes_on_dead.fetch_add(1, SeqCst); } t.wakes.fetch_add(1, SeqCst); }
unsafe fn t_drop(p: *const ()) { let t = tr(p); if t.live.fetch_sub(1, SeqCst) <= 0 { t.over_release.fetch_add(1, SeqCst); } }
static T_VTABLE: std::task::RawWakerVTable = std::task::RawWakerVTable::new(t_clone, t_wake, t_wake_by_ref, t_drop);

/// A caller whose `clone` returns a DISTINCT RawWaker (mode 2): every clone is a record of its own (a stack waker that allocates on clone, per-clone
/// bookkeeping), the original is record 0.  What a foreign-side waker wakes and releases must be the clone taken for it — never the original, which the
/// caller still owns.
struct Rec { tracker: *const Tracker, id: usize, wakes: AtomicUsize, drops: AtomicUsize }
static RECS: Mutex<Vec<usize>> = Mutex::new(Vec::new());                 // addresses of the (leaked, then reclaimed) records of the current case
static ORIG_OWNED: std::sync::atomic::AtomicBool = std::sync::atomic::AtomicBool::new(false);
static ORIG_TOUCHED: AtomicUsize = AtomicUsize::new(0);                   // releases of record 0 while the caller still owns it
fn new_rec(tracker: *const Tracker) -> *const () {
    let d = crate::alloc::domain(0);
    let mut v = RECS.lock().unwrap();
    let r = Box::into_raw(Box::new(Rec { tracker, id: v.len(), wakes: AtomicUsize::new(0), drops: AtomicUsize::new(0) }));
    v.push(r as usize);
    drop(v);
    crate::alloc::domain(d);
    r as *const ()
}
unsafe fn r_clone(p: *const ()) -> std::task::RawWaker { let r = &*(p as *const Rec); (*r.tracker).live.fetch_add(1, SeqCst); std::task::RawWaker::new(new_rec(r.tracker), &R_VTABLE) }
unsafe fn r_release(r: &Rec) { if r.id == 0 && ORIG_OWNED.load(SeqCst) { ORIG_TOUCHED.fetch_add(1, SeqCst); } r.drops.fetch_add(1, SeqCst); let t = &*r.tracker; if t.live.fetch_sub(1, SeqCst) <= 0 { t.over_release.fetch_add(1, SeqCst); } }
unsafe fn r_wake(p: *const ()) { let r = &*(p as *const Rec); r.wakes.fetch_add(1, SeqCst); (*r.tracker).wakes.fetch_add(1, SeqCst); r_release(r); }
unsafe fn r_wake_by_ref(p: *const ()) { let r = &*(p as *const Rec); r.wakes.fetch_add(1, SeqCst); (*r.tracker).wakes.fetch_add(1, SeqCst); }
unsafe fn r_drop(p: *const ()) { r_release(&*(p as *const Rec)); }
static R_VTABLE: std::task::RawWakerVTable = std::task::RawWakerVTable::new(r_clone, r_wake, r_wake_by_ref, r_drop);

struct Shared {
    ops: Vec<Vec<i64>>,
    pos: usize,
    pool: Vec<Option<Waker>>,
    rows: Vec<Vec<i64>>, // result row, observation row, ...
    cw: Arc<Tracker>,
    base: i64,                 // 1 while the executor's own waker is alive, 0 after it dropped it (op 7)
}
impl Shared {
    fn observe(&self) -> Vec<i64> {
        vec![self.cw.wakes.load(SeqCst) as i64, self.cw.live.load(SeqCst) - self.base]
    }
    fn record(&mut self, row: Vec<i64>) {
        let o = self.observe();
        self.rows.push(row);
        self.rows.push(o);
    }
}

struct Scripted(Arc<Mutex<Shared>>);

fn exec_outside(sh: &mut Shared, op: &[i64]) -> Vec<i64> {
    let c = op[0];
    let h = op.get(1).copied().unwrap_or(-1);
    let live = h >= 0 && (h as usize) < sh.pool.len() && sh.pool[h as usize].is_some();
    match c {
        2 => { if live { let w = sh.pool[h as usize].as_ref().unwrap().clone(); sh.pool.push(Some(w)); vec![2, 1, sh.pool.len() as i64 - 1] } else { vec![2, 0, -1] } }
        3 => { if live { sh.pool[h as usize].take().unwrap().wake(); vec![3, 1, -1] } else { vec![3, 0, -1] } }
        4 => { if live { sh.pool[h as usize].as_ref().unwrap().wake_by_ref(); vec![4, 1, -1] } else { vec![4, 0, -1] } }
        5 => { if live { drop(sh.pool[h as usize].take()); vec![5, 1, -1] } else { vec![5, 0, -1] } }
        6 | 7 => vec![6, 1, -1],
        _ => vec![-2],
    }
}

impl Future for Scripted {
    type Output = ();
    fn poll(self: Pin<&mut Self>, cx: &mut Context<'_>) -> Poll<()> {
        let rc = self.0.clone();
        loop {
            let mut sh = rc.lock().unwrap();
            if sh.pos >= sh.ops.len() { return Poll::Pending; }
            let op = sh.ops[sh.pos].clone();
            sh.pos += 1;
            let row = match op[0] {
                0 => { let w = cx.waker().clone(); sh.pool.push(Some(w)); vec![0, 1, sh.pool.len() as i64 - 1] }
                1 => { cx.waker().wake_by_ref(); vec![1, 1, -1] }
                6 => { sh.record(vec![6, 1, -1]); return Poll::Pending; }
                _ => exec_outside(&mut sh, &op),
            };
            sh.record(row);
        }
    }
}

/// params: [1 = the caller's RawWaker has a NULL data pointer (its state lives in a static)]
pub fn run(params: &[i64], ops: &Rows, mon: &mut Mon) -> Rows {
    NULL_DATA.store(params.get(0).copied().unwrap_or(0) == 1, SeqCst);
    DISTINCT.store(params.get(0).copied().unwrap_or(0) == 2, SeqCst);
    let r = go(ops, 0, mon);
    NULL_DATA.store(false, SeqCst);
    DISTINCT.store(false, SeqCst);
    r
}
static DISTINCT: std::sync::atomic::AtomicBool = std::sync::atomic::AtomicBool::new(false);
static NULL_DATA: std::sync::atomic::AtomicBool = std::sync::atomic::AtomicBool::new(false);

/// C19, concurrent part: '119 <threads> | history' — the history runs as usual (wakers obtained inside polls of the opaque future and retained);
/// then every thread receives a clone of each retained waker (same slot numbers) and replays, concurrently with the others, the clone / wake /
/// wake_by_ref / drop operations of the history on its own copy of the pool, and finally drops what it still holds; then the driver drops the
/// retained wakers.  Output: one row [times the caller's waker was woken, clones of it still held].
pub fn run_threads(params: &[i64], ops: &Rows, mon: &mut Mon) -> Rows {
    go(ops, params.get(0).copied().unwrap_or(4).clamp(1, 16) as usize, mon)
}

fn go(ops: &Rows, threads: usize, mon: &mut Mon) -> Rows {
    let cw = Arc::new(Tracker { live: std::sync::atomic::AtomicI64::new(1), wakes: AtomicUsize::new(0), wakes_on_dead: AtomicUsize::new(0), over_release: AtomicUsize::new(0) });
    let null_data = NULL_DATA.load(SeqCst);
    if null_data { NULL_DATA_TRACKER.store(Arc::as_ptr(&cw) as *mut Tracker, SeqCst); }
    let distinct = DISTINCT.load(SeqCst);
    if distinct { RECS.lock().unwrap().clear(); ORIG_TOUCHED.store(0, SeqCst); ORIG_OWNED.store(true, SeqCst); }
    let mut orig: Option<Waker> = Some(unsafe { Waker::from_raw(if distinct { std::task::RawWaker::new(new_rec(Arc::as_ptr(&cw)), &R_VTABLE) } else { std::task::RawWaker::new(if null_data { std::ptr::null() } else { Arc::as_ptr(&cw) as *const () }, &T_VTABLE) }) });
    let sh = Arc::new(Mutex::new(Shared { ops: ops.clone(), pos: 0, pool: Vec::new(), rows: Vec::new(), cw: cw.clone(), base: 1 }));
    let fut = Scripted(sh.clone());
    let mut obj = trait_obj!(fut as Future);
    loop {
        let (pos, n) = { let s = sh.lock().unwrap(); (s.pos, s.ops.len()) };
        if pos >= n { break; }
        let op = sh.lock().unwrap().ops[pos].clone();
        if op[0] == 7 {
            // the executor lets go of its own waker: from now on the wakers retained by the foreign side hold the only references
            let mut s = sh.lock().unwrap();
            s.pos += 1;
            if orig.is_some() { ORIG_OWNED.store(false, SeqCst); }
            if orig.take().is_some() { s.base = 0; }
            s.record(vec![6, 1, -1]);
        } else if matches!(op[0], 0 | 1) {
            // an in-poll op: poll the opaque future; the poll consumes ops until a '6' or the end of the script
            let w = match &orig { Some(w) => w, None => { let mut s = sh.lock().unwrap(); s.pos += 1; s.record(vec![-2]); continue; } };
            let mut cx = Context::from_waker(w);
            let p = unsafe { Pin::new_unchecked(&mut obj) };
            let _ = p.poll(&mut cx);
        } else {
            let mut s = sh.lock().unwrap();
            s.pos += 1;
            let row = exec_outside(&mut s, &op);
            s.record(row);
        }
    }
    let mut thread_wakes = 0usize;
    if threads > 0 {
        let d = crate::alloc::domain(0);
        let copies: Vec<Vec<Option<Waker>>> = { let s = sh.lock().unwrap(); (0..threads).map(|_| s.pool.iter().map(|w| w.clone()).collect()).collect() };
        let script: Vec<Vec<i64>> = ops.iter().filter(|o| matches!(o[0], 2 | 3 | 4 | 5)).cloned().collect();
        let barrier = std::sync::Barrier::new(threads);
        let counts: Vec<Option<usize>> = std::thread::scope(|sc| {
            let hs: Vec<_> = copies.into_iter().map(|mut pool| { let script = &script; let barrier = &barrier; sc.spawn(move || {
                barrier.wait();
                let mut n = 0usize;
                for op in script {
                    let h = op[1];
                    let live = h >= 0 && (h as usize) < pool.len() && pool[h as usize].is_some();
                    if !live { continue; }
                    match op[0] {
                        2 => { let w = pool[h as usize].as_ref().unwrap().clone(); pool.push(Some(w)); }
                        3 => { pool[h as usize].take().unwrap().wake(); n += 1; }
                        4 => { pool[h as usize].as_ref().unwrap().wake_by_ref(); n += 1; }
                        _ => { drop(pool[h as usize].take()); }
                    }
                }
                drop(pool);
                n
            }) }).collect();
            hs.into_iter().map(|h| h.join().ok()).collect()
        });
        crate::alloc::domain(d);
        for (k, c) in counts.iter().enumerate() { match c { Some(n) => thread_wakes += n, None => mon.fail(format!("thread {} panicked", k)) } }
    }
    // final: drop every remaining handle in slot order
    let npool = sh.lock().unwrap().pool.len();
    for h in 0..npool {
        let mut s = sh.lock().unwrap();
        let row = exec_outside(&mut s, &[5, h as i64]);
        s.record(row);
    }
    let out: Rows = sh.lock().unwrap().rows.clone();
    // monitor
    let wake_ops = out.iter().step_by(2).filter(|r| (r[0] == 1 || r[0] == 3 || r[0] == 4) && r[1] == 1).count() + thread_wakes;
    let o = sh.lock().unwrap().observe();
    if o[0] as usize != wake_ops { mon.fail(format!("caller's waker woken {} times for {} wake operations", o[0], wake_ops)); }
    if o[1] != 0 { mon.fail(format!("{} clones of the caller's waker still held after every foreign waker is gone", o[1])); }
    let dead = cw.wakes_on_dead.load(SeqCst);
    if dead != 0 { mon.fail(format!("{} wake(s) were issued on the caller's waker while none of its references was alive (woken after its release)", dead)); }
    let over = cw.over_release.load(SeqCst);
    if over != 0 { mon.fail(format!("{} release(s) of the caller's waker while none of its references was alive", over)); }
    drop(obj);
    drop(sh);
    let want = if orig.is_some() { 1 } else { 0 };
    if cw.live.load(SeqCst) != want { mon.fail(format!("{} references to the caller's waker alive at the end instead of {}", cw.live.load(SeqCst), want)); }
    if distinct {
        // every foreign-side waker is gone: each clone taken on its behalf was released exactly once, and the original was left alone
        let touched = ORIG_TOUCHED.load(SeqCst);
        if touched != 0 { mon.fail(format!("the caller's ORIGINAL waker was released {} time(s) by the foreign side while the caller still owned it (the clones taken for the foreign side are distinct wakers)", touched)); }
        let recs: Vec<usize> = RECS.lock().unwrap().clone();
        for a in recs.iter().skip(1) {
            let r = unsafe { &*(*a as *const Rec) };
            if r.drops.load(SeqCst) != 1 { mon.fail(format!("clone {} of the caller's waker was released {} times (expected exactly once)", r.id, r.drops.load(SeqCst))); break; }
        }
    }
    ORIG_OWNED.store(false, SeqCst);
    drop(orig);
    if distinct {
        let d = crate::alloc::domain(0);
        let recs: Vec<usize> = std::mem::take(&mut *RECS.lock().unwrap());
        for a in recs { drop(unsafe { Box::from_raw(a as *mut Rec) }); }
        crate::alloc::domain(d);
    }
    if threads > 0 { vec![o] } else { out }
}
