//! C06 (runtime boxes): CBox<T> / CSliceBox<T> driven by op scripts over a pool of boxes; a plain table of the values each box
//! owns is the monitor's oracle (what std's Box<T> / Box<[T]> would destroy, and when).
//! params: [element type 0 = heap-owning / 1 = zero-sized / 2 = 8-byte / 3 = 3-byte (all with observable destructors) / 4 = plain u64-like / 5 = plain 24-byte struct (NO drop glue)]
//! ops: '0 v' CBox::from(value)   '1 v' CBox::from(Box::new(value))   '2 v' CBox::from((value, NoContext))   '3 v..' CSliceBox::from(Box<[T]>)
//!      '4 h' read through Deref  '5 h i x' write through DerefMut (slice: element i; out of range panics)   '6 h' into_opaque
//!      '7 h' drop                '8 h' IntoInner::into_inner (the value moves to the caller, no destructor runs)
//! output per op: result row ; values whose destructor ran, in order.  After the script every box left is dropped in slot order.
use crate::tok::*;
use crate::{quiet, Mon, Rows};
use cglue::boxed::{CBox, CSliceBox};
use cglue::trait_group::{c_void, IntoInner, NoContext, Opaquable};

enum H<T: 'static> {
    Dead,
    B(CBox<'static, T>),
    OB(CBox<'static, c_void>),
    S(CSliceBox<'static, T>),
    OS(CSliceBox<'static, c_void>),
}

fn go<T: Elem + Send + 'static>(ops: &Rows, mon: &mut Mon) -> Rows {
    let mut out: Rows = Vec::new();
    let mut pool: Vec<H<T>> = Vec::new();
    let mut oracle: Vec<Option<Vec<i64>>> = Vec::new();
    let _ = take_drops();
    let mut all: Vec<Vec<i64>> = ops.clone();
    let mut k = 0usize;
    let mut cleanup = false;
    loop {
        if k == all.len() {
            if cleanup { break; }
            cleanup = true;
            for i in 0..pool.len() { all.push(vec![7, i as i64]); }
            if k == all.len() { break; }
        }
        let op = all[k].clone();
        let c = op[0];
        let a = |i: usize| op.get(i).copied().unwrap_or(0);
        let h = a(1);
        let valid = h >= 0 && (h as usize) < pool.len();
        let take = |pool: &mut Vec<H<T>>| -> H<T> { if valid { std::mem::replace(&mut pool[h as usize], H::Dead) } else { H::Dead } };
        let mut row = vec![c, 0, -1];
        let mut want: Vec<i64> = vec![];
        let mut newh: Option<(H<T>, Vec<i64>)> = None;
        match c {
            0 => newh = Some((H::B(CBox::from(T::mk(a(1)))), vec![T::norm(a(1))])),
            1 => newh = Some((H::B(CBox::from(Box::new(T::mk(a(1))))), vec![T::norm(a(1))])),
            2 => newh = Some((H::B(CBox::from((T::mk(a(1)), NoContext::default()))), vec![T::norm(a(1))])),
            3 => { let v: Vec<T> = op[1..].iter().map(|x| T::mk(*x)).collect(); newh = Some((H::S(CSliceBox::from(v.into_boxed_slice())), op[1..].iter().map(|x| T::norm(*x)).collect())); }
            4 => if valid { match &pool[h as usize] {
                    H::B(b) => { row = vec![4, 1, b.val()]; if Some(vec![b.val()]) != oracle[h as usize] { mon.fail(format!("op{} box holds {} instead of {:?}", k, b.val(), oracle[h as usize])); } }
                    H::S(s) => { let vs: Vec<i64> = s.iter().map(|e| e.val()).collect(); row = vec![4, 1, vs.len() as i64]; row.extend(vs.iter()); if Some(vs.clone()) != oracle[h as usize] { mon.fail(format!("op{} boxed slice holds {:?} instead of {:?}", k, vs, oracle[h as usize])); } }
                    _ => {} } },
            5 => if valid { let i = a(2); let x = a(3); match &mut pool[h as usize] {
                    H::B(b) => { **b = T::mk(x); row = vec![5, 1, -1]; let o = oracle[h as usize].as_mut().unwrap(); want = vec![o[0]]; o[0] = T::norm(x); }
                    H::S(s) => { let r = quiet(|| { s[i as usize] = T::mk(x); }); let o = oracle[h as usize].as_mut().unwrap();
                                 if i >= 0 && (i as usize) < o.len() { want = vec![o[i as usize]]; o[i as usize] = T::norm(x); row = vec![5, 1, -1]; if r.is_err() { mon.fail(format!("op{} in-range write panicked", k)); row = vec![5, 9, -1]; } }
                                 else { want = vec![T::norm(x)]; row = vec![5, 9, -1]; if r.is_ok() { mon.fail(format!("op{} out-of-range write did not panic", k)); row = vec![5, 1, -1]; } } }
                    _ => {} } },
            6 => { match take(&mut pool) {
                    H::B(b) => newh = Some((H::OB(b.into_opaque()), oracle[h as usize].take().unwrap())),
                    H::OB(b) => newh = Some((H::OB(b.into_opaque()), oracle[h as usize].take().unwrap())),
                    H::S(b) => newh = Some((H::OS(b.into_opaque()), oracle[h as usize].take().unwrap())),
                    H::OS(b) => newh = Some((H::OS(b.into_opaque()), oracle[h as usize].take().unwrap())),
                    H::Dead => {} } }
            7 => { match take(&mut pool) { H::Dead => {}, x => { drop(x); row = vec![7, 1, -1]; want = oracle[h as usize].take().unwrap(); } } }
            8 => { match take(&mut pool) {
                    H::B(b) => { let v = unsafe { b.into_inner() }; let val = v.val(); let before = take_drops();
                                 if !before.is_empty() { mon.fail(format!("op{} into_inner ran destructors {:?}", k, before)); }
                                 drop(v); let after = take_drops();
                                 if T::HAS_DROP && after != vec![val] { mon.fail(format!("op{} the value handed back by into_inner is not a live value (destructor log {:?})", k, after)); }
                                 if oracle[h as usize].take() != Some(vec![val]) { mon.fail(format!("op{} into_inner returned {}", k, val)); }
                                 row = vec![8, 1, val]; }
                    other => { if valid { pool[h as usize] = other; } } } }
            _ => {}
        }
        if let Some((nh, vals)) = newh { pool.push(nh); oracle.push(Some(vals)); row = vec![c, 1, pool.len() as i64 - 1]; }
        let mut ran = take_drops();
        // monitor: the destructors that ran are exactly those of the values the box owned (each once, in order)
        if T::HAS_DROP { if ran != want { mon.fail(format!("op{} destructors ran for {:?}, expected {:?}", k, ran, want)); } }
        else { ran = want.clone(); }     // plain data: nothing to observe here — whether its box was released is the allocator's verdict (leak_blocks)
        out.push(row);
        out.push(ran);
        k += 1;
    }
    if oracle.iter().any(|o| o.is_some()) { mon.fail("a box is still alive after the final drops".to_string()); }
    out
}

pub fn run(params: &[i64], ops: &Rows, mon: &mut Mon) -> Rows {
    match params.get(0).copied().unwrap_or(0) {
        0 => go::<Tok>(ops, mon),
        1 => go::<EZ>(ops, mon),
        2 => go::<E64>(ops, mon),
        3 => go::<E3>(ops, mon),
        4 => go::<P64>(ops, mon),
        5 => go::<P24>(ops, mon),
        6 => go::<A64>(ops, mon),
        _ => vec![vec![-2]],
    }
}
