//! C13 (runtime part): into_int_out_result / from_int_result / IntError impls.
use crate::tok::*;
use crate::{Mon, Rows};
use cglue::result::{from_int_result, from_int_result_empty, into_int_out_result, into_int_result, IntError, IntResult};
use core::mem::MaybeUninit;

fn one<E: IntError>(mk: &dyn Fn() -> Result<Tok, E>, is_ok: bool, x: i64, payload: &dyn Fn(&E) -> i64, mon: &mut Mon, k: usize) -> Vec<i64> {
    let mut slot = MaybeUninit::<Tok>::uninit();
    let n = core::mem::size_of::<Tok>();
    unsafe { core::ptr::write_bytes(slot.as_mut_ptr() as *mut u8, 0xAB, n) };
    let _ = take_drops();
    // free function and IntResult trait method alternate
    let code = if k % 2 == 0 { into_int_out_result(mk(), &mut slot) } else { mk().into_int_out_result(&mut slot) };
    let bytes = unsafe { core::slice::from_raw_parts(slot.as_ptr() as *const u8, n) };
    let filled = bytes.iter().any(|b| *b != 0xAB);
    let d = take_drops();
    if !d.is_empty() { mon.fail(format!("case{} encode ran {} destructors", k, d.len())); }
    if (code == 0) != is_ok { mon.fail(format!("case{} code {} for is_ok={}", k, code, is_ok)); }
    if filled != is_ok { mon.fail(format!("case{} slot filled={} for is_ok={}", k, filled, is_ok)); }
    let mut row = vec![code as i64, filled as i64];
    if code == 0 && !filled {
        mon.fail(format!("case{} code 0 with an unwritten slot", k));
        row.extend([-1, -1]);
    } else {
        let r: Result<Tok, E> = unsafe { from_int_result(code, slot) };
        match &r {
            Ok(t) => { row.extend([0, t.val()]); if !is_ok || t.val() != x { mon.fail(format!("case{} decoded Ok({}) from is_ok={} x={}", k, t.val(), is_ok, x)); } }
            Err(e) => { row.extend([1, payload(e)]); if is_ok { mon.fail(format!("case{} decoded Err from Ok", k)); } }
        }
        drop(r);
        let d = take_drops();
        if d.len() != is_ok as usize { mon.fail(format!("case{} success payload dropped {} times", k, d.len())); }
    }
    let code2 = if k % 2 == 0 { into_int_result(mk()) } else { IntResult::into_int_result(mk()) };
    let _ = take_drops();
    let e2: Result<(), E> = from_int_result_empty(code2);
    row.extend([code2 as i64, e2.is_err() as i64]);
    if (code2 == 0) != is_ok { mon.fail(format!("case{} into_int_result code {} for is_ok={}", k, code2, is_ok)); }
    row
}

/// a ZERO-SIZED success payload with a destructor (a permit, a guard): nothing to see in the slot's bytes, but the value must still be MOVED into the
/// slot — not destroyed by the encoder — and come out of the decoder exactly once
fn one_zst(is_ok: bool, mon: &mut Mon, k: usize) -> Vec<i64> {
    let mk = || -> Result<EZ, ()> { if is_ok { Ok(EZ) } else { Err(()) } };
    let mut slot = MaybeUninit::<EZ>::uninit();
    let _ = take_drops();
    let code = if k % 2 == 0 { into_int_out_result(mk(), &mut slot) } else { mk().into_int_out_result(&mut slot) };
    let d = take_drops();
    if !d.is_empty() { mon.fail(format!("case{} encoding a zero-sized success payload ran {} destructor(s): the value was destroyed instead of being moved into the caller's slot", k, d.len())); }
    if (code == 0) != is_ok { mon.fail(format!("case{} code {} for is_ok={}", k, code, is_ok)); }
    let mut row = vec![code as i64, is_ok as i64];
    let r: Result<EZ, ()> = unsafe { from_int_result(code, slot) };
    match &r { Ok(_) => { row.extend([0, 0]); if !is_ok { mon.fail(format!("case{} decoded Ok from Err", k)); } } Err(_) => { row.extend([1, -1]); if is_ok { mon.fail(format!("case{} decoded Err from Ok", k)); } } }
    drop(r);
    let d = take_drops();
    if d.len() != is_ok as usize { mon.fail(format!("case{} zero-sized success payload destroyed {} times after decoding (expected {})", k, d.len(), is_ok as usize)); }
    let code2 = if k % 2 == 0 { into_int_result(mk()) } else { IntResult::into_int_result(mk()) };
    let _ = take_drops();
    let e2: Result<(), ()> = from_int_result_empty(code2);
    row.extend([code2 as i64, e2.is_err() as i64]);
    row
}

pub fn run(_params: &[i64], ops: &Rows, mon: &mut Mon) -> Rows {
    let mut out = Vec::new();
    for (k, op) in ops.iter().enumerate() {
        let (t, shape, x) = (op[0], op[1], op[2]);
        let row = match t {
            0 => {
                let kinds = [std::io::ErrorKind::NotFound, std::io::ErrorKind::Other, std::io::ErrorKind::UnexpectedEof, std::io::ErrorKind::InvalidData];
                let mk = || -> Result<Tok, std::io::Error> {
                    match shape {
                        0 => Ok(Tok::mk(x)),
                        1 => Err(std::io::Error::from_raw_os_error(x as i32)),
                        _ => Err(std::io::Error::new(kinds[(x.rem_euclid(4)) as usize], "synthetic")),
                    }
                };
                let r = one(&mk, shape == 0, x, &|e: &std::io::Error| e.raw_os_error().map(|c| c as i64).unwrap_or(-1), mon, k);
                // monitor: a non-zero OS code survives unchanged
                if shape == 1 && x != 0 && (r[0] != x || r[3] != x) { mon.fail(format!("case{} os code {} became {} / {}", k, x, r[0], r[3])); }
                r
            }
            3 => one_zst(shape == 0, mon, k),
            1 => { let mk = || -> Result<Tok, ()> { if shape == 0 { Ok(Tok::mk(x)) } else { Err(()) } }; one(&mk, shape == 0, x, &|_| -1, mon, k) }
            _ => { let mk = || -> Result<Tok, core::fmt::Error> { if shape == 0 { Ok(Tok::mk(x)) } else { Err(core::fmt::Error) } }; one(&mk, shape == 0, x, &|_| -1, mon, k) }
        };
        out.push(row);
    }
    out
}
