// C10: CArc / CArcSome driven by op scripts over a pool of handles.  (included twice by main.rs: payload Tok, and the over-aligned TokA64)
use crate::tok::{take_drops, Elem};
use crate::{Mon, Rows};
use cglue::arc::{CArc, CArcSome};
use cglue::trait_group::{c_void, Opaquable};
use std::mem::ManuallyDrop;
use std::sync::Arc;

enum H {
    Dead,
    A(CArc<Tok>),
    S(CArcSome<Tok>),
    Std(Arc<Tok>),
    OA(CArc<c_void>),
    OS(CArcSome<c_void>),
}

unsafe fn count_of(p: *const Tok) -> (i64, i64) {
    let a = ManuallyDrop::new(Arc::from_raw(p));
    (Arc::strong_count(&a) as i64, *a.0)
}

fn target(h: &H) -> Option<*const Tok> {
    match h {
        H::Dead => None,
        H::A(a) => a.as_ref().map(|r| r as *const Tok),
        H::OA(a) => a.as_ref().map(|r| r as *const c_void as *const Tok),
        H::S(s) => Some(s.as_ref() as *const Tok),
        H::OS(s) => Some(s.as_ref() as *const c_void as *const Tok),
        H::Std(a) => Some(Arc::as_ptr(a)),
    }
}

fn obs(pool: &[H], tracked: &[std::sync::Weak<Tok>], mon: &mut Mon, k: usize) -> Vec<i64> {
    let mut row = Vec::new();
    for h in pool {
        let kind = match h {
            H::Dead => 0,
            H::A(a) => if a.as_ref().is_some() { 2 } else { 1 },
            H::OA(a) => if a.as_ref().is_some() { 2 } else { 1 },
            H::S(_) | H::OS(_) => 3,
            H::Std(_) => 4,
        };
        row.push(kind);
        match target(h) {
            Some(p) => { let (c, v) = unsafe { count_of(p) }; row.push(c); row.push(v); }
            None => { row.push(0); row.push(0); }
        }
    }
    // monitor: strong count of every allocation == number of live handles pointing at it
    let ptrs: Vec<*const Tok> = pool.iter().filter_map(target).collect();
    // every handle dereferences to an allocation the history created (a Weak taken at creation still names it): a conversion never moves the value elsewhere
    for p in &ptrs {
        if !tracked.iter().any(|w| w.as_ptr() == *p) { mon.fail(format!("op{} a handle points at an allocation that no creation op made (the value was moved to another allocation: Weak references to the original no longer see it)", k)); break; }
    }
    for w in tracked {
        let n = ptrs.iter().filter(|q| **q == w.as_ptr()).count();
        if w.strong_count() != n { mon.fail(format!("op{} Weak::strong_count of an allocation is {} but {} live handles point at it", k, w.strong_count(), n)); break; }
    }
    for p in &ptrs {
        let n = ptrs.iter().filter(|q| *q == p).count() as i64;
        let (c, _) = unsafe { count_of(*p) };
        if c != n { mon.fail(format!("op{} strong count {} but {} live handles", k, c, n)); break; }
    }
    row
}

/// params[0] == 1: every handle is created with FOREIGN functions (as another module or a C caller would build it through the published
/// {instance, clone_fn, drop_fn} layout): counting wrappers that do what the local functions do.  Every clone of a non-empty handle must then
/// run the stored clone function once, every release the stored drop function once, and nothing else may call either.
// ---- "on any number of threads": the handles may cross threads exactly when std's Arc / Option<Arc> may.  Compile-time probes: an inherent associated
// constant (available when the bound holds) shadows the trait's default.
struct IsSend<T>(std::marker::PhantomData<T>);
struct IsSync<T>(std::marker::PhantomData<T>);
trait ProbeDefault { const YES: bool = false; }
impl<T> ProbeDefault for IsSend<T> {}
impl<T> ProbeDefault for IsSync<T> {}
impl<T: Send> IsSend<T> { const YES: bool = true; }
impl<T: Sync> IsSync<T> { const YES: bool = true; }
macro_rules! markers { ($t:ty) => { [<IsSend<$t>>::YES, <IsSync<$t>>::YES] } }
type SendNotSync = std::cell::Cell<u64>;
type SyncNotSend = std::sync::MutexGuard<'static, u32>;
type Neither = std::rc::Rc<u8>;
fn thread_markers(mon: &mut Mon) {
    let rows: [(&str, [bool; 2], [bool; 2], [bool; 2], [bool; 2]); 4] = [
        ("u64", markers!(Arc<u64>), markers!(CArc<u64>), markers!(Option<Arc<u64>>), markers!(CArcSome<u64>)),
        ("Cell<u64> (Send, not Sync)", markers!(Arc<SendNotSync>), markers!(CArc<SendNotSync>), markers!(Option<Arc<SendNotSync>>), markers!(CArcSome<SendNotSync>)),
        ("MutexGuard (Sync, not Send)", markers!(Arc<SyncNotSend>), markers!(CArc<SyncNotSend>), markers!(Option<Arc<SyncNotSend>>), markers!(CArcSome<SyncNotSend>)),
        ("Rc<u8> (neither)", markers!(Arc<Neither>), markers!(CArc<Neither>), markers!(Option<Arc<Neither>>), markers!(CArcSome<Neither>)),
    ];
    for (name, arc, carc, oarc, csome) in rows.iter() {
        if arc != carc { mon.fail(format!("CArc<{}> is [Send, Sync] = {:?} but Arc of the same payload is {:?}: handles on several threads would reach a value that may not be shared like that", name, carc, arc)); }
        if oarc != csome { mon.fail(format!("CArcSome<{}> is [Send, Sync] = {:?} but Option<Arc> of the same payload is {:?}", name, csome, oarc)); }
    }
}

/// Clone::clone_from replaces a live handle IN PLACE: the allocation the destination held loses exactly one reference (its value goes away with the
/// last one), the source's gains one, the destination then dereferences to the source's value; with an empty side it is a plain assignment.
fn clone_from_scenarios(mon: &mut Mon) {
    fn count<T>(p: *const T) -> usize { let a = ManuallyDrop::new(unsafe { Arc::from_raw(p) }); Arc::strong_count(&a) }
    let _ = take_drops();
    // CArc over CArc: different allocations, the destination being the sole handle of its own
    let mut a = CArc::from(Tok::mk(-101));
    let b = CArc::from(Tok::mk(-102));
    let b2 = b.clone();
    let pb = b.as_ref().map(|t| t as *const Tok).unwrap();
    a.clone_from(&b);
    let d = take_drops();
    if d != vec![-101] { mon.fail(format!("CArc::clone_from over the sole handle of another allocation: destructors ran for {:?}, expected the replaced value [-101] exactly now", d)); }
    if count(pb) != 3 { mon.fail(format!("CArc::clone_from: the source's allocation has strong count {} with 3 live handles", count(pb))); }
    if a.as_ref().map(|t| t.val()) != Some(-102) { mon.fail("CArc::clone_from: the destination does not dereference to the source's value".into()); }
    // the same allocation on both sides, an empty source, an empty destination
    let mut a2 = b.clone();
    a2.clone_from(&b);
    if count(pb) != 4 { mon.fail(format!("CArc::clone_from between two handles of ONE allocation: strong count {} with 4 live handles", count(pb))); }
    let e: CArc<Tok> = CArc::default();
    a2.clone_from(&e);
    if count(pb) != 3 || a2.as_ref().is_some() { mon.fail(format!("CArc::clone_from(empty): strong count {} with 3 live handles / destination not empty", count(pb))); }
    a2.clone_from(&b);
    if count(pb) != 4 { mon.fail(format!("CArc::clone_from onto an empty handle: strong count {} with 4 live handles", count(pb))); }
    drop(a); drop(a2); drop(b2);
    if count(pb) != 1 || !take_drops().is_empty() { mon.fail("CArc::clone_from: count or destructors wrong after the copies are gone".into()); }
    drop(b);
    if take_drops() != vec![-102] { mon.fail("CArc::clone_from: the source's value was not destroyed exactly once, with its last handle".into()); }
    // CArcSome
    let mut s = CArcSome::from(Tok::mk(-103));
    let t = CArcSome::from(Tok::mk(-104));
    let t2 = t.clone();
    let pt = &*t as *const Tok;
    s.clone_from(&t);
    let d = take_drops();
    if d != vec![-103] { mon.fail(format!("CArcSome::clone_from over the sole handle of another allocation: destructors ran for {:?}, expected [-103]", d)); }
    if count(pt) != 3 || s.val() != -104 { mon.fail(format!("CArcSome::clone_from: strong count {} with 3 live handles, destination reads {}", count(pt), s.val())); }
    s.clone_from(&t2);
    if count(pt) != 3 { mon.fail(format!("CArcSome::clone_from between two handles of one allocation: strong count {} with 3 live handles", count(pt))); }
    drop(s); drop(t2); drop(t);
    if take_drops() != vec![-104] { mon.fail("CArcSome::clone_from: the source's value was not destroyed exactly once".into()); }
}

pub fn run(params: &[i64], ops: &Rows, mon: &mut Mon) -> Rows {
    thread_markers(mon);
    clone_from_scenarios(mon);
    FOREIGN_ON.store(params.get(0).copied().unwrap_or(0) == 1, SeqCst);
    let r = exec(ops, None, mon);
    FOREIGN_ON.store(false, SeqCst);
    r
}

/// C10, id 210: the model's module tags made observable.  A creation op '0 m v' / '1 m v' / '2 m v' with m = 1 makes a handle of MODULE 1: built
/// through the published layout with counting clone/drop functions (a std Arc of module 1 is one whose clone/drop this harness counts itself).
/// Output per op: the result row and [runs of module 1's clone function, runs of its drop function] during the op — the model's event log
/// projected on module 1 (coq/model/Arc.v calls_of, theorem C10_calls_view).
pub fn run_calls(_params: &[i64], ops: &Rows, mon: &mut Mon) -> Rows {
    TAGS_ON.store(true, SeqCst);
    let r = exec(ops, None, mon);
    TAGS_ON.store(false, SeqCst);
    r
}

use std::sync::atomic::{AtomicBool, AtomicI64, Ordering::SeqCst};
static FOREIGN_ON: AtomicBool = AtomicBool::new(false);
static TAGS_ON: AtomicBool = AtomicBool::new(false);
static F_CLONES: AtomicI64 = AtomicI64::new(0);
static F_DROPS: AtomicI64 = AtomicI64::new(0);
static F_NULLS: AtomicI64 = AtomicI64::new(0);     // entries of a foreign function with a null instance (an empty handle clones and drops without calling anything)
#[repr(C)]
struct Mirror { instance: *const Tok, clone_fn: Option<unsafe extern "C" fn(*const Tok) -> *const Tok>, drop_fn: Option<unsafe extern "C" fn(*const Tok)> }
unsafe extern "C" fn f_clone(p: *const Tok) -> *const Tok { if p.is_null() { F_NULLS.fetch_add(1, SeqCst); } if !p.is_null() { F_CLONES.fetch_add(1, SeqCst); Arc::increment_strong_count(p); } p }
unsafe extern "C" fn f_drop(p: *const Tok) { if p.is_null() { F_NULLS.fetch_add(1, SeqCst); } if !p.is_null() { F_DROPS.fetch_add(1, SeqCst); Arc::decrement_strong_count(p); } }
fn foreign_a(a: CArc<Tok>, m: i64) -> CArc<Tok> {
    if !(FOREIGN_ON.load(SeqCst) || (TAGS_ON.load(SeqCst) && m == 1)) { return a; }
    unsafe { let mut m: Mirror = std::mem::transmute(a); if !m.instance.is_null() { m.clone_fn = Some(f_clone); m.drop_fn = Some(f_drop); } std::mem::transmute(m) }
}
fn foreign_s(a: CArcSome<Tok>, m: i64) -> CArcSome<Tok> {
    if !(FOREIGN_ON.load(SeqCst) || (TAGS_ON.load(SeqCst) && m == 1)) { return a; }
    unsafe { let mut m: Mirror = std::mem::transmute(a); m.clone_fn = Some(f_clone); m.drop_fn = Some(f_drop); std::mem::transmute(m) }
}
fn nonempty_c(h: &H) -> bool { match h { H::A(a) => a.as_ref().is_some(), H::OA(a) => a.as_ref().is_some(), H::S(_) | H::OS(_) => true, _ => false } }

/// kinds only: what one thread can observe deterministically while other threads change the counts
fn obs_kinds(pool: &[H], roots: &[Option<Arc<Tok>>], mon: &mut Mon, k: usize) -> Vec<i64> {
    let mut row = Vec::new();
    for h in pool {
        row.push(match h { H::Dead => 0, H::A(a) => if a.as_ref().is_some() { 2 } else { 1 }, H::OA(a) => if a.as_ref().is_some() { 2 } else { 1 }, H::S(_) | H::OS(_) => 3, H::Std(_) => 4 });
    }
    // this thread's own handles plus the root are a lower bound of the shared count
    let ptrs: Vec<*const Tok> = pool.iter().filter_map(target).collect();
    for r in roots.iter().flatten() {
        let p = Arc::as_ptr(r);
        let mine = ptrs.iter().filter(|q| **q == p).count();
        let c = Arc::strong_count(r);
        if c < mine + 1 { mon.fail(format!("op{} strong count {} below this thread's {} live handles plus the root", k, c, mine)); break; }
    }
    row
}

/// C10, concurrent part: '110 <threads> <rounds> | history' — every thread runs the SAME history `rounds` times on a pool of its own, but the
/// allocations are shared: creation op k hands every thread a clone of one root Arc made for op k.  Per thread and round the result rows and the
/// handle kinds are deterministic (they do not depend on the counts) and must equal those of the sequential model; no payload may be destroyed
/// while the roots are alive; after all threads are done every root's strong count is 1 again and dropping the roots destroys every payload once.
pub fn run_threads(params: &[i64], ops: &Rows, mon: &mut Mon) -> Rows {
    let t = params.get(0).copied().unwrap_or(4).clamp(2, 16) as usize;
    let rounds = params.get(1).copied().unwrap_or(10).clamp(1, 1000) as usize;
    let roots: Vec<Option<Arc<Tok>>> = ops.iter().map(|op| if matches!(op[0], 0 | 1 | 2) { Some(Arc::new(Tok::mk(op[2]))) } else { None }).collect();
    let vals: Vec<i64> = ops.iter().filter(|op| matches!(op[0], 0 | 1 | 2)).map(|op| op[2]).collect();
    let d = crate::alloc::domain(0);
    let barrier = std::sync::Barrier::new(t);
    let results: Vec<(Rows, Vec<String>)> = std::thread::scope(|s| {
        let hs: Vec<_> = (0..t).map(|_| s.spawn(|| {
            barrier.wait();
            let mut m = Mon::default();
            let mut first: Option<Rows> = None;
            for r in 0..rounds {
                let rows = exec(ops, Some(&roots), &mut m);
                match &first { None => first = Some(rows), Some(f) => if *f != rows { m.fail(format!("round {} observed other results than round 0", r)); } }
            }
            (first.unwrap_or_default(), m.fails)
        })).collect();
        hs.into_iter().map(|h| h.join().unwrap_or_else(|_| (vec![vec![-9]], vec!["a thread panicked".to_string()]))).collect()
    });
    crate::alloc::domain(d);
    for (k, (rows, fails)) in results.iter().enumerate() {
        for f in fails.iter().take(3) { mon.fail(format!("thread{}: {}", k, f)); }
        if *rows != results[0].0 { mon.fail(format!("thread {} observed other results than thread 0", k)); }
    }
    for (i, r) in roots.iter().enumerate() {
        if let Some(a) = r { if Arc::strong_count(a) != 1 { mon.fail(format!("the allocation of op{} has strong count {} after every thread released its handles (expected 1: the root)", i, Arc::strong_count(a))); } }
    }
    let early = take_drops();
    if !early.is_empty() { mon.fail(format!("payloads {:?} destroyed while their roots were alive", early)); }
    // a wrong count would make this a use after free: only release the roots whose count is right
    for r in roots.into_iter().flatten() { if Arc::strong_count(&r) == 1 { drop(r); } else { std::mem::forget(r); } }
    let (mut got, mut want) = (take_drops(), vals);
    got.sort(); want.sort();
    if got != want && mon.fails.is_empty() { mon.fail(format!("payloads destroyed at the end {:?}, created {:?}", got, want)); }
    results.into_iter().next().map(|r| r.0).unwrap_or_default()
}

fn exec(ops: &Rows, roots: Option<&[Option<Arc<Tok>>]>, mon: &mut Mon) -> Rows {
    let mut out: Rows = Vec::new();
    let mut pool: Vec<H> = Vec::new();
    let mut tracked: Vec<std::sync::Weak<Tok>> = Vec::new();      // one Weak per allocation, taken when it is created
    let mut tags: Vec<i64> = Vec::new();     // module tag per slot (id 210)
    let tags_on = TAGS_ON.load(SeqCst) && roots.is_none();
    let _ = take_drops();
    let mut all: Vec<Vec<i64>> = ops.clone();
    let mut k = 0usize;
    let mut cleanup_added = false;
    loop {
        if k == all.len() {
            if cleanup_added { break; }
            cleanup_added = true;
            for i in 0..pool.len() { all.push(vec![12, i as i64]); }
            if k == all.len() { break; }
        }
        let op = all[k].clone();
        let c = op[0];
        let slot = |i: i64| -> usize { i as usize };
        let take = |pool: &mut Vec<H>, i: usize| -> H { if i < pool.len() { std::mem::replace(&mut pool[i], H::Dead) } else { H::Dead } };
        let mut res: Option<Option<H>> = None; // None = rejected; Some(None) = ok, no new slot; Some(Some(h)) = new slot
        let (fc0, fd0) = (F_CLONES.load(SeqCst), F_DROPS.load(SeqCst));
        let fn0 = F_NULLS.load(SeqCst);
        let src_tag = if matches!(c, 0 | 1 | 2) { op.get(1).copied().unwrap_or(0) } else { op.get(1).and_then(|i| tags.get(*i as usize).copied()).unwrap_or(0) };
        let src_std = op.get(1).map(|i| *i >= 0 && (*i as usize) < pool.len() && matches!(pool[*i as usize], H::Std(_))).unwrap_or(false);
        let src_nonempty = op.get(1).map(|i| (*i as usize) < pool.len() && *i >= 0 && nonempty_c(&pool[*i as usize])).unwrap_or(false);
        match c {
            0 => res = Some(Some(H::A(foreign_a(match roots { None => CArc::from(Tok::mk(op[2])), Some(r) => CArc::from(r[k].clone().unwrap()) }, op[1])))),
            1 => res = Some(Some(H::S(foreign_s(match roots { None => CArcSome::from(Tok::mk(op[2])), Some(r) => CArcSome::from(r[k].clone().unwrap()) }, op[1])))),
            2 => res = Some(Some(H::Std(match roots { None => Arc::new(Tok::mk(op[2])), Some(r) => r[k].clone().unwrap() }))),
            3 => { let i = slot(op[1]); match take(&mut pool, i) { H::Std(a) => res = Some(Some(H::A(foreign_a(if k % 2 == 0 { CArc::from(a) } else { CArc::from(Some(a)) }, src_tag)))), o => { if i < pool.len() { pool[i] = o; } } } }
            4 => { let i = slot(op[1]); match take(&mut pool, i) { H::Std(a) => res = Some(Some(H::S(foreign_s(CArcSome::from(a), src_tag)))), o => { if i < pool.len() { pool[i] = o; } } } }
            5 => res = Some(Some(H::A(if FOREIGN_ON.load(SeqCst) && k % 3 == 0 { unsafe { std::mem::transmute::<Mirror, CArc<Tok>>(Mirror { instance: std::ptr::null(), clone_fn: Some(f_clone), drop_fn: Some(f_drop) }) } } else if k % 2 == 0 { CArc::from(None::<Arc<Tok>>) } else { CArc::default() }))),
            6 => { let i = slot(op[1]); if i < pool.len() { match &pool[i] {
                    H::A(a) => res = Some(Some(H::A(a.clone()))),
                    H::OA(a) => res = Some(Some(H::OA(a.clone()))),
                    H::S(a) => res = Some(Some(H::S(a.clone()))),
                    H::OS(a) => res = Some(Some(H::OS(a.clone()))),
                    H::Std(a) => res = Some(Some(H::Std(a.clone()))),
                    H::Dead => {} } } }
            7 => { let i = slot(op[1]); if i < pool.len() { match &mut pool[i] {
                    H::A(a) => res = Some(Some(H::A(a.take()))),
                    H::OA(a) => res = Some(Some(H::OA(a.take()))),
                    _ => {} } } }
            8 => { let i = slot(op[1]); match take(&mut pool, i) {
                    H::A(a) => res = Some(a.transpose().map(H::S)),
                    H::OA(a) => res = Some(a.transpose().map(H::OS)),
                    o => { if i < pool.len() { pool[i] = o; } } } }
            9 => { let i = slot(op[1]); match take(&mut pool, i) {
                    H::S(a) => res = Some(Some(H::A(a.transpose()))),
                    H::OS(a) => res = Some(Some(H::OA(a.transpose()))),
                    o => { if i < pool.len() { pool[i] = o; } } } }
            10 => { let i = slot(op[1]); match take(&mut pool, i) {
                    H::A(a) => res = Some(Some(H::OA(a.into_opaque()))),
                    H::S(a) => res = Some(Some(H::OS(a.into_opaque()))),
                    H::OA(a) => res = Some(Some(H::OA(a.into_opaque()))),
                    H::OS(a) => res = Some(Some(H::OS(a.into_opaque()))),
                    o => { if i < pool.len() { pool[i] = o; } } } }
            11 => { let i = slot(op[1]); match take(&mut pool, i) {
                    H::S(a) => res = Some(Some(H::Std(unsafe { a.into_arc() }))),
                    H::OS(a) => res = Some(Some(H::Std(unsafe { std::mem::transmute::<CArcSome<c_void>, CArcSome<Tok>>(a).into_arc() }))),
                    o => { if i < pool.len() { pool[i] = o; } } } }
            12 => { let i = slot(op[1]); match take(&mut pool, i) { H::Dead => {}, h => { drop(h); res = Some(None); } } }
            _ => {}
        }
        if tags_on && src_std && src_tag == 1 && res.is_some() { if c == 6 { F_CLONES.fetch_add(1, SeqCst); } if c == 12 { F_DROPS.fetch_add(1, SeqCst); } }
        if F_NULLS.load(SeqCst) != fn0 { mon.fail(format!("op{} ({}): a stored clone/drop function was entered {} time(s) with a NULL instance (an empty handle must clone and drop without calling anything)", k, c, F_NULLS.load(SeqCst) - fn0)); }
        if roots.is_none() && FOREIGN_ON.load(SeqCst) {
            let (dc, dd) = (F_CLONES.load(SeqCst) - fc0, F_DROPS.load(SeqCst) - fd0);
            let (wc, wd) = match c { 6 if src_nonempty => (1, 0), 12 if src_nonempty => (0, 1), _ => (0, 0) };
            if (dc, dd) != (wc, wd) { mon.fail(format!("op{} ({}) on a handle carrying foreign clone/drop functions: the stored clone function ran {} times and the stored drop function {} times, expected {} and {}", k, c, dc, dd, wc, wd)); }
        }
        let row = match res {
            None => vec![c, 0, -1],
            Some(None) => vec![c, 1, -1],
            Some(Some(h)) => {
                if roots.is_none() && matches!(c, 0 | 1 | 2) { if let Some(p) = target(&h) { let a = ManuallyDrop::new(unsafe { Arc::from_raw(p) }); tracked.push(Arc::downgrade(&a)); } }
                pool.push(h); tags.push(if c == 5 { 0 } else { src_tag }); vec![c, 1, pool.len() as i64 - 1]
            }
        };
        out.push(row);
        if tags_on { let _ = take_drops(); out.push(vec![F_CLONES.load(SeqCst) - fc0, F_DROPS.load(SeqCst) - fd0]); k += 1; continue; }
        match roots {
            None => { out.push(take_drops()); out.push(obs(&pool, &tracked, mon, k)); }
            Some(r) => { let ds = take_drops(); if !ds.is_empty() { mon.fail(format!("op{} destroyed payloads {:?} although their roots are alive", k, ds)); } out.push(obs_kinds(&pool, r, mon, k)); }
        }
        k += 1;
    }
    out
}
