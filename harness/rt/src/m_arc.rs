//! C10: CArc / CArcSome driven by op scripts over a pool of handles.
use crate::tok::*;
use crate::{Mon, Rows};
use cglue::arc::{CArc, CArcSome};
use cglue::trait_group::{c_void, Opaquable};
use std::mem::ManuallyDrop;
use std::sync::Arc;

enum H {
    Dead,
    A(CArc<Tok>),
    S(CArcSome<Tok>),
    Std(Arc<Tok>),
    OA(CArc<c_void>),
    OS(CArcSome<c_void>),
}

unsafe fn count_of(p: *const Tok) -> (i64, i64) {
    let a = ManuallyDrop::new(Arc::from_raw(p));
    (Arc::strong_count(&a) as i64, *a.0)
}

fn target(h: &H) -> Option<*const Tok> {
    match h {
        H::Dead => None,
        H::A(a) => a.as_ref().map(|r| r as *const Tok),
        H::OA(a) => a.as_ref().map(|r| r as *const c_void as *const Tok),
        H::S(s) => Some(s.as_ref() as *const Tok),
        H::OS(s) => Some(s.as_ref() as *const c_void as *const Tok),
        H::Std(a) => Some(Arc::as_ptr(a)),
    }
}

fn obs(pool: &[H], mon: &mut Mon, k: usize) -> Vec<i64> {
    let mut row = Vec::new();
    for h in pool {
        let kind = match h {
            H::Dead => 0,
            H::A(a) => if a.as_ref().is_some() { 2 } else { 1 },
            H::OA(a) => if a.as_ref().is_some() { 2 } else { 1 },
            H::S(_) | H::OS(_) => 3,
            H::Std(_) => 4,
        };
        row.push(kind);
        match target(h) {
            Some(p) => { let (c, v) = unsafe { count_of(p) }; row.push(c); row.push(v); }
            None => { row.push(0); row.push(0); }
        }
    }
    // monitor: strong count of every allocation == number of live handles pointing at it
    let ptrs: Vec<*const Tok> = pool.iter().filter_map(target).collect();
    for p in &ptrs {
        let n = ptrs.iter().filter(|q| *q == p).count() as i64;
        let (c, _) = unsafe { count_of(*p) };
        if c != n { mon.fail(format!("op{} strong count {} but {} live handles", k, c, n)); break; }
    }
    row
}

pub fn run(_params: &[i64], ops: &Rows, mon: &mut Mon) -> Rows {
    let mut out: Rows = Vec::new();
    let mut pool: Vec<H> = Vec::new();
    let _ = take_drops();
    let mut all: Vec<Vec<i64>> = ops.clone();
    let mut k = 0usize;
    let mut cleanup_added = false;
    loop {
        if k == all.len() {
            if cleanup_added { break; }
            cleanup_added = true;
            for i in 0..pool.len() { all.push(vec![12, i as i64]); }
            if k == all.len() { break; }
        }
        let op = all[k].clone();
        let c = op[0];
        let slot = |i: i64| -> usize { i as usize };
        let take = |pool: &mut Vec<H>, i: usize| -> H { if i < pool.len() { std::mem::replace(&mut pool[i], H::Dead) } else { H::Dead } };
        let mut res: Option<Option<H>> = None; // None = rejected; Some(None) = ok, no new slot; Some(Some(h)) = new slot
        match c {
            0 => res = Some(Some(H::A(CArc::from(Tok::mk(op[2]))))),
            1 => res = Some(Some(H::S(CArcSome::from(Tok::mk(op[2]))))),
            2 => res = Some(Some(H::Std(Arc::new(Tok::mk(op[2]))))),
            3 => { let i = slot(op[1]); match take(&mut pool, i) { H::Std(a) => res = Some(Some(H::A(if k % 2 == 0 { CArc::from(a) } else { CArc::from(Some(a)) }))), o => { if i < pool.len() { pool[i] = o; } } } }
            4 => { let i = slot(op[1]); match take(&mut pool, i) { H::Std(a) => res = Some(Some(H::S(CArcSome::from(a)))), o => { if i < pool.len() { pool[i] = o; } } } }
            5 => res = Some(Some(H::A(if k % 2 == 0 { CArc::from(None::<Arc<Tok>>) } else { CArc::default() }))),
            6 => { let i = slot(op[1]); if i < pool.len() { match &pool[i] {
                    H::A(a) => res = Some(Some(H::A(a.clone()))),
                    H::OA(a) => res = Some(Some(H::OA(a.clone()))),
                    H::S(a) => res = Some(Some(H::S(a.clone()))),
                    H::OS(a) => res = Some(Some(H::OS(a.clone()))),
                    H::Std(a) => res = Some(Some(H::Std(a.clone()))),
                    H::Dead => {} } } }
            7 => { let i = slot(op[1]); if i < pool.len() { match &mut pool[i] {
                    H::A(a) => res = Some(Some(H::A(a.take()))),
                    H::OA(a) => res = Some(Some(H::OA(a.take()))),
                    _ => {} } } }
            8 => { let i = slot(op[1]); match take(&mut pool, i) {
                    H::A(a) => res = Some(a.transpose().map(H::S)),
                    H::OA(a) => res = Some(a.transpose().map(H::OS)),
                    o => { if i < pool.len() { pool[i] = o; } } } }
            9 => { let i = slot(op[1]); match take(&mut pool, i) {
                    H::S(a) => res = Some(Some(H::A(a.transpose()))),
                    H::OS(a) => res = Some(Some(H::OA(a.transpose()))),
                    o => { if i < pool.len() { pool[i] = o; } } } }
            10 => { let i = slot(op[1]); match take(&mut pool, i) {
                    H::A(a) => res = Some(Some(H::OA(a.into_opaque()))),
                    H::S(a) => res = Some(Some(H::OS(a.into_opaque()))),
                    H::OA(a) => res = Some(Some(H::OA(a.into_opaque()))),
                    H::OS(a) => res = Some(Some(H::OS(a.into_opaque()))),
                    o => { if i < pool.len() { pool[i] = o; } } } }
            11 => { let i = slot(op[1]); match take(&mut pool, i) {
                    H::S(a) => res = Some(Some(H::Std(unsafe { a.into_arc() }))),
                    H::OS(a) => res = Some(Some(H::Std(unsafe { std::mem::transmute::<CArcSome<c_void>, CArcSome<Tok>>(a).into_arc() }))),
                    o => { if i < pool.len() { pool[i] = o; } } } }
            12 => { let i = slot(op[1]); match take(&mut pool, i) { H::Dead => {}, h => { drop(h); res = Some(None); } } }
            _ => {}
        }
        let row = match res {
            None => vec![c, 0, -1],
            Some(None) => vec![c, 1, -1],
            Some(Some(h)) => { pool.push(h); vec![c, 1, pool.len() as i64 - 1] }
        };
        out.push(row);
        out.push(take_drops());
        out.push(obs(&pool, mon, k));
        k += 1;
    }
    out
}
