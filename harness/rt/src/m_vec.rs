//! C11: CVec<T> driven by op scripts, std::Vec<i64> alongside as the monitor's oracle.
use crate::tok::*;
use crate::{quiet, Mon, Rows};
use cglue::vec::CVec;

fn contents<T: Elem>(v: &CVec<T>) -> Vec<i64> {
    v.iter().map(|e| e.val()).collect()
}

// ---- a vector whose stored functions are FOREIGN (as a C caller or another module would build it through the published five-field layout):
// recording wrappers around the functions the library stored.  The vector must be grown only through reserve_fn and released exactly once through
// drop_fn(data, len, capacity) with ITS OWN current length and capacity.
use std::sync::atomic::{AtomicBool, AtomicUsize, Ordering::SeqCst};
static FOREIGN_VEC: AtomicBool = AtomicBool::new(false);
static ORIG_DROP: AtomicUsize = AtomicUsize::new(0);
static ORIG_RESERVE: AtomicUsize = AtomicUsize::new(0);
static RESERVES: AtomicUsize = AtomicUsize::new(0);
thread_local! { static DROP_CALLS: std::cell::RefCell<Vec<(usize, usize, usize)>> = std::cell::RefCell::new(Vec::new()); }
#[repr(C)]
struct VMirror<T> { data: *mut T, len: usize, capacity: usize, drop_fn: Option<unsafe extern "C" fn(*mut T, usize, usize)>, reserve_fn: extern "C" fn(&mut CVec<T>, usize) -> usize }
unsafe extern "C" fn f_vdrop<T>(data: *mut T, len: usize, cap: usize) {
    let d = crate::alloc::domain(0); DROP_CALLS.with(|c| c.borrow_mut().push((data as usize, len, cap))); crate::alloc::domain(d);
    let f: unsafe extern "C" fn(*mut T, usize, usize) = std::mem::transmute(ORIG_DROP.load(SeqCst));
    f(data, len, cap)
}
extern "C" fn f_vreserve<T>(v: &mut CVec<T>, additional: usize) -> usize {
    RESERVES.fetch_add(1, SeqCst);
    let f: extern "C" fn(&mut CVec<T>, usize) -> usize = unsafe { std::mem::transmute(ORIG_RESERVE.load(SeqCst)) };
    // the original rebuilds a Vec around the buffer and stores ITS functions back: keep the foreign ones in place afterwards
    let r = f(v, additional);
    let m: &mut VMirror<T> = unsafe { &mut *(v as *mut CVec<T> as *mut VMirror<T>) };
    m.drop_fn = Some(f_vdrop::<T>); m.reserve_fn = f_vreserve::<T>;
    r
}
fn foreignize<T>(v: CVec<T>) -> CVec<T> {
    if !FOREIGN_VEC.load(SeqCst) { return v; }
    unsafe {
        let mut m: VMirror<T> = std::mem::transmute_copy(&v); std::mem::forget(v);
        if let Some(d) = m.drop_fn { if d as usize != f_vdrop::<T> as usize { ORIG_DROP.store(d as usize, SeqCst); } }
        if m.reserve_fn as usize != f_vreserve::<T> as usize { ORIG_RESERVE.store(m.reserve_fn as usize, SeqCst); }
        m.drop_fn = Some(f_vdrop::<T>); m.reserve_fn = f_vreserve::<T>;
        std::mem::transmute_copy::<VMirror<T>, CVec<T>>(&std::mem::ManuallyDrop::new(m))
    }
}
/// dropping `old` must call the stored drop function exactly once, with the vector's own (data, len, capacity)
fn checked_drop<T>(old: CVec<T>, mon: &mut Mon, k: usize) {
    if !FOREIGN_VEC.load(SeqCst) { drop(old); return; }
    let want = (old.as_ptr() as usize, old.len(), old.capacity());
    DROP_CALLS.with(|c| c.borrow_mut().clear());
    drop(old);
    let calls = DROP_CALLS.with(|c| std::mem::take(&mut *c.borrow_mut()));
    if calls != vec![want] { mon.fail(format!("op{} releasing a vector with foreign functions: drop_fn was called with (data, len, capacity) = {:?}, expected exactly one call with (.., {}, {})", k, calls.iter().map(|c| (c.1, c.2)).collect::<Vec<_>>(), want.1, want.2)); }
}

fn go<T: Elem + Clone>(ops: &Rows, mon: &mut Mon) -> Rows {
    let mut out: Rows = Vec::new();
    let mut v: CVec<T> = foreignize(CVec::default());
    let mut oracle: Vec<i64> = Vec::new();
    let _ = take_drops();
    for (k, op) in ops.iter().enumerate() {
        let mut row: Vec<i64>;
        let mut clone_from_extra: Vec<i64> = vec![];
        let before = oracle.clone();
        let (cap0, res0) = (v.capacity(), RESERVES.load(SeqCst));
        match op[0] {
            0 => {
                let x = T::mk(op[1]);
                v.push(x);
                oracle.push(T::norm(op[1]));
                row = vec![0];
            }
            1 => {
                let r = v.pop();
                let o = oracle.pop();
                row = match &r { Some(e) => vec![1, 1, e.val()], None => vec![1, 0] };
                if r.as_ref().map(|e| e.val()) != o { mon.fail(format!("op{} pop differs from Vec", k)); }
                if let Some(e) = r { let _ = take_val(e); }
            }
            2 => {
                let i = op[1] as usize;
                let x = T::mk(op[2]);
                let snap_before = (v.as_ptr() as usize, v.len(), v.capacity());
                let r = quiet(|| v.insert(i, x));
                if r.is_err() && (v.as_ptr() as usize, v.len(), v.capacity()) != snap_before { mon.fail(format!("op{} an out-of-range insert panicked but modified the vector: (buffer, len, capacity) {:?} -> {:?}", k, (snap_before.1, snap_before.2), (v.len(), v.capacity()))); }
                let o = if i <= oracle.len() { oracle.insert(i, T::norm(op[2])); true } else { false };
                row = vec![2, if r.is_ok() { 0 } else { 9 }];
                if r.is_ok() != o { mon.fail(format!("op{} insert panic parity differs from Vec", k)); }
            }
            3 => {
                let i = op[1] as usize;
                let snap_before = (v.as_ptr() as usize, v.len(), v.capacity());
                let r = quiet(|| v.remove(i));
                if r.is_err() && (v.as_ptr() as usize, v.len(), v.capacity()) != snap_before { mon.fail(format!("op{} an out-of-range remove panicked but modified the vector: (len, capacity) {:?} -> {:?}", k, (snap_before.1, snap_before.2), (v.len(), v.capacity()))); }
                let o = if i < oracle.len() { Some(oracle.remove(i)) } else { None };
                row = match &r { Ok(e) => vec![3, 1, e.val()], Err(_) => vec![3, 9] };
                if r.as_ref().ok().map(|e| e.val()) != o { mon.fail(format!("op{} remove differs from Vec", k)); }
                if let Ok(e) = r { let _ = take_val(e); }
            }
            4 => {
                v.reserve(op[1] as usize);
                if v.capacity() - v.len() < op[1] as usize { mon.fail(format!("op{} reserve did not make room", k)); }
                row = vec![4];
            }
            5 if op.get(1) == Some(&1) && !before.iter().any(|x| T::clone_panics(*x)) => {
                // Clone::clone_from onto a destination that already holds n elements of its own: the destination becomes a copy of the source (same
                // length, same contents), its old elements are destroyed, the source is untouched.  Then the copy takes the place of `v` as in a plain clone.
                let n = op.get(2).copied().unwrap_or(0).rem_euclid(12) as usize;
                let mut d: CVec<T> = CVec::from((0..n).map(|i| T::mk(900 + i as i64)).collect::<Vec<T>>());
                let _ = take_drops();
                d.clone_from(&v);
                if contents(&d) != before || d.len() != before.len() { mon.fail(format!("op{} clone_from onto a vector of {} elements: the destination holds {:?}, the source {:?}", k, n, contents(&d), before)); }
                if contents(&v) != before { mon.fail(format!("op{} clone_from modified its source", k)); }
                let old = std::mem::replace(&mut v, foreignize(d));
                checked_drop(old, mon, k);
                clone_from_extra = (0..n).map(|i| T::norm(900 + i as i64)).collect();
                row = vec![5];
            }
            5 => {
                // Clone may panic half-way (element type PC): the source stays as it was and the clones made so far are destroyed, nothing else
                let snap_before = (v.as_ptr() as usize, v.len(), v.capacity());
                match quiet(|| v.clone()) {
                    Ok(c) => { let old = std::mem::replace(&mut v, foreignize(c)); checked_drop(old, mon, k); row = vec![5]; }
                    Err(_) => {
                        // the model's VCloneP step: the source is untouched, the result row is [5, 9], and the destructor row (checked below against
                        // std::Vec and printed for the model) holds exactly the clones made before the poisoned element
                        if (v.as_ptr() as usize, v.len(), v.capacity()) != snap_before || contents(&v) != before { mon.fail(format!("op{} a clone that panicked modified its source", k)); }
                        row = vec![5, 9];
                    }
                }
            }
            6 => {
                let i = op[1] as usize;
                let x = T::mk(op[2]);
                let r = quiet(|| { v[i] = x; });
                let o = if i < oracle.len() { oracle[i] = T::norm(op[2]); true } else { false };
                row = vec![6, if r.is_ok() { 0 } else { 9 }];
                if r.is_ok() != o { mon.fail(format!("op{} index-write panic parity differs from Vec", k)); }
            }
            7 => {
                let spare = op[1] as usize;
                let xs = &op[2..];
                let mut nv: Vec<T> = Vec::with_capacity(xs.len() + spare);
                for x in xs { nv.push(T::mk(*x)); }
                let old = std::mem::replace(&mut v, foreignize(CVec::from(nv)));
                checked_drop(old, mon, k);
                oracle = xs.iter().map(|x| T::norm(*x)).collect();
                row = vec![7];
            }
            8 => {
                row = vec![8, v.len() as i64, (v.len() <= v.capacity()) as i64];
                row.extend(contents(&v));
            }
            _ => { row = vec![-2]; }
        }
        if FOREIGN_VEC.load(SeqCst) && !matches!(op[0], 5 | 7) && v.capacity() != cap0 && RESERVES.load(SeqCst) == res0 { mon.fail(format!("op{} the capacity of a vector with foreign functions changed from {} to {} without a call of its reserve_fn", k, cap0, v.capacity())); }
        // monitor: same contents/len as Vec after every op; capacity >= len
        if contents(&v) != oracle || v.len() != oracle.len() { mon.fail(format!("op{} contents differ from Vec", k)); }
        if v.capacity() < v.len() { mon.fail(format!("op{} capacity<len", k)); }
        if v.is_empty() != oracle.is_empty() || (v.len() > 0 && v.as_ptr() != v.as_mut_ptr() as *const T) { mon.fail(format!("op{} is_empty/as_ptr disagree", k)); }
        out.push(row);
        // monitor: every element is destroyed exactly once — the destructors that ran during this op are exactly those std::Vec runs
        let ran = take_drops();
        let mut want: Vec<i64> = match op[0] {
            2 => if (op[1] as usize) <= before.len() { vec![] } else { vec![T::norm(op[2])] },      // rejected insert: the argument is destroyed by the unwinding
            5 => match before.iter().position(|x| T::clone_panics(*x)) { Some(j) => before[..j].to_vec(), None => before.clone() },   // a clone that panics at element j destroys the j clones it made
            7 => before.clone(),                                                                   // the replaced vector goes away with all its elements
            6 => if (op[1] as usize) < before.len() { vec![before[op[1] as usize]] } else { vec![T::norm(op[2])] },
            _ => vec![],
        };
        want.extend(clone_from_extra.iter().copied());      // the destination's own elements of a clone_from
        let mut got = ran.clone();
        want.sort(); got.sort();
        if got != want { mon.fail(format!("op{} destructors ran for {:?}, std::Vec runs them for {:?}", k, got, want)); }
        out.push(ran);
    }
    checked_drop(v, mon, ops.len());
    out.push(vec![99]);
    let ran = take_drops();
    let (mut got, mut want) = (ran.clone(), oracle.clone());
    got.sort(); want.sort();
    if got != want { mon.fail(format!("final drop: destructors ran for {:?}, the vector held {:?}", got, want)); }
    out.push(ran);
    out
}

/// consume an element that was handed back to the caller; its destructor is the caller's
/// business, not a "drop performed by the vector", so it is removed from the log again
fn take_val<T: Elem>(e: T) -> i64 {
    let v = e.val();
    drop(e);
    unlog_last();
    v
}

pub fn run(params: &[i64], ops: &Rows, mon: &mut Mon) -> Rows {
    FOREIGN_VEC.store(params.get(1).copied().unwrap_or(0) == 1, SeqCst);
    let r = run_elem(params, ops, mon);
    FOREIGN_VEC.store(false, SeqCst);
    r
}

fn run_elem(params: &[i64], ops: &Rows, mon: &mut Mon) -> Rows {
    match params.get(0).copied().unwrap_or(0) {
        0 => go::<E8>(ops, mon),
        1 => go::<E64>(ops, mon),
        2 => go::<Tok>(ops, mon),
        3 => go::<EZ>(ops, mon),
        4 => go::<E3>(ops, mon),
        5 => go::<A64>(ops, mon),
        6 => go::<PC>(ops, mon),
        _ => vec![vec![-2]],
    }
}
