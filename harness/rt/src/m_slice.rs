//! C12: CSliceRef/CSliceMut round trips, UTF-8 decision, COption/CResult/CTupN conversions.
use crate::tok::*;
use crate::{Mon, Rows};
use cglue::option::COption;
use cglue::result::CResult;
use cglue::slice::{CSliceMut, CSliceRef};
use cglue::tuple::*;
use core::convert::TryFrom;

fn views<T: Elem + PartialEq + core::fmt::Debug>(a: usize, n: usize, i: usize, v: i64, mon: &mut Mon, k: usize) -> (Vec<i64>, bool) {
    let mut mem: Vec<T> = (0..16).map(|j| T::mk(100 + j as i64)).collect();
    let base = mem.as_ptr() as usize;
    let ok;
    {
        let s: &[T] = &mem[a..a + n];
        let c = CSliceRef::from(s);
        let back: &[T] = c.as_slice();
        if back.as_ptr() != s.as_ptr() || back.len() != s.len() || c.len() != n || c.as_ptr() != s.as_ptr() { mon.fail(format!("case{} CSliceRef round trip changed address/length", k)); }
        let back2: &[T] = c.into();
        if back2.as_ptr() as usize != base + a * core::mem::size_of::<T>() || back2.len() != n { mon.fail(format!("case{} From<CSliceRef> for &[T] changed address/length (len {})", k, n)); }
        if (0..n).any(|j| back2[j] != mem[a + j]) { mon.fail(format!("case{} contents differ", k)); }
    }
    {
        let s: &mut [T] = &mut mem[a..a + n];
        let p = s.as_ptr();
        let mut c = CSliceMut::from(s);
        if c.as_ptr() != p || c.len() != n { mon.fail(format!("case{} CSliceMut changed address/length", k)); }
        ok = i < n;
        if ok {
            c[i] = T::mk(v);
            let r = CSliceRef::from(&c);
            if r.as_ptr() != p || r.len() != n { mon.fail(format!("case{} CSliceRef from &CSliceMut differs", k)); }
            let back: &mut [T] = c.into();
            if back.as_ptr() != p || back.len() != n { mon.fail(format!("case{} CSliceMut into() changed address/length", k)); }
        }
        {
            let s3: &mut [T] = &mut mem[a..a + n];
            let p3 = s3.as_ptr();
            let mut c3 = CSliceMut::from(s3);
            let sm = c3.as_slice_mut();
            if sm.as_ptr() != p3 || sm.len() != n { mon.fail(format!("case{} as_slice_mut changed address/length", k)); }
        }
        let s2: &mut [T] = &mut mem[a..a + n];
        let p2 = s2.as_ptr();
        let mut c2 = CSliceMut::from(s2);
        if c2.is_empty() != (n == 0) || c2.as_mut_ptr() as *const T != p2 { mon.fail(format!("case{} is_empty/as_mut_ptr wrong", k)); }
        {
            let reborrow: CSliceMut<T> = CSliceMut::from(&mut c2);
            if reborrow.as_ptr() != p2 || reborrow.len() != n { mon.fail(format!("case{} From<&mut CSliceMut> changed address/length", k)); }
        }
        let shared: &[T] = c2.into();
        if shared.as_ptr() != p2 || shared.len() != n { mon.fail(format!("case{} From<CSliceMut> for &[T] changed address/length", k)); }
    }
    let out: Vec<i64> = mem.iter().map(|e| e.val()).collect();
    let _ = take_drops();
    (out, ok)
}

pub fn run(params: &[i64], ops: &Rows, mon: &mut Mon) -> Rows {
    let elem = params.get(0).copied().unwrap_or(1);
    let mut out = Vec::new();
    for (k, op) in ops.iter().enumerate() {
        let _ = take_drops();
        let row = match op[0] {
            0 => {
                let bs: Vec<u8> = op[1..].iter().map(|b| *b as u8).collect();
                let c = CSliceRef::from(&bs[..]);
                let r = <&str>::try_from(c);
                let oracle = std::str::from_utf8(&bs).is_ok();
                if r.is_ok() != oracle { mon.fail(format!("case{} try_from says {} but core::str::from_utf8 says {}", k, r.is_ok(), oracle)); }
                if let Ok(s) = r { if s.as_ptr() != bs.as_ptr() || s.len() != bs.len() { mon.fail(format!("case{} str view moved", k)); } }
                let mut bs2 = bs.clone();
                let p2 = bs2.as_ptr();
                let cm = CSliceMut::from(&mut bs2[..]);
                let r2 = <&str>::try_from(cm);
                if r2.is_ok() != oracle { mon.fail(format!("case{} CSliceMut try_from differs", k)); }
                if let Ok(s) = &r2 { if s.as_ptr() != p2 { mon.fail(format!("case{} str view moved (mut)", k)); } }
                if oracle {
                    let s = std::str::from_utf8(&bs).unwrap();
                    let c2 = CSliceRef::from(s);
                    let s2 = unsafe { c2.into_str() };
                    if s2.as_ptr() != s.as_ptr() || s2 != s { mon.fail(format!("case{} from_str/into_str changed the string", k)); }
                }
                // &mut str paths
                let mut bs3 = bs.clone();
                let p3 = bs3.as_ptr();
                let r3 = <&mut str>::try_from(CSliceMut::from(&mut bs3[..]));
                if r3.is_ok() != oracle { mon.fail(format!("case{} TryFrom<CSliceMut> for &mut str says {} but core::str::from_utf8 says {}", k, r3.is_ok(), oracle)); }
                let r3ok = r3.is_ok();
                if let Ok(s) = r3 { if s.as_ptr() != p3 || s.len() != bs.len() { mon.fail(format!("case{} &mut str view moved", k)); } }
                if oracle {
                    let mut owned = String::from_utf8(bs.clone()).unwrap();
                    let (p4, l4) = (owned.as_ptr(), owned.len());
                    let cm = CSliceMut::from(owned.as_mut_str());
                    if cm.as_ptr() != p4 || cm.len() != l4 || cm.is_empty() != (l4 == 0) { mon.fail(format!("case{} From<&mut str> changed address/length", k)); }
                    let ms = unsafe { cm.into_mut_str() };
                    if ms.as_ptr() != p4 || ms.len() != l4 { mon.fail(format!("case{} into_mut_str changed address/length", k)); }
                    let cm2 = CSliceMut::from(owned.as_mut_str());
                    let s5 = unsafe { cm2.into_str() };
                    if s5.as_ptr() != p4 || s5.len() != l4 { mon.fail(format!("case{} CSliceMut::into_str changed address/length", k)); }
                    if format!("{}", CSliceRef::from(&bs[..])) != String::from_utf8_lossy(&bs) { mon.fail(format!("case{} Display differs", k)); }
                }
                vec![r.is_ok() as i64, r2.is_ok() as i64, r3ok as i64]
            }
            1 => {
              let mut r = vec![];
              // every row twice: once going through take(), once not; once through unwrap(), once through Into
              for variant in 0..4usize {
                let k = variant;
                let o: Option<Tok> = if op[1] == 0 { None } else { Some(Tok::mk(op[2])) };
                let c = COption::from(o);
                let tag = unsafe { *(&c as *const COption<Tok> as *const u32) } as i64;
                r = match &c { COption::None => vec![0, 0], COption::Some(t) => vec![1, t.val()] };
                if tag != r[0] { mon.fail(format!("case{} COption tag {} for variant {}", k, tag, r[0])); }
                let d = take_drops();
                if !d.is_empty() { mon.fail(format!("case{} conversion dropped a payload", k)); }
                let mut c = c;
                if c.is_some() != (op[1] != 0) || c.as_ref().map(|t| t.val()) != (if op[1] != 0 { Some(op[2]) } else { None })
                    || c.as_mut().map(|t| t.val()) != (if op[1] != 0 { Some(op[2]) } else { None }) { mon.fail(format!("case{} COption accessors disagree", k)); }
                let c = if k % 2 == 0 { let t = c.take(); if c.is_some() { mon.fail(format!("case{} take left a value", k)); } COption::from(t) } else { c };
                if !take_drops().is_empty() { mon.fail(format!("case{} take dropped a payload", k)); }
                let back: Option<Tok> = if k / 2 == 0 && op[1] != 0 { Some(c.unwrap()) } else { c.into() };
                r.extend(match &back { None => vec![0, 0], Some(t) => vec![1, t.val()] });
                if !take_drops().is_empty() { mon.fail(format!("case{} conversion back dropped a payload", k)); }
                drop(back);
                if take_drops().len() != (op[1] != 0) as usize { mon.fail(format!("case{} payload not dropped exactly once", k)); }
              }
                r
            }
            2 => {
                let o: Result<Tok, Tok> = if op[1] == 0 { Ok(Tok::mk(op[2])) } else { Err(Tok::mk(op[2])) };
                let c = CResult::from(o);
                let tag = unsafe { *(&c as *const CResult<Tok, Tok> as *const u32) } as i64;
                let mut r = match &c { CResult::Ok(t) => vec![0, t.val()], CResult::Err(t) => vec![1, t.val()] };
                if tag != r[0] { mon.fail(format!("case{} CResult tag {} for variant {}", k, tag, r[0])); }
                if !take_drops().is_empty() { mon.fail(format!("case{} conversion dropped a payload", k)); }
                let mut c = c;
                if c.is_ok() != (op[1] == 0) || c.is_err() != (op[1] != 0) || c.as_ref().map(|t| t.val()).map_err(|t| t.val()) != (if op[1] == 0 { Ok(op[2]) } else { Err(op[2]) })
                    || c.as_mut().map(|t| t.val()).map_err(|t| t.val()) != (if op[1] == 0 { Ok(op[2]) } else { Err(op[2]) }) { mon.fail(format!("case{} CResult accessors disagree", k)); }
                let back: Result<Tok, Tok> = c.into();
                r.extend(match &back { Ok(t) => vec![0, t.val()], Err(t) => vec![1, t.val()] });
                if !take_drops().is_empty() { mon.fail(format!("case{} conversion back dropped a payload", k)); }
                drop(back);
                if take_drops().len() != 1 { mon.fail(format!("case{} payload not dropped exactly once", k)); }
                // the consuming accessors: ok() keeps the success payload and destroys the error payload (once, there and then); unwrap() hands the payload over
                {
                    let mk = || -> Result<Tok, Tok> { if op[1] == 0 { Ok(Tok::mk(op[2])) } else { Err(Tok::mk(op[2])) } };
                    let o = CResult::from(mk()).ok();
                    if o.is_some() != (op[1] == 0) || o.as_ref().map(|t| t.val()).unwrap_or(op[2]) != op[2] { mon.fail(format!("case{} CResult::ok returns the wrong variant or payload", k)); }
                    let d = take_drops();
                    if d.len() != (op[1] != 0) as usize { mon.fail(format!("case{} CResult::ok destroyed {:?} (an error payload must be destroyed once, a success payload kept)", k, d)); }
                    drop(o);
                    if take_drops().len() != (op[1] == 0) as usize { mon.fail(format!("case{} payload returned by CResult::ok not destroyed exactly once", k)); }
                    if op[1] == 0 {
                        let t = CResult::<Tok, Tok>::from(mk()).unwrap();
                        if t.val() != op[2] || !take_drops().is_empty() { mon.fail(format!("case{} CResult::unwrap altered or destroyed the payload", k)); }
                        drop(t);
                        if take_drops().len() != 1 { mon.fail(format!("case{} payload returned by CResult::unwrap not destroyed exactly once", k)); }
                    }
                }
                r
            }
            3 => {
                let v = &op[1..];
                let r: Vec<i64> = match v.len() {
                    1 => { let t: (Tok,) = CTup1::from((Tok::mk(v[0]),)).into(); vec![t.0.val()] }
                    2 => { let c = CTup2::from((Tok::mk(v[0]), Tok::mk(v[1]))); let x = (c.0.val(), c.1.val()); let t = c.into_tuple(); if x != (t.0.val(), t.1.val()) { mon.fail(format!("case{} CTup2 fields moved", k)); } vec![t.0.val(), t.1.val()] }
                    3 => { let t: (Tok, Tok, Tok) = CTup3::from((Tok::mk(v[0]), Tok::mk(v[1]), Tok::mk(v[2]))).into(); vec![t.0.val(), t.1.val(), t.2.val()] }
                    _ => { let t: (Tok, Tok, Tok, Tok) = CTup4::from((Tok::mk(v[0]), Tok::mk(v[1]), Tok::mk(v[2]), Tok::mk(v[3]))).into(); vec![t.0.val(), t.1.val(), t.2.val(), t.3.val()] }
                };
                let mut d = take_drops(); d.sort();
                let mut w = v.to_vec(); w.sort();
                if d != w { mon.fail(format!("case{} tuple payloads dropped {:?}, expected each of {:?} once", k, d, w)); }
                // the same positions with fields of DIFFERENT sizes and alignments (a Rust tuple may order them differently from the repr(C) struct)
                {
                    let a = |i: usize| v.get(i).copied().unwrap_or(0);
                    let (x0, x1, x2, x3) = (a(0) as u8, a(1) as u32, a(2) as u16, a(3) as u64);
                    let (c0, c1): (u8, u64) = CTup2::from((x0, x3)).into();
                    if (c0, c1) != (x0, x3) { mon.fail(format!("case{} CTup2<u8,u64> -> tuple gives {:?} for {:?}", k, (c0, c1), (x0, x3))); }
                    let t3: (u8, u32, u16) = CTup3::from((x0, x1, x2)).into();
                    if t3 != (x0, x1, x2) { mon.fail(format!("case{} CTup3<u8,u32,u16> -> tuple gives {:?} for {:?}", k, t3, (x0, x1, x2))); }
                    let t4: (u8, u16, u32, u64) = CTup4::from((x0, x2, x1, x3)).into();
                    if t4 != (x0, x2, x1, x3) { mon.fail(format!("case{} CTup4<u8,u16,u32,u64> -> tuple gives {:?} for {:?}", k, t4, (x0, x2, x1, x3))); }
                    let b = CTup3::from((x2, x3, x0));
                    if (b.0, b.1, b.2) != (x2, x3, x0) { mon.fail(format!("case{} tuple -> CTup3<u16,u64,u8> fields {:?} for {:?}", k, (b.0, b.1, b.2), (x2, x3, x0))); }
                    let m: (u8, Tok, u16) = CTup3::from((x0, Tok::mk(a(1)), x2)).into();
                    if (m.0, m.1.val(), m.2) != (x0, a(1), x2) { mon.fail(format!("case{} CTup3<u8,Tok,u16> -> tuple gives ({}, {}, {})", k, m.0, m.1.val(), m.2)); }
                    drop(m);
                    if take_drops() != vec![a(1)] { mon.fail(format!("case{} droppable field of a mixed tuple not dropped exactly once", k)); }
                }
                r
            }
            4 => {
                let (a, n, i, v) = (op[1] as usize, op[2] as usize, op[3] as usize, op[4]);
                let (mem, ok) = match elem {
                    0 => views::<V8>(a, n, i, v, mon, k),
                    3 => views::<VZ>(a, n, i, v, mon, k),
                    4 => views::<V3>(a, n, i, v, mon, k),
                    _ => views::<V64>(a, n, i, v, mon, k),
                };
                let mut r = vec![a as i64, n as i64, ok as i64];
                r.extend(mem);
                r
            }
            _ => vec![-2],
        };
        out.push(row);
    }
    out
}

// plain (non-Drop) element types of different size/alignment for the view tests
#[derive(PartialEq, Debug)] pub struct V8(u8);
#[derive(PartialEq, Debug)] pub struct V64(u64);
#[derive(PartialEq, Debug)] #[repr(C)] pub struct V3([u8; 3]);
#[derive(PartialEq, Debug)] pub struct VZ;
impl Elem for V8 { fn mk(v: i64) -> Self { V8(v as u8) } fn val(&self) -> i64 { self.0 as i64 } }
impl Elem for V64 { fn mk(v: i64) -> Self { V64(v as u64) } fn val(&self) -> i64 { self.0 as i64 } }
impl Elem for V3 { fn mk(v: i64) -> Self { V3([v as u8, (v >> 8) as u8, (v >> 16) as u8]) } fn val(&self) -> i64 { self.0[0] as i64 | (self.0[1] as i64) << 8 | (self.0[2] as i64) << 16 } }
impl Elem for VZ { fn mk(_: i64) -> Self { VZ } fn val(&self) -> i64 { 0 } }
