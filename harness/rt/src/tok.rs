//! Element/payload types whose destructor is observable.
use std::cell::RefCell;

thread_local! {
    pub static DROPS: RefCell<Vec<i64>> = RefCell::new(Vec::new());
}

pub fn log_drop(v: i64) {
    let d = crate::alloc::domain(0);
    DROPS.with(|l| l.borrow_mut().push(v));
    crate::alloc::domain(d);
}
pub fn take_drops() -> Vec<i64> {
    let d = crate::alloc::domain(0);
    let r = DROPS.with(|l| std::mem::take(&mut *l.borrow_mut()));
    crate::alloc::domain(d);
    r
}

pub fn unlog_last() {
    DROPS.with(|l| { l.borrow_mut().pop(); });
}

pub trait Elem: Sized {
    /// false for plain data without drop glue: its destructor cannot be observed (only the allocator can tell whether its box was released)
    const HAS_DROP: bool = true;
    fn mk(v: i64) -> Self;
    fn val(&self) -> i64;
    /// does Clone panic for this value (elements of the PC type with a value ending in 13)
    fn clone_panics(_v: i64) -> bool { false }
    /// what the model must be fed for this value (ZST collapses everything to 0)
    fn norm(v: i64) -> i64 {
        v
    }
}

/// 1 byte, align 1
pub struct E8(pub u8);
impl Elem for E8 {
    fn mk(v: i64) -> Self { E8(v as u8) }
    fn val(&self) -> i64 { self.0 as i64 }
    fn norm(v: i64) -> i64 { (v as u8) as i64 }
}
impl Drop for E8 { fn drop(&mut self) { log_drop(self.0 as i64) } }
impl Clone for E8 { fn clone(&self) -> Self { E8(self.0) } }

/// 8 bytes, align 8
pub struct E64(pub u64);
impl Elem for E64 {
    fn mk(v: i64) -> Self { E64(v as u64) }
    fn val(&self) -> i64 { self.0 as i64 }
}
impl Drop for E64 { fn drop(&mut self) { log_drop(self.0 as i64) } }
impl Clone for E64 { fn clone(&self) -> Self { E64(self.0) } }

/// 3 bytes, align 1
#[repr(C)]
pub struct E3(pub [u8; 3]);
impl Elem for E3 {
    fn mk(v: i64) -> Self { E3([v as u8, (v >> 8) as u8, (v >> 16) as u8]) }
    fn val(&self) -> i64 { self.0[0] as i64 | (self.0[1] as i64) << 8 | (self.0[2] as i64) << 16 }
    fn norm(v: i64) -> i64 { v & 0xff_ffff }
}
impl Drop for E3 { fn drop(&mut self) { log_drop(self.val()) } }
impl Clone for E3 { fn clone(&self) -> Self { E3(self.0) } }

/// zero-sized
pub struct EZ;
impl Elem for EZ {
    fn mk(_: i64) -> Self { EZ }
    fn val(&self) -> i64 { 0 }
    fn norm(_: i64) -> i64 { 0 }
}
impl Drop for EZ { fn drop(&mut self) { log_drop(0) } }
impl Clone for EZ { fn clone(&self) -> Self { EZ } }

/// heap-owning
#[derive(Debug)]
pub struct Tok(pub Box<i64>);
impl Elem for Tok {
    fn mk(v: i64) -> Self { Tok(Box::new(v)) }
    fn val(&self) -> i64 { *self.0 }
}
impl Drop for Tok { fn drop(&mut self) { log_drop(*self.0) } }
impl Clone for Tok { fn clone(&self) -> Self { Tok(Box::new(*self.0)) } }

/// plain 8-byte data WITHOUT drop glue
#[derive(Clone, Copy)]
pub struct P64(pub u64);
impl Elem for P64 { const HAS_DROP: bool = false; fn mk(v: i64) -> Self { P64(v as u64) } fn val(&self) -> i64 { self.0 as i64 } }

/// a plain 24-byte struct WITHOUT drop glue
#[derive(Clone, Copy)]
#[repr(C)]
pub struct P24(pub u8, pub u64, pub u16);
impl Elem for P24 { const HAS_DROP: bool = false; fn mk(v: i64) -> Self { P24(v as u8, v as u64, (v >> 3) as u16) } fn val(&self) -> i64 { self.1 as i64 } }

/// 64 bytes, align 64, with a destructor: allocations of it need the over-aligned layout, and an Arc of it keeps its counts 64 bytes before the payload
#[repr(align(64))]
pub struct A64(pub i64);
impl Elem for A64 { fn mk(v: i64) -> Self { A64(v) } fn val(&self) -> i64 { self.0 } }
impl Drop for A64 { fn drop(&mut self) { log_drop(self.0) } }
impl Clone for A64 { fn clone(&self) -> Self { A64(self.0) } }

/// heap-owning AND over-aligned (payload of the CArc harness, second instantiation)
#[repr(align(64))]
pub struct TokA64(pub Box<i64>);
impl Elem for TokA64 { fn mk(v: i64) -> Self { TokA64(Box::new(v)) } fn val(&self) -> i64 { *self.0 } }
impl Drop for TokA64 { fn drop(&mut self) { log_drop(*self.0) } }

/// 8 bytes with a destructor whose Clone PANICS for values ending in ..13 (unwind safety of operations that clone elements)
pub struct PC(pub i64);
impl Elem for PC { fn mk(v: i64) -> Self { PC(v) } fn val(&self) -> i64 { self.0 } fn clone_panics(v: i64) -> bool { v.rem_euclid(1000) == 13 } }
impl Drop for PC { fn drop(&mut self) { log_drop(self.0) } }
impl Clone for PC { fn clone(&self) -> Self { if self.0.rem_euclid(1000) == 13 { panic!("clone of a poisoned element") } PC(self.0) } }
