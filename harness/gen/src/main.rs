//! Calls the real code generator (cglue-gen, as an ordinary library) on the definitions of a Rust source file and
//! prints the expansion as Rust source text.
//!   expand <defs.rs>            : every `#[cglue_trait] trait`, `cglue_trait_group!`, `cglue_impl_group!`, `#[cglue_forward] trait`
//!                                 is replaced by what the corresponding macro of cglue-macro would emit; other items pass through.
//!   cast <Group> <T1,T2> <kind> : prints the function name the cast!/as_ref!/... macros would call (TraitCastGroup)
mod ir;
mod grp;
use quote::ToTokens;
use syn::*;

fn has_attr(attrs: &[Attribute], name: &str) -> bool {
    attrs.iter().any(|a| a.path.segments.last().map(|s| s.ident == name).unwrap_or(false))
}

fn main() {
    let args: Vec<String> = std::env::args().collect();
    if args.len() >= 2 && args[1] == "render" { ir::run_render(); return; }
    if args.len() >= 2 && args[1] == "grp" { std::panic::set_hook(Box::new(|_| {})); grp::run_grp(); return; }
    if args.len() >= 2 && args[1] == "fwd" { std::panic::set_hook(Box::new(|_| {})); ir::run_fwd(); return; }
    if args.len() >= 2 && args[1] == "ir" { std::panic::set_hook(Box::new(|_| {})); ir::run_ir(); return; }
    if args.len() < 3 { eprintln!("usage: gen expand <file> | gen ir"); std::process::exit(2); }
    match args[1].as_str() {
        "expand" => {
            let src = std::fs::read_to_string(&args[2]).expect("read");
            let file = syn::parse_file(&src).expect("parse defs");
            let mut out = String::new();
            for (k, it) in file.items.into_iter().enumerate() {
                let marker = format!("\n// @@ITEM {}\n", k);
                out.push_str(&marker);
                match it {
                    Item::Trait(mut tr) if has_attr(&tr.attrs, "cglue_trait") => {
                        tr.attrs.retain(|a| !has_attr(std::slice::from_ref(a), "cglue_trait"));
                        let fwd = has_attr(&tr.attrs, "cglue_forward");
                        tr.attrs.retain(|a| !has_attr(std::slice::from_ref(a), "cglue_forward"));
                        let r = std::panic::catch_unwind(|| {
                            let mut s = String::new();
                            if fwd { s.push_str(&cglue_gen::forward::gen_forward(tr.clone(), None).to_string()); s.push('\n'); }
                            s.push_str(&cglue_gen::traits::gen_trait(tr.clone(), None).to_string());
                            s
                        });
                        match r { Ok(s) => out.push_str(&s), Err(_) => out.push_str("compile_error!(\"cglue_trait panicked\");") }
                    }
                    Item::Macro(m) => {
                        let name = m.mac.path.segments.last().unwrap().ident.to_string();
                        let toks = m.mac.tokens.clone();
                        let r = std::panic::catch_unwind(move || match name.as_str() {
                            "cglue_trait_group" => syn::parse2::<cglue_gen::trait_groups::TraitGroup>(toks).map(|g| g.create_group().to_string()).map_err(|e| e.to_string()),
                            "cglue_impl_group" => syn::parse2::<cglue_gen::trait_groups::TraitGroupImpl>(toks).map(|g| g.implement_group().to_string()).map_err(|e| e.to_string()),
                            _ => Ok(m.to_token_stream().to_string()),
                        });
                        match r { Ok(Ok(s)) => out.push_str(&s), Ok(Err(e)) => out.push_str(&format!("compile_error!(\"{}\");", e.replace('"', "'"))), Err(_) => out.push_str("compile_error!(\"macro panicked\");") }
                    }
                    other => out.push_str(&other.to_token_stream().to_string()),
                }
                out.push('\n');
            }
            print!("{}", out);
        }
        _ => { eprintln!("unknown command"); std::process::exit(2); }
    }
}

#[allow(dead_code)]
pub fn debug_impls(exp: &str) {
    let file = syn::parse_file(exp).unwrap();
    fn walk(items: &[Item], d: usize) {
        for it in items {
            match it {
                Item::Impl(im) => eprintln!("{}impl trait={:?}", " ".repeat(d), im.trait_.as_ref().map(|t| t.1.to_token_stream().to_string())),
                Item::Mod(m) => { eprintln!("{}mod {}", " ".repeat(d), m.ident); if let Some((_, its)) = &m.content { walk(its, d + 1); } }
                _ => {}
            }
        }
    }
    walk(&file.items, 0);
}
