//! Structural correspondence for the generator: renders trait definitions drawn from the (integer-encoded) grammar as Rust
//! source, feeds them to the REAL cglue_gen::traits::gen_trait, parses the expansion back with syn and abstracts it to the
//! "glue IR" (integer rows) that the Coq function gen_trait predicts.  Statements that are not recognised are encoded as 99/9
//! (never guessed), which shows up as a disagreement with the model.
use quote::ToTokens;
use std::io::BufRead;
use syn::*;

/// leaf 9 is a raw pointer: FFI-safe by itself, but WITHOUT a null niche — `Option<*const u8>` must be wrapped like `Option<u32>`
pub const LEAVES: [&str; 10] = ["u8", "u16", "u32", "u64", "usize", "i32", "i64", "bool", "f64", "*const u8"];

thread_local! { static GENERIC: std::cell::Cell<bool> = std::cell::Cell::new(false); }
/// header field 3 of a case line: the trait has a type parameter `T: Copy + 'static`, written wherever the grammar says leaf 2 (u32)
pub fn set_generic(g: bool) { GENERIC.with(|c| c.set(g)); }
fn generic() -> bool { GENERIC.with(|c| c.get()) }
thread_local! { static ASSOC: std::cell::Cell<bool> = std::cell::Cell::new(false); }
/// header field 4 of a case line: the trait also declares an (unwrapped) associated type `type Tail;` — AFTER its methods
pub fn set_assoc(a: bool) { ASSOC.with(|c| c.set(a)); }
fn leaf(l: i64) -> &'static str { let i = (l as usize) % LEAVES.len(); if i == 2 && generic() { "T" } else { LEAVES[i] } }

pub fn arg_ty(shape: i64, l: i64) -> String {
    let t = leaf(l);
    match shape {
        0 => t.to_string(),
        1 => format!("&[{}]", t),
        2 => format!("&mut [{}]", t),
        3 => "&str".to_string(),
        4 => format!("Option<{}>", t),
        5 => format!("Option<&{}>", t),
        6 => format!("impl Into<{}>", t),
        7 => format!("&mut {}", t),
        8 => format!("OpaqueCallback<{}>", t),
        9 => "Pod".to_string(),
        10 => format!("&{}", t),
        11 => format!("CIterator<{}>", t),
        12 => format!("Result<{}, u8>", t),
        13 => format!("std::result::Result<{}, u8>", t),          // the same shapes written with a module path
        14 => format!("std::option::Option<{}>", t),
        _ => t.to_string(),
    }
}

pub fn ret_ty(shape: i64, l: i64) -> String {
    let t = leaf(l);
    match shape {
        0 => String::new(),
        1 => format!(" -> {}", t),
        2 => format!(" -> &[{}]", t),
        3 => " -> &str".to_string(),
        4 => format!(" -> Option<{}>", t),
        5 => format!(" -> Option<&{}>", t),
        6 => format!(" -> Result<{}, ()>", t),
        7 => " -> Result<(), ()>".to_string(),
        8 => format!(" -> &mut [{}]", t),
        9 => " -> Pod".to_string(),
        10 => format!(" -> &{}", t),
        11 => format!(" -> Result<{}, u8>", t),
        12 => format!(" -> Result<{}, std::io::Error>", t),
        13 => format!(" -> std::result::Result<{}, u8>", t),
        14 => format!(" -> std::option::Option<{}>", t),
        15 => format!(" -> AliasRes<{}, ()>", t),                   // only in traits marked #[int_result(AliasRes)] (header field 2 = 2)
        _ => format!(" -> {}", t),
    }
}

/// method name: m<position>, or n<id> when the intmode field carries a name id (intmode / 16)
pub fn mname(k: usize, row: &[i64]) -> String { if row[1] / 16 > 0 { format!("n{}", row[1] / 16) } else { format!("m{}", k) } }

/// method row: [recv, intmode, ret_shape, ret_leaf, nargs, (shape, leaf)*]
pub fn render_trait(name: &str, trait_int: i64, rows: &[Vec<i64>]) -> String {
    let mut s = String::new();
    s.push_str("#[cglue_trait]\n");
    // header field 2: 0 = none, 1 = #[int_result], 2 = #[int_result(AliasRes)] (type AliasRes<T, E> = Result<T, E>): the alias is one more
    // spelling of Result; the literal `Result` keeps its meaning
    if trait_int == 2 { s.push_str("#[int_result(AliasRes)]\n"); } else if trait_int != 0 { s.push_str("#[int_result]\n"); }
    s.push_str(&format!("pub trait {}{} {{\n", name, if generic() { "<T: Copy + 'static>" } else { "" }));
    for (k, r) in rows.iter().enumerate() {
        // intmode: low 2 bits = int_result attribute; +4 = the method has a default body; +8 = explicit lifetime generics <'a>
        // receiver field: low 2 bits = receiver kind, +4 = #[vtbl_only] (needs a default body: the opaque object does not forward it)
        let vtbl_only = r[0] & 4 != 0;
        // +8: the method also carries a doc comment and an unrelated attribute (which must not change how its other attributes are read)
        if r[0] & 8 != 0 { s.push_str("    /// A documented method.\n    #[allow(unused_variables)]\n"); }
        let rk = r[0] & 3;
        let has_default = r[1] & 4 != 0 || vtbl_only;
        let lt = r[1] & 8 != 0 && rk != 2;
        if vtbl_only { s.push_str("    #[vtbl_only]\n"); }
        let recv = match (rk, lt) { (0, false) => "&self", (0, true) => "&'a self", (1, false) => "&mut self", (1, true) => "&'a mut self", _ => "self" };
        match r[1] & 3 { 1 => s.push_str("    #[int_result]\n"), 2 => s.push_str("    #[no_int_result]\n"), _ => {} }
        let n = r[4] as usize;
        let mut args = String::new();
        for i in 0..n { args.push_str(&format!(", a{}: {}", i, arg_ty(r[5 + 2 * i], r[6 + 2 * i]))); }
        // receiver field +16: a provided method bounded by `where Self: Sized` (it still has a slot: the opaque object forwards it like any other)
        let sized = r[0] & 16 != 0 && has_default;
        // receiver field +32: #[skip_func] (with a default body) — the method is NOT exported: no slot, no wrapper, no forwarding method;
        // +64: the method is declared `extern "C" fn` — which changes nothing in the glue (every vtable entry is extern "C" with wrapped arguments anyway)
        let skip = r[0] & 32 != 0;
        if skip { s.push_str("    #[skip_func]\n"); }
        let has_default = has_default || skip;
        let ext = if r[0] & 64 != 0 { "extern \"C\" " } else { "" };
        s.push_str(&format!("    {}fn {}{}({}{}){}{}{}\n", ext, mname(k, r), if lt { "<'a>" } else { "" }, recv, args, ret_ty(r[2], r[3]), if sized { " where Self: Sized" } else { "" }, if has_default { " { loop {} }" } else { ";" }));
    }
    if ASSOC.with(|c| c.get()) { s.push_str("    type Tail;\n"); }
    s.push_str("}\n");
    s
}

fn norm_raw(t: &impl ToTokens) -> String { t.to_token_stream().to_string().replace(' ', "") }

/// Spellings of one and the same conversion are folded into the method form before anything is matched: `Into::into(x)` / `From::from(x)`
/// (with or without a `::core::convert::` / `::std::convert::` path) become `x.into()`.  Only applied when `x` has no top-level comma.
pub fn canon(mut s: String) -> String {
    const PRE: [&str; 10] = ["::core::convert::Into::into(", "::std::convert::Into::into(", "::core::convert::From::from(", "::std::convert::From::from(",
        "core::convert::Into::into(", "std::convert::Into::into(", "core::convert::From::from(", "std::convert::From::from(", "Into::into(", "From::from("];
    let mut guard = 0;
    'outer: loop {
        guard += 1; if guard > 64 { return s; }
        for p in PRE.iter() {
            let mut from = 0;
            while let Some(off) = s[from..].find(p) {
                let at = from + off;
                let prev = s[..at].chars().last();
                if prev.map(|c| c.is_alphanumeric() || c == '_' || c == ':').unwrap_or(false) { from = at + p.len(); continue; }
                // matching parenthesis
                let b: Vec<char> = s[at + p.len()..].chars().collect();
                let (mut depth, mut end, mut comma) = (1i32, None, false);
                for (i, c) in b.iter().enumerate() {
                    match c { '(' | '[' | '{' => depth += 1, ')' | ']' | '}' => { depth -= 1; if depth == 0 { end = Some(i); break; } } ',' if depth == 1 => comma = true, _ => {} }
                }
                if let (Some(e), false) = (end, comma) {
                    let inner: String = b[..e].iter().collect();
                    let rest: String = b[e + 1..].iter().collect();
                    let simple = inner.chars().all(|c| c.is_alphanumeric() || c == '_');
                    s = format!("{}{}.into(){}", &s[..at], if simple { inner } else { format!("({})", inner) }, rest);
                    continue 'outer;
                }
                from = at + p.len();
            }
        }
        return s;
    }
}

fn norm(t: &impl ToTokens) -> String { canon(norm_raw(t)) }

/// normalised type string without lifetimes ('a, '_ and a following comma): they do not matter for the C type
fn norm_nolt(t: &impl ToTokens) -> String {
    let spaced = t.to_token_stream().to_string();
    let b: Vec<char> = spaced.chars().collect();
    let mut o = String::new();
    let mut i = 0;
    while i < b.len() {
        if b[i] == '\'' { i += 1; while i < b.len() && (b[i].is_alphanumeric() || b[i] == '_') { i += 1; } continue; }
        if b[i] != ' ' { o.push(b[i]); }
        i += 1;
    }
    o.replace("<,", "<").replace("&,", "&")
}

/// C type code of a vtable parameter / return type
fn ctype_code(t: &Type) -> (i64, i64) {
    let s = norm_nolt(t);
    let lf = |x: &str| if generic() && x == "T" { Some(2) } else if generic() && x == "u32" { None } else { LEAVES.iter().position(|l| l.replace(' ', "") == x).map(|p| p as i64) };
    if let Some(p) = lf(&s) { return (1, p); }
    if s == "Pod" { return (8, 0); }
    if s == "i32" { return (1, 5); }
    let inner = |pre: &str, suf: &str| -> Option<i64> { if s.starts_with(pre) && s.ends_with(suf) { lf(&s[pre.len()..s.len() - suf.len()]) } else { None } };
    if let Some(p) = inner("::cglue::slice::CSliceRef<", ">") { return (2, p); }
    if let Some(p) = inner("::cglue::slice::CSliceMut<", ">") { return (3, p); }
    if let Some(p) = inner("::cglue::option::COption<", ">") { return (4, p); }
    if let Some(p) = inner("Option<&", ">") { return (5, p); }
    if let Some(p) = inner("&mut", "") { return (6, p); }
    if let Some(p) = inner("OpaqueCallback<", ">") { return (7, p); }
    if let Some(p) = inner("&", "") { return (9, p); }
    if let Some(p) = inner("&mut::core::mem::MaybeUninit<", ">") { return (11, p); }
    if s.starts_with("::cglue::result::CResult<") && s.ends_with(">") {
        let parts: Vec<&str> = s["::cglue::result::CResult<".len()..s.len() - 1].split(',').collect();
        let lf2 = |x: &str| if x == "()" { Some(15) } else if x == "std::io::Error" { Some(14) } else { lf(x) };
        if parts.len() == 2 { if let (Some(a), Some(b)) = (lf2(parts[0]), lf2(parts[1])) { return (12, a * 16 + b); } }
    }
    if let Some(p) = inner("CIterator<", ">") { return (13, p); }
    (99, 0)
}

fn conv_code(e: &Expr, name: &str) -> i64 {
    let s = norm(e);
    if s == name { 0 } else if s == format!("{}.into()", name) { 1 } else if s == format!("unsafe{{{}.into_str()}}", name) { 2 } else { 9 }
}

fn find_items<'a>(items: &'a [Item], out: &mut Vec<&'a Item>) {
    for it in items {
        out.push(it);
        if let Item::Mod(m) = it { if let Some((_, its)) = &m.content { find_items(its, out); } }
    }
}

pub fn abstract_trait(name: &str, mrows: &[Vec<i64>], expansion: &str) -> std::result::Result<Vec<Vec<i64>>, String> {
    let file = syn::parse_file(expansion).map_err(|e| format!("expansion does not parse: {}", e))?;
    let mut items = vec![];
    find_items(&file.items, &mut items);
    let vt_name = format!("{}Vtbl", name);
    // ---- vtable struct
    let vt = items.iter().find_map(|i| if let Item::Struct(s) = i { if s.ident == vt_name { Some(s) } else { None } } else { None }).ok_or("no vtable struct")?;
    let repr_c = vt.attrs.iter().any(|a| norm(a) == "#[repr(C)]");
    let fields: Vec<&Field> = vt.fields.iter().filter(|f| !f.ident.as_ref().unwrap().to_string().starts_with('_')).collect();
    // ---- Default for &Vtbl
    let mut defaults: Vec<(String, String)> = vec![];
    for i in &items {
        if let Item::Impl(im) = i {
            if im.trait_.as_ref().map(|t| norm(&t.1) == "Default").unwrap_or(false) && norm(&im.self_ty).contains(&vt_name) {
                for ii in &im.items { if let ImplItem::Method(m) = ii {
                    // &Vtbl { field: value, .. }
                    fn walk(e: &Expr, out: &mut Vec<(String, String)>) {
                        match e { Expr::Reference(r) => walk(&r.expr, out), Expr::Struct(s) => { for f in &s.fields { out.push((norm(&f.member), norm(&f.expr))); } } _ => {} }
                    }
                    for st in &m.block.stmts { if let Stmt::Expr(e) = st { walk(e, &mut defaults); } }
                } }
            }
        }
    }
    // ---- trait impl on the opaque object
    let timpl = items.iter().find_map(|i| if let Item::Impl(im) = i { if im.trait_.as_ref().map(|t| { let n = norm(&t.1); n == name || n == format!("{}<>", name) || (generic() && (n == format!("{}<T>", name) || n == format!("{}<T,>", name))) }).unwrap_or(false) { Some(im) } else { None } } else { None }).ok_or("no trait impl")?;
    let mut rows = vec![];
    for k in 0..mrows.len() {
        let mname = mname(k, &mrows[k]);
        let mut row: Vec<i64> = vec![];
        if mrows[k][0] & 32 != 0 {
            // #[skip_func]: [-9, has a vtable slot, has a wrapper, has a forwarding method] — all of which must be absent
            let slot = fields.iter().any(|f| f.ident.as_ref().unwrap() == &mname) as i64;
            let wr = items.iter().any(|i| if let Item::Fn(f) = i { f.sig.ident == format!("cglue_wrapped_{}", mname) } else { false }) as i64;
            let fw = timpl.items.iter().any(|ii| if let ImplItem::Method(m) = ii { m.sig.ident == mname } else { false }) as i64;
            rows.push(vec![-9, slot, wr, fw]);
            continue;
        }
        // slot position and signature
        let pos = fields.iter().position(|f| f.ident.as_ref().unwrap() == &mname);
        row.push(pos.map(|p| p as i64).unwrap_or(-1));
        row.push(repr_c as i64);
        let (mut abi_c, mut recv, mut cargs, mut cret) = (0, 9, vec![], (0i64, 0i64));
        if let Some(p) = pos {
            if let Type::BareFn(f) = &fields[p].ty {
                abi_c = f.abi.as_ref().map(|a| a.name.as_ref().map(|n| n.value() == "C").unwrap_or(true)).unwrap_or(false) as i64;
                let ins: Vec<&BareFnArg> = f.inputs.iter().collect();
                if let Some(first) = ins.first() { recv = match norm_nolt(&first.ty).as_str() { "&CGlueC" => 0, "&mutCGlueC" => 1, "CGlueC" => 2, _ => 9 }; }
                for a in ins.iter().skip(1) { cargs.push(ctype_code(&a.ty)); }
                cret = match &f.output { ReturnType::Default => (0, 0), ReturnType::Type(_, t) => ctype_code(t) };
            }
        }
        row.push(abi_c); row.push(recv); row.push(cargs.len() as i64);
        for (a, b) in &cargs { row.push(*a); row.push(*b); }
        row.push(cret.0); row.push(cret.1);
        // default vtable entry
        let wname = format!("cglue_wrapped_{}", mname);
        row.push(defaults.iter().any(|(f, v)| f == &mname && v == &wname) as i64);
        // ---- wrapper function
        let wf = items.iter().find_map(|i| if let Item::Fn(f) = i { if f.sig.ident == wname { Some(f) } else { None } } else { None });
        match wf {
            None => row.extend([9, 0, 0, 0, 0, 0, 9, 7]),
            Some(f) => {
                let stmts = &f.block.stmts;
                let mut access = 9; let mut into_inner = 0; let mut target_ok = 0; let mut convs: Vec<i64> = vec![]; let mut mapped = 0; let mut tail = 9; let mut ctx_clone = 0; let mut unknown = 0;
                let names: Vec<String> = f.sig.inputs.iter().skip(1).filter_map(|a| if let FnArg::Typed(p) = a { Some(norm(&p.pat)) } else { None }).collect();
                for (si, st) in stmts.iter().enumerate() {
                    let s = norm(st);
                    if s == "let(this,ret_tmp,cglue_ctx)=cont.cobj_ref();" { access = 0; }
                    else if s == "let(this,ret_tmp,cglue_ctx)=cont.cobj_mut();" { access = 1; }
                    else if s == "let(this,cglue_ctx)=cont.cobj_base_owned();" { access = 2; }
                    else if s == "letthis=unsafe{::cglue::trait_group::IntoInner::into_inner(this)};" { into_inner = 1; }
                    else if s == "letcglue_ctx=cglue_ctx.clone();" { ctx_clone = 1; }
                    else if s == "letret=ret.map(|ret|ret);" || s == "letret=ret.map(|ret|{ret});" { mapped = 1; }
                    else if s.starts_with(&format!("letret=<CGlueC::ObjTypeas{}>::{}(", name, mname)) || s.starts_with(&format!("letret=<CGlueC::ObjTypeas{}<>>::{}(", name, mname))
                        || (generic() && (s.starts_with(&format!("letret=<CGlueC::ObjTypeas{}<T>>::{}(", name, mname)) || s.starts_with(&format!("letret=<CGlueC::ObjTypeas{}<T,>>::{}(", name, mname)))) {
                        target_ok = 1;
                        if let Stmt::Local(l) = st { if let Some((_, e)) = &l.init { if let Expr::Call(c) = &**e {
                            let args: Vec<&Expr> = c.args.iter().collect();
                            if args.first().map(|a| norm(*a) == "this").unwrap_or(false) {
                                for (ai, a) in args.iter().skip(1).enumerate() {
                                    let nm = names.get(ai).cloned().unwrap_or_default();
                                    convs.push(conv_code(a, &nm));
                                }
                            } else { unknown = 1; }
                        } } }
                    }
                    else if si == stmts.len() - 1 {
                        tail = match s.as_str() {
                            "ret" => 0, "ret.into()" => 1,
                            "::cglue::result::into_int_out_result(ret,ok_out)" => 3,
                            "::cglue::result::into_int_result(ret)" => 4,
                            _ => 9,
                        };
                    } else { unknown = 1; }
                }
                // ok_out is an extra wrapper parameter, not an argument of the trait method
                let wrapper_args = names.iter().filter(|n| n.as_str() != "ok_out").count();
                row.push(if access == 2 && into_inner == 1 { 2 } else if access == 2 { 8 } else { access });
                row.push(target_ok);
                row.push(ctx_clone);
                row.push(convs.len() as i64);
                row.extend(convs.iter());
                row.push((wrapper_args == convs.len()) as i64);
                row.push(mapped);
                row.push(tail);
                row.push(unknown);
            }
        }
        // ---- trait impl method
        let tm = timpl.items.iter().find_map(|ii| if let ImplItem::Method(m) = ii { if m.sig.ident == mname { Some(m) } else { None } } else { None });
        match tm {
            None => row.extend([0, 9, 9, 9, 0, 9, 9, 7]),   // the trait re-implementation has no such method: calls would run the trait's default body
            Some(m) => {
                let stmts = &m.block.stmts;
                let pnames: Vec<String> = m.sig.inputs.iter().skip(1).filter_map(|a| if let FnArg::Typed(p) = a { Some(norm(&p.pat)) } else { None }).collect();
                let mut fetch = 0; let mut cont = 9; let mut guard = 0; let mut okout = 0; let mut tail = 9; let mut unknown = 0;
                let mut pre: std::collections::HashMap<String, i64> = Default::default();
                let mut call: Vec<i64> = vec![]; let mut call_okout = 0; let mut call_first_cont = 0;
                for (si, st) in stmts.iter().enumerate() {
                    let s = norm(st);
                    if s == format!("let__cglue_vfunc=self.get_vtbl().{};", mname) { fetch = 1; }
                    else if s == "letcont=self.ccont_ref();" { cont = 0; }
                    else if s == "letcont=self.ccont_mut();" { cont = 1; }
                    else if s == "letcont=self.into_ccont();" { cont = 2; }
                    else if s == "let__ctx=::cglue::trait_group::CGlueObjBase::cobj_base_ref(&cont).1.clone();" { guard = 1; }
                    else if s == "letmutok_out=::core::mem::MaybeUninit::uninit();" { okout = 1; }
                    else if s.starts_with("letmutret=__cglue_vfunc(") {
                        if let Stmt::Local(l) = st { if let Some((_, e)) = &l.init { if let Expr::Call(c) = &**e {
                            let args: Vec<&Expr> = c.args.iter().collect();
                            call_first_cont = args.first().map(|a| norm(*a) == "cont").unwrap_or(false) as i64;
                            let mut pi = 0;
                            for a in args.iter().skip(1) {
                                if norm(*a) == "&mutok_out" { call_okout = 1; continue; }
                                let nm = pnames.get(pi).cloned().unwrap_or_default();
                                call.push(conv_code(a, &nm));
                                pi += 1;
                            }
                        } } }
                    }
                    else if let Some(p) = pnames.iter().find(|p| s == format!("let{}={};", p, p)) { pre.insert(p.clone(), 0); }
                    else if let Some(p) = pnames.iter().find(|p| s == format!("let{}={}.into();", p, p)) { pre.insert(p.clone(), 1); }
                    else if si == stmts.len() - 1 {
                        tail = match s.as_str() {
                            "ret" => 0, "ret.into()" => 1, "unsafe{ret.into_str()}" => 2,
                            "unsafe{::cglue::result::from_int_result(ret,ok_out)}" => 5,
                            "::cglue::result::from_int_result_empty(ret)" => 6,
                            _ => 9,
                        };
                    } else { unknown = 1; }
                }
                row.push(fetch); row.push(cont); row.push(guard); row.push(call_first_cont);
                row.push(call.len() as i64);
                for (i, c) in call.iter().enumerate() {
                    // effective conversion = pre-let followed by the call-site expression
                    let p = pnames.get(i).and_then(|n| pre.get(n)).copied().unwrap_or(0);
                    row.push(if p == 0 { *c } else if *c == 0 { p } else { 9 });
                }
                row.push((okout == 1 && call_okout == 1) as i64 + (okout != call_okout) as i64 * 9);
                row.push(tail);
                row.push(unknown);
            }
        }
        rows.push(row);
    }
    Ok(rows)
}

pub fn run_ir() {
    let stdin = std::io::stdin();
    for line in stdin.lock().lines() {
        let line = line.unwrap();
        if line.trim().is_empty() { continue; }
        let (hd, body) = match line.find('|') { Some(i) => (&line[..i], &line[i + 1..]), None => (&line[..], "") };
        let hdr: Vec<i64> = hd.split_whitespace().map(|t| t.parse().unwrap()).collect();
        let rows: Vec<Vec<i64>> = body.split(';').map(|r| r.split_whitespace().map(|t| t.parse().unwrap()).collect::<Vec<i64>>()).filter(|r| !r.is_empty()).collect();
        let trait_int = hdr.get(1).copied().unwrap_or(0);
        set_generic(hdr.get(2).copied().unwrap_or(0) != 0); set_assoc(hdr.get(3).copied().unwrap_or(0) != 0);
        let src = render_trait("Tr", trait_int, &rows);
        let out = std::panic::catch_unwind(|| {
            let tr: ItemTrait = { let f = syn::parse_file(&src).expect("rendered trait parses"); match f.items.into_iter().next().unwrap() { Item::Trait(mut t) => { t.attrs.retain(|a| !a.path.is_ident("cglue_trait")); t } _ => unreachable!() } };
            cglue_gen::traits::gen_trait(tr, None).to_string()
        });
        match out {
            Err(_) => println!("-7 # fails=generator_panicked"),
            Ok(exp) => match abstract_trait("Tr", &rows, &exp) {
                Err(e) if std::env::var("IR_DEBUG").is_ok() => { crate::debug_impls(&exp); println!("-8 # fails={}", e.replace(' ', "_")) }
                Ok(ir) => println!("{} # fails=-", ir.iter().map(|r| r.iter().map(|v| v.to_string()).collect::<Vec<_>>().join(" ")).collect::<Vec<_>>().join(" ; ")),
                Err(e) => println!("-8 # fails={}", e.replace(' ', "_")),
            },
        }
    }
}


/// '201 <ti> <generic> | methods': the forwarding impl that #[cglue_forward] (the REAL cglue_gen::forward::gen_forward) emits for the trait:
/// row per method [present, calls the same-named method on (self.0), number of forwarded arguments, per argument 0 = passed through unchanged,
/// argument count matches the signature, 0 = returns the result unchanged, statements outside the known form]; then one row
/// [the handle must be DerefMut].
pub fn run_fwd() {
    let stdin = std::io::stdin();
    for line in stdin.lock().lines() {
        let line = line.unwrap();
        if line.trim().is_empty() { continue; }
        let (hd, body) = match line.find('|') { Some(i) => (&line[..i], &line[i + 1..]), None => (&line[..], "") };
        let hdr: Vec<i64> = hd.split_whitespace().map(|t| t.parse().unwrap()).collect();
        let rows: Vec<Vec<i64>> = body.split(';').map(|r| r.split_whitespace().map(|t| t.parse().unwrap()).collect::<Vec<i64>>()).filter(|r| !r.is_empty()).collect();
        set_generic(hdr.get(2).copied().unwrap_or(0) != 0); set_assoc(hdr.get(3).copied().unwrap_or(0) != 0);
        let src = render_trait("Tr", hdr.get(1).copied().unwrap_or(0), &rows);
        let out = std::panic::catch_unwind(|| {
            let tr: ItemTrait = { let f = syn::parse_file(&src).expect("rendered trait parses"); match f.items.into_iter().next().unwrap() { Item::Trait(mut t) => { t.attrs.retain(|a| !a.path.is_ident("cglue_trait")); t } _ => unreachable!() } };
            cglue_gen::forward::gen_forward(tr, None).to_string()
        });
        let exp = match out { Ok(e) => e, Err(_) => { println!("-7 # fails=generator_panicked"); continue; } };
        let file = match syn::parse_file(&exp) { Ok(f) => f, Err(e) => { println!("-8 # fails=expansion_does_not_parse_{}", e.to_string().replace(' ', "_")); continue; } };
        let im = file.items.iter().find_map(|i| if let Item::Impl(im) = i { if norm(&im.self_ty).contains("Fwd<CGlueO>") { Some(im) } else { None } } else { None });
        let im = match im { Some(i) => i, None => { println!("-8 # fails=no_impl_for_Fwd"); continue; } };
        let mut out_rows: Vec<Vec<i64>> = vec![];
        for (k, r) in rows.iter().enumerate() {
            let name = mname(k, r);
            let m = im.items.iter().find_map(|ii| if let ImplItem::Method(m) = ii { if m.sig.ident == name { Some(m) } else { None } } else { None });
            match m {
                None => out_rows.push(vec![0]),
                Some(m) => {
                    let pnames: Vec<String> = m.sig.inputs.iter().skip(1).filter_map(|a| if let FnArg::Typed(p) = a { Some(norm(&p.pat)) } else { None }).collect();
                    let (mut target, mut convs, mut tail, mut unknown) = (0, vec![], 9, 0);
                    let stmts = &m.block.stmts;
                    for (si, st) in stmts.iter().enumerate() {
                        let s = norm(st);
                        if s.starts_with(&format!("letret=(self.0).{}(", name)) {
                            target = 1;
                            if let Stmt::Local(l) = st { if let Some((_, e)) = &l.init { if let Expr::MethodCall(c) = &**e {
                                for (ai, a) in c.args.iter().enumerate() { convs.push(conv_code(a, &pnames.get(ai).cloned().unwrap_or_default())); }
                            } } }
                        } else if si == stmts.len() - 1 { tail = if s == "ret" { 0 } else if s == "Self(ret)" { 1 } else { 9 }; }
                        else { unknown = 1; }
                    }
                    let mut row = vec![1, target, convs.len() as i64];
                    row.extend(convs.iter());
                    row.extend([(convs.len() == pnames.len() && pnames.len() == r[4] as usize) as i64, tail, unknown]);
                    out_rows.push(row);
                }
            }
        }
        let bounds = im.generics.params.iter().map(|p| norm(p)).collect::<Vec<_>>().join(",");
        out_rows.push(vec![bounds.contains("DerefMut") as i64]);
        println!("{} # fails=-", out_rows.iter().map(|r| r.iter().map(|v| v.to_string()).collect::<Vec<_>>().join(" ")).collect::<Vec<_>>().join(" ; "));
    }
}

/// `gen render`: print the Rust source of the traits encoded by the case lines (trait k is named T<k>)
pub fn run_render() {
    let stdin = std::io::stdin();
    for (k, line) in stdin.lock().lines().enumerate() {
        let line = line.unwrap();
        let (hd, body) = match line.find('|') { Some(i) => (&line[..i], &line[i + 1..]), None => (&line[..], "") };
        let hdr: Vec<i64> = hd.split_whitespace().map(|t| t.parse().unwrap()).collect();
        let rows: Vec<Vec<i64>> = body.split(';').map(|r| r.split_whitespace().map(|t| t.parse().unwrap()).collect::<Vec<i64>>()).filter(|r| !r.is_empty()).collect();
        println!("// @@TRAIT {}", k);
        set_generic(hdr.get(2).copied().unwrap_or(0) != 0); set_assoc(hdr.get(3).copied().unwrap_or(0) != 0);
        print!("{}", render_trait(&format!("T{}", k), hdr.get(1).copied().unwrap_or(0), &rows));
    }
}
