//! Structural correspondence for trait groups: renders a group definition from integer-encoded names, feeds it to the REAL
//! TraitGroup::create_group / TraitCastGroup, and abstracts the expansion: field sequences of the base struct, the container and
//! every With-variant reached by the cast functions, and which vtables each cast/as_ref/as_mut/into/check function validates.
use quote::ToTokens;
use std::io::BufRead;
use syn::*;

fn norm(t: &impl ToTokens) -> String { t.to_token_stream().to_string().replace(' ', "") }

fn find_items<'a>(items: &'a [Item], out: &mut Vec<&'a Item>) {
    for it in items { out.push(it); if let Item::Mod(m) = it { if let Some((_, its)) = &m.content { find_items(its, out); } } }
}

/// field row: per field [kind, trait index, is Option]  kind 1 vtbl, 2 container, 3 instance, 4 context, 5 ret_tmp, 9 other
fn fields_row(s: &ItemStruct, lc: &[String]) -> Vec<i64> {
    let mut row = vec![];
    for f in s.fields.iter() {
        let n = f.ident.as_ref().unwrap().to_string();
        let ty = norm(&f.ty);
        if let Some(rest) = n.strip_prefix("vtbl_") {
            let idx = lc.iter().position(|x| x == rest).map(|p| p as i64).unwrap_or(-1);
            let opt = ty.starts_with("::core::option::Option<&") as i64;
            let isref = (ty.starts_with("&'cglue_a") || opt == 1) as i64;
            row.extend([if isref == 1 { 1 } else { 9 }, idx, opt]);
        } else if n == "container" { row.extend([2, 0, 0]); }
        else if n == "instance" { row.extend([3, 0, 0]); }
        else if n == "context" { row.extend([4, 0, 0]); }
        else if let Some(rest) = n.strip_prefix("ret_tmp_") { row.extend([5, lc.iter().position(|x| x == rest).map(|p| p as i64).unwrap_or(-1), 0]); }
        else { row.extend([9, 0, 0]); }
    }
    row
}

/// which optional vtables a cast-like function validates: fields followed by `?` (or `(*vtbl_x)?`) in its body
fn validated_mask(f: &ImplItemMethod, lc: &[String], nmand: usize) -> i64 {
    let body = norm(&f.block);
    let mut m = 0;
    for (i, n) in lc.iter().enumerate().skip(nmand) {
        if body.contains(&format!("vtbl_{}?", n)) || body.contains(&format!("(*vtbl_{})?", n)) { m |= 1 << (i - nmand); }
    }
    m
}

pub fn run_grp() {
    let stdin = std::io::stdin();
    for line in stdin.lock().lines() {
        let line = line.unwrap();
        if line.trim().is_empty() { continue; }
        let (hd, body) = match line.find('|') { Some(i) => (&line[..i], &line[i + 1..]), None => (&line[..], "") };
        let hdr: Vec<i64> = hd.split_whitespace().map(|t| t.parse().unwrap()).collect();
        let names: Vec<String> = body.split(';').map(|r| r.split_whitespace().map(|t| t.parse::<u8>().unwrap() as char).collect::<String>()).filter(|s| !s.is_empty()).collect();
        let nmand = hdr.get(1).copied().unwrap_or(1).max(0) as usize;
        // not a group definition (shrinking reaches such lines): nothing to report
        if names.is_empty() || nmand == 0 || nmand > names.len() { println!("-6 # fails=-"); continue; }
        let nopt = names.len() - nmand;
        // a name may be an aliased instantiation of a generic trait, written `Get<u8>=GetU8`: the alias is the trait's identity in the group
        let full: Vec<String> = names.iter().map(|n| n.replace('=', " = ")).collect();
        let names: Vec<String> = names.iter().map(|n| n.rsplit('=').next().unwrap().to_string()).collect();
        let lc: Vec<String> = names.iter().map(|n| n.to_lowercase()).collect();
        if hdr[0] == 204 { impl_rows(&full, &lc, nmand, nopt, hdr.get(2).copied().unwrap_or(0)); continue; }
        let src = format!("cglue_trait_group!(G, {{ {} }}, {{ {} }});", full[..nmand].join(", "), full[nmand..].join(", "));
        let res = std::panic::catch_unwind(|| {
            let f = syn::parse_file(&src).expect("group definition parses");
            let m = match f.items.into_iter().next().unwrap() { Item::Macro(m) => m, _ => unreachable!() };
            let g = syn::parse2::<cglue_gen::trait_groups::TraitGroup>(m.mac.tokens).expect("TraitGroup parses");
            g.create_group().to_string()
        });
        let exp = match res { Ok(e) => e, Err(_) => { println!("-7 # fails=generator_panicked"); continue; } };
        let file = match syn::parse_file(&exp) { Ok(f) => f, Err(e) => { println!("-8 # fails=expansion_does_not_parse_{}", e.to_string().replace(' ', "_")); continue; } };
        let mut items = vec![];
        find_items(&file.items, &mut items);
        let get_struct = |n: &str| items.iter().find_map(|i| if let Item::Struct(s) = i { if s.ident == n { Some(s) } else { None } } else { None });
        let mut rows: Vec<Vec<i64>> = vec![];
        let reprc = |s: &ItemStruct| s.attrs.iter().any(|a| norm(a) == "#[repr(C)]") as i64;
        match (get_struct("G"), get_struct("GContainer")) {
            (Some(g), Some(c)) => { let mut r = vec![reprc(g)]; r.extend(fields_row(g, &lc)); rows.push(r); let mut r = vec![reprc(c)]; r.extend(fields_row(c, &lc)); rows.push(r); }
            _ => { println!("-8 # fails=no_group_struct"); continue; }
        }
        // all methods of inherent impls on G
        let mut methods: Vec<&ImplItemMethod> = vec![];
        for i in &items { if let Item::Impl(im) = i { if im.trait_.is_none() && norm(&im.self_ty).starts_with("G<") { for ii in &im.items { if let ImplItem::Method(m) = ii { methods.push(m); } } } } }
        // what a view obtained through as_ref! / as_mut! / into! can be used as: its `impl ..` type must name every MANDATORY trait and every requested one
        let mut sigfails: Vec<String> = vec![];
        let raw_of = |f: &String| -> String { f.split('=').next().unwrap().trim().chars().take_while(|c| c.is_alphanumeric() || *c == '_').collect() };
        for mask in 1..(1i64 << nopt) {
            // the macro side: the requested traits in REVERSE input order (the macro must sort them itself)
            let req: Vec<&String> = (0..nopt).rev().filter(|b| mask & (1 << b) != 0).map(|b| &names[nmand + b]).collect();
            // some of the requested traits are written with a module path (the request names the same traits: only the last segment identifies one)
            let req_src = format!("g impl {}", req.iter().enumerate().map(|(j, s)| match (j + mask as usize) % 3 { 1 => format!("some::path::{}", s), 2 => format!("self::{}", s), _ => s.to_string() }).collect::<Vec<_>>().join(" + "));
            let mut row = vec![mask];
            let (mut with_fr, mut final_fr): (Vec<i64>, Vec<i64>) = (vec![], vec![]);     // field sequences of the structs that cast / into build
            for (ct, pre) in [(cglue_gen::trait_groups::CastType::Cast, "cast"), (cglue_gen::trait_groups::CastType::AsRef, "as_ref"), (cglue_gen::trait_groups::CastType::AsMut, "as_mut"),
                              (cglue_gen::trait_groups::CastType::Into, "into"), (cglue_gen::trait_groups::CastType::OnlyCheck, "check")] {
                let call = std::panic::catch_unwind(|| syn::parse_str::<cglue_gen::trait_groups::TraitCastGroup>(&req_src).map(|c| c.cast_group(ct).to_string()));
                let fname = match call { Ok(Ok(s)) => { let s = s.replace(' ', ""); s.trim_start_matches("(g).").trim_end_matches("()").to_string() } _ => String::new() };
                match methods.iter().find(|m| m.sig.ident == fname) {
                    None => row.extend([0, -1, -1]),
                    Some(m) => {
                        if matches!(pre, "as_ref" | "as_mut" | "into") && sigfails.len() < 3 {
                            let out_ty = norm(&m.sig.output);
                            if let Some(p) = out_ty.find("impl") {
                                let bounds = &out_ty[p + 4..];
                                let names_trait = |t: &str| bounds.split(|c: char| !(c.is_alphanumeric() || c == '_')).any(|tok| tok == t);
                                for (k, f) in full.iter().enumerate() {
                                    let wanted = k < nmand || mask & (1 << (k - nmand)) != 0;
                                    if wanted && !names_trait(&raw_of(f)) {
                                        sigfails.push(format!("{}_(request_mask_{}):_the_view's_type_`impl_..`_does_not_name_the_{}_trait_{}:_its_methods_cannot_be_called_on_the_result", fname, mask, if k < nmand { "MANDATORY" } else { "requested" }, raw_of(f)));
                                    }
                                }
                            }
                        }
                        let vm = if pre == "check" { -1 } else { validated_mask(m, &lc, nmand) };
                        // the struct the function builds (cast/into): non-Option mask among the optional traits
                        let mut nonopt = -1;
                        if pre == "cast" || pre == "into" {
                            let body = norm(&m.block);
                            if let Some(p) = body.find("Some(G") {
                                let name: String = body[p + 5..].chars().take_while(|c| c.is_alphanumeric() || *c == '_').collect();
                                if let Some(s) = get_struct(&name) {
                                    let fr = fields_row(s, &lc);
                                    if pre == "cast" { with_fr = fr.clone(); } else { final_fr = fr.clone(); }
                                    let mut mm = 0;
                                    if pre == "cast" {
                                        for ch in fr.chunks(3) { if ch[0] == 1 && ch[1] >= nmand as i64 && ch[2] == 0 { mm |= 1 << (ch[1] - nmand as i64); } }
                                        // same shape as the base struct: same field sequence up to Option-ness
                                        let base = fields_row(get_struct("G").unwrap(), &lc);
                                        let same = base.len() == fr.len() && base.chunks(3).zip(fr.chunks(3)).all(|(a, b)| a[0] == b[0] && a[1] == b[1]);
                                        if !same || reprc(s) != 1 { mm = -2; }
                                    } else {
                                        for ch in fr.chunks(3) { if ch[0] == 1 && ch[1] >= nmand as i64 && ch[2] == 0 { mm |= 1 << (ch[1] - nmand as i64); } }
                                        // the Final variant: the base struct's field sequence restricted to the mandatory and the requested tables (then the container)
                                        let base = fields_row(get_struct("G").unwrap(), &lc);
                                        let want: Vec<(i64, i64)> = base.chunks(3).filter(|c| c[0] != 1 || c[1] < nmand as i64 || (c[1] >= nmand as i64 && mask & (1 << (c[1] - nmand as i64)) != 0)).map(|c| (c[0], c[1])).collect();
                                        let got: Vec<(i64, i64)> = fr.chunks(3).map(|c| (c[0], c[1])).collect();
                                        if want != got || reprc(s) != 1 { mm = -2; }
                                    }
                                    nonopt = mm;
                                }
                            }
                        }
                        row.extend([1, vm, nonopt]);
                    }
                }
            }
            row.push(-5); row.extend(with_fr); row.push(-6); row.extend(final_fr);
            rows.push(row);
        }
        println!("{} # fails={}", rows.iter().map(|r| r.iter().map(|v| v.to_string()).collect::<Vec<_>>().join(" ")).collect::<Vec<_>>().join(" ; "),
                 if sigfails.is_empty() { "-".to_string() } else { sigfails.join("|") });
    }
}

/// '204 <nmand> | names': cglue_impl_group!(T, G, { listed }, { listed }) through the REAL TraitGroupImpl for every subset of the optional traits, the
/// traits listed in REVERSE input order.  Row per subset: [mask, vtables enabled by fill_table, number of enable calls, the same two for the Fwd
/// filler, traits named by the where-bounds of fill_table, enable calls that name no optional trait of the group]
/// header field 3 (forward mode): 0 the forward list equals the owned list; 1 three-argument form (no forward list: no Fwd filler at all);
/// 2 the forward list is the COMPLEMENT of the owned list; 3 the owned list rotated by one position — the two lists are independent
fn impl_rows(full: &[String], lc: &[String], nmand: usize, nopt: usize, fm: i64) {
    let mut rows: Vec<Vec<i64>> = vec![];
    for mask in 0..(1i64 << nopt) {
        let listed: Vec<&String> = (0..nopt).rev().filter(|b| mask & (1 << b) != 0).map(|b| &full[nmand + b]).collect();
        let l = listed.iter().map(|s| s.as_str()).collect::<Vec<_>>().join(", ");
        let fmask = match fm { 2 => ((1i64 << nopt) - 1) - mask, 3 => if nopt == 0 { 0 } else { mask / 2 + (mask % 2) * (1i64 << (nopt - 1)) }, _ => mask };
        let flisted: Vec<&String> = (0..nopt).rev().filter(|b| fmask & (1 << b) != 0).map(|b| &full[nmand + b]).collect();
        let fl = flisted.iter().map(|s| s.as_str()).collect::<Vec<_>>().join(", ");
        let src = if fm == 1 { format!("T, G, {{ {} }}", l) } else { format!("T, G, {{ {} }}, {{ {} }}", l, fl) };
        let res = std::panic::catch_unwind(|| syn::parse_str::<cglue_gen::trait_groups::TraitGroupImpl>(&src).map(|g| g.implement_group().to_string()));
        let exp = match res { Ok(Ok(e)) => e, Ok(Err(_)) => { rows.push(vec![mask, -8]); continue; } Err(_) => { rows.push(vec![mask, -7]); continue; } };
        let file = match syn::parse_file(&exp) { Ok(f) => f, Err(_) => { rows.push(vec![mask, -8]); continue; } };
        let mut row = vec![mask];
        let mut bound_mask = -1; let mut extra = 0;
        for fname in ["fill_table", "fill_fwd_table"] {
            let mut found = false;
            for it in &file.items { if let Item::Impl(im) = it { for ii in &im.items { if let ImplItem::Method(m) = ii { if m.sig.ident == fname {
                found = true;
                let body = norm(&m.block);
                // the body is `table.enable_a().enable_b()...`
                let mut em = 0; let mut cnt = 0;
                // the chain starts at the function's own parameter (whatever it is called)
                let pname = m.sig.inputs.iter().find_map(|a| if let FnArg::Typed(p) = a { Some(norm(&p.pat).trim_start_matches("mut").to_string()) } else { None }).unwrap_or_else(|| "table".into());
                if !body.starts_with(&format!("{{{}.", pname)) && body != format!("{{{}}}", pname) { em = -2; }
                for call in body.split(".enable_").skip(1) {
                    let n: String = call.chars().take_while(|c| c.is_alphanumeric() || *c == '_').collect();
                    cnt += 1;
                    match lc.iter().skip(nmand).position(|x| *x == n) { Some(p) => { if em >= 0 { em |= 1 << p; } } None => extra += 1 }
                }
                row.extend([em, cnt]);
                if fname == "fill_table" {
                    // where-bounds: `Self: Trait<..>,` per enabled trait (by its raw name) and `&'a TraitVtbl<..>: 'a + Default`
                    let wc = im.generics.where_clause.as_ref().map(|w| norm(w)).unwrap_or_default();
                    let mut bm = 0;
                    for (i, f) in full.iter().enumerate().skip(nmand) {
                        let raw: String = f.split('=').next().unwrap().trim().replace(' ', "");
                        let raw_ident: String = raw.chars().take_while(|c| c.is_alphanumeric() || *c == '_').collect();
                        let gens = &raw[raw_ident.len()..];
                        let gens_inner = gens.trim_start_matches('<').trim_end_matches('>');
                        let bound = if gens_inner.is_empty() { format!("Self:{}<>,", raw_ident) } else { format!("Self:{}<{}>,", raw_ident, gens_inner) };
                        let bound2 = if gens_inner.is_empty() { format!("Self:{}<>", raw_ident) } else { format!("Self:{}<{},>", raw_ident, gens_inner) };
                        if wc.contains(&bound) || wc.contains(&bound2) { bm |= 1 << (i - nmand); }
                    }
                    bound_mask = bm;
                }
            } } } } }
            if !found { row.extend([-1, -1]); }
        }
        row.extend([bound_mask, extra]);
        rows.push(row);
    }
    println!("{} # fails=-", rows.iter().map(|r| r.iter().map(|v| v.to_string()).collect::<Vec<_>>().join(" ")).collect::<Vec<_>>().join(" ; "));
}
