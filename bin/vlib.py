"""Shared machinery of /verif/bin/check: Coq build + audit, extraction runner, Rust harness
builds, case execution, diffing, shrinking, known findings, replay and evidence files."""
import hashlib
import json
import os
import re
import shutil
import subprocess
import sys
import time

VERIF = os.path.dirname(os.path.dirname(os.path.abspath(__file__)))
COQ = os.path.join(VERIF, "coq")
CACHE = os.path.join(VERIF, ".cache")
REPO = "/repo"
NPROC = 16

ENV = dict(os.environ)
ENV.update({"CARGO_NET_OFFLINE": "true", "CARGO_TARGET_DIR": os.path.join(CACHE, "target"),
            "GOPROXY": "off", "PIP_NO_INDEX": "1"})

AXIOM_ALLOW = {
    # axioms declared by Coq's standard library that a theorem may depend on; each one that
    # actually shows up is copied into the evidence trusted_base
    "Coq.Logic.FunctionalExtensionality.functional_extensionality_dep",
    "functional_extensionality_dep",
    "Coq.Logic.ProofIrrelevance.proof_irrelevance", "proof_irrelevance",
    "Coq.Logic.Classical_Prop.classic", "classic",
    "Coq.Logic.Eqdep.Eq_rect_eq.eq_rect_eq", "Eqdep.Eq_rect_eq.eq_rect_eq", "Eq_rect_eq.eq_rect_eq", "eq_rect_eq",
    "Coq.Logic.JMeq.JMeq_eq", "JMeq_eq",
}

FORBIDDEN = re.compile(
    r"\b(Admitted|admit|Axiom|Axioms|Parameter|Parameters|Conjecture|Conjectures|Admit Obligations)\b"
    r"|Unset\s+Guard|Unset\s+Positivity|Unset\s+Universe|bypass_check|type-in-type|impredicative-set|native_compute")


def sh(cmd, timeout=None, cwd=None, env=None, inp=None):
    t0 = time.time()
    try:
        p = subprocess.run(cmd, shell=isinstance(cmd, str), cwd=cwd, env=env or ENV, input=inp,
                           capture_output=True, text=True, timeout=timeout)
        return p.returncode, p.stdout, p.stderr, time.time() - t0
    except subprocess.TimeoutExpired as e:
        return 124, (e.stdout or b"").decode() if isinstance(e.stdout, bytes) else (e.stdout or ""), "TIMEOUT", time.time() - t0


# ---------------------------------------------------------------- RNG (one stream per run)
class Rng:
    """splitmix64 — every random choice of a check derives from VERIF_SEED through this."""

    def __init__(self, seed):
        self.s = seed & 0xFFFFFFFFFFFFFFFF

    def next(self):
        self.s = (self.s + 0x9E3779B97F4A7C15) & 0xFFFFFFFFFFFFFFFF
        z = self.s
        z = ((z ^ (z >> 30)) * 0xBF58476D1CE4E5B9) & 0xFFFFFFFFFFFFFFFF
        z = ((z ^ (z >> 27)) * 0x94D049BB133111EB) & 0xFFFFFFFFFFFFFFFF
        return z ^ (z >> 31)

    def below(self, n):
        return self.next() % n

    def range(self, a, b):
        return a + self.below(b - a + 1)

    def choice(self, xs):
        return xs[self.below(len(xs))]

    def chance(self, num, den):
        return self.below(den) < num

    def fork(self, tag):
        return Rng(self.next() ^ (hash_int(tag)))


def hash_int(s):
    return int.from_bytes(hashlib.sha256(str(s).encode()).digest()[:8], "big")


# ---------------------------------------------------------------- Coq
def coq_files():
    out = []
    for root, _, files in os.walk(COQ):
        for f in files:
            if f.endswith(".v"):
                out.append(os.path.join(root, f))
    return sorted(out)


def coq_project_files():
    with open(os.path.join(COQ, "_CoqProject")) as f:
        return [l.strip() for l in f if l.strip().endswith(".v")]


def coq_makefile():
    mk = os.path.join(COQ, "Makefile")
    cp = os.path.join(COQ, "_CoqProject")
    if not os.path.exists(mk) or os.path.getmtime(mk) < os.path.getmtime(cp):
        rc, o, e, _ = sh("coq_makefile -f _CoqProject -o Makefile", cwd=COQ, timeout=120)
        if rc != 0:
            raise RuntimeError("coq_makefile failed: " + o + e)


def coq_build(targets, timeout=1500):
    """Full .vo build (never -vos/-vok) of the given .v files and what they depend on.
    Returns (ok, log)."""
    coq_makefile()
    vos = " ".join(t[:-2] + ".vo" if t.endswith(".v") else t for t in targets)
    rc, o, e, dt = sh("timeout %d make -j%d %s" % (timeout, NPROC, vos), cwd=COQ, timeout=timeout + 30)
    return rc == 0, (o + e), dt


def coq_deps(vfile):
    """transitive project-local dependencies of a .v file (paths relative to coq/), incl. itself"""
    seen, todo = [], [vfile]
    while todo:
        f = todo.pop()
        if f in seen:
            continue
        seen.append(f)
        try:
            src = open(os.path.join(COQ, f)).read()
        except OSError:
            continue
        for m in re.finditer(r"Verif\.([A-Za-z0-9_.]+)", src):
            cand = m.group(1).rstrip(".").replace(".", "/") + ".v"
            if os.path.exists(os.path.join(COQ, cand)) and cand not in seen:
                todo.append(cand)
    return sorted(seen)


def audit_sources(files):
    """forbidden-construct scan (comments stripped).  Returns list of 'file:line: text'."""
    bad = []
    for f in files:
        src = open(os.path.join(COQ, f)).read()
        src = strip_coq_comments(src)
        for n, line in enumerate(src.split("\n"), 1):
            if FORBIDDEN.search(line):
                bad.append("%s:%d: %s" % (f, n, line.strip()))
            if re.match(r"\s*(Variable|Variables|Hypothesis|Hypotheses|Context)\b", line):
                # allowed only inside a Section: checked by section-depth scan below
                pass
        depth = 0
        for n, line in enumerate(src.split("\n"), 1):
            if re.match(r"\s*Section\b", line):
                depth += 1
            elif re.match(r"\s*End\b", line) and depth > 0:
                depth -= 1
            elif depth == 0 and re.match(r"\s*(Variable|Variables|Hypothesis|Hypotheses|Context)\b", line):
                bad.append("%s:%d: %s (outside a Section)" % (f, n, line.strip()))
    return bad


def strip_coq_comments(src):
    out, depth, i = [], 0, 0
    while i < len(src):
        if src.startswith("(*", i):
            depth += 1
            i += 2
        elif src.startswith("*)", i) and depth > 0:
            depth -= 1
            i += 2
        else:
            if depth == 0:
                out.append(src[i])
            elif src[i] == "\n":
                out.append("\n")
            i += 1
    return "".join(out)


def theorems_in(vfile):
    src = strip_coq_comments(open(os.path.join(COQ, vfile)).read())
    return re.findall(r"^\s*(?:Theorem|Corollary)\s+([A-Za-z0-9_']+)", src, re.M)


def count_qed(files):
    n = 0
    for f in files:
        src = strip_coq_comments(open(os.path.join(COQ, f)).read())
        n += len(re.findall(r"\b(Qed|Defined)\.", src))
    return n


def print_assumptions(prop_v, theorems):
    """re-open the compiled property module and ask the kernel which axioms each theorem uses"""
    mod = "Verif." + prop_v[:-2].replace("/", ".")
    os.makedirs(os.path.join(CACHE, "assum"), exist_ok=True)
    name = "Assum_" + os.path.basename(prop_v)[:-2]
    path = os.path.join(CACHE, "assum", name + ".v")
    with open(path, "w") as f:
        f.write("Require Import %s.\n" % mod)
        for t in theorems:
            f.write('Goal True. idtac "@@THM %s". Abort.\nPrint Assumptions %s.\n' % (t, t))
    rc, o, e, _ = sh("timeout 300 coqc -Q %s Verif -Q %s Assum %s" % (COQ, os.path.dirname(path), path), timeout=330)
    res, cur = {}, None
    if rc != 0:
        return None, o + e
    for line in o.split("\n"):
        m = re.match(r"@@THM (\S+)", line)
        if m:
            cur = m.group(1)
            res[cur] = []
            continue
        if cur is None:
            continue
        line = line.strip()
        if not line or line.startswith("Closed under the global context") or line.startswith("Axioms:"):
            continue
        m = re.match(r"([A-Za-z0-9_.']+)\s*:", line)
        if m:
            res[cur].append(m.group(1))
    return res, o


def prove(prop_v, extra_targets=()):
    """Build the property file, audit it.  Returns dict(ok, reason, theorems, axioms, obligations, log)."""
    deps = coq_deps(prop_v)
    r = {"ok": False, "reason": "", "theorems": [], "axioms": {}, "obligations": 0, "discharged": 0,
         "files": deps, "wall_s": 0.0}
    bad = audit_sources(deps)
    if bad:
        r["reason"] = "forbidden construct: " + "; ".join(bad[:5])
        return r
    ok, log, dt = coq_build([prop_v] + list(extra_targets))
    r["wall_s"] = dt
    thms = theorems_in(prop_v)
    r["theorems"] = thms
    r["obligations"] = count_qed(deps)
    if not ok:
        m = re.search(r'File "([^"]+)", line (\d+)[^\n]*\n(Error:[^\n]*(?:\n[^\n]+){0,6})', log)
        r["reason"] = "coq build failed: " + (m.group(0)[:600] if m else log[-600:])
        r["failed_file"] = m.group(1) if m else None
        return r
    ax, out = print_assumptions(prop_v, thms)
    if ax is None:
        r["reason"] = "Print Assumptions failed: " + out[-400:]
        return r
    r["axioms"] = ax
    for t, axs in ax.items():
        for a in axs:
            if a not in AXIOM_ALLOW and a.split(".")[-1] not in AXIOM_ALLOW:
                r["reason"] = "theorem %s depends on non-allowlisted axiom %s" % (t, a)
                return r
    r["discharged"] = r["obligations"]
    r["ok"] = True
    return r


# ---------------------------------------------------------------- extracted model runner
def build_runner():
    ok, log, _ = coq_build(["extract/Extract.v"])
    if not ok:
        return None, "extraction build failed: " + log[-800:]
    src = os.path.join(COQ, "extract")
    out = os.path.join(CACHE, "runner")
    os.makedirs(out, exist_ok=True)
    exe = os.path.join(out, "runner")
    stamp = os.path.join(out, "stamp")
    h = hashlib.sha256()
    for f in ("model.ml", "model.mli", "driver.ml"):
        h.update(open(os.path.join(src, f), "rb").read())
    if os.path.exists(exe) and os.path.exists(stamp) and open(stamp).read() == h.hexdigest():
        return exe, ""
    for f in ("model.ml", "model.mli", "driver.ml"):
        shutil.copy(os.path.join(src, f), out)
    rc, o, e, _ = sh("ocamlfind ocamlopt -w -a model.mli model.ml driver.ml -o runner", cwd=out, timeout=600)
    if rc != 0:
        return None, "ocaml build failed: " + (o + e)[-800:]
    open(stamp, "w").write(h.hexdigest())
    return exe, ""


def run_lines(exe, lines, timeout=900, env=None, shards=NPROC):
    """feed case lines to an executable (sharded over processes), return output lines in order"""
    if not lines:
        return []
    n = min(shards, max(1, len(lines) // 200))
    chunks = [lines[i::n] for i in range(n)]
    procs = []
    for c in chunks:
        p = subprocess.Popen([exe] if isinstance(exe, str) else exe, stdin=subprocess.PIPE, stdout=subprocess.PIPE,
                             stderr=subprocess.PIPE, text=True, env=env or ENV)
        procs.append((p, c))
    import threading
    results = [None] * n

    def work(k):
        p, c = procs[k]
        try:
            o, e = p.communicate("\n".join(c) + "\n", timeout=timeout)
            results[k] = (p.returncode, o.split("\n"), e)
        except subprocess.TimeoutExpired:
            p.kill()
            results[k] = (124, [], "TIMEOUT")
    ths = [threading.Thread(target=work, args=(k,)) for k in range(n)]
    [t.start() for t in ths]
    [t.join() for t in ths]
    out = [None] * len(lines)
    for k in range(n):
        rc, ol, err = results[k]
        idxs = list(range(k, len(lines), n))
        for j, i in enumerate(idxs):
            if j < len(ol) - 1 or (j == len(ol) - 1 and ol[j] != ""):
                out[i] = ol[j]
            else:
                out[i] = "!CRASH rc=%s %s" % (rc, (err or "").strip().split("\n")[-1][:200])
    return out


def run_one(exe, line, timeout=60, env=None):
    rc, o, e, _ = sh([exe] if isinstance(exe, str) else exe, inp=line + "\n", timeout=timeout, env=env)
    ol = o.split("\n")
    if rc != 0 or len(ol) < 2:
        return "!CRASH rc=%s %s" % (rc, (e or "").strip().split("\n")[-1][:200])
    return ol[0]


# ---------------------------------------------------------------- Rust harness
def build_harness(name, release=False, features=None, rustflags=None, toolchain=None, timeout=1500):
    return build_harness_dir(os.path.join(VERIF, "harness", name), name, release, features, rustflags, toolchain, timeout)


def build_harness_dir(d, name, release=False, features=None, rustflags=None, toolchain=None, timeout=1500):
    try:
        shutil.copy(os.path.join(REPO, "Cargo.lock"), os.path.join(d, "Cargo.lock"))
    except OSError:
        pass
    env = dict(ENV)
    if rustflags:
        env["RUSTFLAGS"] = rustflags
    cmd = "cargo %s build --offline %s %s" % ("+" + toolchain if toolchain else "", "--release" if release else "",
                                            "--features " + features if features else "")
    rc, o, e, dt = sh("timeout %d %s" % (timeout, cmd), cwd=d, env=env, timeout=timeout + 30)
    if rc != 0:
        errs = [l for l in e.split("\n") if l.startswith("error")][:5]
        return None, "harness build failed: " + " / ".join(errs) + "\n" + e[-1500:], dt
    exe = os.path.join(env["CARGO_TARGET_DIR"], "release" if release else "debug", name)
    return exe, "", dt


def split_out(line):
    """'rows # k=v ...' -> (rows_text_normalised, {k: v})"""
    if line is None or line.startswith("!CRASH"):
        return line, {"crash": line}
    if "#" in line:
        rows, mon = line.split("#", 1)
    else:
        rows, mon = line, ""
    kv = {}
    for t in mon.split():
        if "=" in t:
            k, v = t.split("=", 1)
            kv[k] = v
    return norm_rows(rows), kv


def norm_rows(s):
    return " ; ".join(" ".join(r.split()) for r in s.strip().split(";")) if s.strip() != "" else ""


# ---------------------------------------------------------------- shrinking
def shrink_ops(hdr, ops, fails, budget=300):
    """delta-debug an op list: remove chunks/single ops while `fails(hdr, ops)` stays true"""
    n = budget
    cur = list(ops)
    chunk = max(1, len(cur) // 2)
    while chunk >= 1 and n > 0:
        i, changed = 0, False
        while i < len(cur) and n > 0:
            cand = cur[:i] + cur[i + chunk:]
            n -= 1
            if cand != cur and fails(hdr, cand):
                cur, changed = cand, True
            else:
                i += chunk
        if not changed:
            chunk //= 2
    return cur


def case_line(hdr, ops):
    return " ".join(str(x) for x in hdr) + " | " + " ; ".join(" ".join(str(x) for x in op) for op in ops)


def parse_case(line):
    hd, body = line.split("|", 1) if "|" in line else (line, "")
    hdr = [int(t) for t in hd.split()]
    ops = [[int(t) for t in r.split()] for r in body.split(";")] if body.strip() else []
    return hdr, ops


# ---------------------------------------------------------------- findings / evidence / replay
def known_findings(prop):
    p = os.path.join(VERIF, "known_findings.json")
    if not os.path.exists(p):
        return []
    return [f for f in json.load(open(p))["findings"] if f["property"] == prop]


def write_replay(prop, seed, tier, kind, payload):
    d = os.path.join(VERIF, "evidence", "replays")
    os.makedirs(d, exist_ok=True)
    path = os.path.join(d, "%s-%s-%s.json" % (prop, seed, kind))
    k = 0
    while os.path.exists(path):
        k += 1
        path = os.path.join(d, "%s-%s-%s-%d.json" % (prop, seed, kind, k))
    payload = dict(payload)
    payload.update({"property": prop, "seed": seed, "tier": tier, "kind": kind,
                    "replay_cmd": "bin/check %s --replay %s" % (prop, path)})
    json.dump(payload, open(path, "w"), indent=1)
    return path


def write_evidence(prop, tier, seed, coverage, assumptions, wall_s, violations):
    os.makedirs(os.path.join(VERIF, "evidence"), exist_ok=True)
    ev = {"property_id": prop, "tier": tier, "seed": seed, "level": "proof", "coverage": coverage,
          "assumptions": assumptions, "wall_s": round(wall_s, 2), "violations": violations}
    json.dump(ev, open(os.path.join(VERIF, "evidence", prop + ".json"), "w"), indent=1)


def repo_state():
    rc, o, _, _ = sh("git -C %s rev-parse HEAD; git -C %s status --porcelain | head -20" % (REPO, REPO), timeout=30)
    return o.strip()


KERNEL_TB = [
    "Coq 8.16.1 kernel (coqc, full .vo build; vm_compute used inside proofs of finite enumerations only; no native_compute)",
]
