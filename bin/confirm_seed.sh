#!/bin/bash
# usage: bin/confirm_seed.sh <worktree> <seed-id> <property> [cargo test extra args]
# Confirms a seeded change independently (suite passes with it, demo fails with it and passes without it), stores it under
# /verif/seeded/<seed-id>/, runs the property's quick check against it (applied to /repo, undone straight afterwards).
set -u
WT=$1; ID=$2; PROP=$3; shift 3
export CARGO_NET_OFFLINE=true CARGO_TARGET_DIR=$WT/target
OUT=/verif/seeded/$ID; mkdir -p $OUT
cd $WT || exit 2
git diff -- . ':(exclude)seed' > $OUT/patch.diff
[ -s $OUT/patch.diff ] || cp $WT/seed/patch.diff $OUT/patch.diff
echo "== suite with the change"; SUITE=$(cargo test --workspace --no-fail-fast --offline 2>&1 | grep -E "^test result" | awk '{p+=$4; f+=$6} END {print p" passed "f" failed"}'); echo "$SUITE"
DEMO=$WT/seed/demo; [ -d $WT/demo ] && [ ! -L $WT/demo ] && DEMO=$WT/demo      # the real directory: scripts resolve ../ physically
echo "== demo with the change"; (cd $DEMO && env -u CARGO_TARGET_DIR timeout 900 ${DEMO_CMD:-cargo run --offline} >/tmp/demo_with.log 2>&1; echo $? > /tmp/demo_with.rc); echo "rc=$(cat /tmp/demo_with.rc)"
git stash push -q -- cglue cglue-gen cglue-macro cglue-bindgen 2>/dev/null
echo "== demo without the change"; (cd $DEMO && env -u CARGO_TARGET_DIR timeout 900 ${DEMO_CMD:-cargo run --offline} >/tmp/demo_without.log 2>&1; echo $? > /tmp/demo_without.rc); echo "rc=$(cat /tmp/demo_without.rc)"
git stash pop -q
rm -rf $OUT/demo; mkdir -p $OUT/demo; (cd $DEMO && tar cf - --exclude=target --exclude=Cargo.lock . ) | (cd $OUT/demo && tar xf -)
cp $WT/seed/meta.json $OUT/agent_meta.json 2>/dev/null
echo "== my check against it"
git -C /repo apply $OUT/patch.diff || { echo "patch does not apply to /repo"; exit 3; }
cp /verif/evidence/$PROP.json /tmp/seed_evidence_keep.json 2>/dev/null
(cd /verif && bin/check $PROP --tier quick > /tmp/seed_check.log 2>&1; echo $? > /tmp/seed_check.rc)
git -C /repo checkout -- .
cp /tmp/seed_evidence_keep.json /verif/evidence/$PROP.json 2>/dev/null; rm -f /tmp/seed_evidence_keep.json
# regenerate the translated Coq files for the restored tree
(cd /verif && python3 -c "import sys; sys.path.insert(0,'translators'); sys.path.insert(0,'bin'); import autotraits, verifyand, rtstructs, bindgentables; [m.generate() for m in (autotraits, verifyand, rtstructs, bindgentables)]" >/dev/null 2>&1)
head -5 /tmp/seed_check.log; echo "check rc=$(cat /tmp/seed_check.rc)"
python3 - "$OUT" "$ID" "$PROP" "$SUITE" <<'PY'
import json,sys,os,glob
out,sid,prop,suite=sys.argv[1:5]
agent={}
try: agent=json.load(open(os.path.join(out,'agent_meta.json')))
except Exception: pass
rep=[]
for f in sorted(glob.glob('/verif/evidence/replays/%s-*.json'%prop))[:2]:
    j=json.load(open(f)); rep.append({"kind":j.get("kind"),"case":j.get("case"),"failures":j.get("failures"),"what":j.get("what")})
meta={"seed_id":sid,"property":prop,
 "summary":agent.get("summary"),"needs":agent.get("needs"),
 "confirmed":{"suite_with_change":suite,"demo_with_change_rc":int(open('/tmp/demo_with.rc').read()),"demo_without_change_rc":int(open('/tmp/demo_without.rc').read())},
 "ran":["cargo test --workspace --no-fail-fast --offline (in the scratch worktree, change applied)","cargo run --offline in demo/ with and without the change",
        "git -C /repo apply patch.diff; bin/check %s --tier quick; git -C /repo checkout -- ."%prop],
 "check_result":{"rc":int(open('/tmp/seed_check.rc').read()),"log_head":open('/tmp/seed_check.log').read()[:600],"replays":rep}}
json.dump(meta,open(os.path.join(out,'meta.json'),'w'),indent=1)
print("detected" if meta["check_result"]["rc"]==1 else "MISSED")
PY
rm -rf /verif/evidence/replays
