"""C04 — generated C layout is a fixed, order-preserving function of the definitions.
 '1 ..'  as for C01 (slot positions / declaration order of REAL vtables).
 '4 <nmand> | name ; name ..'  a group (names as byte codes; the first nmand are mandatory): REAL TraitGroup::create_group expansion abstracted to the
     field sequence of the base struct and of the container and, for every non-empty subset of the optional traits (requested through the REAL
     TraitCastGroup in reverse input order), whether the requested function exists, which vtables it validates and the field shape of the With-variant."""
PROP = "C04"
PROP_V = "props/C04.v"
RULE = ("all single-method traits + random multi-method traits (slot order); fixed and random groups with 1-2 mandatory and 1-4 optional traits with "
        "adversarial identifiers (prefixes of each other, mixed case, digits), every subset; repeated expansion in fresh processes; non-trivial = more than 8 tokens")
TRUSTED = [
    "hand-written generator model coq/model/{Glue,Group,Life}.v of cglue-gen; tied on every run by abstracting REAL expansions (cglue-gen called as a library, output parsed with syn) to the integer rows the model predicts, and by compiled programs using the real macros",
    "the abstraction harness/gen (statement shapes it does not recognise are encoded as 9/99, i.e. show up as disagreements, never guessed) and the program harness/prog",
    "rustc's own dispatch of <T as Trait>::m, Deref, and the From impls of the runtime wrapper types (C12)",
]
ASSUMPTIONS = ["rustc code generation", "grammar = the shapes listed in coq/model/Glue.v (plus a trait type parameter `T: Copy + 'static` written for leaf 2; Pin receivers, several type parameters, wrapped associated returns are covered by the compiled programs only)"]
import os
import vlib
from checks import gencommon as G

HARNESS = "gen"
SHRINK = True


def pre():
    """regenerate coq/gen/RtStructs_Src.v (the struct declarations of cglue/src as they are now) before the theorems are checked"""
    import sys
    sys.path.insert(0, os.path.join(vlib.VERIF, "translators"))
    import rtstructs
    from srcdump import TranslateError
    try:
        rtstructs.generate()
        return []
    except TranslateError as e:
        return ["translator cannot express the current source: %s" % e]


def build_harness(tier):
    return G.build(tier)


def run_impl(lines):
    return G.run_impl(lines)


def model_line(l):
    return "0 |" if l.startswith("101 ") else l


def compare(l, impl_rows, model_rows):
    if l.startswith("101 "):
        return True          # behavioural direct-vs-opaque runs: decided by the implementation-side monitor alone
    if impl_rows.strip() == "-6":
        return True          # not a group definition
    return impl_rows == model_rows


def nontrivial(l):
    return len(l.split()) > 8


def known_match(kf, l, fails):
    return False


def gen_cases(rng, tier):
    a, d1 = G.ir_cases(rng, "quick")
    b, d2 = G.grp_cases(rng, tier)
    # compiled objects read as raw words through the published layout {vtbl, container {instance, context, ret_tmp}} (layout_probe in harness/prog)
    c = G.shapes_cases(rng.fork("obj"), "quick")[0][:9]
    d1.update(d2)
    d1["object_layout_probes"] = len(c)
    return a + b + c, d1


def _names(l):
    return G.grp_names(l)


def monitor(l, impl_rows, kv):
    """model-independent oracle on REAL group expansions: the property statement itself"""
    if l.startswith("1 "):
        return G.ir_monitor(l, impl_rows)
    if not l.startswith("4 ") or not impl_rows or impl_rows.strip() == "-6":
        return []
    fails = []
    nmand, names = _names(l)
    rows = [[int(x) for x in r.split()] for r in impl_rows.split(" ; ")]
    if len(rows) < 2 or rows[0][0] != 1 or rows[1][0] != 1:
        return ["group or container struct is not #[repr(C)]"]
    base = [rows[0][1:][i:i + 3] for i in range(0, len(rows[0]) - 1, 3)]
    vt = [f for f in base if f[0] == 1]
    if not base or base[-1][0] != 2:
        fails.append("the container is not the last field of the group struct")
    mand = [names[f[1]] for f in vt if f[2] == 0]
    opt = [names[f[1]] for f in vt if f[2] == 1]
    if [f[2] for f in vt] != [0] * len(mand) + [1] * len(opt):
        fails.append("mandatory and optional vtable pointers are interleaved")
    if sorted(mand) != mand or set(mand) != set(names[:nmand]):
        fails.append("mandatory vtable pointers are %s, not the mandatory traits in name order" % mand)
    if sorted(opt) != opt or set(opt) != set(names[nmand:]):
        fails.append("optional vtable pointers are %s, not the optional traits in name order" % opt)
    cont = [rows[1][1:][i:i + 3] for i in range(0, len(rows[1]) - 1, 3)]
    if [f[0] for f in cont[:2]] != [3, 4]:
        fails.append("container does not start with instance, context")
    # temporary storage: one ret_tmp field per trait, mandatory traits in name order, then optional traits in name order (the order of the vtable pointers)
    tmp = [names[f[1]] if 0 <= f[1] < len(names) else "?" for f in cont[2:] if f[0] == 5]
    if tmp != mand + opt and not fails:
        fails.append("the container's temporary storage fields are %s, not one per trait in the order of the vtable pointers %s" % (tmp, mand + opt))
    for r in rows[2:]:
        mask = r[0]
        cast, asref, asmut, into, check = r[1:4], r[4:7], r[7:10], r[10:13], r[13:16]
        for nm, f in (("cast", cast), ("as_ref", asref), ("as_mut", asmut), ("into", into), ("check", check)):
            if f[0] != 1:
                fails.append("no %s function for the requested subset %s (traits given in another order than declared)" % (nm, bin(mask)))
                break
        else:
            if cast[1] != mask or asref[1] != mask or asmut[1] != mask or into[1] != mask:
                fails.append("subset %s: validated vtables cast=%s as_ref=%s as_mut=%s into=%s" % (bin(mask), bin(cast[1]), bin(asref[1]), bin(asmut[1]), bin(into[1])))
            if cast[2] != mask or into[2] != mask:
                fails.append("subset %s: the variant built by cast/into has non-null vtables %s / %s (or another field shape than the base struct)" % (bin(mask), cast[2], into[2]))
    return fails[:4]
