"""C04 — generated C layout is a fixed, order-preserving function of the definitions.
 '1 ..'  as for C01 (slot positions / declaration order of REAL vtables).
 '4 <nmand> | name ; name ..'  a group (names as byte codes; the first nmand are mandatory): REAL TraitGroup::create_group expansion abstracted to the
     field sequence of the base struct and of the container and, for every non-empty subset of the optional traits (requested through the REAL
     TraitCastGroup in reverse input order), whether the requested function exists, which vtables it validates and the field shape of the With-variant."""
PROP = "C04"
PROP_V = "props/C04.v"
RULE = ("all single-method traits + random multi-method traits (slot order); fixed and random groups with 1-2 mandatory and 1-4 optional traits with "
        "adversarial identifiers (prefixes of each other, mixed case, digits), every subset; repeated expansion in fresh processes; non-trivial = more than 8 tokens")
TRUSTED = [
    "hand-written generator model coq/model/{Glue,Group,Life}.v of cglue-gen; tied on every run by abstracting REAL expansions (cglue-gen called as a library, output parsed with syn) to the integer rows the model predicts, and by compiled programs using the real macros",
    "the abstraction harness/gen (statement shapes it does not recognise are encoded as 9/99, i.e. show up as disagreements, never guessed) and the program harness/prog",
    "rustc's own dispatch of <T as Trait>::m, Deref, and the From impls of the runtime wrapper types (C12)",
]
ASSUMPTIONS = ["rustc code generation", "grammar = the shapes listed in coq/model/Glue.v (Pin receivers, generics, wrapped associated returns are covered by the compiled programs only)"]
import os
import vlib
from checks import gencommon as G

HARNESS = "gen"
SHRINK = True


def build_harness(tier):
    return G.build(tier)


def run_impl(lines):
    return G.run_impl(lines)


def model_line(l):
    return "0 |" if l.startswith("101 ") else l


def compare(l, impl_rows, model_rows):
    if l.startswith("101 "):
        return True          # behavioural direct-vs-opaque runs: decided by the implementation-side monitor alone
    return impl_rows == model_rows


def nontrivial(l):
    return len(l.split()) > 8


def known_match(kf, l, fails):
    return False


def gen_cases(rng, tier):
    a, d1 = G.ir_cases(rng, "quick")
    b, d2 = G.grp_cases(rng, tier)
    d1.update(d2)
    return a + b, d1
