"""Shared by C17 and C18: API-model generator, model encoding, the real post-processor run (harness/bindgen includes
cglue-bindgen's sources by path), wrapper extraction, and the mock-vtable C driver (gcc) that observes what every wrapper does.

Case line:  '17 <vt_mode> | <API as JSON, one char code per int>'   (mode C)
The API (see hdrgen.py) is rendered into a cbindgen-shaped header, processed by the REAL parse_header, and
  (a) the wrappers found in the output are compared, modulo white space, with the text the Coq model renders from its wrapper AST;
  (b) the processed header is compiled together with a generated driver: for every vtable entry (and the drop helper) of every object
      and group variant an instance with mock vtables / mock context / mock box is built, the wrapper that serves the entry is called
      with distinct argument values and the mocks log what reached them:
          1 ok            context cloned (ok: from the object's context)
          2 e f c a       mock of entry e, slot f invoked; c: container passed correctly; a: all arguments arrived unchanged, in order
          3 / 5 / 8       context released: the clone / the original / something else
          4 ok            boxed instance released
      followed by a verdict on the returned value.
"""
import json
import os
import re
import shutil
import subprocess
import sys

import vlib
from checks import hdrgen as H

WORK = os.path.join(vlib.CACHE, "bg")
TRAIT_NAMES = ["Alpha", "Beta", "Gamma", "Delta"]
# trait names that are prefixes / suffixes of one another (the vtable fields of a group are named vtbl_<lower-cased trait name>)
TRAIT_NAME_SETS = [["Alpha", "Beta", "Gamma", "Delta"], ["Alpha", "Beta", "Gamma", "Delta"], ["BufReader", "Reader", "Read", "AsyncRead"], ["Foo", "FooBar", "Bar", "BarFoo"]]
METHOD_NAMES = ["get", "put", "run", "dup", "eat", "scan", "size", "poke"]
GROUP_NAMES = ["Grp", "Feat"]
ARG_NAMES = ["x", "y", "buf", "cb", "val", "out"]

_built = {}


def build(tier=None):
    if "r" not in _built:
        exe, err, dt = vlib.build_harness("bindgen", release=True)
        _built["r"] = (exe, err, dt)
    return _built["r"]


# ------------------------------------------------------------------------------------------------ API generation
def gen_api(rng, size="normal", c18=False):
    nt = 1 + rng.below(4 if size != "small" else 2)
    tnames = rng.choice(TRAIT_NAME_SETS)
    traits = []
    for ti in range(nt):
        nm = 1 + rng.below(4 if size != "small" else 2)
        names = []
        while len(names) < nm:
            n = rng.choice(METHOD_NAMES[:5] if rng.chance(1, 2) else METHOD_NAMES)
            if n not in names:
                names.append(n)
        methods = []
        for n in names:
            na = rng.below(5)
            args, used = [], set()
            for _ in range(na):
                an = rng.choice(ARG_NAMES)
                while an in used:
                    an = an + "2"
                used.add(an)
                args.append((rng.choice(H.ARG_KINDS), an))
            recv = rng.choice(["ref", "ref", "mut", "mut", "own"])
            ret = rng.choice(H.RET_KINDS) if rng.chance(3, 4) else "void"
            md = {"name": n, "recv": recv, "args": args, "ret": ret}
            if args and rng.chance(1, 4):
                md["wrap"] = True       # the member is printed over several lines (cbindgen breaks over-long lines, one parameter per line)
            methods.append(md)
        traits.append({"name": tnames[ti], "methods": methods, "rettmp": rng.chance(1, 4)})
    objects, seen = [], set()
    for _ in range(rng.below(4)):
        o = (rng.below(nt), rng.choice(["Box", "Box", "Mut", "Ref"]), rng.choice(["Arc", "Arc", "None"]))
        if o not in seen:
            seen.add(o)
            objects.append({"trait": o[0], "inner": o[1], "ctx": o[2]})
    groups = []
    for gi in range(rng.below(3)):
        k = 1 + rng.below(min(3, nt))
        ts = []
        while len(ts) < k:
            t = rng.below(nt)
            if t not in ts:
                ts.append(t)
        vs = []
        for _ in range(1 + rng.below(2)):
            v = (rng.choice(["Box", "Box", "Mut", "Ref"]), rng.choice(["Arc", "Arc", "None"]))
            if v not in vs:
                vs.append(v)
        groups.append({"name": GROUP_NAMES[gi], "traits": ts, "variants": [list(v) for v in vs]})
    if not objects and not groups:
        objects.append({"trait": 0, "inner": "Box", "ctx": "Arc"})
    cfg = {}
    if rng.chance(1, 2):
        cfg["default_container"] = rng.choice(["Box", "Box", "Mut", "Ref"])
    if rng.chance(1, 2):
        cfg["default_context"] = rng.choice(["Arc", "Arc", ""])
    if rng.chance(1, 3):
        cfg["function_prefix"] = "pfx"
    shape = {}
    if rng.chance(1, 4):
        shape["guard"] = True
    if rng.chance(1, 6):
        shape["cpp_compat"] = False
    api = {"traits": traits, "objects": objects, "groups": groups, "config": cfg}
    if shape:
        api["shape"] = shape
    return api


def api_line(api, modes="0 0", mid=17):
    js = json.dumps(api, separators=(",", ":"), sort_keys=True)
    return "%d %s | %s" % (mid, modes, " ".join(str(ord(c)) for c in js))


def line_api(line):
    body = line.split("|", 1)[1]
    return json.loads("".join(chr(int(x)) for x in body.split()))


# ------------------------------------------------------------------------------------------------ entries (header order)
def entries(api):
    """the vtables in the order they appear in the rendered header, with what the tool is supposed to discover about each"""
    es = []
    for g in api["groups"]:
        for (inner, ctx) in g["variants"]:
            n = H.group_names(g["name"], inner, ctx)
            for ti in g["traits"]:
                t = api["traits"][ti]
                es.append({"obj": False, "trait": t["name"], "ti": ti, "cont": g["name"], "second": n["second"], "inner": H.INNER_C[inner], "ctx": H.CTX_C[ctx],
                           "objtype": "", "cont_ty": n["cont"], "this_ty": n["group"], "ik": inner, "ck": ctx, "variant": (g["name"], n["second"])})
    for ob in api["objects"]:
        t = api["traits"][ob["trait"]]
        n = H.obj_names(t["name"], ob["inner"], ob["ctx"])
        es.append({"obj": True, "trait": t["name"], "ti": ob["trait"], "cont": "CGlueObjContainer", "second": n["second"], "inner": H.INNER_C[ob["inner"]],
                   "ctx": H.CTX_C[ob["ctx"]], "objtype": n["obj"], "cont_ty": n["cont"], "this_ty": n["obj"], "ik": ob["inner"], "ck": ob["ctx"],
                   "variant": ("obj", n["obj"])})
    return es


def srow(s):
    return " ".join(str(ord(c)) for c in s)


def model_line(line):
    """API -> the rows of model 17 (what the discovery regexes are supposed to extract, functions as raw text)"""
    api = line_api(line)
    hdr = line.split("|", 1)[0].split()
    cfg = api.get("config", {})
    rows = []
    for k in ("default_container", "default_context", "function_prefix"):
        rows.append(srow(cfg[k]) if k in cfg else "-1")
    for e in entries(api):
        t = api["traits"][e["ti"]]
        rows.append("%d %d" % (0 if e["obj"] else 1, len(t["methods"])))
        for s in (e["trait"], e["cont"], e["second"], e["inner"], e["ctx"], e["objtype"]):
            rows.append(srow(s))
        first = True
        for m in t["methods"]:
            decl = H.fn_decl_c(m, e["cont_ty"])
            mm = re.match(r"(?s)(?P<ret>.+?)\(\*(?P<name>\w+)\)\((?P<cont>.*? \*|.*? )cont(?P<args>.*)\);$", decl)
            ret = ("" if first else "\n    ") + mm.group("ret")
            first = False
            rows.append({"ref": "1", "mut": "0", "own": "2"}[m["recv"]])
            rows.append(srow(m["name"]))
            rows.append(srow(ret))
            rows.append(srow(mm.group("args")))
    return "%s | %s" % (" ".join(hdr), " ; ".join(rows))


# ------------------------------------------------------------------------------------------------ the real tool
def cfg_toml(cfg):
    return "".join('%s = "%s"\n' % (k, v) for k, v in sorted(cfg.items()))


def process_batch(items, tag="b"):
    """items: list of (header text, config dict, mode) -> list of (output text or None, error text)"""
    exe = build()[0]
    d = os.path.join(WORK, "%s%d" % (tag, os.getpid()))
    shutil.rmtree(d, ignore_errors=True)
    os.makedirs(d)
    for i, (h, cfg, mode) in enumerate(items):
        open(os.path.join(d, "%05d.in" % i), "w").write(h)
        open(os.path.join(d, "%05d.toml" % i), "w").write(cfg_toml(cfg))
        open(os.path.join(d, "%05d.mode" % i), "w").write(mode)
    rc, o, e, _ = vlib.sh([exe, "batch", d], timeout=600)
    res = []
    for i in range(len(items)):
        p = os.path.join(d, "%05d.out" % i)
        if os.path.exists(p):
            res.append((open(p).read(), ""))
        else:
            pe = os.path.join(d, "%05d.err" % i)
            res.append((None, open(pe).read() if os.path.exists(pe) else "tool crashed: rc=%s %s" % (rc, e[-300:])))
    shutil.rmtree(d, ignore_errors=True)
    return res


HELPERS = re.compile(r"^(ctx_\w+_(clone|drop)|cont_\w+_drop|cb_collect_\w+|cb_count_\w+)$")
WRAP_RE = re.compile(r"static inline (?P<ret>[^\n;{}()]+?)\s*(?P<name>\w+)\((?P<params>[^)]*)\)\s*\{\n(?P<body>.*?)\n\}\n", re.S)


def extract_wrappers_c(out):
    ws = []
    for m in WRAP_RE.finditer(out):
        if HELPERS.match(m.group("name")):
            continue
        ws.append({"name": m.group("name"), "ret": m.group("ret").strip(), "params": m.group("params"), "text": m.group(0).rstrip("\n"), "body": m.group("body")})
    return ws


def nows(s):
    return re.sub(r"\s+", "", s)


def split_params(p):
    """top-level comma split of a parameter list: commas inside <>, () and [] belong to one parameter (`CTup2<uint32_t, uint64_t> t`)"""
    out, cur, depth = [], "", 0
    for ch in p:
        if ch in "<([":
            depth += 1
        elif ch in ">)]":
            depth -= 1
        if ch == "," and depth == 0:
            out.append(cur.strip()); cur = ""
        else:
            cur += ch
    if cur.strip():
        out.append(cur.strip())
    return out


# ------------------------------------------------------------------------------------------------ mock driver (C)
def val(kind, pos):
    return {
        "u8": "(uint8_t)(7 + %d)" % pos, "u32": "(uint32_t)(1000 + %d)" % pos, "usize": "(uintptr_t)(5000 + %d)" % pos,
        "i64": "(int64_t)(-9 - %d)" % pos, "f64": "(1.5 + %d)" % pos, "bool": "(%d %% 2 == 0)" % pos,
        "pair": "mk_pair(10 + %d, 20 + %d)" % (pos, pos), "slice": "mk_slice(buf + %d, 3 + %d)" % (pos, pos),
        "tup": "mk_tup(30 + %d, 40 + %d)" % (pos, pos),
        "cb": "mk_cb((void *)(uintptr_t)(0x100 + %d))" % pos, "ptr": "((const struct Pair *)&gp[%d])" % pos,
        "vptr": "((void *)(uintptr_t)(0x200 + %d))" % pos, "mptr": "(buf + 8 + %d)" % pos,
    }[kind]


def eq(kind, a, b):
    if kind in ("pair", "tup"):
        return "(%s.a == %s.a && %s.b == %s.b)" % (a, b, a, b)
    if kind == "slice":
        return "(%s.data == %s.data && %s.len == %s.len)" % (a, b, a, b)
    if kind == "cb":
        return "(%s.context == %s.context && %s.func == %s.func)" % (a, b, a, b)
    return "(%s == %s)" % (a, b)


PRELUDE = r"""
#include <stdio.h>
#include <string.h>
static int LOG[128]; static int NLOG;
static void lg(int x) { if (NLOG < 128) LOG[NLOG++] = x; }
static char inst_cell, ret_cell; static char ctx_cell[4];
static uint8_t buf[64]; static struct Pair gp[8];
static const void *g_cont;
static bool cbfn(void *c, struct Pair p) { (void)c; (void)p; return true; }
static struct Pair mk_pair(uint32_t a, uint64_t b) { struct Pair p; p.a = a; p.b = b; return p; }
static struct CSliceRef_u8 mk_slice(const uint8_t *d, uintptr_t l) { struct CSliceRef_u8 s; s.data = d; s.len = l; return s; }
static struct CTup2_u32__u64 mk_tup(uint32_t a, uint64_t b) { struct CTup2_u32__u64 t; t.a = a; t.b = b; return t; }
static PairCallback mk_cb(void *c) { PairCallback k; k.context = c; k.func = cbfn; return k; }
static void mock_inst_drop(void *p) { lg(4); lg(p == (void *)&inst_cell); }
static const void *mock_clone(const void *p) { lg(1); lg(p == (const void *)&ctx_cell[0]); return &ctx_cell[1]; }
static void mock_ctx_drop(const void *p) { if (p == (const void *)&ctx_cell[1]) lg(3); else if (p == (const void *)&ctx_cell[0]) lg(5); else lg(8); }
static void __attribute__((noinline)) poison(void) { volatile char a[8192]; int i; for (i = 0; i < 8192; i++) a[i] = (char)0xAA; }
static void emit(int e, int f, int status, int retv) { int i; printf("%d %d %d", e, f, status); for (i = 0; i < NLOG; i++) printf(" %d", LOG[i]); printf(" 7 %d\n", retv); }
"""


def inst_init(e, target):
    if e["ik"] == "Box":
        return "%s.instance = &inst_cell; %s.drop_fn = mock_inst_drop;" % (target, target)
    return "%s = &inst_cell;" % target


def make_driver(api, es, serve, wrappers, header_path):
    """serve: {(ei, fi): wrapper name or None}; wrappers: extracted real wrappers"""
    wmap = {}
    for w in wrappers:
        wmap.setdefault(w["name"], w)
    c = ['#include "%s"' % header_path, PRELUDE]
    # mocks
    for ei, e in enumerate(es):
        t = api["traits"][e["ti"]]
        for fi, m in enumerate(t["methods"]):
            cont = "struct " + e["cont_ty"]
            recv = {"ref": "const %s *cont" % cont, "mut": "%s *cont" % cont, "own": "%s cont" % cont}[m["recv"]]
            params = "".join(", %s a%d" % (H.c_type(k, e["cont_ty"]), i) for i, (k, _) in enumerate(m["args"]))
            rt = H.c_type(m["ret"], e["cont_ty"])
            if m["recv"] == "own":
                contok = ("cont.instance.instance == (void *)&inst_cell" if e["ik"] == "Box" else "cont.instance == (void *)&inst_cell")
            else:
                contok = "(const void *)cont == g_cont"
            argsok = " && ".join([eq(k, "a%d" % i, "e%d" % i) for i, (k, _) in enumerate(m["args"])]) or "1"
            decls = "".join(" %s e%d = %s;" % (H.c_type(k, e["cont_ty"]), i, val(k, i)) for i, (k, _) in enumerate(m["args"]))
            if m["ret"] == "void":
                ret = ""
            elif m["ret"] == "self":
                ret = " { %s r; memset(&r, 0, sizeof r); %s %s return r; }" % (
                    cont, inst_init(e, "r.instance").replace("&inst_cell", "&ret_cell"),
                    "r.context.instance = &ctx_cell[2]; r.context.clone_fn = mock_clone; r.context.drop_fn = mock_ctx_drop;" if e["ck"] == "Arc" else "")
            else:
                ret = " return %s;" % val(m["ret"], 40)
            c.append("static %s mock_%d_%d(%s%s) {%s lg(2); lg(%d); lg(%d); lg(%s); lg(%s);%s }" % (rt, ei, fi, recv, params, decls, ei, fi, contok, argsok, ret))
        c.append("static const struct %sVtbl_%s vt_%d = { %s };" % (e["trait"], e["cont_ty"], ei, ", ".join("mock_%d_%d" % (ei, fi) for fi in range(len(t["methods"])))))
    # object builders: one per variant
    variants = {}
    for ei, e in enumerate(es):
        variants.setdefault(e["variant"], []).append(ei)
    for v, eis in variants.items():
        e = es[eis[0]]
        ty = "struct " + e["this_ty"]
        body = "%s o; memset(&o, 0, sizeof o);" % ty
        for ei in eis:
            body += " o.%s = &vt_%d;" % ("vtbl" if e["obj"] else "vtbl_" + es[ei]["trait"].lower(), ei)
        body += " " + inst_init(e, "o.container.instance")
        if e["ck"] == "Arc":
            body += " o.container.context.instance = &ctx_cell[0]; o.container.context.clone_fn = mock_clone; o.container.context.drop_fn = mock_ctx_drop;"
        c.append("static %s make_%d(void) { %s return o; }" % (ty, eis[0], body))
    tests = []
    for ei, e in enumerate(es):
        t = api["traits"][e["ti"]]
        first = variants[e["variant"]][0]
        ty = "struct " + e["this_ty"]
        for fi, m in enumerate(t["methods"] + [{"name": "drop", "recv": "own", "args": [], "ret": "void"}]):
            name = serve.get((ei, fi))
            tn = "test_%d_%d" % (ei, fi)
            w = wmap.get(name) if name else None
            if w is None:
                c.append("static void %s(void) { NLOG = 0; emit(%d, %d, -1, 0); }" % (tn, ei, fi))
                tests.append(tn)
                continue
            ps = split_params(w["params"])
            selfp = ps[0] if ps else ""
            byval = "*" not in selfp
            exp_params = [nows("%s %s" % (H.c_type(k, e["cont_ty"]), n)) for k, n in m["args"]]
            exp_ret = ty if m["ret"] == "self" else H.c_type(m["ret"], e["cont_ty"])
            status = 0
            if byval and nows(selfp) != nows(ty + " self"):
                status = -2
            elif [nows(p) for p in ps[1:]] != exp_params:
                status = -3
            elif nows(w["ret"]) != nows(exp_ret):
                status = -4
            if status:
                c.append("static void %s(void) { NLOG = 0; emit(%d, %d, %d, 0); }" % (tn, ei, fi, status))
                tests.append(tn)
                continue
            args = "".join(", " + val(k, i) for i, (k, _) in enumerate(m["args"]))
            call = "%s(%s%s)" % (name, "o" if byval else "&o", args)
            if m["ret"] == "void":
                body = "%s; retv = 1;" % call
            elif m["ret"] == "self":
                inst = "r.container.instance.instance" if e["ik"] == "Box" else "r.container.instance"
                vt = " && ".join("r.%s == o.%s" % (f, f) for f in (["vtbl"] if e["obj"] else ["vtbl_" + es[k]["trait"].lower() for k in variants[e["variant"]]]))
                body = "%s r = %s; retv = ((void *)%s == (void *)&ret_cell) ? ((%s) ? 1 : 2) : 0;" % (ty, call, inst, vt)
            else:
                body = "%s r = %s; %s x = %s; retv = %s;" % (exp_ret, call, exp_ret, val(m["ret"], 40), eq(m["ret"], "r", "x"))
            c.append("static void %s(void) { int retv = 0; %s o = make_%d(); NLOG = 0; g_cont = &o.container; poison(); %s emit(%d, %d, 0, retv); }" % (tn, ty, first, body, ei, fi))
            tests.append(tn)
    # consuming entries again, on an object whose reference-counted context is EMPTY (CArc::default(): all three fields null), in a second
    # process (`driver empty`): a clone of an empty context is an empty context, nothing may be called through the null pointers
    etests = []
    for ei, e in enumerate(es):
        if e["ck"] != "Arc":
            continue
        t = api["traits"][e["ti"]]
        first = variants[e["variant"]][0]
        ty = "struct " + e["this_ty"]
        for fi, m in enumerate(t["methods"]):
            name = serve.get((ei, fi))
            w = wmap.get(name) if name else None
            if m["recv"] != "own" or w is None or m["ret"] == "self":
                continue
            ps = split_params(w["params"])
            if "*" in (ps[0] if ps else "*") or nows(ps[0]) != nows(ty + " self"):
                continue
            if [nows(p) for p in ps[1:]] != [nows("%s %s" % (H.c_type(k, e["cont_ty"]), n)) for k, n in m["args"]]:
                continue
            args = "".join(", " + val(k, i) for i, (k, _) in enumerate(m["args"]))
            call = "%s(o%s)" % (name, args)
            tn = "etest_%d_%d" % (ei, fi)
            c.append("static void %s(void) { %s o = make_%d(); memset(&o.container.context, 0, sizeof o.container.context); NLOG = 0; printf(\"%d %d start\\n\"); fflush(stdout); %s; emit(%d, %d, 0, 1); }"
                     % (tn, ty, first, ei, fi + 1000, call, ei, fi + 1000))
            etests.append(tn)
    c.append("int main(int argc, char **argv) { (void)argv; if (argc > 1) { %s return 0; } %s return 0; }" % (" ".join(t + "();" for t in etests), " ".join(t + "();" for t in tests)))
    return "\n".join(c) + "\n"


def _run_twice(exe):
    rc, o, e, _ = vlib.sh([exe], timeout=30)
    if rc != 0:
        return None, "driver crashed rc=%s: %s" % (rc, (o + e)[-500:])
    rc2, o2, e2, _ = vlib.sh([exe, "empty"], timeout=30)
    lines2 = [l for l in o2.split("\n") if l.strip()]
    out2 = [l for l in lines2 if not l.endswith("start")]
    if rc2 != 0:
        last = [l for l in lines2 if l.endswith("start")]
        if last:
            a, b = last[-1].split()[:2]
            out2.append("%s %s -7 7 0" % (a, b))
    return o + "\n".join(out2) + "\n", ""


def compile_run(src_text, workdir, name, std="c99", extra=""):
    os.makedirs(workdir, exist_ok=True)
    p = os.path.join(workdir, name + ".c")
    open(p, "w").write(src_text)
    exe = os.path.join(workdir, name + ".exe")
    rc, o, e, _ = vlib.sh("gcc -std=%s -O0 -w %s -o %s %s" % (std, extra, exe, p), timeout=120)
    if rc != 0:
        return None, "driver does not compile: " + e[:1500]
    return _run_twice(exe)


def syntax_check(path, lang="c"):
    if lang == "c":
        cmd = "gcc -std=c99 -pedantic-errors -fsyntax-only -x c %s" % path
    else:
        cmd = "g++ -std=c++11 -fsyntax-only -x c++ %s" % path
    rc, o, e, _ = vlib.sh(cmd, timeout=120)
    return rc == 0, e[:1500]


# ------------------------------------------------------------------------------------------------ shrinking
def _valid(api):
    nt = len(api["traits"])
    if nt == 0 or any(not t["methods"] for t in api["traits"]):
        return False
    if not api["objects"] and not api["groups"]:
        return False
    for o in api["objects"]:
        if o["trait"] >= nt:
            return False
    for g in api["groups"]:
        if not g["traits"] or not g["variants"] or any(t >= nt for t in g["traits"]):
            return False
    return True


def _candidates(api):
    import copy
    for key in ("objects", "groups", "foreign", "foreign_fns"):
        for i in range(len(api.get(key, []))):
            a = copy.deepcopy(api)
            del a[key][i]
            yield a
    for gi, g in enumerate(api["groups"]):
        for k in ("traits", "variants"):
            for i in range(len(g[k])):
                a = copy.deepcopy(api)
                del a["groups"][gi][k][i]
                yield a
    for ti in range(len(api["traits"])):
        used = any(o["trait"] == ti for o in api["objects"]) or any(ti in g["traits"] for g in api["groups"])
        if not used:
            a = copy.deepcopy(api)
            del a["traits"][ti]
            for o in a["objects"]:
                if o["trait"] > ti:
                    o["trait"] -= 1
            for g in a["groups"]:
                g["traits"] = [t - 1 if t > ti else t for t in g["traits"]]
            yield a
    for ti, t in enumerate(api["traits"]):
        for mi in range(len(t["methods"])):
            a = copy.deepcopy(api)
            del a["traits"][ti]["methods"][mi]
            yield a
            for ai in range(len(t["methods"][mi]["args"])):
                a = copy.deepcopy(api)
                del a["traits"][ti]["methods"][mi]["args"][ai]
                yield a
            if t["methods"][mi]["ret"] not in ("void", "self"):
                a = copy.deepcopy(api)
                a["traits"][ti]["methods"][mi]["ret"] = "void"
                yield a
        if t.get("rettmp"):
            a = copy.deepcopy(api)
            a["traits"][ti]["rettmp"] = False
            yield a
    for k in list(api.get("config", {}).keys()):
        a = copy.deepcopy(api)
        del a["config"][k]
        yield a
    for k in list(api.get("shape", {}).keys()):
        a = copy.deepcopy(api)
        del a["shape"][k]
        yield a
    if api.get("generic_ctx"):
        a = copy.deepcopy(api)
        a["generic_ctx"] = False
        yield a


def shrink_api_line(line, pred, budget=120):
    hdr = line.split("|", 1)[0].split()
    api = line_api(line)
    changed = True
    while changed and budget > 0:
        changed = False
        for a in _candidates(api):
            if not _valid(a):
                continue
            budget -= 1
            if budget <= 0:
                break
            l = api_line(a, " ".join(hdr[1:]), int(hdr[0]))
            if pred(l):
                api, changed = a, True
                break
    return api_line(api, " ".join(hdr[1:]), int(hdr[0]))


# ------------------------------------------------------------------------------------------------ C++ mode
def cpp_vtables(api):
    """trait indices in the order their vtables appear in the C++ header"""
    order = []
    for g in api["groups"]:
        for ti in g["traits"]:
            if ti not in order:
                order.append(ti)
    for ob in api["objects"]:
        if ob["trait"] not in order:
            order.append(ob["trait"])
    return order


def model_line_cpp(line):
    api = line_api(line)
    vts = cpp_vtables(api)
    rows = [str(len(vts))]
    for ti in vts:
        t = api["traits"][ti]
        rows.append(str(len(t["methods"])))
        rows.append(srow(t["name"]))
        first = True
        for m in t["methods"]:
            decl = H.fn_decl_cpp(m)
            mm = re.match(r"(?s)(?P<ret>.+?)\(\*(?P<name>\w+)\)\((?P<cont>.*? \*|.*? )cont(?P<args>.*)\);$", decl)
            rows.append({"ref": "1", "mut": "0", "own": "2"}[m["recv"]])
            rows.append(srow(m["name"]))
            rows.append(srow(("" if first else "\n    ") + mm.group("ret")))
            rows.append(srow(mm.group("args")))
            first = False
    rows.append(str(len(api["groups"])))
    for g in api["groups"]:
        rows.append(str(len(g["traits"])))
        rows.append(srow(g["name"]))
        for ti in g["traits"]:
            rows.append(srow(api["traits"][ti]["name"]))
    return "117 | " + " ; ".join(rows)


MEMBER_RE = re.compile(r"    inline (?P<ret>[^\n;{}()]+?)\s*(?P<name>\w+)\((?P<params>[^)]*)\) (?P<qual>(const |&& )?)noexcept \{\n(?P<body>.*?)\n    \}\n", re.S)


def extract_wrappers_cpp(out, api):
    """member functions the tool added to every group class and every CGlueTraitObj specialisation, in output order"""
    ws = []
    for gi, g in enumerate(api["groups"]):
        m = re.search(r"\n    ~%s\(\) noexcept \{\n        mem_drop\(std::move\(container\)\);\n    \}\n\n    typedef CGlueCtx Context;\n(.*?)\n\};" % g["name"], out, re.S)
        if not m:
            continue
        for w in MEMBER_RE.finditer(m.group(1) + "\n"):
            ws.append({"kind": 0, "idx": gi, "name": w.group("name"), "ret": w.group("ret").strip(), "params": w.group("params"), "qual": w.group("qual").strip(),
                       "text": w.group(0).strip()})
    for vi, ti in enumerate(cpp_vtables(api)):
        n = api["traits"][ti]["name"]
        m = re.search(r"struct CGlueTraitObj<T, %sVtbl<CGlueObjContainer<T, C, R>>, C, R> \{.*?typedef C Context;\n(.*?)\n\};" % n, out, re.S)
        if not m:
            continue
        for w in MEMBER_RE.finditer(m.group(1) + "\n"):
            ws.append({"kind": 1, "idx": vi, "name": w.group("name"), "ret": w.group("ret").strip(), "params": w.group("params"), "qual": w.group("qual").strip(),
                       "text": w.group(0).strip()})
    return ws


PRELUDE_CPP = r"""
#include <cstdio>
#include <cstring>
#include <utility>
static int LOG[128]; static int NLOG;
static void lg(int x) { if (NLOG < 128) LOG[NLOG++] = x; }
static char inst_cell, ret_cell; static char ctx_cell[4];
static uint8_t buf[64]; static Pair gp[8];
static const void *g_cont;
static bool cbfn(void *c, Pair p) { (void)c; (void)p; return true; }
static Pair mk_pair(uint32_t a, uint64_t b) { Pair p; p.a = a; p.b = b; return p; }
static CSliceRef<uint8_t> mk_slice(const uint8_t *d, uintptr_t l) { CSliceRef<uint8_t> s; s.data = d; s.len = l; return s; }
static CTup2<uint32_t, uint64_t> mk_tup(uint32_t a, uint64_t b) { CTup2<uint32_t, uint64_t> t; t.a = a; t.b = b; return t; }
static PairCallback mk_cb(void *c) { PairCallback k; k.context = c; k.func = cbfn; return k; }
static void mock_inst_drop(void *p) { lg(4); lg(p == (void *)&inst_cell); }
static const void *mock_clone(const void *p) { lg(1); lg(p == (const void *)&ctx_cell[0]); return &ctx_cell[1]; }
static void mock_ctx_drop(const void *p) { if (p == (const void *)&ctx_cell[1]) lg(3); else if (p == (const void *)&ctx_cell[0]) lg(5); else lg(8); }
static void emit(int e, int f, int status, int retv) { int i; printf("%d %d %d", e, f, status); for (i = 0; i < NLOG; i++) printf(" %d", LOG[i]); printf(" 7 %d\n", retv); }
"""


def cpp_val(kind, pos):
    return val(kind, pos).replace("struct Pair", "Pair")


def cpp_inst_init(e, target, cell="inst_cell"):
    if e["ik"] == "Box":
        return "%s.instance = &%s; %s.drop_fn = mock_inst_drop;" % (target, cell, target)
    return "%s = &%s;" % (target, cell)


def make_driver_cpp(api, es, serve, wrappers, header_path):
    """serve: {(ei, fi): member function name or None}"""
    c = ['#include "%s"' % header_path, PRELUDE_CPP]
    wmap = {}
    for w in wrappers:
        wmap.setdefault((w["kind"], w["idx"], w["name"]), w)
    vts = cpp_vtables(api)
    gidx = {g["name"]: i for i, g in enumerate(api["groups"])}
    variants = {}
    for ei, e in enumerate(es):
        variants.setdefault(e["variant"], []).append(ei)
    conts = {}
    for ei, e in enumerate(es):
        t = api["traits"][e["ti"]]
        I, C = H.INNER_CPP[e["ik"]], ("CArc<void>" if e["ck"] == "Arc" else "void")
        if e["obj"]:
            cont = "CGlueObjContainer<%s, %s, %sRetTmp<%s>>" % (I, C, t["name"], C)
            objty = "CGlueTraitObj<%s, %sVtbl<%s>, %s, %sRetTmp<%s>>" % (I, t["name"], cont, C, t["name"], C)
        else:
            cont = "%sContainer<%s, %s>" % (e["cont"], I, C)
            objty = "%s<%s, %s>" % (e["cont"], I, C)
        conts[ei] = (cont, objty)
        c.append("typedef %s Cont%d; typedef %s Obj%d;" % (cont, ei, objty, ei))
        for fi, m in enumerate(t["methods"]):
            recv = {"ref": "const Cont%d *cont" % ei, "mut": "Cont%d *cont" % ei, "own": "Cont%d cont" % ei}[m["recv"]]
            params = "".join(", %s a%d" % (("Cont%d" % ei) if k == "self" else H.KINDS[k][1], i) for i, (k, _) in enumerate(m["args"]))
            rt = ("Cont%d" % ei) if m["ret"] == "self" else H.KINDS[m["ret"]][1]
            if m["recv"] == "own":
                contok = ("cont.instance.instance == (void *)&inst_cell" if e["ik"] == "Box" else "cont.instance == (void *)&inst_cell")
            else:
                contok = "(const void *)cont == g_cont"
            argsok = " && ".join([eq(k, "a%d" % i, "e%d" % i) for i, (k, _) in enumerate(m["args"])]) or "1"
            decls = "".join(" %s e%d = %s;" % (H.KINDS[k][1], i, cpp_val(k, i)) for i, (k, _) in enumerate(m["args"]))
            if m["ret"] == "void":
                ret = ""
            elif m["ret"] == "self":
                ret = " { Cont%d r = Cont%d(); %s %s return r; }" % (
                    ei, ei, cpp_inst_init(e, "r.instance", "ret_cell"),
                    "r.context.instance = &ctx_cell[2]; r.context.clone_fn = mock_clone; r.context.drop_fn = mock_ctx_drop;" if e["ck"] == "Arc" else "")
            else:
                ret = " return %s;" % cpp_val(m["ret"], 40)
            c.append("static %s mock_%d_%d(%s%s) {%s lg(2); lg(%d); lg(%d); lg(%s); lg(%s);%s }" % (rt, ei, fi, recv, params, decls, ei, fi, contok, argsok, ret))
        c.append("static const %sVtbl<Cont%d> vt_%d = { %s };" % (t["name"], ei, ei, ", ".join("mock_%d_%d" % (ei, fi) for fi in range(len(t["methods"])))))
    tests = []
    for ei, e in enumerate(es):
        t = api["traits"][e["ti"]]
        eis = variants[e["variant"]]
        build = "Obj%d o;" % ei if False else "Obj%d o;" % eis[0]
        for k in eis:
            build += " o.%s = &vt_%d;" % ("vtbl" if e["obj"] else "vtbl_" + es[k]["trait"].lower(), k)
        build += " " + cpp_inst_init(e, "o.container.instance")
        if e["ck"] == "Arc":
            build += " o.container.context.instance = &ctx_cell[0]; o.container.context.clone_fn = mock_clone; o.container.context.drop_fn = mock_ctx_drop;"
        for fi, m in enumerate(t["methods"]):
            name = serve.get((ei, fi))
            tn = "test_%d_%d" % (ei, fi)
            key = (1, vts.index(e["ti"]), name) if e["obj"] else (0, gidx[e["cont"]], name)
            w = wmap.get(key) if name else None
            if w is None:
                c.append("static void %s(void) { NLOG = 0; emit(%d, %d, -1, 0); }" % (tn, ei, fi))
                tests.append(tn)
                continue
            ps = split_params(w["params"])
            exp_params = [nows("%s %s" % ("CGlueC" if k == "self" else H.KINDS[k][1], n)) for k, n in m["args"]]
            status = 0
            if [nows(p) for p in ps] != exp_params:
                status = -3
            elif (w["qual"] == "&&") != (m["recv"] == "own") or (w["qual"] == "const") != (m["recv"] == "ref"):
                status = -2
            if status:
                c.append("static void %s(void) { NLOG = 0; emit(%d, %d, %d, 0); }" % (tn, ei, fi, status))
                tests.append(tn)
                continue
            args = ", ".join(cpp_val(k, i) for i, (k, _) in enumerate(m["args"]))
            call = "%s.%s(%s)" % ("std::move(o)" if m["recv"] == "own" else "o", name, args)
            if m["ret"] == "void":
                body = "%s; retv = 1;" % call
            elif m["ret"] == "self":
                inst = "r.container.instance.instance" if e["ik"] == "Box" else "r.container.instance"
                vt = " && ".join("r.%s == o.%s" % (f, f) for f in (["vtbl"] if e["obj"] else ["vtbl_" + es[k]["trait"].lower() for k in eis]))
                body = "auto r = %s; retv = ((void *)%s == (void *)&ret_cell) ? ((%s) ? 1 : 2) : 0; mem_forget(r.container);" % (call, inst, vt)
            else:
                rt = H.KINDS[m["ret"]][1]
                body = "%s r = %s; %s x = %s; retv = %s;" % (rt, call, rt, cpp_val(m["ret"], 40), eq(m["ret"], "r", "x"))
            c.append("static void %s(void) { int retv = 0; NLOG = 0; { %s g_cont = &o.container; %s lg(999); } emit(%d, %d, 0, retv); }" % (tn, build, body, ei, fi))
            tests.append(tn)
    etests = []
    for ei, e in enumerate(es):
        if e["ck"] != "Arc":
            continue
        t = api["traits"][e["ti"]]
        eis = variants[e["variant"]]
        build = "Obj%d o;" % eis[0]
        for k in eis:
            build += " o.%s = &vt_%d;" % ("vtbl" if e["obj"] else "vtbl_" + es[k]["trait"].lower(), k)
        build += " " + cpp_inst_init(e, "o.container.instance")
        build += " o.container.context.instance = nullptr; o.container.context.clone_fn = nullptr; o.container.context.drop_fn = nullptr;"
        for fi, m in enumerate(t["methods"]):
            name = serve.get((ei, fi))
            key = (1, vts.index(e["ti"]), name) if e["obj"] else (0, gidx[e["cont"]], name)
            w = wmap.get(key) if name else None
            if m["recv"] != "own" or w is None or m["ret"] == "self" or w["qual"] != "&&":
                continue
            if [nows(p) for p in split_params(w["params"])] != [nows("%s %s" % (H.KINDS[k][1], n)) for k, n in m["args"]]:
                continue
            args = ", ".join(cpp_val(k, i) for i, (k, _) in enumerate(m["args"]))
            tn = "etest_%d_%d" % (ei, fi)
            c.append("static void %s(void) { NLOG = 0; printf(\"%d %d start\\n\"); fflush(stdout); { %s std::move(o).%s(%s); } emit(%d, %d, 0, 1); }"
                     % (tn, ei, fi + 1000, build, name, args, ei, fi + 1000))
            etests.append(tn)
    c.append("int main(int argc, char **argv) { (void)argv; if (argc > 1) { %s return 0; } %s return 0; }" % (" ".join(t + "();" for t in etests), " ".join(t + "();" for t in tests)))
    return "\n".join(c) + "\n"


def compile_run_cpp(src_text, workdir, name):
    os.makedirs(workdir, exist_ok=True)
    p = os.path.join(workdir, name + ".cpp")
    open(p, "w").write(src_text)
    exe = os.path.join(workdir, name + ".exe")
    rc, o, e, _ = vlib.sh("g++ -std=c++11 -O0 -w -o %s %s" % (exe, p), timeout=180)
    if rc != 0:
        return None, "driver does not compile: " + e[:2500]
    return _run_twice(exe)


# ------------------------------------------------------------------------------------------------ the C helper macros (C02)
STR_PROBE_C = r"""
#include <stdio.h>
#include <string.h>
#include "out.h"
/* how a C caller builds the `&str` argument of a method of an opaque object: STR(x) must describe exactly the bytes of x up to its NUL */
static int check(const char *what, struct CSliceRef_u8 s, const char *text) {
  if (s.data == (const unsigned char *)text && s.len == strlen(text)) return 0;
  printf("%s:_the_slice_describes_%lu_bytes_for_a_text_of_%lu_bytes;", what, (unsigned long)s.len, (unsigned long)strlen(text));
  return 1;
}
int main(void) {
  const char *ptr = "hello, boundary \xf0\x9f\xa6\x80";
  char buf[64]; strcpy(buf, "key-42");
  char exact[7]; strcpy(exact, "sixsix");
  int bad = 0;
  bad += check("STR(string_literal)", STR("literal key"), "literal key");
  bad += check("STR(const_char_pointer)", STR(ptr), ptr);
  bad += check("STR(char_array_holding_a_shorter_text)", STR(buf), buf);
  bad += check("STR(char_array_exactly_filled)", STR(exact), exact);
  return bad ? 1 : 0;
}
"""


def str_macro_probe():
    """'202 |': the REAL tool processes a small C header; a C program then builds `&str` arguments with the STR() helper the tool emits.
    Returns a harness-format line: 1 = every slice describes its text."""
    import shutil
    exe, err, _ = build()
    if exe is None:
        return "-9 # fails=bindgen_harness_does_not_build"
    d = os.path.join(WORK, "strprobe")
    shutil.rmtree(d, ignore_errors=True)
    os.makedirs(d)
    api = {"traits": [{"name": "Store", "methods": [{"name": "get", "recv": "ref", "args": [("slice", "name")], "ret": "u32"}], "rettmp": False}],
           "objects": [{"trait": 0, "inner": "Box", "ctx": "Arc"}], "groups": [], "config": {}}
    text, _ = H.render_c_meta(api)
    open(os.path.join(d, "in.h"), "w").write(text)
    open(os.path.join(d, "cfg.toml"), "w").write(cfg_toml({}))
    p = subprocess.run([exe, "auto", os.path.join(d, "cfg.toml"), os.path.join(d, "in.h")], capture_output=True, text=True, env=vlib.ENV)
    if p.returncode != 0:
        return "-9 # fails=tool-error:%s" % re.sub(r"\s+", "_", p.stderr.strip())[:160]
    open(os.path.join(d, "out.h"), "w").write(p.stdout)
    open(os.path.join(d, "main.c"), "w").write(STR_PROBE_C)
    c = subprocess.run(["gcc", "-std=c99", "-O0", "-w", "-I", d, "-o", os.path.join(d, "probe"), os.path.join(d, "main.c")], capture_output=True, text=True)
    if c.returncode != 0:
        first = [x for x in c.stderr.split("\n") if "error" in x][:1]
        return "0 # fails=a_C_caller_using_the_STR()_helper_of_the_processed_header_does_not_compile:%s" % re.sub(r"\s+", "_", (first or [c.stderr[:160]])[0])[:200]
    r = subprocess.run([os.path.join(d, "probe")], capture_output=True, text=True)
    shutil.rmtree(d, ignore_errors=True)
    if r.returncode == 0:
        return "1 # fails=-"
    return "0 # fails=%s" % (r.stdout.strip().rstrip(";").replace(";", "|") or "probe_died_with_status_%d" % r.returncode)

