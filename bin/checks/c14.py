"""C14 — ReprCString owns one well-formed NUL-terminated buffer.
Case format: '14 | k b b b ..'  (one constructor call per line) k: 0 ReprCString::from(&str), 1 ReprCString::from(&[u8]),
2 ReprCStr::from(&CStr) (input cut at its first NUL first), 3 ReprCString::from(String), 4 ReprCString::from(&[u8]) for ARBITRARY bytes (read back through the raw
buffer only); b..: the input bytes (whole UTF-8 sequences and NULs; any bytes for kind 4).
Output row: [1; 0; size freed for the original; size freed for the clone; clone reads back equal; length; read-back bytes..].
Monitor: read-back == input up to first NUL; clone equal by ==, Hash and content; tracking allocator: every free has the size
and alignment of its allocation (the scan-derived size must equal the allocated size), nothing leaked, no crash."""
PROP = "C14"
PROP_V = "props/C14.v"
HARNESS = "rt"
SHRINK = False
RULE = ("all sequences of length <= L over the alphabet {NUL, 'a', 'é'(2 bytes), '€'(3), '😀'(4)} x 4 constructors (&str, &[u8], String, &CStr) "
        "(L=5 quick, 7 thorough) plus long random ones; non-trivial = contains a multi-byte sequence or a NUL; distinct by text")
TRUSTED = [
    "hand-written model coq/model/CStr.v of cglue/src/repr_cstring.rs (scan-for-NUL length, scan-sized free); tied by differential execution",
    "harness/rt tracking allocator (size/alignment of every dealloc compared with the allocation's)",
]
ASSUMPTIONS = ["inputs of the &str constructor are valid UTF-8 (guaranteed by the type)", "rustc, the system allocator"]

ALPHA = [[0], [97], [0xC3, 0xA9], [0xE2, 0x82, 0xAC], [0xF0, 0x9F, 0x98, 0x80]]


def gen_cases(rng, tier):
    L = 5 if tier == "quick" else (4 if tier == "search" else 7)
    seqs = [[]]
    frontier = [[]]
    for _ in range(L):
        nxt = []
        for s in frontier:
            for a in range(len(ALPHA)):
                nxt.append(s + [a])
        seqs += nxt
        frontier = nxt
    cases = []
    for s in seqs:
        b = [x for a in s for x in ALPHA[a]]
        for k in (0, 1, 2, 3):
            cases.append("14 | " + " ".join(map(str, [k] + b)))
    nrand = 300 if tier == "quick" else 5000
    for _ in range(nrand):
        n = rng.range(8, 200)
        b = []
        for _ in range(n):
            a = rng.choice([1, 1, 1, 2, 3, 4]) if rng.chance(19, 20) else 0
            b += ALPHA[a]
        cases.append("14 | " + " ".join(map(str, [rng.below(4)] + b)))
    # ANY byte slice for the byte-slice constructor (kind 4: checked through the raw buffer only): Latin-1 text, lone continuation / lead bytes, cut
    # multi-byte sequences, 0xff, with and without NULs
    r4 = rng.fork("bytes")
    fixed4 = [[0xFC], [0x67, 0x72, 0xFC, 0x6E], [0x61, 0xFF, 0x62, 0, 0x63], [0xC3], [0xE2, 0x82], [0xF0, 0x9F, 0x98], [0x80], [0xC3, 0, 0xA9], [0xFF, 0xFE, 0xFD], [0, 0xFF], []]
    for b in fixed4:
        cases.append("14 | " + " ".join(map(str, [4] + b)))
    for _ in range(120 if tier == "quick" else 3000):
        b = [r4.choice([0, 0x41, 0x7F, 0x80, 0xBF, 0xC0, 0xC3, 0xE2, 0xF0, 0xFF, r4.range(1, 255)]) for _ in range(r4.range(1, 24))]
        cases.append("14 | " + " ".join(map(str, [4] + b)))
    # several strings in one case: a string with its prefixes, extensions, equal and unrelated ones (== / != / Hash are compared pairwise)
    npairs = 150 if tier == "quick" else 3000
    r2 = rng.fork("pairs")
    fixed = [[[0] + [97, 98, 99], [0] + [97, 98, 99, 100], [1], [1] + [97, 98, 99, 0, 100], [3] + [97, 98], [0] + [97, 98, 99]]]
    for k in range(npairs):
        if k < len(fixed):
            rows = fixed[k]
        else:
            chunks = [ALPHA[r2.choice([1, 1, 2, 3, 4])] for _ in range(r2.range(0, 12))]      # whole characters: prefixes are cut at character boundaries
            flat = lambda cs: [x for c in cs for x in c]
            base = flat(chunks)
            rows = []
            for _ in range(r2.range(2, 6)):
                w = r2.below(5)
                if w == 0: b = list(base)
                elif w == 1: b = flat(chunks[:r2.range(0, max(1, len(chunks)))])
                elif w == 2: b = list(base) + ALPHA[r2.choice([1, 2, 3, 4])]
                elif w == 3: b = list(base) + [0] + ALPHA[1]
                else: b = ALPHA[r2.choice([1, 2, 3, 4])] + list(base)
                rows.append([r2.choice([0, 1, 3])] + b)
        cases.append("14 | " + " ; ".join(" ".join(map(str, r)) for r in rows))
    return cases, {"exhaustive_len": L, "exhaustive_cases": len(seqs) * 4, "random_long": nrand, "multi_string_cases": npairs}


def nontrivial(l):
    b = [x for x in l.split("|")[1].split()[1:] if x != ";"]
    return any(int(x) == 0 or int(x) > 127 for x in b)


def known_match(kf, l, fails):
    return False
