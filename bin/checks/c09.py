"""C09 — type erasure never makes an object more thread-safe than its contents.
Replay files of kind 'input' contain a Rust program (field 'program') that COMPILES against /repo/cglue although it asserts that
the opaque form of a value is Send/Sync while the instance handle it was built from is not: that compiling program is the witness.
Cells are written (rule, payload class (Send?,Sync?), marker)."""
import json
import os
import re
import sys
import time

import vlib

sys.path.insert(0, os.path.join(vlib.VERIF, "translators"))

PROP = "C09"
PROP_V = "props/C09.v"
TRUSTED = [
    "translator translators/xlate (syn) + translators/autotraits.py: regenerates the ADT environment, the explicit Send/Sync impls and every Opaquable rule from /repo's current source and from a real expansion (cglue-gen called as a library) on every run",
    "hand-written calculus coq/model/AutoTrait.v of Rust's auto-trait rules for the type forms that occur; validated on every run against rustc itself: for every probed (rule, payload class) rustc's verdicts (applies / source Send,Sync / target Send,Sync) must equal the calculus' verdicts",
    "rustc 1.95 trait resolution as oracle (inherent-associated-const-vs-trait-const probe)",
]
ASSUMPTIONS = ["the four payload types of the probe are representative of their (Send?,Sync?) class (auto traits are structural)"]


EVAL_FILES = {
    "C09Table.v": "Require Import Verif.common.Prelude Verif.model.AutoTrait Verif.gen.AutoTraits_Src.\nEval vm_compute in table env rules.\n",
    "C09Over.v": "Require Import Verif.common.Prelude Verif.model.AutoTrait Verif.gen.AutoTraits_Src.\nEval vm_compute in overreach_rows env.\n",
}


def write_eval_files():
    """the two evaluation scripts (not part of the build: they print tables computed in the kernel over the regenerated environment)"""
    for name, text in EVAL_FILES.items():
        path = os.path.join(vlib.COQ, "gen", name)
        if not os.path.exists(path) or open(path).read() != text:
            open(path, "w").write(text)


def coq_table():
    write_eval_files()
    ok, log, _ = vlib.coq_build(["gen/AutoTraits_Src.v"])
    if not ok:
        return None, "generated environment does not compile: " + log[-600:]
    rc, o, e, _ = vlib.sh("timeout 300 coqc -Q %s Verif %s" % (vlib.COQ, os.path.join(vlib.COQ, "gen", "C09Table.v")), timeout=330)
    if rc != 0:
        return None, (o + e)[-600:]
    flat = " ".join(o.split())
    rows = [[int(x) for x in r.split(";") if x.strip()] for r in re.findall(r"\[([0-9; ]+)\]", flat)]
    return rows, ""


def coq_overreach():
    """explicit impls that grant a marker the fields do not have (pointer-free ADTs): rows [adt index, marker, assignment bits..] computed in the kernel"""
    write_eval_files()
    rc, o, e, _ = vlib.sh("timeout 300 coqc -Q %s Verif %s" % (vlib.COQ, os.path.join(vlib.COQ, "gen", "C09Over.v")), timeout=330)
    if rc != 0:
        return None, (o + e)[-600:]
    flat = " ".join(o.split())
    rows = [[int(x) for x in r.split(";") if x.strip()] for r in re.findall(r"\[([0-9; ]+)\]", flat)]
    names = re.findall(r'mkadt "([^"]+)" (\d+)', open(os.path.join(vlib.COQ, "gen", "AutoTraits_Src.v")).read())
    return [(names[r[0]][0], r[1], [(bool(r[2 + 2 * i]), bool(r[3 + 2 * i])) for i in range((len(r) - 2) // 2)]) for r in rows if r and r[0] < len(names)], ""


PAYLOAD_TY = {(True, True): "u32", (True, False): "core::cell::Cell<u32>", (False, True): "NotSendButSync", (False, False): "std::rc::Rc<u32>"}


def contents_witness(name, marker, rho, defs):
    need = "need_send" if marker == 0 else "need_sync"
    ty = "%s<%s>" % (name, ", ".join(PAYLOAD_TY[p] for p in rho)) if rho else name
    bad = [i for i, p in enumerate(rho) if not (p[0] if marker == 0 else p[1])]
    return ty, ("// compiles against /repo/cglue: %s is %s although it holds a value (type parameter(s) %s) that is not\n"
                "#![allow(dead_code, unused_imports)]\nuse cglue::prelude::v1::*; use cglue::*; use cglue::arc::*; use cglue::boxed::*; use cglue::forward::*; use cglue::trait_group::*; use cglue::vec::*; use cglue::slice::*; use cglue::option::*; use cglue::result::*; use cglue::callback::*; use cglue::iter::*; use cglue::repr_cstring::*; use cglue::tuple::*;\n"
                "%s\npub struct NotSendButSync(std::sync::MutexGuard<'static, u32>);\nfn need_send<T: Send>() {}\nfn need_sync<T: Sync>() {}\n"
                "fn main() { %s::<%s>(); }\n" % (ty, "Send" if marker == 0 else "Sync", bad, defs, need, ty))


def compiles(prog, tag):
    d = os.path.join(vlib.CACHE, "c09contents")
    os.makedirs(os.path.join(d, "src"), exist_ok=True)
    open(os.path.join(d, "src", "main.rs"), "w").write(prog)
    open(os.path.join(d, "Cargo.toml"), "w").write('[package]\nname = "c09contents"\nversion = "0.0.0"\nedition = "2018"\n\n[workspace]\n\n[dependencies]\ncglue = { path = "/repo/cglue" }\n')
    try:
        import shutil
        shutil.copy(os.path.join(vlib.REPO, "Cargo.lock"), os.path.join(d, "Cargo.lock"))
    except OSError:
        pass
    rc, o, e, _ = vlib.sh("timeout 600 cargo build --offline", cwd=d, timeout=630)
    return rc == 0


def witness_program(row, marker, defs):
    need = "need_send" if marker == "Send" else "need_sync"
    return ("// compiles against /repo/cglue: the opaque form is %s although the source handle is not\n"
            "#![allow(dead_code, unused_imports)]\nuse cglue::prelude::v1::*; use cglue::*; use cglue::arc::*; use cglue::boxed::*; use cglue::forward::*; use cglue::trait_group::*; use cglue::vec::*; use cglue::slice::*; use cglue::option::*; use cglue::result::*; use cglue::callback::*; use cglue::iter::*; use cglue::repr_cstring::*; use cglue::tuple::*;\n"
            "%s\npub struct NotSendButSync(std::sync::MutexGuard<'static, u32>);\n"
            "fn need_send<T: Send>() {}\nfn need_sync<T: Sync>() {}\n"
            "type Src = %s;\ntype Opaque = <Src as Opaquable>::OpaqueTarget;   // = %s\n"
            "fn main() { %s::<Opaque>(); /* %s::<Src>() does not compile */ }\n" % (marker, defs, row["src"], row["tgt"], need, need))


def replay_program(path, seed, tier):
    """re-compile the witness program of a replay file against /repo's current tree"""
    rj = json.load(open(path))
    if "program" not in rj:
        print("replay file names a broken obligation/correspondence, not an input: re-run the check itself")
        return run(tier, seed, None)
    d = os.path.join(vlib.CACHE, "c09replay")
    os.makedirs(os.path.join(d, "src"), exist_ok=True)
    open(os.path.join(d, "Cargo.toml"), "w").write('[package]\nname = "c09replay"\nversion = "0.0.0"\nedition = "2018"\n\n[workspace]\n\n[dependencies]\ncglue = { path = "/repo/cglue" }\n')
    open(os.path.join(d, "src", "main.rs"), "w").write(rj["program"])
    try:
        import shutil
        shutil.copy(os.path.join(vlib.REPO, "Cargo.lock"), os.path.join(d, "Cargo.lock"))
    except OSError:
        pass
    rc, o, e, _ = vlib.sh("timeout 600 cargo build --offline", cwd=d, timeout=630)
    if rc == 0:
        print("VIOLATION property=%s replay=%s" % (PROP, path))
        print("  witness program still compiles: %s" % json.dumps(rj.get("case")), file=sys.stderr)
        return 1
    print("witness program no longer compiles: the opaque form does not have the marker any more")
    return 0


def run(tier, seed, replay):
    import autotraits
    from srcdump import TranslateError
    t0 = time.time()
    if replay:
        return replay_program(replay, seed, tier)
    violations, known_lines, notes = [], [], []
    stats = {}
    broken = []
    g = rows = None
    try:
        g = autotraits.generate()
        probe_dir = os.path.join(vlib.CACHE, "c09probe")
        rows = autotraits.write_probe((g["_cx"], g["_rules_json"], g["meta"]), probe_dir)
    except TranslateError as e:
        broken.append(("correspondence", "translator cannot express the current source: %s" % e))
    proof = vlib.prove(PROP_V) if g else {"ok": False, "reason": "translator failed", "theorems": [], "axioms": {}, "obligations": 0, "discharged": 0, "files": []}
    if g and not proof["ok"]:
        broken.append(("proof-obligation", proof["reason"]))
    rust_rows = []
    if g:
        table, terr = coq_table()
        try:
            import shutil
            shutil.copy(os.path.join(vlib.REPO, "Cargo.lock"), os.path.join(probe_dir, "Cargo.lock"))
        except OSError:
            pass
        rc, o, e, dt = vlib.sh("timeout 900 cargo run --offline", cwd=probe_dir, timeout=930)
        if rc != 0:
            errs = [l for l in e.split("\n") if l.startswith("error")][:4]
            broken.append(("correspondence", "probe program does not compile against /repo: " + " / ".join(errs)))
        else:
            for line in o.split("\n"):
                t = line.split()
                if len(t) == 8:
                    rust_rows.append([int(x) for x in t])
        stats["probe_build_s"] = round(dt, 1)
        # the same probe program against cglue built WITHOUT its default features (an alloc-only build any binary can select): the markers of the
        # wrapper types must not depend on the feature set
        rust_rows_ns = []
        if rc == 0:
            import shutil
            ns_dir = os.path.join(vlib.CACHE, "c09probe_nostd")
            os.makedirs(os.path.join(ns_dir, "src"), exist_ok=True)
            shutil.copy(os.path.join(probe_dir, "src", "main.rs"), os.path.join(ns_dir, "src", "main.rs"))
            open(os.path.join(ns_dir, "Cargo.toml"), "w").write(open(os.path.join(probe_dir, "Cargo.toml")).read().replace('cglue = { path = "/repo/cglue" }', 'cglue = { path = "/repo/cglue", default-features = false }').replace('name = "c09probe"', 'name = "c09probe_nostd"'))
            try:
                shutil.copy(os.path.join(vlib.REPO, "Cargo.lock"), os.path.join(ns_dir, "Cargo.lock"))
            except OSError:
                pass
            rc2, o2, e2, dt2 = vlib.sh("timeout 900 cargo run --offline", cwd=ns_dir, timeout=930)
            stats["probe_build_without_default_features_s"] = round(dt2, 1)
            if rc2 != 0:
                errs = [l for l in e2.split("\n") if l.startswith("error")][:4]
                broken.append(("correspondence", "probe program does not compile against /repo built with default-features = false: " + " / ".join(errs)))
            else:
                for line in o2.split("\n"):
                    t = line.split()
                    if len(t) == 8:
                        rust_rows_ns.append([int(x) for x in t])
        # ---- tie: calculus vs rustc
        mism = []
        if table is None:
            broken.append(("correspondence", "model table not computable: " + terr))
        elif rust_rows:
            tmap = {}
            for r in table:
                tmap[(r[0], tuple(r[6:]))] = r[1:6]
            for rr, meta_row in zip(rust_rows, rows):
                idx, ps, py, app, ss, sy, ts, ty = rr
                m = g["meta"][idx]
                rho = []
                if m["nparams"] >= 1:
                    rho = [ps, py] + [1, 1] * (m["nparams"] - 1)
                exp = tmap.get((idx, tuple(rho)))
                got = [app, ss, sy, ts, ty]
                if exp is None or exp != got:
                    mism.append({"rule": m["name"], "payload": [ps, py], "src": meta_row["src"], "rustc [applies,srcSend,srcSync,tgtSend,tgtSync]": got, "calculus": exp})
            stats["calculus_vs_rustc_mismatches"] = len(mism)
            if mism:
                broken.append(("correspondence", "auto-trait calculus and rustc disagree on %d probed cells, first: %s" % (len(mism), json.dumps(mism[0]))))
        # ---- monitor: what rustc itself says about gained markers
        defs = open(os.path.join(vlib.VERIF, "translators", "samples", "c09_defs.rs")).read()
        known_fams = g["known_families"]
        seen_known = set()
        gained = 0
        for feat, rr_set in (("", rust_rows), (" when cglue is built with default-features = false", rust_rows_ns)):
          for rr, meta_row in zip(rr_set, rows):
            idx, ps, py, app, ss, sy, ts, ty = rr
            m = g["meta"][idx]
            for marker, s_has, t_has in (("Send", ss, ts), ("Sync", sy, ty)):
                if app and t_has and not s_has:
                    gained += 1
                    if (bool(ps), bool(py)) in [tuple(x) for x in known_fams.get(m["family"], [])]:
                        seen_known.add(m["family"])
                        continue
                    if len(violations) < 3:
                        rp = vlib.write_replay(PROP, seed, tier, "input", {
                            "case": {"rule": m["name"], "payload_class": {"Send": bool(ps), "Sync": bool(py)}, "marker_gained": marker,
                                     "source_type": meta_row["src"], "opaque_type": meta_row["tgt"], "cglue_features": "default-features = false" if feat else "default"},
                            "program": witness_program(meta_row, marker, defs),
                            "observed": "rustc: opaque form is %s, source is not%s" % (marker, feat)})
                        violations.append(("input", "%s gains %s for payload (Send=%d,Sync=%d)%s" % (m["name"], marker, ps, py, feat), rp, False))
        stats["cells_gaining_a_marker_per_rustc"] = gained
        stats["probe_rows_without_default_features"] = len(rust_rows_ns)
        # ---- monitor 2: a container / object / group built around an instance handle is no more thread-safe than that handle (before any erasure)
        base_markers = {}
        for rr, meta_row in zip(rust_rows, rows):
            idx, ps, py, app, ss, sy, ts, ty = rr
            m = g["meta"][idx]
            if " @ " not in m["name"]:
                base_markers[(m["name"], ps, py)] = (ss, sy, meta_row["src"])
        wrapped_gain = 0
        for rr, meta_row in zip(rust_rows, rows):
            idx, ps, py, app, ss, sy, ts, ty = rr
            m = g["meta"][idx]
            if " @ " not in m["name"]:
                continue
            base = base_markers.get((m["name"].split(" @ ", 1)[1], ps, py))
            if base is None:
                continue
            for marker, c_has, h_has in (("Send", ss, base[0]), ("Sync", sy, base[1])):
                if c_has and not h_has:
                    wrapped_gain += 1
                    if len(violations) < 3:
                        need = "need_send" if marker == "Send" else "need_sync"
                        prog = ("// compiles against /repo/cglue: the container is %s although the instance handle it is built around is not\n"
                                "#![allow(dead_code, unused_imports)]\nuse cglue::prelude::v1::*; use cglue::*; use cglue::arc::*; use cglue::boxed::*; use cglue::forward::*; use cglue::trait_group::*; use cglue::vec::*; use cglue::slice::*; use cglue::option::*; use cglue::result::*; use cglue::callback::*; use cglue::iter::*; use cglue::repr_cstring::*; use cglue::tuple::*;\n"
                                "%s\npub struct NotSendButSync(std::sync::MutexGuard<'static, u32>);\nfn need_send<T: Send>() {}\nfn need_sync<T: Sync>() {}\n"
                                "type Handle = %s;\ntype Container = %s;\nfn main() { %s::<Container>(); /* %s::<Handle>() does not compile */ }\n"
                                % (marker, defs, base[2], meta_row["src"], need, need))
                        rp = vlib.write_replay(PROP, seed, tier, "input", {
                            "case": {"rule": m["name"], "payload_class": {"Send": bool(ps), "Sync": bool(py)}, "marker_gained": marker,
                                     "instance_handle": base[2], "container_type": meta_row["src"]},
                            "program": prog, "observed": "rustc: the container is %s, its instance handle is not" % marker})
                        violations.append(("input", "%s: the container %s is %s for payload (Send=%d,Sync=%d) although its instance handle %s is not"
                                           % (m["name"], meta_row["src"], marker, ps, py, base[2]), rp, False))
        stats["containers_more_thread_safe_than_their_handle"] = wrapped_gain
        # ---- monitor 3: an explicit unsafe impl never grants a marker that the fields (instance handle, context, return scratch space) do not have
        over, oerr = coq_overreach()
        if over is None:
            broken.append(("correspondence", "overreach table not computable: " + oerr))
        else:
            stats["explicit_impls_granting_more_than_their_fields"] = len(over)
            for name, marker, rho in over[:40]:
                if len(violations) >= 3:
                    break
                ty, prog = contents_witness(name, marker, rho, defs)
                if compiles(prog, name):
                    rp = vlib.write_replay(PROP, seed, tier, "input", {
                        "case": {"type": ty, "marker": "Send" if marker == 0 else "Sync", "parameters(Send,Sync)": rho}, "program": prog,
                        "observed": "rustc: the type has the marker although one of the values it holds does not"})
                    violations.append(("input", "%s is %s although it holds a value that is not (explicit unsafe impl weaker than the contents)" % (ty, "Send" if marker == 0 else "Sync"), rp, False))
        if seen_known:
            kf = [f for f in vlib.known_findings(PROP) if f.get("status") == "known"]
            for f in kf:
                known_lines.append("%s [%s] families observed by rustc on this run: %s" % (f["what"], f["id"], ",".join(sorted(seen_known))))
    if broken and not violations:
        kind, why = broken[0]
        rp = vlib.write_replay(PROP, seed, tier, kind, {"what": why, "all_broken": broken, "theorems": proof.get("theorems"),
                                                        "searched": "the complete rustc probe matrix (%d rows) found no gained marker outside the known class" % len(rust_rows)})
        violations.append((kind, why[:300], rp, True))
    for k in known_lines:
        print("KNOWN-FINDING: property=%s %s" % (PROP, k))
    for kind, desc, rp, nofail in violations:
        print("VIOLATION property=%s replay=%s%s" % (PROP, rp, " no-failing-input-found" if nofail else ""))
        print("  (%s) %s" % (kind, desc), file=sys.stderr)
    # ---- evidence
    tb = list(vlib.KERNEL_TB)
    axs = sorted({a for v in proof.get("axioms", {}).values() for a in v})
    tb.append("axioms reported by Print Assumptions for %s: %s" % (", ".join(proof.get("theorems", [])) or "-", ", ".join(axs) if axs else "none (closed under the global context)"))
    tb.extend(TRUSTED)
    ncells = 0
    if g:
        for m in g["meta"]:
            ncells += (4 ** m["nparams"]) * (4 ** len(m["opaquable"])) * 2
    cov = {
        "obligations": max(1, proof.get("obligations", 0)), "discharged": proof.get("discharged", 0),
        "checker_cmd": "translators/autotraits.py (regenerate coq/gen/AutoTraits_Src.v) ; cd /verif/coq && make -j16 props/C09.vo ; Print Assumptions",
        "trusted_base": tb, "theorems": proof.get("theorems", []), "proof_ok": proof.get("ok", False), "proof_reason": proof.get("reason", ""),
        "coq_files": proof.get("files", []),
        "exhaustive": True,
        "evaluations": ncells + len(rust_rows) * 2,
        "distinct_nontrivial": len(rust_rows) * 2,
        "rule": "the complete matrix: every conversion rule found in the source x every (Send?,Sync?) assignment of every parameter (and of every "
                "Opaquable projection) x {Send,Sync}, decided inside the kernel; of these, every rule instance nameable in Rust x 4 payload classes "
                "x 2 markers is also decided by rustc (distinct_nontrivial counts those)",
        "matrix_cells_in_kernel": ncells, "cells_decided_by_rustc": len(rust_rows) * 2,
        "traces_validated_against_impl": len(rust_rows) - stats.get("calculus_vs_rustc_mismatches", 0),
        "rules": [m["name"] for m in g["meta"]] if g else [], "n_adts": g["n_adts"] if g else 0,
        "known_cells_in_kernel": g["n_known_cells"] if g else 0,
        "samples": [{"rule": g["meta"][r[0]]["name"], "payload(Send,Sync)": r[1:3], "applies": r[3], "source(Send,Sync)": r[4:6], "opaque(Send,Sync)": r[6:8]} for r in rust_rows[:12:2]] or [{"note": "no probe row"}],
        "known_findings_reported": known_lines,
        "violations_reported": [{"kind": k, "what": d, "replay": r} for k, d, r, _ in violations],
        "repo_state": vlib.repo_state(),
    }
    cov.update(stats)
    vlib.write_evidence(PROP, tier if tier in ("quick", "thorough") else "quick", seed, cov, ASSUMPTIONS, time.time() - t0, len(violations))
    return 1 if violations else 0
