"""C20 — runtime layout validation accepts identical interfaces and rejects changed ones.
 '20 <int_result A> <int_result B> | trait A rows ; -1 ; trait B rows'  both traits (encoding of C01) are expanded by the real macros in one crate built with the
      layout_checks feature and the REAL compare_layouts (abi_stable's check_layout_compatibility) compares the layouts of their opaque boxed objects:
      output 0 Valid / 1 Invalid / 2 Unknown.  The Coq model predicts Valid iff the generated C-visible interfaces are identical.
 '120 | nmand names.. ; -1 ; nmand names..'  the same for two group definitions over five fixed traits (expected verdict from the property statement).
VerifyLayout::and / is_valid_* / compare_layouts' None handling are translated from the source into Coq on every run (gen/VerifyAnd_Src.v) and also executed."""
import os
import sys
import vlib
from checks import gencommon as G

PROP = "C20"
PROP_V = "props/C20.v"
HARNESS = "gen"
SHRINK = False
RULE = ("pairs (definition, single-edit variant) over the trait grammar — add, remove, rename, reorder, change one argument/return element type, change receiver, "
        "toggle int_result — and identical pairs; group pairs (add/remove/move an optional trait, reorder the listing); all 9 verdict pairs by the kernel; "
        "non-trivial = every pair; distinct by text")
TRUSTED = [
    "translator translators/verifyand.py: the bodies of VerifyLayout::and, is_valid_strict/relaxed and the shape of compare_layouts are regenerated into Coq from the source",
    "abi_stable 0.10 check_layout_compatibility (third party) decides compatibility; the model `predicted` is tied to it only through the compiled pairs",
    "generator model (see C01) for the C-visible interface of a definition",
]
ASSUMPTIONS = ["abi_stable's derive describes every field of the generated structs (it does for function-pointer fields: parameter and return types)"]


def pre():
    sys.path.insert(0, os.path.join(vlib.VERIF, "translators"))
    import verifyand
    from srcdump import TranslateError
    try:
        verifyand.generate()
        return []
    except TranslateError as e:
        return ["translator cannot express the current source: %s" % e]


def build_harness(tier):
    return G.build(tier)


def run_impl(lines):
    return G.run_impl(lines)


def model_line(l):
    return "0 |" if l.startswith("120 ") else l


def compare(l, impl_rows, model_rows):
    return True if l.startswith("120 ") else impl_rows == model_rows


def monitor(l, impl_rows, kv):
    exp = G.layout_expected(l)
    if exp is not None and impl_rows.strip() != str(exp):
        return ["compare_layouts reports %s for a group pair whose expected verdict is %s" % (impl_rows.strip(), exp)]
    if l.startswith("20 "):
        hdr, a, b = G._split_rows(l)
        if a == b and hdr[1] == hdr[2] and impl_rows.strip() != "0":
            return ["identical definitions are not reported Valid (%s)" % impl_rows.strip()]
    return []


def nontrivial(l):
    return True


def gen_cases(rng, tier):
    return G.layout_cases(rng, tier)


def known_match(kf, l, fails):
    return False
