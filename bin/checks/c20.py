"""C20 — runtime layout validation accepts identical interfaces and rejects changed ones.
 '20 <int_result A> <int_result B> | trait A rows ; -1 ; trait B rows'  both traits (encoding of C01) are expanded by the real macros in one crate built with the
      layout_checks feature and the REAL compare_layouts (abi_stable's check_layout_compatibility) compares the layouts of their opaque boxed objects:
      output 0 Valid / 1 Invalid / 2 Unknown.  The Coq model predicts Valid iff the generated C-visible interfaces are identical.
 '320 <int_result A> <int_result B> <expected> <role> | ..'  the same pair of traits as MEMBERS (role 0 mandatory / 1 optional) of a group; the groups' layouts are compared.
 '120 | nmand names.. ; -1 ; nmand names..'  the same for two group definitions over five fixed traits (expected verdict from the property statement).
VerifyLayout::and / is_valid_* / compare_layouts' None handling are translated from the source into Coq on every run (gen/VerifyAnd_Src.v) and also executed."""
import os
import sys
import vlib
from checks import gencommon as G

PROP = "C20"
PROP_V = "props/C20.v"
HARNESS = "gen"
SHRINK = False
RULE = ("pairs (definition, single-edit variant) over the trait grammar — add, remove, rename, reorder, change one argument/return element type, change receiver, "
        "toggle int_result — and identical pairs; group pairs (add/remove/move an optional trait, reorder the listing); all 9 verdict pairs by the kernel; "
        "non-trivial = every pair; distinct by text")
TRUSTED = [
    "translator translators/verifyand.py: the bodies of VerifyLayout::and, is_valid_strict/relaxed and the shape of compare_layouts are regenerated into Coq from the source",
    "abi_stable 0.10 check_layout_compatibility (third party) decides compatibility; the model `predicted` is tied to it only through the compiled pairs",
    "generator model (see C01) for the C-visible interface of a definition",
]
ASSUMPTIONS = ["abi_stable's derive describes every field of the generated structs (it does for function-pointer fields: parameter and return types)"]


def pre():
    sys.path.insert(0, os.path.join(vlib.VERIF, "translators"))
    import verifyand
    from srcdump import TranslateError
    try:
        verifyand.generate()
        return []
    except TranslateError as e:
        return ["translator cannot express the current source: %s" % e]


def build_harness(tier):
    return G.build(tier)


def run_impl(lines):
    return G.run_impl(lines)


VERDICT_IDS = ("120 ", "220 ", "221 ", "222 ", "320 ")


def model_line(l):
    return "0 |" if l.startswith(VERDICT_IDS) else l


def compare(l, impl_rows, model_rows):
    return True if l.startswith(VERDICT_IDS) else impl_rows == model_rows


NAMES = ["Valid", "Invalid", "Unknown"]


def monitor(l, impl_rows, kv):
    if l.startswith(("220 ", "221 ", "222 ")):
        hdr, a, _ = G._split_rows(l)
        x, y = a[0][0], (a[0][1] if len(a[0]) > 1 else 0)
        got = impl_rows.strip()
        if hdr[0] == 220:      # Invalid absorbs, Unknown dominates Valid
            exp = 1 if 1 in (x, y) else 2 if 2 in (x, y) else 0
            return [] if got == str(exp) else ["%s.and(%s) = %s, expected %s" % (NAMES[x], NAMES[y], NAMES[int(got)] if got in "012" else got, NAMES[exp])]
        if hdr[0] == 221:
            exp = (1 if x == 0 else 0) + 2 * (1 if x != 1 else 0)
            return [] if got == str(exp) else ["is_valid_strict/relaxed(%s) = %s, expected %s" % (NAMES[x], got, exp)]
        exp = 0 if (x and y) else 2
        return [] if got == str(exp) else ["compare_layouts(%s, %s) = %s, expected %s" % ("Some" if x else "None", "Some" if y else "None", got, NAMES[exp])]
    exp = G.layout_expected(l)
    got = impl_rows.strip()
    if len(got) == 4 and got[0] == "9":
        return ["compare_layouts is not a function of the two descriptions: the pair was reported %s, the second description against itself %s, and the same pair asked again %s" % tuple(NAMES[int(x)] if x in "012" else x for x in got[1:])]
    if exp is not None and impl_rows.strip() != str(exp):
        return ["compare_layouts reports %s for a pair whose expected verdict is %s (0 Valid, 1 Invalid, 2 Unknown)" % (impl_rows.strip(), exp)]
    if l.startswith("20 "):
        hdr, a, b = G._split_rows(l)
        if a == b and hdr[1] == hdr[2] and impl_rows.strip() != "0":
            return ["identical definitions are not reported Valid (%s)" % impl_rows.strip()]
    return []


def nontrivial(l):
    return True


def gen_cases(rng, tier):
    lines, dist = G.layout_cases(rng, tier)
    extra = ["220 | %d %d ; -1" % (a, b) for a in range(3) for b in range(3)] + ["221 | %d ; -1" % a for a in range(3)] + \
            ["222 | %d %d ; -1" % (a, b) for a in range(2) for b in range(2)]
    dist["verdict_function_cases"] = len(extra)
    return extra + lines, dist


def known_match(kf, l, fails):
    return False
