"""C05 — objects work across separately compiled modules and compiler versions.
Case line: '5 <single> | code m a b c ; ...' — a history over a pool of values (slots numbered in creation order); m = the module (0 host, 1 plugin)
that carries the operation out:
   0 m            make a reference-counted context            1 m h        clone context h
   2 m seed c     single-trait object (ctx = clone of c)     6 m seed c e  group object (e: 3 = Store+Clone, 1 = Store, 0 = none)
   3 m h          by-ref call                                4 m h x       by-mut call           18 m h   call returning &str
   5 m h          consuming call                             7 m h         clone through the optional Clone vtable (cast, clone, upcast)
   8 m h klen v   Store::put(&[u8], v) (int_result)          9 m h         Store::sum
   10 m h limit   Store::visit with a callback made in m     11 m h n      Store::fill from an iterator made in m     12 m h   check_impl Store
   13 m n         vector                                     14 m h x      push (grows through the stored reserve function)
   15 m h         sum through &CVec                          16 m h        sum through a CSliceRef handed to m          17 m h   destroy
   19 m h i x     insert      20 m h   pop      21 m h i   remove      22 m h n   reserve      23 m h   clone the vector (the copy belongs to m)
   24 m           TYPED CArc<Token> (not erased)             25 m h        clone it      26 m h   erase it (into_opaque; the result is a context)
   27 m v         typed CBox<u64>                            28 m h        read it
   29 m v n       typed CSliceBox<u64> of n elements          30 m h        sum it
After the script everything left is destroyed, alternating the destroying module.
harness/xmod is ONE source compiled twice: into the host binary (module 0) and as a cdylib (module 1) loaded with dlopen — by another compiler
version / optimisation level / repr(Rust) layout seed; each artifact has its own std, its own tagging global allocator (a block freed by the module
that did not allocate it is counted, not freed) and its own live-instance counters.
Output rows: 'ok result new-slot' per operation; per module '-1 k live-instances live-context-tokens leaked-blocks foreign-frees unknown-frees size-mismatches'.
Monitor: all accounting columns are zero in both modules, and the results equal those of the reference run in which module 0 does everything.
Model: coq/model/XMod.v (id 5)."""
import os
import sys

import vlib

PROP = "C05"
PROP_V = "props/C05.v"
HARNESS = "xmod"
SHRINK = True
RULE = ("random mostly-valid histories of 4-40 operations over contexts, objects, groups (with/without the optional Store and Clone traits), vectors, slices, "
        "callbacks and iterators, every operation assigned to a random module, plus a stream with invalid handles; module pairs: quick = (stable debug host, "
        "nightly release plugin with -Zrandomize-layout), thorough = 6 pairs over {stable 1.95, nightly 1.97, 1.98.1} x {debug, release} x layout seeds; "
        "non-trivial = a history in which some value is touched by both modules; distinct by text")
TRUSTED = [
    "harness/xmod (the exchanged API, the tagging allocator, the host interpreter) and libloading/dlopen",
    "the module pairs actually built: see input_distribution.pairs in the evidence (compiler versions are read back from the artifacts)",
    "model coq/model/XMod.v: a logical routing model — that two compilers lay out #[repr(C)] types identically is observed, not proved",
]
ASSUMPTIONS = ["x86-64 Linux, SysV C ABI", "the toolchains installed in the sandbox (stable 1.95, nightly 1.97, 1.98.1)"]

_pairs = []     # (label, host exe, plugin so)


def _build(tc, release, flags, tag):
    env = dict(vlib.ENV)
    env["CARGO_TARGET_DIR"] = os.path.join(vlib.CACHE, "target-xmod-" + tag)
    if flags:
        env["RUSTFLAGS"] = flags
    d = os.path.join(vlib.VERIF, "harness", "xmod")
    try:
        import shutil
        shutil.copy(os.path.join(vlib.REPO, "Cargo.lock"), os.path.join(d, "Cargo.lock"))
    except OSError:
        pass
    rc, o, e, dt = vlib.sh("timeout 1500 cargo %s build --offline %s" % ("+" + tc if tc else "", "--release" if release else ""), cwd=d, env=env, timeout=1530)
    if rc != 0:
        errs = [l for l in e.split("\n") if l.startswith("error")][:4]
        return None, None, "xmod (%s) does not build: %s\n%s" % (tag, " / ".join(errs), e[-800:]), dt
    sub = "release" if release else "debug"
    return os.path.join(env["CARGO_TARGET_DIR"], sub, "host"), os.path.join(env["CARGO_TARGET_DIR"], sub, "libxmod.so"), "", dt


def build_harness(tier):
    del _pairs[:]
    total = 0.0
    builds = {}
    want = [("sd", "", False, ""), ("nr7", "nightly", True, "-Zrandomize-layout -Zlayout-seed=7")]
    if tier == "thorough":
        want += [("sr", "", True, ""), ("nd3", "nightly", False, "-Zrandomize-layout -Zlayout-seed=3"), ("vr", "1.98.1", True, ""), ("vd", "1.98.1", False, "")]
    for tag, tc, rel, flags in want:
        h, p, err, dt = _build(tc, rel, flags, tag)
        total += dt
        if h is None:
            return None, err, total
        builds[tag] = (h, p)
    pairs = [("sd", "nr7")]
    if tier == "thorough":
        pairs += [("nr7", "sd"), ("sr", "nd3"), ("vr", "sd"), ("sd", "vd"), ("nd3", "vr")]
    for a, b in pairs:
        rc, o, e, _ = vlib.sh([builds[a][0], builds[b][1], "info"], timeout=60)
        _pairs.append(("%s+%s: %s" % (a, b, o.strip()), builds[a][0], builds[b][1]))
    return _pairs[0][1], "", total


def run_impl(lines):
    """every history on every module pair; a history's output is that of the first pair unless another pair disagrees or fails"""
    outs = None
    for label, host, plugin in _pairs:
        res = vlib.run_lines([host, plugin], lines)
        ref = vlib.run_lines([host, "single"], lines)
        cur = []
        for l, r, s in zip(lines, res, ref):
            if r is None or r.startswith("!CRASH"):
                cur.append(r or "!CRASH")
                continue
            rows, kv = vlib.split_out(r)
            srows, skv = vlib.split_out(s) if s and not s.startswith("!CRASH") else ("", {})
            n = len(l.split("|", 1)[1].split(";"))
            a = [x.strip() for x in rows.split(";")][:n]
            b = [x.strip() for x in srows.split(";")][:n]
            extra = []
            if a != b:
                k = next((i for i in range(min(len(a), len(b))) if a[i] != b[i]), min(len(a), len(b)))
                extra.append("two-module_result_differs_from_single-module_run_at_op_%d_(%s_vs_%s)" % (k, a[k] if k < len(a) else "-", b[k] if k < len(b) else "-"))
            if skv.get("fails", "-") != "-":
                extra.append("single-module_run:" + skv["fails"])
            f = kv.get("fails", "-")
            allf = ([] if f == "-" else f.split("|")) + extra
            cur.append("%s # fails=%s" % (rows, ("[" + label.split(":")[0] + "]" + "|".join(allf)) if allf else "-"))
        if outs is None:
            outs = cur
        else:
            for i in range(len(lines)):
                if "fails=-" in outs[i] and "fails=-" not in cur[i]:
                    outs[i] = cur[i]
    return outs


def model_line(l):
    hdr, body = l.split("|", 1)
    # op 31 makes a context whose payload reports where it is destroyed: for the model it is op 0
    ops = [o.split() for o in body.split(";") if o.strip()]
    return "5 0 | " + " ; ".join(" ".join(["0"] + o[1:] if o[0] == "31" else o) for o in ops)


def nontrivial(l):
    ops = [r.split() for r in l.split("|", 1)[1].split(";")]
    return len({o[1] for o in ops if len(o) > 1}) > 1


def gen_cases(rng, tier):
    n = {"quick": 300, "thorough": 3000, "search": 1500}[tier]
    lines = []
    dist = {"histories": n, "ops": 0, "cross_module_uses": 0, "invalid_handle_stream": 0, "pairs": [p[0] for p in _pairs]}
    for i in range(n):
        r = rng.fork("h%d" % i)
        kinds = []      # kind per slot: c o g v or None
        en = {}
        home = {}
        ops = []
        wild = (i % 10 == 9)
        if wild:
            dist["invalid_handle_stream"] += 1
        for _ in range(4 + r.below(37)):
            m = r.below(2)
            live = lambda k: [j for j, x in enumerate(kinds) if x == k]
            choice = r.below(26) if r.chance(1, 2) else 17 + r.below(2) if r.chance(1, 6) else r.below(26)
            pick = lambda k: (r.choice(live(k)) if live(k) and not (wild and r.chance(1, 4)) else r.below(len(kinds) + 2) - 1)
            if choice == 0 or not live("c"):
                ops.append([31 if r.chance(1, 2) else 0, m]); kinds.append("c"); home[len(kinds) - 1] = m
            elif choice == 1:
                h = pick("c"); ops.append([1, m, h])
                if 0 <= h < len(kinds) and kinds[h] == "c":
                    kinds.append("c"); home[len(kinds) - 1] = home[h]
            elif choice in (2, 3):
                c = pick("c"); ops.append([2, m, r.below(200), c])
                if 0 <= c < len(kinds) and kinds[c] == "c":
                    kinds.append("o"); home[len(kinds) - 1] = m
            elif choice in (4, 5, 6):
                c = pick("c"); e = r.choice([3, 3, 1, 0]); ops.append([6, m, r.below(200), c, e])
                if 0 <= c < len(kinds) and kinds[c] == "c":
                    kinds.append("g"); en[len(kinds) - 1] = e; home[len(kinds) - 1] = m
            elif choice == 7:
                h = pick(r.choice(["o", "g"])); ops.append([3, m, h])
            elif choice == 8:
                ops.append([4, m, pick("o"), r.below(50)])
            elif choice == 9:
                ops.append([18, m, pick("o")])
            elif choice == 10:
                h = pick(r.choice(["o", "g"])); ops.append([5, m, h])
                if 0 <= h < len(kinds) and kinds[h] in ("o", "g"):
                    kinds[h] = None
            elif choice == 11:
                h = pick("g"); ops.append([7, m, h])
                if 0 <= h < len(kinds) and kinds[h] == "g" and en.get(h) == 3:
                    kinds.append("g"); en[len(kinds) - 1] = 3; home[len(kinds) - 1] = home[h]
            elif choice == 12:
                ops.append([8, m, pick("g"), r.below(4), r.below(100)])
            elif choice == 13:
                ops.append([r.choice([9, 12]), m, pick("g")])
            elif choice == 14:
                ops.append([10, m, pick("g"), 1 + r.below(5)])
            elif choice == 15:
                ops.append([11, m, pick("g"), r.below(5)])
            elif choice == 16:
                ops.append([13, m, r.below(6)]); kinds.append("v"); home[len(kinds) - 1] = m
            elif choice == 17:
                k = r.below(6)
                if k == 0:
                    ops.append([14, m, pick("v"), r.below(1000)])
                elif k == 1:
                    ops.append([19, m, pick("v"), r.below(5), r.below(1000)])
                elif k == 2:
                    ops.append([20, m, pick("v")])
                elif k == 3:
                    ops.append([21, m, pick("v"), r.below(5)])
                elif k == 4:
                    ops.append([22, m, pick("v"), r.below(40)])
                else:
                    h = pick("v"); ops.append([23, m, h])
                    if 0 <= h < len(kinds) and kinds[h] == "v":
                        kinds.append("v"); home[len(kinds) - 1] = m
            elif choice == 18:
                ops.append([r.choice([15, 16]), m, pick("v")])
            elif choice == 21:     # typed (not erased) reference-counted handles: make / clone / erase (the erased one is then used as a context)
                k = r.below(3)
                if k == 0 or not live("t"):
                    ops.append([24, m]); kinds.append("t"); home[len(kinds) - 1] = m
                elif k == 1:
                    h = pick("t"); ops.append([25, m, h])
                    if 0 <= h < len(kinds) and kinds[h] == "t":
                        kinds.append("t"); home[len(kinds) - 1] = home[h]
                else:
                    h = pick("t"); ops.append([26, m, h])
                    if 0 <= h < len(kinds) and kinds[h] == "t":
                        kinds[h] = None; kinds.append("c"); home[len(kinds) - 1] = home[h]
            elif choice == 22:     # typed boxes
                if not live("b") or r.chance(1, 2):
                    ops.append([27, m, r.below(1000)]); kinds.append("b"); home[len(kinds) - 1] = m
                else:
                    ops.append([28, m, pick("b")])
            elif choice == 23:     # typed boxed slices
                if not live("s") or r.chance(1, 2):
                    ops.append([29, m, r.below(1000), r.choice([0, 1, 2, 5, 17])]); kinds.append("s"); home[len(kinds) - 1] = m
                else:
                    ops.append([30, m, pick("s")])
            else:
                h = pick(r.choice(["c", "o", "g", "v", "t", "b", "s"])); ops.append([17, m, h])
                if 0 <= h < len(kinds) and kinds[h]:
                    kinds[h] = None
            o = ops[-1]
            if len(o) > 2 and o[0] not in (0, 13, 2, 6, 24, 27, 29) and 0 <= o[2] < len(kinds) and home.get(o[2], m) != m:
                dist["cross_module_uses"] += 1
        dist["ops"] += len(ops)
        lines.append("5 0 | " + " ; ".join(" ".join(map(str, o)) for o in ops))
    # consuming calls on objects and groups that hold the LAST reference of their (probed) context, for every assignment of the three roles
    # (creating the context and the object, dropping the caller's handle, making the consuming call) to the two modules
    fixed = []
    for a in (0, 1):
        for b in (0, 1):
            for c in (0, 1):
                fixed.append([[31, a], [2, b, 7, 0], [17, c, 0], [3, a, 1], [5, c, 1]])
                fixed.append([[31, a], [6, b, 9, 0, 3], [17, c, 0], [5, a, 1]])
                fixed.append([[31, a], [2, b, 5, 0], [2, a, 6, 0], [17, b, 0], [5, c, 1], [4, c, 2, 3], [5, b, 2]])
    lines = ["5 0 | " + " ; ".join(" ".join(map(str, o)) for o in ops) for ops in fixed] + lines
    dist["last_reference_consuming_histories"] = len(fixed)
    return lines, dist


def known_match(kf, l, fails):
    return False
