"""C15 — callbacks and iterators deliver every item once, in order, until told to stop.
Case format: '15 | row' with row either
 '0 sink stop method item..'  sink: 0 closure returning false on its stop-th call (0 = never), 1 &mut Vec, 2 VecDeque::from_extend(), 3 a closure fed twice,
                              4 the closure fed from a BORROWED source (methods 0 &mut iter, 1 extend(&mut iter), 2 CIterator over &mut iter: third row = what the source yields afterwards);
                              method: 0 iter.feed_into_mut(&mut cb), 1 cb.extend(iter), 2 iter.feed_into(cb), 3/4 a manual loop over Callbackable::call on the callback / on &mut callback
     output rows: [count (or -1 for extend)] ; items the sink holds afterwards ; items never offered (dropped by the source), in order
 '1 n op*n script..'          ops: 0 next() on a CIterator wrapped around the source, 1 next() on the source itself;
                              script: what the source's successive next() calls return (v>=0 Some(v), -1 None; non-fused sources allowed)
     output row: per op '1 v' or '0 0'.
Items are heap-owning tokens with drop logging.  Monitor: delivered is a prefix, count == delivered, delivered ++ never-offered == items,
stop position honoured; wrapper output == script; nothing dropped during iteration; allocator balance."""
PROP = "C15"
PROP_V = "props/C15.v"
HARNESS = "rt"
SHRINK = False
RULE = ("feed: all item counts 0..8 x sinks {closure with every stop position 0..n+1, Vec, from_extend} x 3 feed methods; iter: all "
        "op strings over {wrapper,direct} up to length 6 x scripts (empty, finite, non-fused) + random long ones; non-trivial = at least 2 items "
        "or 2 ops; distinct by exact text")
TRUSTED = [
    "hand-written model coq/model/Callback.v of cglue/src/callback.rs and cglue/src/iter.rs; tied by differential execution",
    "harness/rt (drop-logging tokens, scripted source iterator)",
]
ASSUMPTIONS = ["Vec::IntoIter drops its remaining elements in order when dropped", "rustc"]


def gen_cases(rng, tier):
    cases = []
    maxn = 8 if tier != "search" else 5
    v = 100
    for n in range(0, maxn + 1):
        items = list(range(v, v + n)); v += n
        for method in (0, 1, 2, 3, 4):
            for stop in range(0, n + 2):
                cases.append("15 | 0 0 %d %d %s" % (stop, method, " ".join(map(str, items))))
            cases.append("15 | 0 1 0 %d %s" % (method, " ".join(map(str, items))))
            cases.append("15 | 0 2 0 %d %s" % (method, " ".join(map(str, items))))
    nfeed = len(cases)
    scripts = [[], [5], [5, 6, 7], [5, -1, 6], [-1, 5], [5, 6, -1, -1, 7, 8]]
    maxops = 6 if tier != "search" else 4
    for sc in scripts:
        for n in range(1, maxops + 1):
            for bits in range(2 ** n):
                ops = [(bits >> i) & 1 for i in range(n)]
                cases.append("15 | 1 %d %s %s" % (n, " ".join(map(str, ops)), " ".join(map(str, sc))))
    nrand = 300 if tier == "quick" else 5000
    for _ in range(nrand):
        if rng.chance(1, 2):
            n = rng.range(0, 60)
            items = [rng.range(0, 10 ** 6) for _ in range(n)]
            sink = rng.below(3)
            stop = rng.range(0, n + 2) if sink == 0 else 0
            cases.append("15 | 0 %d %d %d %s" % (sink, stop, rng.below(5), " ".join(map(str, items))))
        else:
            n = rng.range(1, 40)
            ops = [rng.below(2) for _ in range(n)]
            sc = [(-1 if rng.chance(1, 6) else rng.range(0, 999)) for _ in range(rng.range(0, 40))]
            cases.append("15 | 1 %d %s %s" % (n, " ".join(map(str, ops)), " ".join(map(str, sc))))
    # kind 3: a closure callback that is fed a SECOND sequence after its first feed (methods 0 feed_into_mut and 1 extend: the by-reference ones);
    # the first feed is compared with the model like kind 0, the second one is checked absolutely by the harness
    nre = 0
    for method in (0, 1):
        for stop in range(0, 5):
            for n in range(0, 5):
                cases.append("15 | 0 3 %d %d %s" % (stop, method, " ".join(str(10 + i) for i in range(n)))); nre += 1
    for _ in range(60 if tier == "quick" else 1500):
        n = rng.range(0, 30)
        cases.append("15 | 0 3 %d %d %s" % (rng.range(0, n + 2), rng.below(2), " ".join(str(rng.range(0, 899)) for _ in range(n)))); nre += 1
    # sink kind 4: a BORROWED source (&mut iterator; method 2 = a CIterator around it) fed into a stopping closure; the third output row is what the
    # source still yields afterwards — the model's "rest is left to the source" (C15_feed / C15_extend), which owned sources cannot show
    nbor = 0
    for n in range(0, 7):
        for method in (0, 1, 2):
            for stop in range(0, n + 2):
                cases.append("15 | 0 4 %d %d %s" % (stop, method, " ".join(str(40 + i) for i in range(n)))); nbor += 1
    for _ in range(60 if tier == "quick" else 1500):
        n = rng.range(0, 40)
        cases.append("15 | 0 4 %d %d %s" % (rng.range(0, n + 2), rng.below(3), " ".join(str(rng.range(0, 899)) for _ in range(n)))); nbor += 1
    return cases, {"borrowed_source_cases": nbor, "reused_callback_cases": nre, "feed_exhaustive": nfeed, "iter_exhaustive": len(cases) - nfeed - nrand, "random": nrand}


def model_line(l):
    # kind 3 (a reused closure callback) is the model's refeed case: '2 stop method n items..'
    t = l.split()
    if len(t) > 4 and t[2] == "0" and t[3] == "3":
        items = t[6:]
        return " ".join(t[:2] + ["2", t[4], t[5], str(len(items))] + items)
    # kind 4 (borrowed source): the model's plain feed case with a closure sink; methods 0 and 2 (through a CIterator) are feed_into_mut, 1 is extend
    if len(t) > 4 and t[2] == "0" and t[3] == "4":
        return " ".join(t[:2] + ["0", "0", t[4], "1" if t[5] == "1" else "0"] + t[6:])
    return l


def nontrivial(l):
    t = l.split("|")[1].split()
    return len(t) >= 6


def known_match(kf, l, fails):
    return False
