"""C10 — CArc and CArcSome behave as Arc and Option<Arc>.
Case format: '10 | op ; op ; ...' over a growing pool of handle slots (slot ids = creation order):
'0 m v' CArc::from(v)  '1 m v' CArcSome::from(v)  '2 m v' Arc::new(v)  '3 h' CArc::from(Arc in slot h)
'4 h' CArcSome::from(Arc)  '5' empty CArc (from None / default)  '6 h' clone  '7 h' take  '8 h' CArc->Option<CArcSome>
'9 h' CArcSome->CArc  '10 h' into_opaque  '11 h' into_arc  '12 h' drop.  After the script every slot is dropped in order.
'10 1 | ..' the same with FOREIGN counting clone/drop functions in every handle (monitor: the stored function runs once per clone / release).
'210 | ..' calls view: creation ops with m = 1 make handles of module 1 (counting functions); per op the rows are [result] ; [runs of module 1's clone fn, of its drop fn],
   compared with the model's event log projected on module 1 (Arc.v calls_of; theorems C10_calls_view / C10_calls_rows).
Output: three rows per op: result [code ok new-slot], payload destructors that ran, and the observation of the whole pool
(per slot: kind 0 dead/1 empty CArc/2 CArc/3 CArcSome/4 Arc, strong count of its target, payload it dereferences to).
Monitor (model independent): strong count == number of live handles to the allocation after every op; allocator balance,
no double free, nothing leaked after the final drops.
'110 <threads> <rounds> | history': the same history run concurrently by several threads, each on a pool of its own, over SHARED allocations (creation op k
hands every thread a clone of one root Arc); output per op: result row and the kinds of the thread's handles — by theorem C10_thread_view these do not
depend on the counts, so every thread and round must reproduce the sequential model's rows; monitor: no payload destroyed while the roots live, every
root's strong count back to 1 after the threads are done, every payload destroyed once when the roots go."""
import os
import sys
import vlib

PROP = "C10"
PROP_V = "props/C10.v"
HARNESS = "rt"
RULE = ("op scripts over a pool of CArc/CArcSome/Arc handles: exhaustive up to a length bound over a 13-op alphabet with slot "
        "arguments < 3, plus random scripts biased to valid targets (a separate 10% stream of ill-targeted ops); "
        "the same scripts run by 2-8 threads x 5-50 rounds over shared allocations; "
        "non-trivial = at least one clone/take/transpose and one drop; distinct by exact text")
TRUSTED = [
    "hand-written model coq/model/Arc.v of cglue/src/arc.rs (three-field handles, stored fn pointers tagged by module); tied by differential execution against the real types",
    "Rust harness harness/rt (strong count read through Arc::from_raw in ManuallyDrop; tracking allocator)",
    "std::sync::Arc: atomicity of its count operations and its drop-at-zero semantics; weak-memory effects not modelled",
]
ASSUMPTIONS = ["std::sync::Arc is correct and its count operations are atomic", "one process: module 1 of the model is played by handles built through the published three-field layout with counting functions of the harness (case ids 10 1 / 210); two separately compiled copies of cglue are exercised by C05's cross-module harness"]

NEW = [[0, 1, 7], [1, 1, 8], [2, 1, 9], [5]]


def pre():
    """theorem C10_thread_markers is stated over the declarations regenerated from the current source (the translator of C09)"""
    sys.path.insert(0, os.path.join(vlib.VERIF, "translators"))
    import autotraits
    from srcdump import TranslateError
    try:
        autotraits.generate()
        return []
    except TranslateError as e:
        return ["translator cannot express the current source: %s" % e]


def line(ops):
    return "10 | " + " ; ".join(" ".join(map(str, o)) for o in ops)


def exhaustive(maxlen):
    alpha = NEW[:]
    for h in range(2):
        for c in (3, 4, 6, 7, 8, 9, 10, 11, 12):
            alpha.append([c, h])
    out = []

    def rec(prefix):
        if prefix:
            out.append(line(prefix))
        if len(prefix) < maxlen:
            for a in alpha:
                if not prefix and a[0] not in (0, 1, 2, 5):
                    continue
                rec(prefix + [a])
    rec([])
    return out


def random_script(rng, maxlen):
    n = rng.range(2, maxlen)
    kinds = []  # python-side guess of slot kinds: D, E (empty CArc), A, S, T (std)
    ops = []
    val = 100
    for _ in range(n):
        live = [i for i, k in enumerate(kinds) if k != "D"]
        if not live or rng.chance(1, 5):
            c = rng.choice([0, 0, 1, 1, 2, 5])
            if c == 5:
                ops.append([5]); kinds.append("E")
            else:
                val += 1
                ops.append([c, rng.range(0, 2), val]); kinds.append({0: "A", 1: "S", 2: "T"}[c])
            continue
        if rng.chance(1, 10):   # ill-targeted stream
            ops.append([rng.choice([3, 4, 6, 7, 8, 9, 10, 11, 12]), rng.range(0, len(kinds) + 1)])
            continue
        h = rng.choice(live)
        k = kinds[h]
        if k == "T":
            c = rng.choice([3, 4, 6, 12])
        elif k == "S":
            c = rng.choice([6, 6, 9, 10, 11, 12])
        else:
            c = rng.choice([6, 6, 7, 8, 10, 12])
        ops.append([c, h])
        if c in (3,):
            kinds[h] = "D"; kinds.append("A")
        elif c == 4:
            kinds[h] = "D"; kinds.append("S")
        elif c == 6:
            kinds.append(k)
        elif c == 7:
            kinds.append(k); kinds[h] = "E"
        elif c == 8:
            kinds[h] = "D"
            if k == "A": kinds.append("S")
        elif c == 9:
            kinds[h] = "D"; kinds.append("A")
        elif c == 10:
            kinds[h] = "D"; kinds.append(k)
        elif c == 11:
            kinds[h] = "D"; kinds.append("T")
        elif c == 12:
            kinds[h] = "D"
    return line(ops)


def gen_cases(rng, tier):
    if tier == "quick":
        ex, nrand, maxlen = 3, 3000, 40
    elif tier == "search":
        ex, nrand, maxlen = 2, 8000, 60
    else:
        ex, nrand, maxlen = 4, 30000, 300
    cases = exhaustive(ex)
    dist = {"exhaustive_len": ex, "exhaustive_cases": len(cases), "random": nrand, "random_maxlen": maxlen}
    opk = {}
    for _ in range(nrand):
        c = random_script(rng, maxlen)
        cases.append(c)
        for op in c.split("|")[1].split(";"):
            t = op.split()[0]
            opk[t] = opk.get(t, 0) + 1
    dist["random_op_kinds"] = opk
    # the same histories on handles that carry FOREIGN clone/drop functions ('10 1 | ...': built through the published three-field layout)
    r3 = rng.fork("foreign")
    nfor = {"quick": 600, "search": 1000}.get(tier, 6000)
    for c in exhaustive(2)[:400]:
        cases.append(c.replace("10 |", "10 1 |", 1))
    for _ in range(nfor):
        cases.append(random_script(r3, maxlen).replace("10 |", "10 1 |", 1))
    dist["foreign_function_histories"] = nfor + min(400, len(exhaustive(2)))
    # the model's module tags made observable ('210 | ..'): handles of module 1 carry counting functions; per op the number of runs of module 1's
    # clone and drop functions must equal the model's event log projected on module 1 (theorem C10_calls_view)
    r4 = rng.fork("calls")
    ncalls = {"quick": 800, "search": 1000}.get(tier, 8000)
    for c in exhaustive(3 if tier != "quick" else 2):
        cases.append(c.replace("10 |", "210 |", 1))
    for _ in range(ncalls):
        cases.append(random_script(r4, maxlen).replace("10 |", "210 |", 1))
    dist["module_call_view_histories"] = ncalls
    # the same three kinds of run over a payload aligned to 64 bytes (header field after the others = 1): the Arc keeps its counts 64 bytes
    # before such a payload, and an erased handle must still reach them through the stored functions
    r5 = rng.fork("aligned")
    nal = {"quick": 300, "search": 400}.get(tier, 3000)
    for k in range(nal):
        body = random_script(r5, maxlen).split("|", 1)[1].strip()
        w = k % 4
        cases.append(("10 0 1 | " if w == 0 else "10 1 1 | " if w == 1 else "210 1 | " if w == 2 else "110 %d %d 1 | " % (r5.choice([2, 4]), r5.choice([5, 20]))) + body)
    dist["over_aligned_payload_histories"] = nal
    # the same operations issued concurrently: one history on several threads over shared allocations ('110 <threads> <rounds> | history')
    nthr = {"quick": 250, "search": 400}.get(tier, 3000)
    r2 = rng.fork("threads")
    fixed = ["0 1 7 ; 6 0 ; 7 0 ; 8 2 ; 1 1 9 ; 6 4 ; 11 4 ; 12 1", "1 1 5 ; 6 0 ; 6 0 ; 9 1 ; 10 3 ; 6 4 ; 12 0", "2 1 3 ; 6 0 ; 3 0 ; 4 1 ; 6 2 ; 6 3 ; 11 3"]
    for k in range(nthr):
        body = fixed[k] if k < len(fixed) else random_script(r2, 30 if tier == "quick" else 80).split("|", 1)[1].strip()
        cases.append("110 %d %d | %s" % (r2.choice([2, 3, 4, 8]), r2.choice([5, 20, 50]), body))
    dist["threaded_histories"] = nthr
    return cases, dist


def nontrivial(l):
    ops = [o.split()[0] for o in l.split("|")[1].split(";")]
    return any(o in ("6", "7", "8", "9") for o in ops) and "12" in ops


def known_match(kf, l, fails):
    return False
