"""C02 — arguments and results cross the boundary without loss or alteration.  Case lines as for C01 ('1 ..' structural glue-IR rows of REAL
expansions vs the Coq generator model; '101 ..' compiled direct-vs-opaque histories where the implementation records address, length and a digest of
every slice/string argument, option/result variants, extreme integers, zero-sized elements, callee writes through &mut [T] / &mut T)."""
PROP = "C02"
PROP_V = "props/C02.v"
RULE = ("structural: all single-method traits of the grammar + random multi-method ones (per-position conversions and C types); behavioural: every "
        "shape in every position the generator accepts x value classes (empty/non-empty slices, non-ASCII/empty strings, None/Some, Ok/Err, extreme "
        "integers, zero-sized elements) on every container kind + random histories; non-trivial = more than 8 tokens; distinct by text")
TRUSTED = [
    "hand-written generator model coq/model/{Glue,Group,Life}.v of cglue-gen; tied on every run by abstracting REAL expansions (cglue-gen called as a library, output parsed with syn) to the integer rows the model predicts, and by compiled programs using the real macros",
    "the abstraction harness/gen (statement shapes it does not recognise are encoded as 9/99, i.e. show up as disagreements, never guessed) and the program harness/prog",
    "rustc's own dispatch of <T as Trait>::m, Deref, and the From impls of the runtime wrapper types (C12)",
]
ASSUMPTIONS = ["rustc code generation", "grammar = the shapes listed in coq/model/Glue.v (plus a trait type parameter `T: Copy + 'static` written for leaf 2; Pin receivers, several type parameters, wrapped associated returns are covered by the compiled programs only)"]
import os
import vlib
from checks import gencommon as G

HARNESS = "gen"
SHRINK = True


def build_harness(tier):
    return G.build(tier)


def run_impl(lines):
    # '202 |': the C helper probe (how a C caller builds a `&str` argument); everything else goes to the harnesses
    rest = [l for l in lines if not l.startswith("202 ")]
    out = iter(G.run_impl(rest)) if rest else iter([])
    probe = None
    res = []
    for l in lines:
        if l.startswith("202 "):
            if probe is None:
                from checks import bgcommon as B
                probe = B.str_macro_probe()
            res.append(probe)
        else:
            res.append(next(out))
    return res


def model_line(l):
    return "0 |" if l.startswith(("101 ", "102 ", "104 ", "105 ", "107 ", "109 ", "202 ")) else l


def compare(l, impl_rows, model_rows):
    if l.startswith(("101 ", "102 ", "104 ", "105 ", "107 ", "109 ", "202 ")):
        return True          # behavioural direct-vs-opaque runs: decided by the implementation-side monitor alone
    return impl_rows == model_rows


def nontrivial(l):
    return len(l.split()) > 8


def known_match(kf, l, fails):
    return False


def gen_cases(rng, tier):
    a, d1 = G.ir_cases(rng, tier)
    b, d2 = G.shapes_cases(rng.fork("more"), "thorough" if tier == "thorough" else tier)
    e, d4 = G.generic_cases(rng.fork("generic"), tier)
    f, d5 = G.fwd_cases(rng.fork("fwd"), tier)
    x, dx = G.ext_cases(rng.fork("ext"), tier)
    f = f + x
    d5.update(dx)
    e = e + f
    d4.update(d5)
    d1.update(d2); d1.update(d4)
    d1["c_helper_str_probe"] = 1
    return ["202 | 0"] + a + b + e, d1


def monitor(l, impl_rows, kv):
    return G.ir_monitor(l, impl_rows)
