"""C12 — slice views and C option/result/tuple types are lossless.
Case format: '12 <elem> | row ; row ..' elem (for view rows): 0 1-byte, 1 8-byte, 3 zero-sized, 4 3-byte struct.  Rows:
 '0 b..'        UTF-8 decision of TryFrom<CSliceRef<u8>>/<CSliceMut<u8>> for &str            -> [accepted as &str from CSliceRef; as &str from CSliceMut; as &mut str from CSliceMut]
 '1 k v'        Option (k=0 None / 1 Some(v)) -> COption -> Option, droppable payload        -> [tag payload tag payload]
 '2 k v'        Result (k=0 Ok(v) / 1 Err(v)) -> CResult -> Result                           -> [tag payload tag payload]
 '3 v..'        tuple of 1..4 droppable values -> CTupN -> tuple                              -> v..
 '4 a n i v'    16-cell buffer (cell j = 100+j): view [a, a+n) as CSliceRef and CSliceMut, write v at index i through the
                mutable view                                                                -> [a n in-range memory-after..]
Monitor: address/length identity of every round trip, core::str::from_utf8 as UTF-8 oracle, enum tag word read from memory,
payloads dropped exactly once and never by a conversion."""
import vlib

PROP = "C12"
PROP_V = "props/C12.v"
HARNESS = "rt"
COUNT_ROWS = True
SHRINK = True
RULE = ("UTF-8: ALL byte strings of length <= 3 over the 22 boundary bytes of the UTF-8 automaton (11154; length 4 in the thorough tier), "
        "all strings of length <= 6 over an 8-symbol alphabet (thorough), random valid/invalid strings; views: every (offset,len,index) over a "
        "16-cell buffer x 4 element types; enums/tuples: every variant x boundary payloads. non-trivial: every case except the empty string; distinct by text")
TRUSTED = [
    "hand-written model coq/model/Slice.v (views as {data,len}; utf8_valid = Unicode Table 3-7; variant-by-variant enum conversions); tied by differential execution",
    "core::str::from_utf8 is what the implementation delegates to; it also serves as the monitor's oracle",
]
ASSUMPTIONS = ["rustc's layout of #[repr(C)] enums (tag first) for the tag read", "core::str::from_utf8"]

BOUNDARY = [0x00, 0x7F, 0x80, 0x8F, 0x90, 0x9F, 0xA0, 0xBF, 0xC0, 0xC1, 0xC2, 0xDF, 0xE0, 0xEC, 0xED, 0xEE, 0xEF, 0xF0, 0xF1, 0xF4, 0xF5, 0xFF]


def pack(elem, rows, per=40):
    out = []
    for i in range(0, len(rows), per):
        out.append("12 %d | %s" % (elem, " ; ".join(" ".join(map(str, r)) for r in rows[i:i + per])))
    return out


def gen_cases(rng, tier):
    rows = [[0]]
    L = 3 if tier in ("quick", "search") else 4
    frontier = [[]]
    for _ in range(L):
        nxt = [s + [b] for s in frontier for b in BOUNDARY]
        rows += [[0] + s for s in nxt]
        frontier = nxt
    n_utf_ex = len(rows)
    alpha8 = [0x41, 0x80, 0xBF, 0xC3, 0xE2, 0xED, 0xF0, 0x9F]
    if tier == "thorough":
        frontier = [[]]
        for _ in range(6):
            frontier = [s + [b] for s in frontier for b in alpha8]
        rows += [[0] + s for s in frontier]
    nrand = 2000 if tier == "quick" else 30000
    for _ in range(nrand):
        s = []
        for _ in range(rng.range(1, 12)):
            cp = rng.choice([rng.range(0, 0x7F), rng.range(0x80, 0x7FF), rng.range(0x800, 0xFFFF), rng.range(0x10000, 0x10FFFF), 0xD7FF, 0xD800, 0xDFFF, 0xE000, 0x10FFFF])
            try:
                s += list(chr(cp).encode("utf-8", "surrogatepass"))
            except Exception:
                s += [0xED, 0xA0, 0x80]
        if rng.chance(1, 2) and s:   # corrupt: the malformed stream
            j = rng.below(len(s))
            r = rng.below(3)
            if r == 0: s[j] = rng.choice(BOUNDARY)
            elif r == 1: del s[j]
            else: s.insert(j, rng.choice(BOUNDARY))
        rows.append([0] + s)
    # LONG strings: a multi-byte character straddling every position around the block sizes an implementation might validate by (powers of two from
    # 16 to 16 KiB, 4096 in particular) is part of a valid string; a sequence cut AT such a boundary is not
    long_rows = []
    for blk in (16, 32, 64, 256, 1024, 4096, 8192, 16384):
        for ch in ([0xC3, 0xA9], [0xE2, 0x82, 0xAC], [0xF0, 0x9F, 0x98, 0x80]):
            for off in range(1, len(ch)):
                pad = blk - off
                long_rows.append([0] + [0x61] * pad + ch + [0x62] * 3)                 # valid: the character starts `off` bytes before the boundary
                long_rows.append([0] + [0x61] * pad + ch[:off])                         # invalid: the string ends inside the character, at the boundary
            long_rows.append([0] + [0x61] * (2 * blk - 1) + ch + [0x63])             # valid, second boundary
    cases = pack(1, rows) + pack(1, long_rows, per=2)
    enum_rows = []
    for v in (0, 1, -1, 2 ** 31, -2 ** 31, 10 ** 12):
        enum_rows += [[1, 0, v], [1, 1, v], [2, 0, v], [2, 1, v], [3, v], [3, v, v + 1], [3, v, v + 1, v + 2], [3, v, v + 1, v + 2, v + 3]]
    cases += pack(1, enum_rows)
    nview = 0
    for elem in (0, 1, 3, 4):
        vrows = []
        for a in range(0, 17):
            for n in range(0, 17 - a):
                idxs = sorted(set([0, n // 2, max(0, n - 1), n])) if n else [0]
                for i in idxs:
                    vrows.append([4, a, n, i, 7 + i])
        nview += len(vrows)
        cases += pack(elem, vrows)
    return cases, {"utf8_exhaustive_rows": n_utf_ex, "utf8_random_rows": nrand, "enum_rows": len(enum_rows), "view_rows": nview, "lines": len(cases)}


def nontrivial(l):
    return len(l.split()) > 4


def compare(l, impl_rows, model_rows):
    hdr, _ = vlib.parse_case(l)
    if hdr[1] == 3 and model_rows:   # zero-sized elements: all cells read as the unit value
        fixed = []
        for r in model_rows.split(" ; "):
            t = r.split()
            fixed.append(" ".join(t[:3] + ["0"] * (len(t) - 3)) if len(t) == 19 else r)
        model_rows = " ; ".join(fixed)
    return impl_rows == model_rows


def known_match(kf, l, fails):
    return False
