"""C11 — CVec is observationally a Vec.
Case format: '11 <elem> [1 = foreign stored functions] | op ; op ; ...'  elem: 0=1-byte 1=8-byte 2=heap-owning(Box) 3=zero-sized 4=3-byte 5=64 bytes aligned to 64 6=8 bytes whose Clone panics for values ending in 13;
ops: '0 x' push, '1' pop, '2 i x' insert, '3 i' remove, '4 n' reserve, '5' clone-and-replace (old dropped), '5 1 n' the same through Clone::clone_from onto a destination of n elements,
'6 i x' v[i]=x, '7 spare x..' replace by CVec::from(Vec with spare capacity), '8' read.
Output rows come in pairs per op: result row ('.. 9' = panicked) and the values whose destructor ran, in order;
the trailer '99 ; ..' is the final drop.  Monitor (model independent): contents/len equal to std::Vec after every
op, capacity>=len, panic parity, tracking allocator (size/align of every free, double/unknown free, leaks)."""
PROP = "C11"
PROP_V = "props/C11.v"
HARNESS = "rt"
RULE = ("op scripts over CVec<T>: exhaustive over a 14-op alphabet up to a length bound per element type, plus random "
        "scripts (length<=200 thorough, <=60 quick); non-trivial = contains at least one shifting op (insert/remove) or "
        "reallocation-triggering op and at least 2 ops; distinct by exact text")
TRUSTED = [
    "hand-written model coq/model/Vec.v of cglue/src/vec.rs (fields data/len/capacity, ptr::copy as list splice, stored drop/reserve fns); tied by running it (extracted with ExtrOcamlBasic only, no Extract Constant/Inductive of mine) and the real CVec on the same scripts",
    "Rust harness harness/rt (tracking+quarantining GlobalAlloc, drop-logging element types, std::Vec as reference)",
    "std::Vec / alloc::RawVec semantics (reserve contract len+add <= new capacity) — a Section hypothesis of the theorems, not an axiom",
]
ASSUMPTIONS = ["Vec::reserve honours its documented contract", "rustc code generation, the system allocator"]

ALPHA = [[0, 11], [0, 12], [1], [2, 0, 21], [2, 1, 22], [2, 5, 23], [3, 0], [3, 1], [3, 7], [4, 3], [5], [6, 0, 31], [6, 4, 32], [8]]
CLONE_FROM = [[5, 1, 0], [5, 1, 1], [5, 1, 5], [5, 1, 11]]      # clone_from onto destinations shorter and longer than the source
ELEMS = [0, 1, 2, 3, 4, 5, 6]


def fix_vals(elem, ops):
    if elem == 3:  # zero-sized: every value is the unit value
        out = []
        for op in ops:
            op = list(op)
            if op[0] in (0,):
                op[1] = 0
            elif op[0] in (2, 6):
                op[2] = 0
            elif op[0] == 7:
                op = op[:2] + [0] * (len(op) - 2)
            out.append(op)
        return out
    return ops


def line(elem, ops):
    ops = fix_vals(elem, ops)
    return "11 %d | %s" % (elem, " ; ".join(" ".join(map(str, o)) for o in ops))


def model_line(l):
    # '5 1 n' (Clone::clone_from onto a destination of n elements, which then takes the vector's place) is the model's VCloneFrom step
    hdr, body = l.split("|", 1)
    elem = int(hdr.split()[1])
    norm = {0: lambda x: x & 255, 3: lambda x: 0, 4: lambda x: x & 0xFFFFFF}.get(elem, lambda x: x)
    def conv(o):
        t = o.split()
        if t[:2] == ["5", "1"]:      # the model's VCloneFrom carries the destination's own elements (values 900.., as the element type stores them)
            n = (int(t[2]) if len(t) > 2 else 0) % 12
            return " ".join(["5", "1"] + [str(norm(900 + i)) for i in range(n)])
        return o.strip()
    return hdr + "| " + " ; ".join(conv(o) for o in body.split(";"))


def exhaustive(elem, maxlen):
    out = []

    def rec(prefix):
        if prefix:
            out.append(line(elem, prefix + [[8]]))
        if len(prefix) < maxlen:
            for a in ALPHA[:-1]:
                rec(prefix + [a])
    rec([])
    return out


def random_script(rng, maxlen, elem):
    n = rng.range(1, maxlen)
    ops, ln = [], 0
    vmax = 255 if elem == 0 else (2 ** 24 - 1 if elem == 4 else (40 if elem == 6 else 10 ** 6))     # elem 6: values 13 (whose Clone panics) are frequent
    if rng.chance(1, 3):
        k = rng.range(0, 6)
        ops.append([7, rng.range(0, 4)] + [rng.range(0, vmax) for _ in range(k)])
        ln = k
    for _ in range(n):
        r = rng.below(100)
        # mostly valid indices, a separate stream of out-of-range ones
        idx = rng.range(0, ln) if rng.chance(9, 10) else rng.range(ln, ln + 3)
        if r < 25:
            ops.append([0, rng.range(0, vmax)]); ln += 1
        elif r < 35:
            ops.append([1]); ln = max(0, ln - 1)
        elif r < 55:
            ops.append([2, idx, rng.range(0, vmax)])
            if idx <= ln: ln += 1
        elif r < 72:
            ops.append([3, idx])
            if idx < ln: ln -= 1
        elif r < 78:
            ops.append([4, rng.choice([0, 1, 2, 5, 17, 100])])
        elif r < 82:
            ops.append([5] if (elem == 6 or rng.chance(1, 2)) else [5, 1, rng.range(0, 11)])      # (element 6: Clone may panic — plain clone only)
        elif r < 90:
            ops.append([6, idx, rng.range(0, vmax)])
        elif r < 93:
            k = rng.range(0, 5)
            ops.append([7, rng.range(0, 3)] + [rng.range(0, vmax) for _ in range(k)]); ln = k
        else:
            ops.append([8])
    ops.append([8])
    return line(elem, ops)


def gen_cases(rng, tier):
    cases = []
    if tier == "quick":
        ex = {2: 3, 0: 3, 1: 2, 3: 3, 4: 2, 5: 2, 6: 2}
        nrand, maxlen = 1500, 60
    elif tier == "search":
        ex = {2: 2}
        nrand, maxlen = 6000, 120
    else:
        ex = {2: 4, 0: 4, 1: 3, 3: 4, 4: 3, 5: 3}
        nrand, maxlen = 20000, 200
    dist = {"exhaustive_len": ex, "random": nrand, "random_maxlen": maxlen}
    for e, n in ex.items():
        cases += exhaustive(e, n)
    dist["exhaustive_cases"] = len(cases)
    # clone_from onto destinations shorter and longer than the source, after pushes of 0..6 elements
    for e in ELEMS[:6]:
        for npush in range(0, 7):
            for cf in CLONE_FROM:
                cases.append(line(e, [[0, 10 + i] for i in range(npush)] + [cf, [8], [0, 77], [8]]))
    opk = {}
    for k in range(nrand):
        e = ELEMS[k % len(ELEMS)]
        c = random_script(rng, maxlen, e)
        cases.append(c)
        for op in c.split("|")[1].split(";"):
            t = op.split()[0]
            opk[t] = opk.get(t, 0) + 1
    dist["random_op_kinds"] = opk
    # the same histories on a vector whose stored functions are FOREIGN ('11 <elem> 1 | ..': recording wrappers installed through the published
    # five-field layout): growth only through reserve_fn, release through exactly one drop_fn(data, len, capacity) call with the vector's own values
    r2 = rng.fork("foreign")
    nfor = {"quick": 400, "search": 600}.get(tier, 5000)
    for k in range(nfor):
        c = random_script(r2, maxlen, ELEMS[k % len(ELEMS)])
        cases.append(c.replace(" | ", " 1 | ", 1))
    dist["foreign_function_histories"] = nfor
    return cases, dist


def nontrivial(l):
    ops = [o.split() for o in l.split("|")[1].split(";")]
    return len(ops) >= 3 and any(o[0] in ("2", "3", "0", "4") for o in ops)


def neighbours(l, rng):
    import vlib
    hdr, ops = vlib.parse_case(l)
    out = []
    for e in ELEMS:
        out.append(line(e, ops))
    for k in range(len(ops)):
        out.append(line(hdr[1], ops[:k] + ops[k + 1:]))
    return out


def known_match(kf, l, fails):
    return False
