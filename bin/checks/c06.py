"""C06 — every owned value is destroyed exactly once, with nothing leaked.
 '106 | op ; op ..'  lifecycle history over a pool of opaque objects sharing one reference-counted context (see harness/prog/src/life.rs for the op codes);
     per op: result row and [context count above baseline; live instances; ids whose destructor ran].  The Coq model coq/model/Life.v predicts every row.
 '206 | 0'  compile-time probe: `trait_obj!(&mut x as Fin)` followed by the by-value call `fin(self)` must be REJECTED by the compiler (only owning instances
     implement `IntoInner`); if it compiles it is run, and the report carries what it did to the borrowed value.
 '108 ..' casts (failed casts destroy the group; successful ones keep the instance).
 '21 <elem> | op ; ..'  the runtime boxes themselves: CBox<T> (from a value, a Box, a (value, NoContext) pair) and CSliceBox<T> (from Box<[T]>, empty ones and
     zero-sized elements included): read, write, into_opaque, into_inner, drop; per op the result row and the values whose destructor ran (coq/model/Boxed.v)."""
PROP = "C06"
PROP_V = "props/C06.v"
RULE = ("random lifecycle histories (<=25 ops, a 8% ill-targeted stream) over {create node/clone-able/group, call, owned child, consuming child, consuming "
        "plain, clone, cast ok/failing, upcast, drop} + fixed ones; all cast cells; random histories over CBox/CSliceBox of four element types (heap-owning, zero-sized, "
        "8-byte, 3-byte; empty slices; out-of-range writes; a 8% ill-targeted stream); non-trivial = more than 8 tokens; distinct by text")
TRUSTED = [
    "hand-written generator model coq/model/{Glue,Group,Life}.v of cglue-gen; tied on every run by abstracting REAL expansions (cglue-gen called as a library, output parsed with syn) to the integer rows the model predicts, and by compiled programs using the real macros",
    "the abstraction harness/gen (statement shapes it does not recognise are encoded as 9/99, i.e. show up as disagreements, never guessed) and the program harness/prog",
    "rustc's own dispatch of <T as Trait>::m, Deref, and the From impls of the runtime wrapper types (C12)",
    "hand-written model coq/model/Boxed.v of cglue/src/boxed.rs (CBox, CSliceBox: the values a box owns; Box::leak / Box::from_raw as moves), tied by running it and the real types on the same histories in harness/rt (tracking allocator, drop-logging element types)",
]
ASSUMPTIONS = ["rustc code generation", "grammar = the shapes listed in coq/model/Glue.v (plus a trait type parameter `T: Copy + 'static` written for leaf 2; Pin receivers, several type parameters, wrapped associated returns are covered by the compiled programs only)"]
import os
import vlib
from checks import gencommon as G

HARNESS = "gen"
SHRINK = True


def build_harness(tier):
    return G.build(tier)


def run_impl(lines):
    # '206 |': the compile-time probe (a by-reference object must reject by-value calls); everything else goes to the harnesses
    rest = [l for l in lines if not l.startswith("206 ")]
    out = iter(G.run_impl(rest)) if rest else iter([])
    probe = None
    res = []
    for l in lines:
        if l.startswith("206 "):
            probe = probe or G.byref_consume_probe()
            res.append(probe)
        else:
            res.append(next(out))
    return res


def model_line(l):
    return "0 |" if l.startswith(("101 ", "206 ")) else G.life_model_line(l)


def compare(l, impl_rows, model_rows):
    if l.startswith(("101 ", "206 ")):
        return True          # behavioural direct-vs-opaque runs: decided by the implementation-side monitor alone
    return impl_rows == model_rows


def nontrivial(l):
    return len(l.split()) > 8


def known_match(kf, l, fails):
    return False


def gen_cases(rng, tier):
    a, d1 = G.life_cases(rng, tier, with_borrowed=False)
    b, d2 = G.cast_cases(rng, tier)
    c, d3 = G.box_cases(rng.fork("box"), tier)
    d1.update(d2)
    d1.update(d3)
    d1["by_reference_consuming_probe"] = 1
    return ["206 | 0"] + a + b + c, d1
