"""C19 — a waker crossing the boundary wakes the original and is released once.
Case format: '19 | op ; op ..'.  A future wrapped with trait_obj!(.. as Future) is polled by the driver with a counting
Arc-based waker; inside its poll it executes the script: '0' clone the Context's waker into a pool (slot ids = creation order),
'1' wake_by_ref the Context's waker, '2 h' clone pool[h], '3 h' wake pool[h] (by value), '4 h' wake_by_ref pool[h], '5 h' drop
pool[h], '6' return Pending, '7' the executor drops its own waker (only retained wakers are used afterwards).  Ops 2..5 that are not between an in-poll op and a '6' run after the poll returned (retained wakers).
After the script every remaining pool slot is dropped in order.
Output per op: result row [code ok new-slot] and observation row [times the caller's waker was woken; clones of the caller's
waker currently held = Arc::strong_count - baseline].
The caller's waker counts its references by hand (raw vtable), so a wake or release on a reference that is no longer alive is seen.
Monitor: no wake and no release while no reference is alive; wakes == number of successful wake ops; zero clones held after all foreign wakers are gone; the caller's Arc count is
back to its baseline; allocator (no double free, no leak).
'119 <threads> | history': the history runs as above; then every thread receives a clone of each retained waker and replays, concurrently with the others, the
clone / wake / wake_by_ref / drop operations of the history on its own copies and releases what it still holds; output: the final observation row only, compared
with the model's final observation on one linearisation of the same operations (see model_line)."""
PROP = "C19"
PROP_V = "props/C19.v"
HARNESS = "rt"
RULE = ("histories over {clone-in-poll, wake_by_ref-in-poll, clone h, wake h, wake_by_ref h, drop h, end-poll} with h<3: exhaustive up to "
        "length 5 (quick) / 7 (thorough) restricted to scripts starting with a clone-in-poll, plus random long ones biased to live handles "
        "(10% ill-targeted stream); non-trivial = at least one foreign clone (op 2) and one wake or drop; distinct by text")
TRUSTED = [
    "hand-written model coq/model/Waker.v of cglue/src/task/mod.rs (shared CRawWaker records behind BaseArc, foreign handles, caller-side clone count); tied by differential execution through a real trait_obj!(.. as Future)",
    "tarc::BaseArc (count atomicity, drop at zero), core::task::Waker vtable dispatch",
    "harness/rt: counting Arc<impl Wake> as the caller's waker",
]
ASSUMPTIONS = ["memory-model effects of cross-thread wakes are not modelled: the threaded runs (case id 119) compare final counts only, against one linearisation"]


def line(ops):
    return "19 | " + " ; ".join(" ".join(map(str, o)) for o in ops)


def exhaustive(maxlen):
    alpha = [[0], [1], [6]] + [[c, h] for c in (2, 3, 4, 5) for h in (0, 1, 2)]
    out = []

    def rec(prefix):
        if prefix:
            out.append(line(prefix))
        if len(prefix) < maxlen:
            for a in alpha:
                rec(prefix + [a])
    rec([[0]])
    return out


def random_script(rng, maxlen):
    ops = [[0]]
    live = [0]
    n = 1
    for _ in range(rng.range(1, maxlen)):
        r = rng.below(100)
        if r < 12 or not live:
            ops.append([0]); live.append(n); n += 1
        elif r < 20:
            ops.append([1])
        elif r < 28:
            ops.append([6])
        elif r < 38:
            ops.append([rng.choice([2, 3, 4, 5]), rng.range(0, n + 1)])
        else:
            h = rng.choice(live)
            c = rng.choice([2, 2, 3, 4, 4, 5])
            ops.append([c, h])
            if c == 2:
                live.append(n); n += 1
            elif c in (3, 5):
                live.remove(h)
    if rng.chance(1, 2):
        # the executor lets go of its own waker ('7'): afterwards only retained wakers are used — their clones hold the last references
        ops.append([6]); ops.append([7])
        for _ in range(rng.range(0, 8)):
            if not live:
                break
            h = rng.choice(live)
            c = rng.choice([2, 3, 3, 4, 5])
            ops.append([c, h])
            if c == 2:
                live.append(n); n += 1
            elif c in (3, 5):
                live.remove(h)
    return line(ops)


def build_harness(tier):
    from checks import gencommon as G
    return G.build(tier)


def run_impl(lines):
    from checks import gencommon as G
    return G.run_impl(lines)


def gen_cases(rng, tier):
    if tier == "quick":
        ex, nrand, maxlen = 4, 2000, 40
    elif tier == "search":
        ex, nrand, maxlen = 3, 6000, 60
    else:
        ex, nrand, maxlen = 6, 30000, 300
    cases = exhaustive(ex)
    d = {"exhaustive_len": ex + 1, "exhaustive_cases": len(cases), "random": nrand, "random_maxlen": maxlen}
    for _ in range(nrand):
        cases.append(random_script(rng, maxlen))
    # the same histories for a caller whose RawWaker carries a null data pointer ('19 1 | ..')
    nd = [c.replace("19 |", "19 1 |", 1) for c in cases[::3] if c.startswith("19 |")]
    d["null_data_waker_cases"] = len(nd)
    # ... and for a caller whose clone returns a DISTINCT waker, one record per clone ('19 2 | ..')
    dc = [c.replace("19 |", "19 2 |", 1) for c in cases[1::3] if c.startswith("19 |")]
    d["distinct_clone_waker_cases"] = len(dc)
    cases += nd + dc
    # operations issued from other threads on wakers retained after the poll returned
    nthr = {"quick": 250, "search": 300}.get(tier, 3000)
    r2 = rng.fork("threads")
    for k in range(nthr):
        body = random_script(r2, 25 if tier == "quick" else 60).split("|", 1)[1].strip()
        cases.append("119 %d | %s" % (r2.choice([2, 3, 4, 8]), body))
    d["threaded_histories"] = nthr
    # the library's own Future/Stream/Sink objects polled through opaque objects by a caller whose waker counts wakes, clones and releases; the
    # implementor wakes through the borrowed waker, through clones and clones of clones ('105 <container> | polls', harness/prog/src/ext.rs)
    from checks import gencommon as G
    x, dx = G.ext_cases(rng.fork("ext"), tier)
    d.update(dx)
    return cases + x, d


def _sim(ops):
    """liveness of the pool slots after a history (ops 0 and 2 add a slot, 3 and 5 kill one)"""
    live = []
    for o in ops:
        c = o[0]
        h = o[1] if len(o) > 1 else -1
        ok = 0 <= h < len(live) and live[h]
        if c == 0:
            live.append(True)
        elif c == 2 and ok:
            live.append(True)
        elif c in (3, 5) and ok:
            live[h] = False
    return live


def model_line(l):
    """'119 T | H': the model is run on ONE linearisation — H, then for every thread: a clone of every retained waker, the thread's part of the
    script (the clone/wake/wake_by_ref/drop operations of H, slot numbers translated to the thread's copies) and the release of what it still holds;
    wake counts and clone counts are sums, so the final observation is the same for every interleaving"""
    if l.startswith("105 "):
        return "0 |"
    if l.startswith("19 "):
        # '19 1 | H' / '19 2 | H': the caller's RawWaker has a NULL data pointer / its clone returns a distinct waker — none of the model's business
        return "19 |" + l.split("|", 1)[1]
    if not l.startswith("119 "):
        return l
    hdr, body = l.split("|", 1)
    T = int(hdr.split()[1])
    ops = [[int(x) for x in o.split()] for o in body.split(";") if o.strip()]
    snap = _sim(ops)
    n = len(snap)
    out = [list(o) for o in ops]
    script = [o for o in ops if o[0] in (2, 3, 4, 5)]
    for _ in range(T):
        tl, mp = [], []
        for i, lv in enumerate(snap):
            tl.append(lv)
            if lv:
                out.append([2, i]); mp.append(n); n += 1
            else:
                mp.append(i)
        for c, h in script:
            if not (0 <= h < len(tl) and tl[h]):
                continue
            out.append([c, mp[h]])
            if c == 2:
                tl.append(True); mp.append(n); n += 1
            elif c in (3, 5):
                tl[h] = False
        for h, lv in enumerate(tl):
            if lv:
                out.append([5, mp[h]])
    return line(out)


def compare(l, impl_rows, model_rows):
    if l.startswith("105 "):
        return True          # decided by the implementation-side monitor (direct vs opaque: results, wakes per poll, clones released)
    if not l.startswith("119 "):
        return impl_rows == model_rows
    return impl_rows.strip() == model_rows.split(";")[-1].strip()


def nontrivial(l):
    ops = [o.split()[0] for o in l.split("|")[1].split(";")]
    return "2" in ops and any(o in ("3", "4", "5") for o in ops)


def known_match(kf, l, fails):
    return False
