"""C01 — calls through an opaque object behave exactly like direct calls.
Case lines:
 '1 <trait int_result> | method ; method ..'  a trait of the grammar: method = recv(0 &self/1 &mut self/2 self) intmode(0/1 #[int_result]/2 #[no_int_result])
     ret-shape ret-leaf nargs (arg-shape arg-leaf)*  — rendered as Rust source, expanded by the REAL cglue_gen::traits::gen_trait, parsed back and
     abstracted to glue-IR rows (slot position, C signature, Default-vtable wiring, wrapper target/conversions, trait-impl slot fetch/conversions);
     the Coq function gen_trait must predict exactly these rows.
 '101 <half> <container> | call ; call ..'  compiled program: the same call history on a value directly and through an opaque object
     (container 0 Box / 1 &mut / 2 & / 3 Box + CArc context / 4 CArcSome / 5 clone of a shared CArcSome + CArc context) built from an identical value; see harness/prog/src/shapes.rs for the call codes.
 '102 <container> | call ; ..'  the same for traits with TYPE and LIFETIME parameters: one implementor of Store<u32>, Store<u64>, Store<Pod> and Named<'a, u32>, an opaque
     object per instantiation (harness/prog/src/generic.rs).
 '105 <container> | call ; ..'  the traits the library itself makes CGlue-compatible (cglue::ext, built with the `futures` feature): Stream, Sink, Debug, Display, AsRef —
     one stateful implementor, an opaque object per trait (harness/prog/src/ext.rs).
 '201 <ti> <generic> | methods'  the impl the REAL #[cglue_forward] generator emits for Fwd<O>, abstracted per method (present, same-named target, arguments passed
     through in order, result returned) and compared with coq/model/Glue.v gen_forward (theorem C01_forward).
 '104 <handle> | call ; ..'  #[cglue_forward]: the generated impl for Fwd<O> — Fwd(&mut T), Fwd(Box<T>), and opaque objects whose instance is a Fwd(&mut T)
     (harness/prog/src/fwd.rs).
 '107 <container> <tag> | call ; ..'  by-reference calls followed by a CONSUMING call (boxed object, boxed with context, group, cast!, into!): what the method saw of its
     own value (destructor not yet run, one live value), destructor once afterwards (harness/prog/src/consume.rs).
 '111 <container> | call ; ..'  WRAPPED ASSOCIATED TYPES: a bank hands out its cells as borrowed / mutably borrowed / owned children, single-trait and group objects; which
     cell a call returns depends on its argument and on the bank's state, so every call through a child must reach THAT child (harness/prog/src/assoc.rs).
 '109 <container> | 0'  a group whose optional traits have acronym-style names and identical method lists: every view reaches the requested trait's method (harness/prog/src/acro.rs).
 '108 <enabled> <container> | castop request ; ..'  group casts followed by calls (see C08).
Monitor: results, argument digests seen by the implementation, final state, call log (same method, same instance, once) agree."""
PROP = "C01"
PROP_V = "props/C01.v"
RULE = ("structural: ALL single-method traits of the grammar (3 receivers x 3 int modes x 2 trait modes x 13 return shapes x 17 argument lists) + random "
        "multi-method traits; behavioural: fixed all-shapes histories on every container kind + random call histories; casts: all 8x7x5x3 cells; "
        "non-trivial = more than 8 tokens; distinct by text")
TRUSTED = [
    "hand-written generator model coq/model/{Glue,Group,Life}.v of cglue-gen; tied on every run by abstracting REAL expansions (cglue-gen called as a library, output parsed with syn) to the integer rows the model predicts, and by compiled programs using the real macros",
    "the abstraction harness/gen (statement shapes it does not recognise are encoded as 9/99, i.e. show up as disagreements, never guessed) and the program harness/prog",
    "rustc's own dispatch of <T as Trait>::m, Deref, and the From impls of the runtime wrapper types (C12)",
]
ASSUMPTIONS = ["rustc code generation", "grammar = the shapes listed in coq/model/Glue.v (plus a trait type parameter `T: Copy + 'static` written for leaf 2; Pin receivers, several type parameters, wrapped associated returns are covered by the compiled programs only)"]
import os
import vlib
from checks import gencommon as G

HARNESS = "gen"
SHRINK = True


def build_harness(tier):
    return G.build(tier)


def run_impl(lines):
    return G.run_impl(lines)


def model_line(l):
    return "0 |" if l.startswith(("101 ", "102 ", "104 ", "105 ", "107 ", "109 ", "111 ")) else l


def compare(l, impl_rows, model_rows):
    if l.startswith(("101 ", "102 ", "104 ", "105 ", "107 ", "109 ", "111 ")):
        return True          # behavioural direct-vs-opaque runs: decided by the implementation-side monitor alone
    return impl_rows == model_rows


def nontrivial(l):
    return len(l.split()) > 8


def known_match(kf, l, fails):
    """F-C01-alias: a history that keeps two borrowed children of one `&self` method in use at once, and the only failure is that the first one reaches the second one's cell"""
    if kf.get("id") != "F-C01-alias" or not l.startswith("111 "):
        return False
    ops = [o.split() for o in l.split("|", 1)[1].split(";")]
    uses = any(len(o) == 3 and o[0] == "9" and o[1] != o[2] for o in ops)
    return uses and bool(fails) and all("two_children_of_one_&self_method_in_use_at_once" in f for f in fails)


def gen_cases(rng, tier):
    a, d1 = G.ir_cases(rng, tier)
    b, d2 = G.shapes_cases(rng, tier)
    c, d3 = G.cast_cases(rng, tier)
    e, d4 = G.generic_cases(rng.fork("generic"), tier)
    f, d5 = G.fwd_cases(rng.fork("fwd"), tier)
    x, dx = G.ext_cases(rng.fork("ext"), tier)
    f = f + x
    d5.update(dx)
    y, dy = G.consume_cases(rng.fork("consume"), tier)
    f = f + y + ["109 %d | 0" % k for k in (0, 1, 2)]
    d5.update(dy)
    z, dz = G.assoc_cases(rng.fork("assoc"), tier)
    f = f + z
    d5.update(dz)
    g, d6 = G.fwd_ir_cases(rng.fork("fwdir"), tier)
    e = e + f + g
    d4.update(d5); d4.update(d6)
    d1.update(d2); d1.update(d3); d1.update(d4)
    return a + b + c + e, d1


def monitor(l, impl_rows, kv):
    return G.ir_monitor(l, impl_rows)
