"""C16 — runtime types keep the C layout published in the headers.
Case format: '16 <kind> <elem> | rows'.  A C program (harness/c16/driver.c) that contains ONLY hand-written C declarations of the
published layouts drives real values created by a Rust static library built from /repo/cglue:
 kind 1 box     rows 'v'                 release through {instance, drop_fn}                          -> destructors that ran
 kind 2 arc     ops of C10 {0 m v | 1 m v | 5 | 6 h | 12 h}: clone / release through {instance, clone_fn, drop_fn} -> as C10
 kind 3 vec     ops of C11 {0 x | 1 | 4 n | 8}: grow through reserve_fn, write cells, release through drop_fn        -> as C11
 kind 4 cb      rows 'stop item..'       invoke {context, func} per item until false                 -> count ; delivered ; not offered
 kind 5 iter    rows 'n script..'        advance {iter, func} n times (0 = item written)             -> '1 v' / '0 0' per call
 kind 6 slice   rows 'n seed i w'        read {data, len}; write w at i through the mutable view     -> len, contents
 kind 7 tags    rows 'k v'               COption/CResult written by Rust, read through {tag, payload}
 kind 9 cb(C)  rows 'stop item..'       a callback BUILT BY C {context, func}, fed by Rust (feed_into)       -> count ; delivered ; not offered
 kind 10 it(C) rows 'n script..'        an iterator BUILT BY C {iter, func: 0 = item}, advanced by Rust       -> '1 v' / '0 0' per call
 kind 11 arc(C) row 'v n'               an arc BUILT BY C as a handle table (clone_fn returns a DISTINCT handle), cloned n times / read / released by Rust -> sum ; clone_fn runs ; drop_fn runs
 kind 12 vec(C) row 'init n base'        a vector BUILT BY C (malloc'ed buffer, moving reserve_fn, recording drop_fn), pushed to n times and released by Rust -> length ; length handed to drop_fn ; drop_fn runs
 kind 14 slice_rev row 'n base'          slices {data, len} BUILT BY C (the empty one as {NULL, 0} or {pointer, 0}), read and written by Rust -> checksum ; length seen ; elements written ; checksum afterwards
 kind 13 sbox   row 'n base'             boxed slices {instance: {data, len}, drop_fn}: one BUILT BY C read and released by Rust, one built by Rust read and released by C -> checksum ; drop_fn runs ; checksum
 kind 8 sizes   sizeof/_Alignof of the C declarations vs size_of/align_of of the Rust types
elem: 0 = 1 byte, 1 = 8 bytes (heap-owning token in vec, u64 elsewhere), 4 = 3-byte struct, 5 = 16-byte struct aligned to 16."""
import os
import vlib

PROP = "C16"
PROP_V = "props/C16.v"
HARNESS = "c16"
SHRINK = True
RULE = ("every runtime wrapper type x element types {1/1, 8/8, 3/1, 16/16} x the operations a C caller performs (release, clone, read, grow, "
        "invoke, advance, tag read), scripts exhaustive up to a small bound plus random ones; debug build in the quick tier, debug+release in the "
        "thorough tier; non-trivial = at least 2 rows; distinct by text")
TRUSTED = [
    "translator translators/rtstructs.py (+ xlate): regenerates the Rust struct/enum declarations, the C++ patterns and C snippets of cglue-bindgen and the pre-generated header structs from /repo on every run",
    "hand-written C declarations in harness/c16/driver.c (they ARE the published layout being tested) and the Rust static library harness/c16",
    "gcc's struct layout = the platform ABI (x86-64 SysV) that coq/model/Layout.v encodes",
    "models coq/model/{Arc,Vec,Callback}.v (shared with C10/C11/C15) and coq/model/CView.v",
]
ASSUMPTIONS = ["x86-64 SysV ABI", "gcc 12 front end"]

_build_release = False


def pre():
    import sys
    sys.path.insert(0, os.path.join(vlib.VERIF, "translators"))
    import rtstructs
    from srcdump import TranslateError
    try:
        rtstructs.generate()
        return []
    except TranslateError as e:
        return ["translator cannot express the current source: %s" % e]


def build_harness(tier):
    release = (tier == "thorough")
    lib, err, dt = vlib.build_harness_dir(os.path.join(vlib.VERIF, "harness", "c16"), "libc16rt.a", release=release)
    if lib is None:
        return None, err, dt
    lib = os.path.join(vlib.ENV["CARGO_TARGET_DIR"], "release" if release else "debug", "libc16rt.a")
    exe = os.path.join(vlib.CACHE, "c16driver" + ("_rel" if release else ""))
    rc, o, e, dt2 = vlib.sh("gcc -std=c11 %s -Wno-misleading-indentation %s %s -lpthread -ldl -lm -o %s" % (
        "-O2" if release else "-O0", os.path.join(vlib.VERIF, "harness", "c16", "driver.c"), lib, exe), timeout=300)
    if rc != 0:
        return None, "C driver does not build: " + e[-800:], dt + dt2
    return exe, "", dt + dt2


def model_line(l):
    hdr, ops = vlib.parse_case(l)
    kind, elem = hdr[1], hdr[2]
    if kind == 2:
        return vlib.case_line([10], ops)
    if kind == 3:
        return vlib.case_line([11, elem], ops)
    if kind == 4:
        return vlib.case_line([15], [[0, 0, r[0], 3] + r[1:] for r in ops])
    if kind == 5 or kind == 10:
        return vlib.case_line([15], [[1, r[0]] + [0] * r[0] + r[1:] for r in ops])
    if kind == 14:      # slices built by C: the contents are those of the C11 model's vector built from the same items (one row per slice)
        rows = []
        for r in ops:
            n, base = (r[0] % 512 if r else 0), (r[1] if len(r) > 1 else 1)
            rows += [[7, 0] + [base + i for i in range(n)], [8]]
        return vlib.case_line([11, 1], rows) if rows else "11 1 |"
    if kind == 13:      # boxed slices: the contents are those of the C11 model's vector built from the same items
        if not ops or not ops[0]:
            return "11 1 |"
        n, base = ops[0][0] % 512, (ops[0][1] if len(ops[0]) > 1 else 1)
        return vlib.case_line([11, 1], [[7, 0] + [base + i for i in range(n)], [8]])
    if kind == 12:      # a vector built by C with `init` items, Rust pushes n more: the C11 model gives the length that drop_fn must be handed
        if not ops or not ops[0]:
            return "11 1 |"
        init, n, base = ops[0][0] % 64, (ops[0][1] if len(ops[0]) > 1 else 0) % 2000, (ops[0][2] if len(ops[0]) > 2 else 1)
        return vlib.case_line([11, 1], [[7, 0] + [1000 + i for i in range(init)]] + [[0, base + i] for i in range(n)] + [[8]])
    if kind == 11:      # an arc built by C: one creation in module 1, n clones (each of the latest handle), then every handle released (calls view of C10)
        if not ops or not ops[0]:
            return "210 |"
        v, n = ops[0][0], max(0, min(2000, ops[0][1] if len(ops[0]) > 1 else 0))
        return vlib.case_line([210], [[0, 1, v]] + [[6, i] for i in range(n)])
    if kind == 9:       # a callback built by C, fed by Rust's FeedCallback::feed_into (method 2 of the feed model)
        return vlib.case_line([15], [[0, 0, r[0], 2] + r[1:] for r in ops])
    return l


def compare(l, impl_rows, model_rows):
    hdr, ops0 = vlib.parse_case(l)
    if hdr[1] == 14:
        def ck(items):
            c = 0
            for x in items:
                c = (c * 31 + x) % (1 << 64)
            return c - (1 << 64) if c >= (1 << 63) else c
        try:
            mr = [[int(x) for x in r.split()] for r in (model_rows or "").split(" ; ") if r.strip()]
            reads = [r[3:] for r in mr if r and r[0] == 8]
            want = []
            for r, items in zip(ops0, reads):
                base = r[1] if len(r) > 1 else 1
                want.append("%d %d %d %d" % (ck(items), len(items), len(items), ck([(base ^ 0x55) + i for i in range(len(items))])))
        except Exception:
            return False
        return [x.strip() for x in impl_rows.split(";")] == want
    if hdr[1] == 13:
        try:
            mr = [[int(x) for x in r.split()] for r in (model_rows or "").split(" ; ") if r.strip()]
            items = [r for r in mr if r and r[0] == 8][-1][3:]
            ck = 0
            for x in items:
                ck = (ck * 31 + x) % (1 << 64)
            ck = ck - (1 << 64) if ck >= (1 << 63) else ck
        except Exception:
            return impl_rows.strip() == ""
        return impl_rows.strip() == "%d 1 %d" % (ck, ck)
    if hdr[1] == 12:
        try:
            mr = [[int(x) for x in r.split()] for r in (model_rows or "").split(" ; ") if r.strip()]
            ln = [r for r in mr if r and r[0] == 8][-1][1]
        except Exception:
            return impl_rows.strip() == ""
        return impl_rows.strip() == "%d %d 1" % (ln, ln)
    if hdr[1] == 11:
        # model rows alternate [result] ; [runs of module 1's clone fn, runs of its drop fn]: their totals, and the value read through n+1 handles
        try:
            mr = [[int(x) for x in r.split()] for r in (model_rows or "").split(" ; ")]
            calls = mr[1::2]
            if not ops0 or not ops0[0]:
                return impl_rows.strip() == ""
            v, n = ops0[0][0], max(0, min(2000, ops0[0][1] if len(ops0[0]) > 1 else 0))
            want = "%d %d %d" % ((n + 1) * v, sum(c[0] for c in calls), sum(c[1] for c in calls))
        except Exception:
            return False
        return impl_rows.strip() == want
    if hdr[1] == 3 and hdr[2] != 1 and model_rows is not None:
        rows = model_rows.split(" ; ") if model_rows else []
        rows = [r if i % 2 == 0 else "" for i, r in enumerate(rows)]   # plain element types have no destructor to observe
        model_rows = vlib.norm_rows(" ; ".join(rows))
    return impl_rows == model_rows


def vmax(elem):
    return 255 if elem == 0 else (2 ** 24 - 1 if elem == 4 else 10 ** 9)


def gen_cases(rng, tier):
    cases = []
    n = 60 if tier == "quick" else 1500
    cases.append("16 8 0 | 0")
    cases.append("16 1 0 | " + " ; ".join(str(v) for v in (0, 1, -5, 2 ** 40, 77)))
    for k in (0, 1):
        for v in (0, 1, 255, 256, 2 ** 24 + 5, -1, 2 ** 40 + 3):
            cases.append("16 7 0 | %d %d" % (k, v))
    for elem in (0, 1, 4, 5):
        for nn in range(0, 6):
            for i in range(0, nn + 1):
                cases.append("16 6 %d | %d %d %d %d" % (elem, nn, 10 * nn, i, 7 + i))
        for stop in range(0, 5):
            for nn in range(0, 5):
                items = [rng.range(0, vmax(elem)) for _ in range(nn)]
                cases.append("16 4 %d | %s" % (elem, " ".join(map(str, [stop] + items))))
                cases.append("16 9 %d | %s" % (elem, " ".join(map(str, [stop] + items))))      # the reverse direction: the callback is built by C
        for sc in ([], [5], [5, 6, 7], [5, -1, 6], [-1, 5]):
            for nops in range(1, 6):
                cases.append("16 5 %d | %s" % (elem, " ".join(map(str, [nops] + sc))))
                cases.append("16 10 %d | %s" % (elem, " ".join(map(str, [nops] + sc))))        # the reverse direction: the iterator is built by C
    for nn in list(range(0, 9)) + [17, 64]:
        cases.append("16 11 0 | %d %d" % (rng.range(1, 10 ** 6), nn))
        cases.append("16 13 0 | %d %d" % (nn, rng.range(1, 10 ** 6)))
        cases.append("16 14 0 | %d %d" % (nn, rng.range(1, 10 ** 6)))
        if nn == 0:     # the empty slice both ways a C caller writes it: {NULL, 0} (odd) and {some pointer, 0} (even)
            cases += ["16 14 0 | 0 1", "16 14 0 | 0 2", "16 14 0 | 0 7 ; 3 5 ; 0 9"]
        for init in (0, 1, 4, 7):
            cases.append("16 12 0 | %d %d %d" % (init, nn, rng.range(1, 10 ** 6)))
    for _ in range(n):
        elem = rng.choice([0, 1, 4, 5])
        # vec scripts
        ops, ln = [], 0
        for _ in range(rng.range(1, 40)):
            r = rng.below(10)
            if r < 5:
                ops.append([0, rng.range(0, vmax(elem))]); ln += 1
            elif r < 7:
                ops.append([1]); ln = max(0, ln - 1)
            elif r < 8:
                ops.append([4, rng.choice([0, 1, 3, 17])])
            else:
                ops.append([8])
        ops.append([8])
        cases.append(vlib.case_line([16, 3, elem], ops))
        # arc scripts
        ops, slots = [], 0
        for _ in range(rng.range(1, 25)):
            r = rng.below(10)
            if r < 3 or slots == 0:
                c = rng.choice([0, 1, 5])
                ops.append([5] if c == 5 else [c, 1, rng.range(1, 999)]); slots += 1
            elif r < 7:
                ops.append([6, rng.range(0, slots - 1)]); slots += 1
            else:
                ops.append([12, rng.range(0, slots)])
        cases.append(vlib.case_line([16, 2, 0], ops))
    return cases, {"lines": len(cases), "random_vec_and_arc_scripts": 2 * n}


def nontrivial(l):
    return l.count(";") >= 1 or len(l.split()) > 6


def known_match(kf, l, fails):
    return False
