"""C03 — everything crossing the boundary is FFI-safe by the compiler's own rules.
 '1 ..'    glue-IR rows of REAL expansions vs the generator model (extern "C", C parameter/return types per slot, #[repr(C)] on the vtable).
 '103 <trait int_result> | method ; ..'  the REAL expansion of the encoded trait is re-compiled in a crate with
           #![deny(improper_ctypes_definitions, improper_ctypes)] (rustc's lints are silent on proc-macro output but fire on the re-compiled
           expansion); output 1 = rustc accepts every signature, 0 = an FFI lint fired.  The Coq predicate ffi_safe must give the same verdict —
           on well-formed traits (accept) and on traits outside the grammar (CResult with an error type without C repr: reject).
 '203 <k> |' the k-th C-compatible type the library ships (gencommon.RT_TYPES: runtime wrappers instantiated, generated object/group types, the library's
           own Future/Stream/Sink/Clone/Debug objects; features task + futures) declared as a foreign-function parameter under #![deny(improper_ctypes)]:
           rustc judges the type recursively through its fields.
Monitor: a well-formed trait on which rustc's lint fires is a violation; the runtime struct declarations (regenerated from source) must all
carry a C repr (theorem C03_runtime over gen/RtStructs_Src.v)."""
import os
import vlib
from checks import gencommon as G

PROP = "C03"
PROP_V = "props/C03.v"
HARNESS = "gen"
SHRINK = False
RULE = ("all single-method traits of the grammar (structural rows); traits packing every argument shape x receiver and every return shape x receiver x "
        "int_result mode re-compiled under rustc's FFI lints, plus the non-representable side and random multi-method traits; non-trivial = more than 8 tokens")
TRUSTED = [
    "rustc 1.95 improper_ctypes / improper_ctypes_definitions lints as the oracle for FFI-safety",
    "hand-written predicate ffi_safe (coq/model/Glue.v) for the C types that can occur; validated against rustc in both directions on every run",
    "translator translators/rtstructs.py for the runtime struct declarations; generator model tied structurally (see C01)",
]
ASSUMPTIONS = ["leaf types are the primitive / #[repr(C)] leaves of the grammar"]


def pre():
    import sys
    sys.path.insert(0, os.path.join(vlib.VERIF, "translators"))
    import rtstructs
    from srcdump import TranslateError
    try:
        rtstructs.generate()
        return []
    except TranslateError as e:
        return ["translator cannot express the current source: %s" % e]


def build_harness(tier):
    return G.build(tier)


def run_impl(lines):
    return G.run_impl(lines)


def model_line(l):
    return "0 |" if l.startswith("203 ") else l


def compare(l, impl_rows, model_rows):
    return True if l.startswith("203 ") else impl_rows == model_rows


def nontrivial(l):
    return len(l.split()) > 8


def gen_cases(rng, tier):
    a, d1 = G.ir_cases(rng, "quick")
    b, d2 = G.lint_cases(rng, tier)
    d1.update(d2)
    c = ["203 %d |" % k for k in range(len(G.RT_TYPES))]
    d1["runtime_wrapper_types_judged_by_rustc"] = len(c)
    return a + b + c, d1


def monitor(l, impl_rows, kv):
    if l.startswith("1 "):
        return [f for f in G.ir_monitor(l, impl_rows) if "repr(C)" in f or "extern" in f or "C-representable" in f]
    if l.startswith("103 "):
        hdr, methods = vlib.parse_case(l)
        wf = all(G.wf(hdr[1], m[1], m[2]) for m in methods)
        if wf and impl_rows.strip() == "0":
            return ["rustc's FFI lint fires on the vtable of a trait that uses only C-representable leaves and the documented auto-wrapped shapes"]
    if l.startswith("203 "):
        k = int(l.split()[1])
        if impl_rows.strip() == "0":
            return ["rustc's FFI lint fires on the runtime type %s declared as a foreign-function parameter (features task + futures): it has no defined C representation" % G.RT_TYPES[k % len(G.RT_TYPES)]]
    return []


def known_match(kf, l, fails):
    return False
