"""C07 — the context lives as long as any derived object, and no longer.
 '106 | op ; op ..'  lifecycle history (op codes in harness/prog/src/life.rs): op 3 obtains a BORROWED wrapped child (the known class F-C07);
     ops 13/14 make a consuming call on the object holding the LAST context reference and record whether the context payload is destroyed inside the
     callee's wrapper (it must not be).  Observation row per op: [context count above baseline; live instances; destructor ids]."""
PROP = "C07"
PROP_V = "props/C07.v"
RULE = ("random lifecycle histories incl. borrowed children and last-reference consuming calls + fixed ones; non-trivial = more than 8 tokens; distinct by text")
TRUSTED = [
    "hand-written generator model coq/model/{Glue,Group,Life}.v of cglue-gen; tied on every run by abstracting REAL expansions (cglue-gen called as a library, output parsed with syn) to the integer rows the model predicts, and by compiled programs using the real macros",
    "the abstraction harness/gen (statement shapes it does not recognise are encoded as 9/99, i.e. show up as disagreements, never guessed) and the program harness/prog",
    "rustc's own dispatch of <T as Trait>::m, Deref, and the From impls of the runtime wrapper types (C12)",
]
ASSUMPTIONS = ["rustc code generation", "grammar = the shapes listed in coq/model/Glue.v (plus a trait type parameter `T: Copy + 'static` written for leaf 2; Pin receivers, several type parameters, wrapped associated returns are covered by the compiled programs only)"]
import os
import vlib
from checks import gencommon as G

HARNESS = "gen"
SHRINK = True


def build_harness(tier):
    return G.build(tier)


def run_impl(lines):
    return G.run_impl(lines)


def model_line(l):
    return "0 |" if l.startswith("101 ") else G.life_model_line(l)


def compare(l, impl_rows, model_rows):
    if l.startswith("101 "):
        return True          # behavioural direct-vs-opaque runs: decided by the implementation-side monitor alone
    return impl_rows == model_rows


def nontrivial(l):
    return len(l.split()) > 8


def known_match(kf, l, fails):
    return False


def gen_cases(rng, tier):
    return G.life_cases(rng, tier, with_borrowed=True)


def known_match(kf, l, fails):
    """F-C07: a borrowed wrapped child was obtained in this history and the only failure is the context count"""
    ops = [o.split() for o in l.split("|", 1)[1].split(";")]
    uses = any(o and o[0] == "3" for o in ops)
    # the parked clones also keep the context allocation itself alive: the same finding seen by the allocator
    only_ctx = all(("context_count_is" in f) or f == "model-mismatch" or f.startswith("leak_b") for f in fails) and any("context_count_is" in f for f in fails + ["context_count_is" if fails == ["model-mismatch"] else ""])
    return kf.get("id") == "F-C07" and uses and only_ctx and bool(fails)
