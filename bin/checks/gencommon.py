"""Shared by the generator properties (C01 C02 C03 C04 C06 C07 C08 C13): the three implementation-side programs
 * harness/gen  `ir`  : structural abstraction of REAL single-trait expansions          (model id 1)
 * harness/gen  `grp` : structural abstraction of REAL group expansions + cast macros    (model id 4)
 * harness/prog       : compiled programs using the real macros (scenarios 101 shapes, 106 lifecycle/context, 108 casts)
and generators for their case lines."""
import os
import vlib

_built = {}


def build(tier=None):
    """build both programs against /repo's current tree; returns (ok, err, seconds)"""
    if "r" in _built:
        return _built["r"]
    g, e1, d1 = vlib.build_harness("gen")
    if g is None:
        _built["r"] = (None, e1, d1)
        return _built["r"]
    p, e2, d2 = vlib.build_harness("prog")
    if p is None:
        # the behavioural program uses the generated API as a user crate would: when it no longer COMPILES, that is reported per case (below) while the
        # structural cases still run, so that the report can name the definition and the generated signature that changed
        _built["prog_err"] = e2.split("\n")[0].replace("harness build failed: ", "")[:300]
    _built["gen"], _built["prog"] = g, p
    r, e3, d3 = vlib.build_harness("rt")
    if r is None:
        _built["r"] = (None, e3, d1 + d2 + d3)
        return _built["r"]
    _built["rt"] = r
    _built["r"] = ("ok", "", d1 + d2 + d3)
    return _built["r"]


def run_impl(lines):
    env = dict(vlib.ENV)
    env["CARGO_MANIFEST_DIR"] = os.path.join(vlib.VERIF, "harness", "gen")
    out = [None] * len(lines)
    groups = {"ir": [], "fwd": [], "grp": [], "prog": [], "rt": []}
    lint = []
    rtl = []
    layp = []
    for i, l in enumerate(lines):
        m = int(l.split()[0])
        if m == 103:
            lint.append(i)
            continue
        if m == 203:
            rtl.append(i)
            continue
        if m in (20, 120, 220, 221, 222, 320):
            layp.append(i)
            continue
        groups["ir" if m == 1 else "fwd" if m == 201 else "grp" if m in (4, 204) else "rt" if (10 <= m <= 19 or m in (21, 110, 119, 210)) else "prog"].append(i)
    if layp:
        res = layout_probe([lines[i] for i in layp])
        for j, i in enumerate(layp):
            out[i] = res[j]
    if rtl:
        res = rt_lint_probe([lines[i] for i in rtl])
        for j, i in enumerate(rtl):
            out[i] = res[j]
    if lint:
        res = lint_probe([lines[i] for i in lint])
        for j, i in enumerate(lint):
            out[i] = res[j]
    for k, idxs in groups.items():
        if not idxs:
            continue
        exe = _built["prog"] if k == "prog" else _built["rt"] if k == "rt" else [_built["gen"], k]
        if exe is None:
            for i in idxs:
                out[i] = "!CRASH the behavioural harness (harness/prog: a user crate of the generated API) does not compile against /repo: " + _built.get("prog_err", "")
            continue
        res = vlib.run_lines(exe, [lines[i] for i in idxs], env=env)
        crashed = [j for j, o in enumerate(res) if o is None or o.startswith("!CRASH")]
        if crashed:
            batch_msg = res[crashed[0]] or "!CRASH"
            from concurrent.futures import ThreadPoolExecutor
            with ThreadPoolExecutor(max_workers=vlib.NPROC) as ex:
                one = list(ex.map(lambda j: vlib.run_one(exe, lines[idxs[j]], env=env), crashed))
            for j, o in zip(crashed, one):
                res[j] = o
            if not any(o.startswith("!CRASH") for o in one):
                res[crashed[0]] = batch_msg + " [the process died at this case while running a batch; no case crashes on its own]"
        for j, i in enumerate(idxs):
            out[i] = res[j]
    return out


# ------------------------------------------------------------------------------------------ structural: single traits
def method_row(recv, im, ret, retleaf, args):
    return [recv, im, ret, retleaf, len(args)] + [x for a in args for x in a]


# argument shapes 0-11 as in coq/model/Glue.v, 12 Result<T,u8>, 13 std::result::Result<T,u8>, 14 std::option::Option<T>;
# return shapes 0-12, 13 std::result::Result<T,u8>, 14 std::option::Option<T>
NARG_SHAPES = 15
NRET_SHAPES = 15


def wf(ti, im, ret):
    """the supported grammar: io::Error results only as integer codes, u8 errors only as CResult"""
    im = im & 3
    if ret == 15:                      # AliasRes<T, ()>: only where the trait names the alias, and not under a method-level #[int_result] (which
        return ti == 2 and im != 1     # resets the name to the literal Result)
    is_res = ret in (6, 7, 11, 12, 13)
    active = is_res and (im == 1 or (im == 0 and ti in (1, 2)))
    if ret in (11, 13):
        return not active
    if ret == 12:
        return active
    return True


def ir_cases(rng, tier, only_wf=True):
    cases = []
    leaves = [2, 9] if tier != "thorough" else [0, 2, 3, 6, 7, 9]
    shapes = [[]] + [[(s, 2)] for s in range(NARG_SHAPES)] + [[(4, 9)], [(14, 9)], [(1, 9)], [(0, 9), (5, 9)], [(1, 0), (4, 3)], [(12, 1), (13, 6)], [(14, 0), (5, 2)], [(3, 0), (0, 5), (7, 2)], [(8, 2), (11, 3)], [(6, 3), (6, 0)]]
    for ti in (0, 1):
        for recv in (0, 1, 2):
            for im in (0, 1, 2):
                for ret in range(NRET_SHAPES):
                    if only_wf and not wf(ti, im, ret):
                        continue
                    for args in shapes:
                        for lf in leaves:
                            cases.append("1 %d | %s" % (ti, " ".join(map(str, method_row(recv, im, ret, lf, args)))))
                            # the same method in a trait with a TYPE PARAMETER (header field 3): leaf 2 is written `T` (T: Copy + 'static)
                            if lf == 2 or any(a[1] == 2 for a in args):
                                cases.append("1 %d 1 | %s" % (ti, " ".join(map(str, method_row(recv, im, ret, lf, args)))))
    # #[int_result(AliasRes)] on the trait (header field 2 = 2): the alias is one more spelling of Result, the literal Result keeps its meaning
    for recv in (0, 1, 2):
        for im in (0, 1, 2):
            for ret in (0, 1, 4, 6, 7, 11, 12, 13, 15):
                if wf(2, im, ret):
                    for args in ([], [(0, 2)], [(12, 1), (4, 3)]):
                        cases.append("1 2 | %s" % " ".join(map(str, method_row(recv, im, ret, 2, args))))
    rows = [method_row(0, 0, 15, 2, []), method_row(1, 0, 6, 3, [(0, 2)]), method_row(0, 2, 11, 2, []), method_row(0, 2, 15, 4, []), method_row(1, 1, 7, 0, []), method_row(0, 0, 12, 2, [])]
    cases.append("1 2 | %s" % " ; ".join(" ".join(map(str, r)) for r in rows))
    # LARGE traits (more than two dozen methods), with and without an associated type declared after the methods (header field 4): one slot per method, in
    # declaration order, however the generator walks the items
    for nm in (25, 26, 33, 40):
        for assoc in (0, 1):
            rows = [method_row(k % 2, 0, 1 if k % 3 else 0, 2, [(0, 2)] if k % 2 else []) for k in range(nm)]
            cases.append("1 0 0 %d | %s" % (assoc, " ; ".join(" ".join(map(str, r)) for r in rows)))
    # #[skip_func] methods (receiver field +32) are not exported: no slot, no wrapper, no forwarding method, and the slots after them do not shift;
    # methods declared `extern "C" fn` (receiver field +64) get the same glue as any other (arguments wrapped, entries extern "C")
    for pos in range(3):
        for recv in (0, 1):
            rows = [method_row(0, 0, 1, 2, [(0, 2)]), method_row(1, 0, 0, 0, [(1, 0)]), method_row(0, 0, 4, 3, [(3, 0)])]
            rows[pos][0] = recv + 32
            rows[pos][1] |= 4
            cases.append("1 0 | %s" % " ; ".join(" ".join(map(str, r)) for r in rows))
    cases.append("1 1 | %s" % " ; ".join(" ".join(map(str, r)) for r in [method_row(32, 4, 6, 2, []), method_row(0, 0, 6, 2, []), method_row(33, 4, 0, 0, [(1, 0)]), method_row(1, 0, 7, 0, [(4, 3)])]))
    cases.append("1 0 | %s" % " ".join(map(str, method_row(32, 4, 1, 2, [(0, 2)]))))
    for recv in (0, 1, 2):
        for ret in (0, 1, 2, 3, 4, 6, 11):
            if recv == 2 and ret in (2, 3):
                continue
            for args in ([], [(1, 2)], [(3, 0), (4, 3)], [(2, 0), (12, 1)], [(6, 2), (5, 2)]):
                if ret in (2, 3) and args:
                    continue
                cases.append("1 0 | %s" % " ".join(map(str, method_row(recv + 64, 0, ret, 2, args))))
    cases.append("1 1 | %s" % " ; ".join(" ".join(map(str, r)) for r in [method_row(64, 0, 6, 2, [(1, 0)]), method_row(1, 0, 0, 0, [(3, 0)]), method_row(65, 2, 11, 3, [(4, 3), (2, 0)])]))
    # default bodies / explicit lifetime generics on the method (flags +4 / +8 of the intmode field) do not change the glue
    for flags in (4, 8, 12):
        for recv in (0, 1, 2):
            for ret in (0, 1, 2, 6):
                for args in ([], [(0, 2)], [(3, 0), (1, 0)]):
                    if ret == 2 and (recv == 2 or args):
                        continue
                    cases.append("1 1 | %s" % " ".join(map(str, method_row(recv, flags, ret, 2, args))))
    # a provided method bounded by `where Self: Sized` (receiver field +16, with a default body: intmode +4) keeps its slot, alone and between other methods
    for flags in (4, 12):
        for recv in (0, 1):
            for ret in (0, 1, 6):
                cases.append("1 1 | %s" % " ".join(map(str, method_row(recv + 16, flags, ret, 2, [(0, 2)]))))
                rows = [method_row(0, 0, 1, 2, [(0, 2)]), method_row(recv + 16, flags, ret, 2, []), method_row(1, 0, 0, 0, [(1, 0)])]
                cases.append("1 0 | %s" % " ; ".join(" ".join(map(str, r)) for r in rows))
    # a doc comment and an unrelated attribute beside the method's own attributes (receiver field +8) change nothing: in particular
    # #[no_int_result] / #[int_result] keep their meaning
    for ti in (0, 1):
        for recv in (0, 1, 2):
            for im in (0, 1, 2):
                for ret in (6, 7, 11, 12):
                    if wf(ti, im, ret):
                        for args in ([], [(1, 0), (4, 3)]):
                            cases.append("1 %d | %s" % (ti, " ".join(map(str, method_row(recv + 8, im, ret, 2, args)))))
    # #[vtbl_only] methods (receiver field +4) keep their declaration-order slot and wrapper; only the forwarding method is absent
    for pos in range(3):
        for recv in (0, 1):
            rows = [method_row(0, 0, 1, 2, [(0, 2)]), method_row(1, 0, 0, 0, []), method_row(0, 0, 4, 3, [(1, 0)])]
            rows[pos][0] = recv + 4
            cases.append("1 0 | %s" % " ; ".join(" ".join(map(str, r)) for r in rows))
    n_ex = len(cases)
    nrand = 150 if tier == "quick" else 3000
    for _ in range(nrand):
        ti = rng.below(3)
        rows = []
        for _ in range(rng.range(2, 7)):
            while True:
                recv, im, ret = rng.below(3), rng.below(3), rng.below(NRET_SHAPES + 1)
                if wf(ti, im, ret):
                    break
            args = [(rng.below(NARG_SHAPES), rng.below(10)) for _ in range(rng.range(0, 4))]
            if rng.chance(1, 4):
                im += rng.choice([4, 8, 12])
            if rng.chance(1, 4):
                recv += 8
            if rng.chance(1, 8):
                recv += 64
            elif rng.chance(1, 10):
                recv += 32
                im |= 4
            rows.append(method_row(recv, im, ret, rng.below(10), args))
        cases.append("1 %d%s | %s" % (ti, " 1" if rng.chance(1, 3) else "", " ; ".join(" ".join(map(str, r)) for r in rows)))
    return cases, {"ir_exhaustive_single_method": n_ex, "ir_random_multi_method": nrand, "of_which_in_generic_traits": sum(1 for c in cases if c.split("|")[0].split()[2:3] == ["1"])}


# ------------------------------------------------------------------------------------------ structural: groups
def enc_name(s):
    return " ".join(str(ord(c)) for c in s)


def grp_names(l):
    """(number of mandatory traits, the identities of the traits of a group line: the alias where one is given)"""
    hdr, rows = vlib.parse_case(l)
    return hdr[1], ["".join(chr(c) for c in r).rsplit("=", 1)[-1] for r in rows]


def grp_cases(rng, tier, mid=4):
    cases = []
    pool = ["Alpha", "Beta", "Gamma", "Delta", "Zed", "Ab", "Aa", "B", "Omega", "Mid", "Xy", "Xz", "aLower", "Zz", "A1", "A0"]
    maxopt = 4
    nrand = 40 if tier == "quick" else 600
    # aliased instantiations of one generic trait (`Get<u8>=GetU8`): the alias is the trait's identity in the group
    fixed = [(["Peek"], ["OptA", "OptB", "OptC"]), (["Peek"], ["OptC", "OptA", "OptB"]), (["Zm", "Am"], ["Bo"]), (["M"], ["D", "C", "B", "A"]), (["M"], ["A"]),
             (["Ab", "Aa"], ["B", "Ac", "A"]),
             (["Base"], ["Get<u8>=GetU8", "Get<u16>=GetU16", "Get<u32>=GetU32", "Named"]), (["Get<i8>=Zg", "Base"], ["Get<u8>=B", "Other", "Get<u16>=A"]),
             (["M"], ["Conv<u8,u16>=Narrow", "Conv<u16,u8>=Wide"])]
    for mand, opt in fixed:
        cases.append("%d %d | %s" % (mid, len(mand), " ; ".join(enc_name(n) for n in mand + opt)))
        if mid == 204:     # the forward list is independent of the owned list: absent (1), its complement (2), rotated (3)
            for fm in (1, 2, 3):
                cases.append("%d %d %d | %s" % (mid, len(mand), fm, " ; ".join(enc_name(n) for n in mand + opt)))
    gens = ["Get<u8>=", "Get<u16>=", "Get<u32>=", "Get<i64>=", "Map<u8,u8>=", "Map<u8,u16>="]
    for _ in range(nrand):
        names = list(pool)
        # shuffle with the run's RNG
        for i in range(len(names) - 1, 0, -1):
            j = rng.below(i + 1)
            names[i], names[j] = names[j], names[i]
        nm = rng.range(1, 3)
        no = rng.range(1, maxopt)
        sel = names[:nm + no]
        if rng.chance(1, 3):     # some of the traits are aliased instantiations of generic traits (two of them often of the same one)
            # (each instantiation at most once per group: two aliases of the SAME instantiation would be two impls of one trait)
            pool_g = list(gens)
            for i in range(len(pool_g) - 1, 0, -1):
                j = rng.below(i + 1)
                pool_g[i], pool_g[j] = pool_g[j], pool_g[i]
            sel = [(pool_g.pop() + n) if (pool_g and rng.chance(1, 2)) else n for n in sel]
        cases.append(("%d %d | %s" if mid != 204 else "%%d %%d %d | %%s" % rng.below(4)) % (mid, nm, " ; ".join(enc_name(n) for n in sel)))
    return cases, {("group_definitions" if mid == 4 else "impl_group_tables"): len(cases), "max_optional": maxopt}


# ------------------------------------------------------------------------------------------ behavioural
REF_OPS = [[0, 5, -3], [6, 2], [6, -1], [6, 5], [7, 4], [7, 3], [7, -1], [8, 200], [8, 7], [9, 7], [10, 0], [10, 1], [10, 3], [10, 2, 1, 5], [10, 1, 2, 5], [10, 3, 1, 8], [10, 0, 1, 4], [10, 9, 2, 3], [10, 2, 0, 6], [10, 1, 1, 0], [10, 0, 0, 5, 1], [10, 1, 1, 9, 1], [10, 0, 2, 40, 1], [10, 0, 0, 17, 2], [10, 1, 2, 33, 2], [10, 0, 1, 4, 1], [10, 1, 0, 63, 1], [12, 255, 70000, -5], [13], [14],
           [16, 5], [16, -2], [18, 4], [18, -9], [19, 0], [19, 1], [19, 13], [19, -7], [19, 65535], [19, 65536], [19, 65538], [19, 65541], [19, 131074], [19, 2147483647], [19, -2147483648], [20, 3], [20, -1], [21, 9], [35, 0], [35, 1], [35, 2, 0], [35, 2, 5], [36, 1, 0], [36, 2, 255], [36, 0, -1], [36, 1, -1], [37, -1], [37, 255, 7, -3], [37, 0, 0, 0], [38, 3], [38, 4], [38, 0], [39, 0], [39, 1], [39, 2], [39, -7], [31, 97, 0], [31, 955, 1], [31, 8364, 0], [31, 128512, 0], [31, 255, 1], [31, 1114111, 1], [32, -5, 77, -3], [32, 2 ** 62, -1, 127], [33, 1078530011, 4614253070214989087], [33, 2143289344, 0], [34, 300, 8364], [34, 65535, 97], [26, 0], [26, 1], [26, 5], [26, 13], [26, 65536], [26, -7], [27, 0], [27, -1], [27, -22], [27, 70000], [27, 2147483647], [27, -2147483648], [28, 4], [28, -21], [28, 70001],
           [22, 4], [22, 7], [23, 21], [24], [25, 2], [25, 0]]
MUT_OPS = [[1, 5], [1, 0], [1, 24], [2, 3], [2, 0], [3, 4], [3, 0], [4, 6], [4, 0], [5, 0], [5, 1], [5, 2], [5, 3], [5, 4], [5, 5], [5, 6], [5, 7], [5, 8], [11, 0], [11, 4], [15], [17, 2], [17, 3], [40, 0], [40, 2], [40, 5], [40, 6], [40, 7], [41, 0], [41, 2], [41, 3], [41, 5], [41, 8], [42, 1], [42, 2], [42, 3], [42, 7], [29, 0, 5], [29, 1, 5], [29, 2, 8], [29, 1, 0], [30, 0], [30, 1], [30, 2], [29, 2, 3], [30, 1]]


def shapes_cases(rng, tier):
    cases = []
    for which, ops, kinds in ((0, REF_OPS, (0, 1, 2, 3, 4, 5)), (1, MUT_OPS, (0, 1, 3))):
        for kind in kinds:
            cases.append("101 %d %d | %s" % (which, kind, " ; ".join(" ".join(map(str, o)) for o in ops)))
    n = 60 if tier == "quick" else 1500
    for _ in range(n):
        which = rng.below(2)
        kinds = (0, 1, 2, 3, 4, 5) if which == 0 else (0, 1, 3)
        base = REF_OPS if which == 0 else MUT_OPS
        ops = []
        for _ in range(rng.range(1, 30)):
            o = list(rng.choice(base))
            if len(o) > 1 and rng.chance(1, 2):
                o[1] = rng.choice([0, 1, -1, 2, 7, 23, 24, 255, 256, -128, 2 ** 31 - 1, -2 ** 31, 65535, rng.range(-1000, 1000)])
                if o[0] in (1, 2, 3, 4, 11):
                    o[1] = abs(o[1]) % 25
                if o[0] in (29, 30):
                    o[1] = abs(o[1]) % 3
                if o[0] in (40, 41, 42):
                    o[1] = abs(o[1]) % 9
                if o[0] == 5:
                    o[1] = abs(o[1]) % 9
            ops.append(o)
        cases.append("101 %d %d | %s" % (which, rng.choice(kinds), " ; ".join(" ".join(map(str, o)) for o in ops)))
    return cases, {"shape_histories": len(cases)}


def generic_cases(rng, tier):
    """'102 <container> | calls': traits with type and lifetime parameters; one implementor, several instantiations (harness/prog/src/generic.rs)"""
    fixed = [[0, 5], [1, 2], [1, 9], [2], [3, 70], [4, 0], [4, 3], [5], [6, 2], [6, 0], [7, 1, 2, 3], [8, 0], [8, 4], [9], [10, 1], [10, 7]]
    cases = ["102 %d | %s" % (k, " ; ".join(" ".join(map(str, o)) for o in fixed)) for k in (0, 1, 2)]
    n = 40 if tier == "quick" else 1000
    for _ in range(n):
        ops = []
        for _ in range(rng.range(1, 30)):
            c = rng.below(11)
            if c in (0, 3):
                ops.append([c, rng.choice([0, 1, 255, 65536, 2 ** 32 - 1, rng.range(0, 10 ** 6)])])
            elif c in (1, 4, 8, 10, 6):
                ops.append([c, rng.range(0, 6)])
            elif c == 7:
                ops.append([7, rng.range(0, 255), rng.range(0, 2 ** 32 - 1), rng.range(-10 ** 9, 10 ** 9)])
            else:
                ops.append([c])
        cases.append("102 %d | %s" % (rng.below(3), " ; ".join(" ".join(map(str, o)) for o in ops)))
    return cases, {"generic_trait_histories": len(cases)}


def ext_cases(rng, tier):
    """'105 <container> | calls': the traits the library itself makes CGlue-compatible — Stream, Sink, Debug, Display, AsRef (harness/prog/src/ext.rs)"""
    fixed = [[0], [0], [0], [1], [2, 5], [2, 13], [3], [2, 6], [1], [2, 7], [1], [4], [1], [2, 8], [5], [6], [7], [0], [0], [0], [0], [3], [4]]
    cases = ["105 %d | %s" % (k, " ; ".join(" ".join(map(str, o)) for o in fixed)) for k in (0, 1)]
    n = 30 if tier == "quick" else 800
    for _ in range(n):
        ops = []
        for _ in range(rng.range(1, 30)):
            c = rng.choice([0, 0, 1, 2, 2, 2, 3, 3, 4, 5, 6, 7])
            ops.append([2, rng.choice([0, 1, 13, 255, 2 ** 32 - 1, rng.range(0, 1000)])] if c == 2 else [c])
        cases.append("105 %d | %s" % (rng.below(2), " ; ".join(" ".join(map(str, o)) for o in ops)))
    return cases, {"ext_trait_histories": len(cases)}


def consume_cases(rng, tier):
    """'107 <container> <tag> | calls': by-reference calls followed by a CONSUMING call, directly and through every owned kind of object (harness/prog/src/consume.rs)"""
    cases = ["107 %d 7 | 0 5 ; 1 ; 0 9 ; 0 4294967295" % k for k in range(5)] + ["107 %d 3 | 1" % k for k in range(5)]
    n = 20 if tier == "quick" else 600
    for _ in range(n):
        ops = [[0, rng.choice([0, 1, 255, 2 ** 32 - 1, rng.range(0, 100000)])] if rng.chance(2, 3) else [1] for _ in range(rng.range(1, 12))]
        cases.append("107 %d %d | %s" % (rng.below(5), rng.range(-1000, 1000), " ; ".join(" ".join(map(str, o)) for o in ops)))
    return cases, {"consuming_call_histories": len(cases)}


def assoc_cases(rng, tier, with_alias=True):
    """'111 <container> | calls': WRAPPED ASSOCIATED TYPES — a bank hands out its cells as borrowed / mutably borrowed / owned children (single-trait and group
    objects); which cell a call returns depends on its argument and on the bank's state (harness/prog/src/assoc.rs).  Op 9 keeps two children of one
    `&self` method in use at once."""
    fixed = [[1], [0, 1], [1], [2, 2], [2, 0], [3, 1, 7], [3, 2, 9], [4, 5], [1], [0, 2], [4, 11], [5, 0, 3], [5, 2, 4], [6, 1], [6, 0], [7, 0, 13], [7, 2, 1], [8, 1, 6], [2, 0], [2, 1], [2, 2], [6, 2]]
    cases = ["111 %d | %s" % (k, " ; ".join(" ".join(map(str, o)) for o in fixed)) for k in (0, 1, 2)]
    if with_alias:
        cases += ["111 %d | 9 0 1 ; 9 1 1 ; 9 2 0" % k for k in (0, 1, 2)]
    n = 30 if tier == "quick" else 800
    for _ in range(n):
        ops = []
        for _ in range(rng.range(1, 25)):
            c = rng.choice([0, 1, 2, 2, 3, 3, 4, 5, 6, 6, 7, 7, 8] + ([9] if with_alias else []))
            i, j, v = rng.below(3), rng.below(3), rng.range(-50, 1000)
            ops.append({0: [0, i], 1: [1], 2: [2, i], 3: [3, i, v], 4: [4, v], 5: [5, i, v], 6: [6, i], 7: [7, i, v], 8: [8, i, v], 9: [9, i, j]}[c])
        cases.append("111 %d | %s" % (rng.below(3), " ; ".join(" ".join(map(str, o)) for o in ops)))
    return cases, {"wrapped_associated_type_histories": len(cases)}


BYREF_PROBE = r"""//! C06 probe: a by-reference object must not accept a consuming call — if this program COMPILES, the object moves the borrowed value out.
use cglue::prelude::v1::*;
use std::sync::atomic::{AtomicUsize, Ordering::SeqCst};
static DROPS: AtomicUsize = AtomicUsize::new(0);
#[cglue_trait]
pub trait Fin { fn peek(&self) -> u64; fn fin(self) -> u64; }
pub struct Noisy(Box<u64>);
impl Drop for Noisy { fn drop(&mut self) { DROPS.fetch_add(1, SeqCst); } }
impl Fin for Noisy { fn peek(&self) -> u64 { *self.0 } fn fin(self) -> u64 { *self.0 + 1 } }
fn main() {
    let mut owner = std::mem::ManuallyDrop::new(Noisy(Box::new(7)));
    let r = { let obj = trait_obj!(&mut *owner as Fin); obj.fin() };
    println!("{} {}", r, DROPS.load(SeqCst));      // result of the by-value call, destructor runs while the owner still holds the value
}
"""


def byref_consume_probe():
    """'206 |': returns the harness-format line.  1 = the by-value call on a `&mut` object is rejected at compile time (as it must be)."""
    import shutil
    d = os.path.join(vlib.CACHE, "byref_probe")
    os.makedirs(os.path.join(d, "src"), exist_ok=True)
    open(os.path.join(d, "src", "main.rs"), "w").write(BYREF_PROBE)
    open(os.path.join(d, "Cargo.toml"), "w").write('[package]\nname = "byref_probe"\nversion = "0.0.0"\nedition = "2018"\n\n[workspace]\n\n[dependencies]\ncglue = { path = "/repo/cglue" }\n')
    try:
        shutil.copy(os.path.join(vlib.REPO, "Cargo.lock"), os.path.join(d, "Cargo.lock"))
    except OSError:
        pass
    rc, o, e, _ = vlib.sh("timeout 600 cargo build --offline", cwd=d, timeout=630)
    if rc != 0:
        errs = [l for l in e.split("\n") if l.startswith("error[")]
        if errs:
            return "1 # fails=-"
        return "-9 # fails=probe_does_not_build_for_an_unrelated_reason:%s" % "_".join(e.strip().split("\n")[-3:]).replace(" ", "_")[:200]
    rc, o, e, _ = vlib.sh(os.path.join(d, "target", "debug", "byref_probe"), cwd=d, timeout=60)
    t = (o.split() + ["?", "?"])[:2]
    return "0 # fails=a_by-reference_object_(`trait_obj!(&mut_x_as_Fin)`)_accepts_the_by-value_call_`fin(self)`:_it_returned_%s_and_the_borrowed_value's_destructor_ran_%s_time(s)_while_its_owner_still_holds_it%s" % (
        t[0], t[1], "" if rc == 0 else "_(the_program_then_died_with_status_%d)" % rc)


def fwd_ir_cases(rng, tier):
    """'201 <ti> <generic> | methods': the impl that the REAL #[cglue_forward] generator emits for Fwd<O>, abstracted per method (harness/gen fwd)"""
    base, _ = ir_cases(rng, "quick")
    out = []
    for c in base:
        hdr, body = c.split("|", 1)
        h = hdr.split()
        # by-value methods cannot be forwarded unless they have a default body; the renderer gives vtbl_only ones a body
        rows = [[int(x) for x in r.split()] for r in body.split(";") if r.strip()]
        if any(r[0] & 32 for r in rows):
            continue         # #[skip_func] is the subject of the trait generator's cases; the forward model knows exported methods only
        if any((r[0] & 3) == 2 and not (r[1] & 4) and not (r[0] & 4) for r in rows):
            for r in rows:
                if (r[0] & 3) == 2:
                    r[1] |= 4
        out.append("201 %s | %s" % (" ".join(h[1:]), " ; ".join(" ".join(map(str, r)) for r in rows)))
    if tier == "quick":
        out = out[::7] + out[-160:]
    return out, {"forward_impl_traits": len(out)}


def fwd_cases(rng, tier):
    """'104 <handle> | calls': #[cglue_forward] — Fwd(&mut T), Fwd(Box<T>) and opaque objects around a Fwd(&mut T) (harness/prog/src/fwd.rs)"""
    fixed = [[0, 1], [0, 9], [1, 2, 77], [1, 8, 1], [0, 2], [2, 3], [0, 2], [2, 0], [0, 0], [3], [2, 5], [4, 0, 4, 9], [4, 4, 0, 9], [4, 1, 7, 3], [0, 0], [5, 255], [5, 70000], [5, 3], [6, 9], [7], [0, 0], [6, 1]]
    cases = ["104 %d | %s" % (k, " ; ".join(" ".join(map(str, o)) for o in fixed)) for k in (0, 1, 2, 3)]
    n = 40 if tier == "quick" else 1000
    for _ in range(n):
        ops = []
        for _ in range(rng.range(1, 30)):
            c = rng.below(8)
            if c == 6: ops.append([6, rng.range(0, 1000)])
            elif c == 7: ops.append([7])
            elif c == 0: ops.append([0, rng.range(0, 6)])
            elif c == 1: ops.append([1, rng.range(0, 6), rng.range(0, 2 ** 32 - 1)])
            elif c == 2: ops.append([2, rng.range(0, 7)])
            elif c == 3: ops.append([3])
            elif c == 4: ops.append([4, rng.range(0, 6), rng.range(0, 6), rng.range(-1000, 1000)])
            else: ops.append([5, rng.choice([0, 1, 255, 256, 2 ** 32 - 1, rng.range(0, 10 ** 6)])])
        cases.append("104 %d | %s" % (rng.below(4), " ; ".join(" ".join(map(str, o)) for o in ops)))
    return cases, {"forward_histories": len(cases)}


def life_model_line(l):
    """op 21 (the consuming entry called directly through the vtable) is the model's consuming call 5"""
    if not l.startswith("106 "):
        return l
    hdr, body = l.split("|", 1)
    ops = [o.split() for o in body.split(";") if o.strip()]
    # (op 12 with a third field 1 casts back through `From` instead of `upcast()`, ops 13/14 with a third field 1 go through the fallible consuming
    # method: the same model steps)
    return hdr + "| " + " ; ".join(" ".join(["5"] + o[1:] if o[0] == "21" else o[:2] if o[0] in ("12", "13", "14") else o) for o in ops)


def life_cases(rng, tier, with_borrowed=True):
    cases = ["106 | 0 1 ; 1 0 ; 2 0 ; 2 0 ; 7 1 ; 4 0 ; 1 3 ; 7 3", "106 | 0 1 ; 5 0", "106 | 0 1 ; 2 0 ; 21 0 ; 1 1", "106 | 0 3 ; 21 0", "106 | 8 5 ; 6 0 ; 6 1 ; 7 0", "106 | 10 7 1 ; 11 0 ; 6 1 ; 12 1 ; 11 3",
             "106 | 10 7 0 ; 11 0", "106 | 13 4 ; 14 5", "106 | 13 4 1 ; 14 5 1 ; 13 6 ; 14 7 1", "106 | 0 2 ; 2 0 ; 5 0 ; 1 1", "106 | 15 -77 ; 1 0 ; 7 0", "106 | 15 -77 ; 15 -77 ; 7 1",
             "106 | 10 7 1 ; 16 0", "106 | 10 7 0 ; 17 0 ; 1 1", "106 | 0 4 ; 18 0 ; 18 0 ; 7 1 ; 7 0 ; 7 2", "106 | 0 4 ; 20 0 ; 11 1 ; 6 2 ; 7 0 ; 16 3", "106 | 0 4 ; 20 0 ; 20 0 ; 17 1 ; 7 0", "106 | 10 7 1 ; 19 0 ; 11 0 ; 19 2 ; 7 1", "106 | 10 7 1 ; 11 0 ; 6 1 ; 16 1 ; 17 2", "106 | 10 7 1 ; 11 0 ; 12 1 ; 16 2", "106 | 10 7 1 ; 11 0 ; 12 1 1 ; 1 2 ; 16 2", "106 | 10 9 1 ; 11 0 ; 6 1 ; 12 1 1 ; 12 2 1 ; 7 3"]
    if with_borrowed:
        cases.append("106 | 9 3 ; 3 0 ; 3 0 ; 3 0")
    # the same fixed histories with a ZERO-SIZED user context whose Clone/Drop keep the count ('106 1 | ..')
    base = list(cases)
    cases += [c.replace("106 |", "106 1 |", 1) for c in base]
    # ... with a context whose payload is OVER-ALIGNED (64 bytes), erased ('106 2 | ..'), and with a FOREIGN context: a handle built through the published
    # three-field layout whose clone/release functions keep the count in a record of their own ('106 3 | ..')
    cases += [c.replace("106 |", "106 2 |", 1) for c in base] + [c.replace("106 |", "106 3 |", 1) for c in base]
    n = 300 if tier == "quick" else 6000
    for _ in range(n):
        ops, kinds = [], []
        nid = 1
        for _ in range(rng.range(1, 25)):
            live = [i for i, k in enumerate(kinds) if k != "D"]
            r = rng.below(100)
            if not live or r < 18:
                c = rng.choice([0, 0, 8, 10, 10, 15] + ([9] if with_borrowed else []))
                nid += 1
                if c == 15:      # a zero-sized instance (it cannot carry an id: every such instance reports -77)
                    ops.append([15, -77]); kinds.append("H")
                elif c == 10:
                    e = rng.below(2)
                    ops.append([10, nid, e]); kinds.append("G1" if e else "G0")
                else:
                    ops.append([c, nid]); kinds.append({0: "N", 8: "C", 9: "R"}[c])
                continue
            if r < 24:
                ops.append([rng.choice([13, 14]), 50 + nid] + ([1] if rng.chance(1, 2) else [])); nid += 1
                continue
            if r < 32:   # ill-targeted stream
                ops.append([rng.choice([1, 2, 4, 5, 6, 7, 11, 12, 16, 17, 18, 19, 20, 21]), rng.range(0, len(kinds))])
                continue
            h = rng.choice(live)
            k = kinds[h]
            if k == "N":
                c = rng.choice([1, 2, 2, 18, 18, 20, 20, 4, 5, 7, 21])
            elif k == "H":
                c = rng.choice([1, 7])
            elif k == "C":
                c = rng.choice([6, 6, 7])
            elif k == "R":
                c = rng.choice([3, 3, 7])
            elif k in ("G0", "G1"):
                c = rng.choice([1, 11, 11, 7, 16, 17, 19])
            else:
                c = rng.choice([1, 6, 6, 12, 7, 16, 17, 19])
            ops.append([c, h] + ([1] if c == 12 and rng.chance(1, 2) else []))
            if c in (2, 18, 19): kinds.append("H")
            elif c == 20: kinds.append("G1")
            elif c in (4, 17): kinds[h] = "D"; kinds.append("H")
            elif c in (5, 7, 16, 21): kinds[h] = "D"
            elif c == 6: kinds.append(k)
            elif c == 11:
                kinds[h] = "D"
                if k == "G1": kinds.append("GC")
            elif c == 12: kinds[h] = "D"; kinds.append("G1")
        cases.append(rng.choice(["106 | ", "106 | ", "106 1 | ", "106 1 | ", "106 2 | ", "106 3 | "]) + " ; ".join(" ".join(map(str, o)) for o in ops))
    return cases, {"lifecycle_histories": len(cases), "of_which_zero_sized_user_context": sum(1 for c in cases if c.startswith("106 1 ")),
                   "of_which_over_aligned_erased_context": sum(1 for c in cases if c.startswith("106 2 ")), "of_which_foreign_context": sum(1 for c in cases if c.startswith("106 3 "))}


def box_cases(rng, tier):
    """'21 <elem> | ops' histories over a pool of CBox / CSliceBox values (harness/rt/src/m_box.rs, coq/model/Boxed.v)"""
    cases = ["21 0 | 0 5 ; 4 0 ; 5 0 0 9 ; 6 0 ; 7 1", "21 0 | 3 1 2 3 ; 4 0 ; 5 0 1 7 ; 5 0 3 8 ; 6 0 ; 6 1", "21 0 | 3 ; 4 0 ; 5 0 0 1 ; 7 0", "21 1 | 3 0 0 0 ; 6 0 ; 7 1",
             "21 1 | 0 0 ; 8 0", "21 0 | 1 4 ; 8 0 ; 8 0", "21 2 | 2 77 ; 6 0 ; 6 1 ; 4 2", "21 3 | 3 1 70000 ; 5 0 1 5 ; 4 0", "21 1 | 3 ; 7 0", "21 0 | 3 5 ; 6 0", "21 4 | 0 5 ; 7 0", "21 6 | 0 5 ; 4 0 ; 6 0 ; 7 1", "21 6 | 3 1 2 3 ; 6 0", "21 6 | 1 9 ; 8 0", "21 4 | 1 6 ; 6 0", "21 5 | 2 7 ; 4 0", "21 5 | 3 1 2 3 ; 6 0 ; 7 1", "21 4 | 0 9 ; 8 0"]
    n = 400 if tier == "quick" else 8000
    for k in range(n):
        elem = k % 7          # 6 = 64 bytes aligned to 64
        vmax = 0 if elem == 1 else (2 ** 24 - 1 if elem == 3 else 10 ** 6)
        val = lambda: rng.range(0, vmax)
        ops, kinds, lens = [], [], []      # kinds: B OB S OS D
        for _ in range(rng.range(1, 22)):
            live = [i for i, x in enumerate(kinds) if x != "D"]
            r = rng.below(100)
            if not live or r < 22:
                c = rng.choice([0, 1, 2, 3, 3])
                if c == 3:
                    m = rng.choice([0, 0, 1, 2, 3, 5])
                    ops.append([3] + [val() for _ in range(m)]); kinds.append("S"); lens.append(m)
                else:
                    ops.append([c, val()]); kinds.append("B"); lens.append(1)
                continue
            if r < 30:      # ill-targeted stream: any op on any slot (dead, wrong kind, one past the end)
                c = rng.choice([4, 5, 6, 7, 8])
                h = rng.range(0, len(kinds))
                ops.append([c, h] + ([rng.range(0, 3), val()] if c == 5 else []))
                if h < len(kinds) and kinds[h] != "D":
                    kd = kinds[h]
                    if c == 6: kinds[h] = "D"; kinds.append("O" + kd.lstrip("O")); lens.append(lens[h])
                    elif c == 7 or (c == 8 and kd == "B"): kinds[h] = "D"
                continue
            h = rng.choice(live)
            kd = kinds[h]
            if kd == "B":
                c = rng.choice([4, 5, 5, 6, 7, 8])
            elif kd == "S":
                c = rng.choice([4, 5, 5, 5, 6, 7])
            else:
                c = rng.choice([6, 7, 7])
            if c == 5:
                i = rng.range(0, max(0, lens[h] - 1)) if rng.chance(5, 6) else lens[h] + rng.range(0, 2)
                ops.append([5, h, i, val()])
            else:
                ops.append([c, h])
            if c == 6: kinds[h] = "D"; kinds.append("O" + kd.lstrip("O")); lens.append(lens[h])
            elif c in (7, 8): kinds[h] = "D"
        cases.append("21 %d | %s" % (elem, " ; ".join(" ".join(map(str, o)) for o in ops)))
    return cases, {"box_histories": len(cases)}


def cast_cases(rng, tier):
    cases = []
    for e in range(8):
        for c in (0, 1, 2):
            ops = [[op, r] for op in range(5) for r in range(1, 8)]
            cases.append("108 %d %d | %s" % (e, c, " ; ".join("%d %d" % (a, b) for a, b in ops)))
    return cases, {"cast_cells": 8 * 3 * 35, "exhaustive": True}


def ir_monitor(l, impl_rows):
    """model-independent oracle on the glue-IR rows of a REAL trait expansion: the wiring facts of the property statements"""
    if not l.startswith("1 ") or not impl_rows:
        return []
    fails = []
    hdr, methods = vlib.parse_case(l)
    rows = [[int(x) for x in r.split()] for r in impl_rows.split(" ; ")]
    if len(rows) != len(methods):
        return ["%d vtable rows for %d methods" % (len(rows), len(methods))]
    want = 0
    for k, (m, r) in enumerate(zip(methods, rows)):
        try:
            if m[0] & 32:
                if r != [-9, 0, 0, 0]:
                    fails.append("#[skip_func] method m%d is exported: vtable slot %s, wrapper %s, forwarding method %s (an excluded method must have none, and must not shift the slots after it)"
                                 % (k, *("present" if x else "absent" for x in (r + [0, 0, 0])[1:4])))
                continue
            fails.extend(_ir_monitor_row(k, m, r, hdr, want))
            want += 1
        except (ValueError, IndexError):
            fails.append("method %d: expansion not recognised" % k)
    return fails[:4]


RESULT_RETS = (6, 7, 11, 12, 13, 15)


def _ir_monitor_row(k, m, r, hdr=None, want_pos=None):
    fails = []
    if True:
        if len(r) < 8:
            return ["method %d: expansion not recognised" % k]
        pos, reprc, abic, recv, nc = r[0:5]
        if pos != (k if want_pos is None else want_pos): fails.append("method %d sits in vtable slot %d instead of %d (one slot per exported method, in declaration order)" % (k, pos, k if want_pos is None else want_pos))
        if reprc != 1: fails.append("vtable struct is not #[repr(C)]")
        if abic != 1: fails.append("vtable entry %d is not an extern \"C\" function pointer" % k)
        vtbl_only = bool(m[0] & 4)
        m = [m[0] & 3] + list(m[1:])
        if recv != m[0]: fails.append("vtable entry %d takes the container in form %d for receiver kind %d" % (k, recv, m[0]))
        ctys = r[5:5 + 2 * nc]
        i = 5 + 2 * nc
        cret = r[i:i + 2]; i += 2
        if 99 in ctys[0::2] or cret[0] == 99: fails.append("vtable entry %d has a parameter/return type that is not one of the C-representable forms" % k)
        # which methods return an integer code is decided by the attributes: #[int_result] on the method, or on the trait unless the method opts out
        if hdr is not None and m[2] in RESULT_RETS and cret[0] != 99:
            mode = m[1] & 3
            want_int = mode == 1 or (len(hdr) > 1 and hdr[1] in (1, 2) and mode != 2)
            uses_int = cret[0] != 12
            if uses_int != want_int:
                fails.append("m%d %s the integer result convention although %s" % (
                    k, "uses" if uses_int else "does not use",
                    "neither it nor the trait carries #[int_result]" if uses_int else "#[int_result] applies to it"))
        default_ok = r[i]; i += 1
        if default_ok != 1: fails.append("Default vtable does not store cglue_wrapped_m%d in slot m%d" % (k, k))
        w_access, w_target, w_ctx, w_n = r[i:i + 4]; i += 4
        w_convs = r[i:i + w_n]; i += w_n
        w_argc_ok, w_mapped, w_tail, w_unknown = r[i:i + 4]; i += 4
        if w_target != 1: fails.append("wrapper of m%d does not call <ObjType as Trait>::m%d" % (k, k))
        if w_access != m[0]: fails.append("wrapper of m%d accesses the object in form %d for receiver kind %d" % (k, w_access, m[0]))
        if w_n != m[4] or w_argc_ok != 1: fails.append("wrapper of m%d forwards %d of %d arguments" % (k, w_n, m[4]))
        if 9 in w_convs or w_tail == 9 or w_unknown: fails.append("wrapper of m%d contains a statement/conversion outside the known forms" % k)
        i_fetch, i_cont, i_guard, i_first, i_n = r[i:i + 5]; i += 5
        i_convs = r[i:i + i_n]; i += i_n
        i_okout, i_tail, i_unknown = r[i:i + 3]
        if vtbl_only:
            return fails if i_unknown == 7 else fails + ["#[vtbl_only] method m%d is forwarded by the trait re-implementation" % k]
        if i_unknown == 7: return fails + ["the trait re-implementation on the opaque object has no method m%d: calls through the object run the trait's default body instead of the vtable slot" % k]
        if i_fetch != 1: fails.append("trait re-implementation of m%d does not fetch vtable slot m%d" % (k, k))
        if i_cont != m[0] or i_first != 1: fails.append("trait re-implementation of m%d passes the container in form %d for receiver kind %d" % (k, i_cont, m[0]))
        if (m[0] == 2) != (i_guard == 1): fails.append("context guard of m%d: %d for receiver kind %d" % (k, i_guard, m[0]))
        if i_n != m[4]: fails.append("trait re-implementation of m%d passes %d of %d arguments" % (k, i_n, m[4]))
        if 9 in i_convs or i_tail == 9 or i_unknown or i_okout == 9: fails.append("trait re-implementation of m%d contains a statement/conversion outside the known forms" % k)
        # the out-slot protocol of integer results: parameter, writer and reader come together
        has_okout_param = 11 in ctys[0::2]
        if has_okout_param != (w_tail == 3) or has_okout_param != (i_tail == 5) or has_okout_param != (i_okout == 1):
            fails.append("m%d: ok_out parameter=%s wrapper tail=%d decoder tail=%d slot passed=%d do not belong together" % (k, has_okout_param, w_tail, i_tail, i_okout))
    return fails


# ------------------------------------------------------------------------------------------ rustc's FFI lints as oracle
def lint_probe(lines):
    """re-compile the REAL expansions of the encoded traits under #![deny(improper_ctypes_definitions, improper_ctypes)];
    returns per line '1 # fails=-' (rustc accepts every signature) or '0 # fails=-' (an FFI lint fired on that trait)"""
    import re
    env = dict(vlib.ENV)
    env["CARGO_MANIFEST_DIR"] = os.path.join(vlib.VERIF, "harness", "gen")
    d = os.path.join(vlib.CACHE, "ffi_probe")
    os.makedirs(os.path.join(d, "src"), exist_ok=True)
    rc, src, e, _ = vlib.sh([_built["gen"], "render"], inp="\n".join(lines) + "\n", env=env, timeout=120)
    if rc != 0:
        return ["!CRASH render failed"] * len(lines)
    defs = os.path.join(d, "defs.rs")
    open(defs, "w").write(src)
    rc, exp, e, _ = vlib.sh([_built["gen"], "expand", defs], env=env, timeout=300)
    if rc != 0:
        return ["!CRASH expansion failed " + e[-200:]] * len(lines)
    head = ("#![deny(improper_ctypes_definitions, improper_ctypes)]\n#![allow(unused, dead_code, unused_imports, clippy::all)]\n"
            "use cglue::prelude::v1::*;\nuse cglue::*;\n#[repr(C)]\n#[derive(Clone, Copy)]\npub struct Pod { pub a: u8, pub b: u32, pub c: i64 }\npub type AliasRes<T, E> = Result<T, E>;\n")
    body = head + exp
    open(os.path.join(d, "src", "lib.rs"), "w").write(body)
    open(os.path.join(d, "Cargo.toml"), "w").write('[package]\nname = "ffi_probe"\nversion = "0.0.0"\nedition = "2018"\n\n[workspace]\n\n[dependencies]\ncglue = { path = "/repo/cglue" }\n')
    try:
        import shutil
        shutil.copy(os.path.join(vlib.REPO, "Cargo.lock"), os.path.join(d, "Cargo.lock"))
    except OSError:
        pass
    rc, o, e, dt = vlib.sh("timeout 1200 cargo build --offline --message-format=short", cwd=d, timeout=1230)
    # map source lines to items
    item_at = []
    cur = -1
    for ln in body.split("\n"):
        m = re.match(r"// @@ITEM (\d+)", ln)
        if m:
            cur = int(m.group(1))
        item_at.append(cur)
    verdict = {k: "1" for k in range(len(lines))}
    other = []
    for ln in e.split("\n"):
        m = re.match(r"src/lib.rs:(\d+):\d+: (error[^:]*): (.*)", ln)
        if m:
            k = item_at[min(int(m.group(1)) - 1, len(item_at) - 1)]
            if "not FFI-safe" in m.group(3) or "improper_ctypes" in m.group(3):
                verdict[k] = "0"
            elif k >= 0:
                other.append((k, m.group(3)[:120]))
    res = []
    for k in range(len(lines)):
        o_ = [x for kk, x in other if kk == k]
        res.append("%s # fails=%s" % (verdict[k], ("does_not_compile:" + o_[0].replace(" ", "_")) if o_ else "-"))
    return res


# ------------------------------------------------------------------------------------------ rustc's FFI lints on the runtime wrapper types themselves
RT_TYPES = ["CBox<'static, u64>", "CArc<Pod>", "CArcSome<u64>", "CSliceRef<'static, u8>", "CSliceMut<'static, Pod>", "CSliceBox<'static, u64>", "CVec<u64>",
            "COption<u64>", "CResult<u64, u32>", "CTup2<u8, u64>", "CTup3<u8, u64, u16>", "CTup4<u8, u64, u16, i32>", "Callback<'static, c_void, u64>",
            "OpaqueCallback<'static, Pod>", "CIterator<'static, u64>", "ReprCString", "ReprCStr<'static>", "CRefWaker<'static>", "&CRefWaker<'static>",
            "CGlueObjContainer<CBox<'static, c_void>, NoContext, u8>", "FooBox<'static>", "FooArcBox<'static>", "GrpBox<'static>",
            "cglue::ext::core::future::FutureBox<'static, u64>", "cglue::ext::futures::stream::StreamBox<'static, u64>",
            "cglue::ext::futures::sink::SinkBox<'static, u64, u32>", "cglue::ext::core::clone::CloneBox<'static>", "cglue::ext::core::fmt::DebugBox<'static>",
            "Fwd<*mut u8>", "COption<CBox<'static, c_void>>", "FooRef<'static>", "GrpArcBox<'static>", "CTup1<u64>", "CResult<CBox<'static, c_void>, i32>",
            "COption<CArc<c_void>>", "CSliceRef<'static, CSliceRef<'static, u8>>"]


def rt_lint_probe(lines):
    """'203 <k> |': the k-th runtime wrapper type (RT_TYPES: every C-compatible type the library ships, instantiated, plus generated object and group
    types and the library's own future/stream/sink objects; features task + futures) is declared as the parameter of a foreign function in a crate with
    #![deny(improper_ctypes)]: rustc judges the TYPE, recursively through its fields.  '1' = accepted, '0' = an FFI lint fired on it."""
    import re
    d = os.path.join(vlib.CACHE, "rt_lint")
    os.makedirs(os.path.join(d, "src"), exist_ok=True)
    ks = [int(l.split()[1]) for l in lines]
    head = ("#![deny(improper_ctypes_definitions, improper_ctypes)]\n#![allow(unused, dead_code, unused_imports, clippy::all)]\n"
            "use cglue::prelude::v1::*;\nuse cglue::*;\nuse cglue::arc::*; use cglue::boxed::*; use cglue::callback::*; use cglue::iter::*; use cglue::option::*; use cglue::result::*; "
            "use cglue::slice::*;\nuse cglue::vec::*; use cglue::repr_cstring::*; use cglue::trait_group::*; use cglue::tuple::*; use cglue::task::*;\n"
            "#[repr(C)] #[derive(Clone, Copy)] pub struct Pod { pub a: u8, pub b: u32, pub c: i64 }\n"
            "#[cglue_trait] pub trait Foo { fn get(&self, x: u32) -> u32; }\n#[cglue_trait] pub trait Bar { fn bar(&self) -> u8; }\ncglue_trait_group!(Grp, Foo, { Bar });\n"
            "extern \"C\" {\n")
    body = head + "".join("// @@ITEM %d\nfn p%d(x: %s);\n" % (j, j, RT_TYPES[k % len(RT_TYPES)]) for j, k in enumerate(ks)) + "}\n"
    open(os.path.join(d, "src", "lib.rs"), "w").write(body)
    open(os.path.join(d, "Cargo.toml"), "w").write('[package]\nname = "rt_lint"\nversion = "0.0.0"\nedition = "2018"\n\n[workspace]\n\n[dependencies]\n'
                                                    'cglue = { path = "/repo/cglue", features = ["task", "futures"] }\nfutures = { version = "0.3", default-features = false }\n')
    try:
        import shutil
        shutil.copy(os.path.join(vlib.REPO, "Cargo.lock"), os.path.join(d, "Cargo.lock"))
    except OSError:
        pass
    rc, o, e, dt = vlib.sh("timeout 1200 cargo build --offline --message-format=short", cwd=d, timeout=1230)
    item_at, cur = [], -1
    for ln in body.split("\n"):
        m = re.match(r"// @@ITEM (\d+)", ln)
        if m:
            cur = int(m.group(1))
        item_at.append(cur)
    verdict = {j: "1" for j in range(len(lines))}
    other = []
    for ln in e.split("\n"):
        m = re.match(r"src/lib.rs:(\d+):\d+: (error[^:]*): (.*)", ln)
        if m:
            j = item_at[min(int(m.group(1)) - 1, len(item_at) - 1)]
            if "not FFI-safe" in m.group(3) or "improper_ctypes" in m.group(3):
                verdict[j] = "0"
            else:
                other.append((j, m.group(3)[:160]))
    if rc != 0 and not other and all(v == "1" for v in verdict.values()):
        return ["!CRASH the runtime-type probe does not build: " + " / ".join([x for x in e.split("\n") if "error" in x][:2])[:300]] * len(lines)
    res = []
    for j in range(len(lines)):
        o_ = [x for jj, x in other if jj == j or jj < 0]
        res.append("%s # fails=%s" % (verdict[j], ("does_not_compile:" + o_[0].replace(" ", "_")) if o_ else "-"))
    return res


REF_RETS = (2, 3, 5, 8, 10)      # returning a reference from a by-value receiver is not valid Rust (no lifetime to borrow from)


def lint_cases(rng, tier):
    """traits packing every argument shape and every return shape of the grammar (well-formed: rustc must accept) and the shapes outside
    it (CResult with an error type without C repr: rustc must reject, and so must the model)"""
    cases = []
    for ti in (0, 1):
        for recv in (0, 1, 2):
            rows = [method_row(recv, 0, 1, 2, [(s, (s + 2) % 9)]) for s in range(NARG_SHAPES)]
            cases.append("103 %d | %s" % (ti, " ; ".join(" ".join(map(str, r)) for r in rows)))
            for im in (0, 1, 2):
                rows = [method_row(recv, im, ret, (ret + 1) % 9, [(0, 3)]) for ret in range(NRET_SHAPES) if wf(ti, im, ret) and not (recv == 2 and ret in REF_RETS)]
                cases.append("103 %d | %s" % (ti, " ; ".join(" ".join(map(str, r)) for r in rows)))
    # traits naming an alias: #[int_result(AliasRes)]
    for recv in (0, 1, 2):
        for im in (0, 1, 2):
            rows = [method_row(recv, im, ret, (ret + 1) % 9, [(0, 3)]) for ret in (1, 4, 6, 7, 11, 12, 13, 15) if wf(2, im, ret)]
            cases.append("103 2 | %s" % " ; ".join(" ".join(map(str, r)) for r in rows))
    # the unsafe side: io::Error results that are NOT turned into integer codes
    for recv in (0, 1):
        cases.append("103 0 | " + " ".join(map(str, method_row(recv, 0, 12, 2, []))))
        cases.append("103 1 | " + " ".join(map(str, method_row(recv, 2, 12, 3, [(1, 0)]))))
    n = 6 if tier == "quick" else 60
    for _ in range(n):
        ti = rng.below(2)
        rows = []
        for _ in range(rng.range(1, 6)):
            while True:
                recv, im, ret = rng.below(3), rng.below(3), rng.below(NRET_SHAPES)
                if wf(ti, im, ret) and not (recv == 2 and ret in REF_RETS):
                    break
            # methods returning a reference cannot take arguments with elided lifetimes (the generated fn-pointer type would need
            # a named lifetime: a compile error of the macro, i.e. outside the supported grammar)
            shapes = [0, 4, 6, 9, 12, 13, 14] if ret in REF_RETS else list(range(NARG_SHAPES))
            rows.append(method_row(recv, im, ret, rng.below(9), [(rng.choice(shapes), rng.below(9)) for _ in range(rng.range(0, 3))]))
        cases.append("103 %d | %s" % (ti, " ; ".join(" ".join(map(str, r)) for r in rows)))
    return cases, {"lint_traits": len(cases)}


# ------------------------------------------------------------------------------------------ abi_stable as oracle (C20)
def _split_rows(l):
    hdr, rows = vlib.parse_case(l)
    k = rows.index([-1])
    return hdr, rows[:k], rows[k + 1:]


def layout_probe(lines):
    """compile both definitions of every pair with the layout_checks feature and ask the REAL compare_layouts (abi_stable) for its verdict;
    also prints the REAL VerifyLayout::and table and the None cases.  Returns '<verdict> # fails=-' per line (0 Valid, 1 Invalid, 2 Unknown)."""
    import re
    env = dict(vlib.ENV)
    env["CARGO_MANIFEST_DIR"] = os.path.join(vlib.VERIF, "harness", "gen")
    d = os.path.join(vlib.CACHE, "layprobe")
    os.makedirs(os.path.join(d, "src"), exist_ok=True)
    mods, calls = [], []
    trait_lines = []
    for k, l in enumerate(lines):
        hdr, a, b = _split_rows(l)
        if hdr[0] in (20, 320):
            trait_lines.append("1 %d | %s" % (hdr[1], " ; ".join(" ".join(map(str, r)) for r in a)))
            trait_lines.append("1 %d | %s" % (hdr[2], " ; ".join(" ".join(map(str, r)) for r in b)))
    rendered = []
    if trait_lines:
        rc, src, e, _ = vlib.sh([_built["gen"], "render"], inp="\n".join(trait_lines) + "\n", env=env, timeout=120)
        if rc != 0:
            return ["!CRASH render failed"] * len(lines)
        rendered = re.split(r"// @@TRAIT \d+\n", src)[1:]
    ti = 0
    for k, l in enumerate(lines):
        hdr, a, b = _split_rows(l)
        if hdr[0] == 220:      # the REAL VerifyLayout::and on a pair of verdicts
            calls.append("    p(v(%d).and(v(%d)));" % (a[0][0], a[0][1]))
        elif hdr[0] == 221:    # is_valid_strict + 2 * is_valid_relaxed
            calls.append("    println!(\"{}\", v(%d).is_valid_strict() as i64 + 2 * (v(%d).is_valid_relaxed() as i64));" % (a[0][0], a[0][0]))
        elif hdr[0] == 222:    # compare_layouts with missing descriptions
            sa = "Some(<Pod as StableAbi>::LAYOUT)" if a[0][0] else "None"
            sb = "Some(<Pod as StableAbi>::LAYOUT)" if a[0][1] else "None"
            calls.append("    p(compare_layouts(%s, %s));" % (sa, sb))
        elif hdr[0] == 20:
            for side in ("a", "b"):
                body = re.sub(r"pub trait T\d+ ", "pub trait Tr ", rendered[ti])
                ti += 1
                mods.append("pub mod %s%d { use super::*;\n%s}\n" % (side, k, body))
            calls.append("    pr(<a%d::TrBox<'static> as StableAbi>::LAYOUT, <b%d::TrBox<'static> as StableAbi>::LAYOUT);" % (k, k))
        elif hdr[0] == 320:
            # the same pair of traits as MEMBERS of a group (header field 5: 0 = mandatory, 1 = optional member); the groups' layouts are compared
            role = hdr[4] if len(hdr) > 4 else 1
            for side in ("a", "b"):
                body = re.sub(r"pub trait T\d+ ", "pub trait Tr ", rendered[ti])
                ti += 1
                grp = "cglue_trait_group!(G, Pa, { Tr });" if role == 1 else "cglue_trait_group!(G, Tr, { Pa });"
                mods.append("pub mod %s%d { use super::*;\n%s%s\n}\n" % (side, k, body, grp))
            calls.append("    pr(<a%d::GBox<'static> as StableAbi>::LAYOUT, <b%d::GBox<'static> as StableAbi>::LAYOUT);" % (k, k))
        else:
            for side, rows in (("a", a), ("b", b)):
                nm = rows[0][0]
                names = ["".join(chr(c) for c in r) for r in rows[1:]]
                mods.append("pub mod %s%d { use super::*;\ncglue_trait_group!(G, { %s }, { %s });\n}\n" % (side, k, ", ".join(names[:nm]), ", ".join(names[nm:])))
            calls.append("    pr(<a%d::GBox<'static> as StableAbi>::LAYOUT, <b%d::GBox<'static> as StableAbi>::LAYOUT);" % (k, k))
    pool = ["Pa", "Pb", "Pc", "Pd", "Pe"]
    head = ("#![allow(unused, dead_code, unused_imports, clippy::all)]\nuse cglue::prelude::v1::*;\nuse cglue::*;\nuse cglue::trait_group::{compare_layouts, VerifyLayout};\n"
            "use abi_stable::StableAbi;\n#[repr(C)]\n#[derive(Clone, Copy, StableAbi)]\npub struct Pod { pub a: u8, pub b: u32, pub c: i64 }\n"
            + "".join("#[cglue_trait]\npub trait %s { fn f%d(&self) -> u32; }\n" % (n, i) for i, n in enumerate(pool)) +
            "fn c(x: &VerifyLayout) -> i64 { match x { VerifyLayout::Valid => 0, VerifyLayout::Invalid => 1, VerifyLayout::Unknown => 2 } }\n"
            "fn p(x: VerifyLayout) { println!(\"{}\", c(&x)); }\n"
            # a verdict is a function of the two descriptions: asked again after another, successful, comparison of the same `found` it is the same
            "fn pr(a: &'static abi_stable::type_layout::TypeLayout, b: &'static abi_stable::type_layout::TypeLayout) { let v1 = c(&compare_layouts(Some(a), Some(b))); let vs = c(&compare_layouts(Some(b), Some(b))); let v2 = c(&compare_layouts(Some(a), Some(b))); let vr = c(&compare_layouts(Some(b), Some(a))); let _ = vr; if vs == 0 && v1 == v2 { println!(\"{}\", v1); } else { println!(\"9{}{}{}\", v1, vs, v2); } }\n"
            "fn v(i: i64) -> VerifyLayout { match i { 0 => VerifyLayout::Valid, 1 => VerifyLayout::Invalid, _ => VerifyLayout::Unknown } }\n")
    main = "fn main() {\n" + "\n".join(calls) + "\n}\n"
    open(os.path.join(d, "src", "main.rs"), "w").write(head + "".join(mods) + main)
    open(os.path.join(d, "Cargo.toml"), "w").write('[package]\nname = "layprobe"\nversion = "0.0.0"\nedition = "2018"\n\n[workspace]\n\n[dependencies]\ncglue = { path = "/repo/cglue", features = ["layout_checks"] }\nabi_stable = "0.10"\n\n[profile.dev]\nopt-level = 0\ndebug = false\n')
    try:
        import shutil
        shutil.copy(os.path.join(vlib.REPO, "Cargo.lock"), os.path.join(d, "Cargo.lock"))
    except OSError:
        pass
    rc, o, e, dt = vlib.sh("timeout 1500 cargo run --offline", cwd=d, timeout=1530)
    if rc != 0:
        errs = [x for x in e.split("\n") if x.startswith("error")][:3]
        return ["!CRASH layout probe does not build/run: " + " / ".join(errs)[:300]] * len(lines)
    vals = [x.strip() for x in o.split("\n") if x.strip() != ""]
    if len(vals) != len(lines):
        return ["!CRASH layout probe printed %d verdicts for %d pairs" % (len(vals), len(lines))] * len(lines)
    return ["%s # fails=-" % v for v in vals]


def layout_cases(rng, tier):
    """(definition, single-edit variant) pairs over the trait grammar; expected verdict: Valid iff the C-visible interface is unchanged"""
    import copy
    cases = []
    n = 10 if tier == "quick" else 120
    def rand_trait():
        ti = rng.below(2)
        rows = []
        for k in range(rng.range(1, 4)):
            while True:
                recv, im, ret = rng.below(3), rng.below(3), rng.choice([0, 1, 2, 4, 6, 7, 9])
                if wf(ti, im, ret) and not (recv == 2 and ret in REF_RETS):
                    break
            shapes = [0, 4, 6, 9] if ret in REF_RETS else [0, 1, 2, 3, 4, 6, 7, 8, 9, 11]
            rows.append(method_row(recv, im, ret, rng.below(9), [(rng.choice(shapes), rng.below(9)) for _ in range(rng.range(0, 2))]))
        return ti, rows
    def line(t1, r1, t2, r2):
        return "20 %d %d | %s ; -1 ; %s" % (t1, t2, " ; ".join(" ".join(map(str, r)) for r in r1), " ; ".join(" ".join(map(str, r)) for r in r2))
    for _ in range(n):
        ti, rows = rand_trait()
        cases.append(line(ti, rows, ti, rows))                                  # identical
        e = rng.below(8)
        r2 = copy.deepcopy(rows)
        t2 = ti
        k = rng.below(len(rows))
        if e == 0:
            r2.append(method_row(0, 0, 1, 2, []))                               # add a method
        elif e == 1 and len(r2) > 1:
            del r2[k]                                                           # remove
        elif e == 2:
            r2[k][1] = (r2[k][1] & 15) + 16 * rng.range(1, 9)                   # rename
        elif e == 3 and len(r2) > 1:
            r2[0][1] = (r2[0][1] & 15) + 16 * 1; r2[1][1] = (r2[1][1] & 15) + 16 * 2
            rows = copy.deepcopy(r2); r2[0], r2[1] = r2[1], r2[0]               # reorder two named methods
            cases[-1] = line(ti, rows, ti, rows)
        elif e == 4 and r2[k][4] > 0:
            r2[k][6] = (r2[k][6] + 1) % 9                                       # change an argument's element type
        elif e == 5:
            if r2[k][2] in (1, 2, 4, 6): r2[k][3] = (r2[k][3] + 1) % 9          # change the return element type
            else: r2[k][2] = 1
        elif e == 6 and r2[k][2] not in REF_RETS:
            r2[k][0] = (r2[k][0] + 1) % 3                                       # change the receiver
            if r2[k][0] == 2 and r2[k][2] in REF_RETS: r2[k][0] = 0
        else:
            t2 = 1 - ti                                                         # toggle trait-level int_result
            if not all(wf(t2, m[1], m[2]) for m in r2): t2 = ti; r2.append(method_row(1, 0, 0, 0, []))
        cases.append(line(ti, rows, t2, r2))
    # canonical single edits whose verdict the property statement fixes by itself (third header field = expected verdict, ignored by the model)
    def xline(t1, r1, t2, r2, exp):
        return "20 %d %d %d | %s ; -1 ; %s" % (t1, t2, exp, " ; ".join(" ".join(map(str, r)) for r in r1), " ; ".join(" ".join(map(str, r)) for r in r2))
    # base A: n1(&self, u32, u64) -> u32 ; n2(&mut self, u32) -> Result<u32, ()>;  base B: the same methods with explicit lifetime generics <'a> (their
    # vtable entries are `for<'a>` function pointers, described to the layout checker through another path)
    for lt in (0, 8):
        b0 = [method_row(0, 16 * 1 + lt, 1, 2, [(0, 2), (0, 3)]), method_row(1, 16 * 2 + lt, 6, 2, [(0, 2)])]
        def ed(f, b0=b0):
            r = copy.deepcopy(b0); f(r); return r
        cases.append(xline(0, b0, 0, b0, 0))
        cases.append(xline(1, b0, 1, b0, 0))
        cases.append(xline(0, b0, 0, ed(lambda r: r[0].__setitem__(6, 3)), 1))            # argument u32 -> u64
        cases.append(xline(0, b0, 0, ed(lambda r: r[0].__setitem__(8, 2)), 1))            # argument u64 -> u32
        cases.append(xline(0, b0, 0, ed(lambda r: r[0].__setitem__(3, 3)), 1))            # return u32 -> u64
        cases.append(xline(0, b0, 0, ed(lambda r: r[0].__setitem__(0, 1)), 1))            # receiver &self -> &mut self
        cases.append(xline(0, b0, 0, ed(lambda r: r[1].__setitem__(0, 0)), 1))            # receiver &mut self -> &self
        cases.append(xline(0, b0, 1, b0, 1))                                              # trait-level int_result toggled (Result return)
        cases.append(xline(0, b0, 0, ed(lambda r: r[1].__setitem__(1, 16 * 2 + lt + 1)), 1))   # method-level int_result
        cases.append(xline(0, b0, 0, ed(lambda r: r.reverse()), 1))                       # reordered
        cases.append(xline(0, b0, 0, ed(lambda r: r[0].__setitem__(1, 16 * 3 + lt)), 1))  # renamed
        cases.append(xline(0, b0, 0, ed(lambda r: r.append(method_row(0, 16 * 4, 0, 0, []))), 1))   # added
        cases.append(xline(0, b0, 0, ed(lambda r: r.pop()), 1))                           # removed
    # the element type inside every auto-wrapped shape is part of the C type: a change of it alone must be rejected
    # (argument shapes 1 &[T], 2 &mut [T], 4 Option<T>, 5 Option<&T>, 7 &mut T, 8 OpaqueCallback<T>, 10 &T, 11 CIterator<T>, 12 Result<T, u8>; return shapes 2 &[T], 4 Option<T>, 8 &mut [T], 11 Result<T, u8>)
    for sh in (1, 2, 4, 5, 7, 8, 10, 11, 12):
        bw = [method_row(1, 16 * 1, 0, 0, [(sh, 0), (0, 2)]), method_row(0, 16 * 2, 1, 2, [])]
        r = copy.deepcopy(bw); r[0][6] = 3                     # element type u8 -> u64
        cases.append(xline(0, bw, 0, bw, 0))
        cases.append(xline(0, bw, 0, r, 1))
    for rs in (2, 4, 8, 11):
        bw = [method_row(1, 16 * 1, rs, 0, []), method_row(0, 16 * 2, 1, 2, [])]
        r = copy.deepcopy(bw); r[0][3] = 3                     # returned element type u8 -> u64
        cases.append(xline(0, bw, 0, r, 1))
    # DIFFERENT RUST SPELLINGS of one C-visible interface must compare Valid: `&str` and `&[u8]` are both CSliceRef<u8>, `impl Into<u32>` and `u32` are both
    # u32, `Option<u32>` and `std::option::Option<u32>` both COption<u32>, `Result<u32, u8>` and `std::result::Result<u32, u8>` both CResult<u32, u8>
    for (sa, la), (sb, lb) in (((3, 0), (1, 0)), ((6, 2), (0, 2)), ((4, 2), (14, 2)), ((12, 2), (13, 2))):
        for second in ([], [(0, 3)]):
            a = [method_row(0, 16 * 1, 1, 2, [(sa, la)] + second), method_row(1, 16 * 2, 0, 0, [(0, 2)])]
            b = [method_row(0, 16 * 1, 1, 2, [(sb, lb)] + second), method_row(1, 16 * 2, 0, 0, [(0, 2)])]
            cases.append(xline(0, a, 0, b, 0))
            cases.append(xline(0, b, 0, a, 0))
    for (ra, rb) in ((3, (2, 0)), (4, (14, None)), (11, (13, None))):      # returns: &str / &[u8] ; Option / std::option::Option ; Result / std::result::Result
        a = [method_row(0, 16 * 1, ra, 0 if ra == 3 else 2, [(0, 2)])]
        b = [method_row(0, 16 * 1, rb[0], 0 if ra == 3 else 2, [(0, 2)])]
        cases.append(xline(0, a, 0, b, 0))
    # the same canonical edits inside a trait that is a MANDATORY (role 0) / OPTIONAL (role 1) member of a group: the group's verdict must follow
    for c in [x for x in cases if x.startswith("20 ") and len(x.split("|")[0].split()) == 4]:
        h, body = c.split("|", 1)
        h = h.split()
        for role in (0, 1):
            cases.append("320 %s %s %s %d |%s" % (h[1], h[2], h[3], role, body))
    # groups (monitor only): identical / optional trait added / removed / moved to mandatory
    def gl(a, b):
        enc = lambda g: " ; ".join([str(g[0])] + [enc_name(n) for n in g[1]])
        return "120 | %s ; -1 ; %s" % (enc(a), enc(b))
    base = (1, ["Pa", "Pb", "Pc"])
    cases += [gl(base, base), gl(base, (1, ["Pa", "Pb", "Pc", "Pd"])), gl(base, (1, ["Pa", "Pb"])), gl(base, (2, ["Pa", "Pb", "Pc"])), gl(base, (1, ["Pa", "Pc", "Pb"])),
              gl(base, (1, ["Pa", "Pb", "Pd"]))]
    return cases, {"layout_pairs": len(cases)}


def layout_expected(l):
    """the property's own expectation for a pair (independent of the Coq model): 0 iff nothing C-visible changed"""
    hdr, a, b = _split_rows(l)
    if hdr[0] == 120:
        return 0 if (a[0] == b[0] and sorted(map(tuple, a[1:a[0][0] + 1])) == sorted(map(tuple, b[1:b[0][0] + 1])) and sorted(map(tuple, a[a[0][0] + 1:])) == sorted(map(tuple, b[b[0][0] + 1:]))) else 1
    if hdr[0] in (20, 320) and len(hdr) > 3:
        return hdr[3]
    return None
