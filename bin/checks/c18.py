"""C18 — post-processed headers compile, are reproducible, keep foreign declarations; the command line is split at `--`.
Two kinds of cases:
 '118 <ordered> | <API model as JSON, one character code per integer>'   (header cases; API as in C17 plus `foreign`, `foreign_pos`, `foreign_fns`,
      `generic_ctx`): the API is rendered as a cbindgen-shaped C header AND as a C++ header; each is processed by the REAL tool in several fresh
      processes (byte-identity), compiled (gcc -std=c99 -pedantic-errors / g++ -std=c++11, syntax only), and searched for every foreign declaration
      (verbatim, original order).  Output rows: the foreign declarations and the copies of context-generic structs in the order they occur in the
      processed C header ([0 id] / [1 id context]) — the block-level Coq model (coq/model/BindgenHeader.v, id 118) predicts exactly that sequence.
 '18 <mode> | argv, one row of character codes per argument' (mode 1: the output paths already hold an older, longer header; 2: cbindgen fails; 3: cbindgen prints
      a header of ~150 KB, far more than a pipe holds)   (command-line cases): the REAL cglue-bindgen binary is run with that argv in a scratch
      directory where `cbindgen` and `rustup` are stubs that record their arguments and print a canned header; output rows: what the Coq model
      of main.rs's split (id 18) prints: [config given] ; config ; [+nightly] ; [output given] ; output ; arguments handed to cbindgen."""
import hashlib
import json
import os
import re
import shutil
import subprocess
import sys
from concurrent.futures import ThreadPoolExecutor

import vlib
from checks import bgcommon as B
from checks import hdrgen as H

PROP = "C18"
PROP_V = "props/C18.v"
HARNESS = "bindgen"
SHRINK = False
RULE = ("header cases: the API space of C17 with 1-3 distinct contexts in one header, an optional context-generic struct, 0-6 foreign declarations "
        "(defines, enums, structs, function-pointer typedefs, functions; names resembling cglue patterns: *Vtbl*, *RetTmp_*, Callback_*, Container*, "
        "Context, *_Context) at random positions, all config-file combinations; 3 fresh processes per header and language; command-line cases: random "
        "argument vectors around `--` with 0-2 output options, 0-2 config options, +nightly, pass-through options; non-trivial = every case; distinct by text")
TRUSTED = [
    "cbindgen-shaped header generator bin/checks/hdrgen.py (cbindgen is not installed)",
    "harness/bindgen (real parse_header by #[path]) and the real cglue-bindgen binary built from /repo with stub `cbindgen`/`rustup` executables on PATH",
    "gcc 12 / g++ 12 as the C99 / C++11 compilers (syntax only for C++ templates; instantiation is exercised by C17's driver)",
    "translator translators/bindgentables.py (type of the context collection)",
    "models coq/model/Bindgen.v (split_cli) and coq/model/BindgenHeader.v (block level: the regular expressions are not modelled)",
]
ASSUMPTIONS = ["headers have the shape produced by hdrgen.py", "output options are given as two arguments (`-o X` / `--output X`), the form the README documents"]

FOREIGN_POOL = [
    "#define USER_LIMIT 16\n",
    "typedef enum Mode {\n    Mode_A,\n    Mode_B,\n} Mode;\n",
    "typedef struct UserVtbl {\n    int32_t (*call)(void *cont, int32_t x);\n} UserVtbl;\n",
    "typedef struct ReadRetTmp_Buffer {\n    uint8_t bytes[16];\n} ReadRetTmp_Buffer;\n",
    "typedef struct ContainerPool {\n    struct Pair *items;\n    uintptr_t len;\n} ContainerPool;\n",
    "typedef int32_t (*UserFn)(const struct Pair *cont, int32_t x);\n",
    "typedef struct Callback_Userdata {\n    void *context;\n    bool (*func)(void*, int32_t);\n} Callback_Userdata;\n",
    "/**\n * CGlue-looking comment for trait Foo.\n */\ntypedef struct FooVtbl_Plain {\n    void (*run)(void);\n} FooVtbl_Plain;\n",
    "typedef struct Context {\n    int32_t id;\n} Context;\n",
    "/**\n * Doc comment of a user struct.\n */\ntypedef struct Settings {\n    uint32_t flags;\n    const char *name;\n} Settings;\n",
    # opaque (body-less) user types — what cbindgen emits for a type it cannot see into — whose names resemble CGlue patterns
    "typedef struct AudioRetTmp_Buffer AudioRetTmp_Buffer;\n",
    "typedef struct MixerVtbl_Opaque MixerVtbl_Opaque;\n",
    "typedef struct TraitObjLike_Box TraitObjLike_Box;\n",
    "/**\n * An opaque user handle.\n */\ntypedef struct SessionContainer SessionContainer;\n",
    # C declarations whose comments (copied from Rust docs) or guarded blocks merely MENTION C++ constructs: the header is still a C header
    "/**\n * A growable list. C++ users see `template<typename T> struct Vec`,\n * e.g. `using CounterList = Vec<Counter>`.\n */\ntypedef struct CounterVec {\n    uint32_t *data;\n    uintptr_t len;\n} CounterVec;\n",
    "#ifdef __cplusplus\n  #include <cstdint>\n#endif\n",
    # documentation copied from Rust sources is UTF-8: units, typographic quotes, names, other scripts
    "/**\n * One temperature sample in °C (resolution ±0.5 °C, drift ≤ 2 µV/K) — “cold” below −40 °C.\n */\ntypedef struct Reading {\n    double celsius;\n    uint64_t micros;\n} Reading;\n",
    "/**\n * Фильтр усреднения (naïve или Kálmán); 平均フィルタ.\n */\ntypedef enum FilterMode {\n    FilterMode_Naive,\n    FilterMode_Kalman,\n} FilterMode;\n",
]
FOREIGN_CTX = "/**\n * A user type whose name ends like a context-generic struct.\n */\ntypedef struct Widget_Context {\n    int32_t depth;\n} Widget_Context;\n"
FOREIGN_FNS = ["int32_t user_drop(struct Pair *p);\n", "void ctx_arc_clone_all(void);\n", "uint32_t settings_flags(const struct Settings *s);\n"]
FOREIGN_CPP = [
    "constexpr static const uint32_t USER_LIMIT = 16;\n",
    "enum class Mode {\n    A,\n    B,\n};\n",
    "struct UserVtbl {\n    int32_t (*call)(void *cont, int32_t x);\n};\n",
    "struct ContainerPool {\n    Pair *items;\n    uintptr_t len;\n};\n",
    "using UserFn = int32_t(*)(const Pair *cont, int32_t x);\n",
    "/**\n * Doc comment of a user struct.\n */\nstruct Settings {\n    uint32_t flags;\n    const char *name;\n};\n",
    "/**\n * One temperature sample in °C (resolution ±0.5 °C, drift ≤ 2 µV/K) — “cold” below −40 °C.\n */\nstruct Reading {\n    double celsius;\n    uint64_t micros;\n};\n",
    "/**\n * Фильтр усреднения (naïve или Kálmán); 平均フィルタ.\n */\nenum class FilterMode {\n    Naive,\n    Kalman,\n};\n",
]
RUNS = 3

_built = {}


def pre():
    sys.path.insert(0, os.path.join(vlib.VERIF, "translators"))
    import bindgentables
    from srcdump import TranslateError
    try:
        bindgentables.generate()
        return []
    except TranslateError as e:
        return ["translator cannot express the current source: %s" % e]


def ordered():
    if "o" not in _built:
        sys.path.insert(0, os.path.join(vlib.VERIF, "translators"))
        import bindgentables
        try:
            _built["o"] = 1 if bindgentables.facts()["contexts_ordered"] else 0
        except Exception:
            _built["o"] = 0
    return _built["o"]


def build_harness(tier):
    exe, err, dt = B.build(tier)
    if exe is None:
        return exe, err, dt
    # the real binary
    env = dict(vlib.ENV)
    env["CARGO_TARGET_DIR"] = os.path.join(vlib.CACHE, "target-bgbin")
    rc, o, e, dt2 = vlib.sh("timeout 900 cargo build --offline --release -p cglue-bindgen", cwd=vlib.REPO, env=env, timeout=930)
    if rc != 0:
        return None, "cglue-bindgen does not build: " + e[-1500:], dt + dt2
    _built["bin"] = os.path.join(env["CARGO_TARGET_DIR"], "release", "cglue-bindgen")
    return exe, "", dt + dt2


# ------------------------------------------------------------------------------------------------ header cases
def contexts_of(api):
    """contexts the tool learns (zero-sized RetTmp typedefs), in the order they appear in the header"""
    seen = []
    for g in api["groups"]:
        for (inner, ctx) in g["variants"]:
            for ti in g["traits"]:
                if not api["traits"][ti].get("rettmp") and H.CTX_C[ctx] not in seen:
                    seen.append(H.CTX_C[ctx])
    for ob in api["objects"]:
        if not api["traits"][ob["trait"]].get("rettmp") and H.CTX_C[ob["ctx"]] not in seen:
            seen.append(H.CTX_C[ob["ctx"]])
    return seen


def block_kind(kind, text):
    if kind == "generic":
        return 1
    if kind == "foreign":
        return 2 if re.search(r"typedef struct \S+_Context \{", text) else 0
    return 3


def model_line(l):
    if l.startswith("18 "):
        return "18 |" + l.split("|", 1)[1]     # what the output path held before is no business of the command-line model
    api = B.line_api(l)
    _, meta = H.render_c_meta(api)
    ctxs = contexts_of(api)
    rows = [str(len(ctxs))] + [B.srow(c) for c in ctxs]
    for i, (k, t) in enumerate(meta):
        rows.append("%d %d" % (block_kind(k, t), i))
    return "118 %d | %s" % (ordered(), " ; ".join(rows))


def observe_c(api, meta, out):
    """foreign declarations and copies of generic structs in the order they occur in the processed header"""
    ctxs = contexts_of(api)
    found = []
    for i, (k, t) in enumerate(meta):
        bk = block_kind(k, t)
        if bk == 0:
            p = out.find(t)
            if p >= 0:
                found.append((p, "0 %d" % i))
        elif bk in (1, 2):
            m = re.search(r"typedef struct (\S+)_Context \{", t)
            for ci, c in enumerate(ctxs):
                p = out.find("typedef struct %s_%s {" % (m.group(1), c))
                if p >= 0:
                    found.append((p, "1 %d %d" % (i, ci)))
    found.sort()
    return [r for _, r in found]


def one_header(idx, line):
    api = B.line_api(line)
    exe = B.build()[0]
    d = os.path.join(B.WORK, "h%d_%d" % (os.getpid(), idx))
    shutil.rmtree(d, ignore_errors=True)
    os.makedirs(d)
    fails = []
    rows = []
    try:
        open(os.path.join(d, "cfg.toml"), "w").write(B.cfg_toml(api.get("config", {})))
        ctext, meta = H.render_c_meta(api)
        capi = dict(api)
        cpp_cfg = dict(api.get("config", {}))
        if cpp_cfg.get("default_context") == "" or ("default_container" in cpp_cfg and "default_context" not in cpp_cfg):
            cpp_cfg["default_context"] = "Arc"
        open(os.path.join(d, "cfgpp.toml"), "w").write(B.cfg_toml(cpp_cfg))
        capi["foreign_fns"] = []
        xtext, xforeign = H.render_cpp(capi)
        for lang, text, cfgf in (("c", ctext, "cfg.toml"), ("cpp", xtext, "cfgpp.toml")):
            src = os.path.join(d, "in." + ("h" if lang == "c" else "hpp"))
            open(src, "w").write(text)
            outs = []
            for r in range(RUNS):
                p = subprocess.run([exe, "auto", os.path.join(d, cfgf), src], capture_output=True, text=True, env=vlib.ENV)
                if p.returncode != 0:
                    fails.append("tool-error(%s):%s" % (lang, re.sub(r"\s+", "_", p.stderr.strip())[:160]))
                    break
                outs.append(p.stdout)
            if len(outs) < RUNS:
                continue
            if len({hashlib.sha256(o.encode()).hexdigest() for o in outs}) != 1:
                fails.append("not-reproducible(%s):%d distinct outputs in %d fresh processes" % (lang, len(set(outs)), RUNS))
            out = outs[0]
            dst = os.path.join(d, "out." + ("h" if lang == "c" else "hpp"))
            open(dst, "w").write(out)
            ok, err = B.syntax_check(dst, lang)
            if not ok:
                first = [x for x in err.split("\n") if "error" in x][:1]
                fails.append("does-not-compile(%s):%s" % (lang, re.sub(r"\s+", "_", (first or [err[:200]])[0])[:200]))
            foreign = [t for k, t in meta if k == "foreign"] if lang == "c" else xforeign
            pos = -1
            for t in foreign:
                p = out.find(t)
                head = re.sub(r"\s+", "_", [x for x in t.split("\n") if x and not x.startswith(("/**", " *"))][0])[:60]
                if p < 0:
                    fails.append("foreign-declaration-lost(%s):%s" % (lang, head))
                elif p < pos:
                    fails.append("foreign-declaration-moved(%s):%s" % (lang, head))
                else:
                    pos = p
            if lang == "c":
                rows = observe_c(api, meta, out)
    finally:
        shutil.rmtree(d, ignore_errors=True)
    return " ; ".join(rows) + " # fails=%s" % ("|".join(fails) if fails else "-")


# ------------------------------------------------------------------------------------------------ command-line cases
CANNED = "#include <stdarg.h>\n#include <stdbool.h>\n#include <stdint.h>\n#include <stdlib.h>\n\ntypedef struct Pair {\n    uint32_t a;\n    uint64_t b;\n} Pair;\n\nint32_t user_drop(struct Pair *p);\n"
# header field 2 = 3: cbindgen prints a LARGE header (well above the capacity of a pipe): the tool has to keep reading while cbindgen writes
CANNED_BIG = CANNED + "".join("\ntypedef struct Filler%d {\n    uint32_t tag;\n    uint64_t payload[4];\n    struct Pair pair;\n} Filler%d;\n" % (k, k) for k in range(1400))
STUB = "#!/bin/sh\necho \"$0\" >> \"$STUB_LOG\"\nfor a in \"$@\"; do echo \"$a\" >> \"$STUB_LOG\"; done\ncat \"$STUB_HEADER\"\n"


def argv_of(line):
    body = line.split("|", 1)[1]
    return ["".join(chr(int(x)) for x in r.split()) for r in body.split(";")] if body.strip() else []


def one_cli(idx, line):
    argv = argv_of(line)
    d = os.path.join(B.WORK, "cli%d_%d" % (os.getpid(), idx))
    shutil.rmtree(d, ignore_errors=True)
    os.makedirs(os.path.join(d, "bin"))
    fails = []
    try:
        mode = (line.split("|", 1)[0].split() + ["0", "0"])[1]
        for n in ("cbindgen", "rustup"):
            p = os.path.join(d, "bin", n)
            # header field 2 = 2: cbindgen itself FAILS (prints nothing, exit status 3)
            open(p, "w").write(STUB if mode != "2" else "#!/bin/sh\necho \"$0\" >> \"$STUB_LOG\"\necho 'ERROR: Parsing crate' >&2\nexit 3\n")
            os.chmod(p, 0o755)
        open(os.path.join(d, "canned.h"), "w").write(CANNED_BIG if mode == "3" else CANNED)
        open(os.path.join(d, "cfg1.toml"), "w").write('function_prefix = "one"\n')
        open(os.path.join(d, "cfg2.toml"), "w").write('function_prefix = "two"\n')
        env = dict(vlib.ENV)
        env["PATH"] = os.path.join(d, "bin") + ":" + env.get("PATH", os.environ.get("PATH", ""))
        env["STUB_LOG"] = os.path.join(d, "log")
        env["STUB_HEADER"] = os.path.join(d, "canned.h")
        open(os.path.join(d, "cb.toml"), "w").write("")
        if mode in ("1", "2"):
            # regeneration in place: every output path named on the command line already holds an older header that is longer than the new one
            for a, b in zip(argv, argv[1:]):
                if a in ("-o", "--output") and b not in ("-o", "--output") and "/" not in b and b not in ("cb.toml", "cfg1.toml", "cfg2.toml", "canned.h", "log"):
                    open(os.path.join(d, b), "w").write("/* an older generation of this header */\n" + CANNED + "\n/* stale tail */\n" * 400)
        snap = lambda: {f: open(os.path.join(d, f), "rb").read() for f in os.listdir(d) if os.path.isfile(os.path.join(d, f)) and f != "log"}
        before = snap()
        pre0 = argv[:argv.index("--")] if "--" in argv else argv
        cfgs = [b for a, b in zip(pre0, pre0[1:]) if a in ("-c", "--config")]
        try:
            p = subprocess.run([_built["bin"]] + argv, cwd=d, capture_output=True, text=True, env=env, timeout=12)
        except subprocess.TimeoutExpired:
            return "-9 # fails=the-tool-does-not-terminate:no-processed-header-after-12s-for-a-cbindgen-output-of-%d-bytes" % len(CANNED_BIG if mode == "3" else CANNED)
        log = open(os.path.join(d, "log")).read().split("\n")[:-1] if os.path.exists(os.path.join(d, "log")) else []
        if mode == "2":
            # no processed header can be produced: the tool must say so (non-zero exit status) and must leave every file as it was
            bad = []
            if p.returncode == 0:
                bad.append("cbindgen-failed-but-the-tool-exits-0")
            if snap() != before:
                bad.append("files-changed-although-cbindgen-failed")
            return "-7 # fails=%s" % ("|".join(bad) if bad else "-")
        if any(not os.path.isfile(os.path.join(d, c)) for c in cfgs):
            # a configuration file that does not exist is an error, and nothing must have been run or written
            bad = p.returncode == 0 or log
            return "-8 # fails=%s" % ("missing-config-accepted" if bad else "-")
        if p.returncode != 0 or not log:
            return "-9 # fails=tool-error:rc=%s_%s" % (p.returncode, re.sub(r"\s+", "_", p.stderr.strip())[:160])
        prog = os.path.basename(log[0])
        passed = log[1:]
        nightly = prog == "rustup"
        if nightly:
            if passed[:3] != ["run", "nightly", "cbindgen"]:
                fails.append("nightly-invocation:%s" % "_".join(passed[:3]))
            passed = passed[3:]
        after = snap()
        written = sorted(f for f in after if before.get(f) != after[f])
        # which configuration was applied: the prefix shows up in no wrapper here, so read it off by processing the canned header ourselves
        cfg_used = None
        pre = argv[:argv.index("--")] if "--" in argv else argv
        for a, b in zip(pre, pre[1:]):
            if a in ("-c", "--config"):
                cfg_used = b
        exp_out = subprocess.run([B.build()[0], "auto", os.path.join(d, cfg_used) if cfg_used else "-", os.path.join(d, "canned.h")],
                                 capture_output=True, text=True, env=vlib.ENV).stdout
        out_name = written[0] if written else ""
        got = open(os.path.join(d, out_name)).read() if written else p.stdout
        if len(written) > 1:
            fails.append("several-outputs-written:%s" % "_".join(written))
        if got != exp_out:
            fails.append("output-is-not-the-processed-header:%s" % (out_name or "stdout"))
        # property-level expectation (independent of the model): everything after `--` except the output pairs; first output value is the target
        post = argv[argv.index("--") + 1:] if "--" in argv else []
        exp_pass, exp_target, i = [], None, 0
        while i < len(post):
            if post[i] in ("-o", "--output"):
                if i + 1 < len(post) and exp_target is None:
                    exp_target = post[i + 1]
                i += 2
            else:
                exp_pass.append(post[i])
                i += 1
        flag_value = any(a in ("-o", "--output") and b in ("-o", "--output") for a, b in zip(post, post[1:]))
        if not flag_value:
            if passed != exp_pass:
                fails.append("cbindgen-arguments:%s" % "_".join(passed)[:120])
            if (exp_target or "") != out_name:
                fails.append("output-target:%s_instead_of_%s" % (out_name or "stdout", exp_target or "stdout"))
            if nightly != ("+nightly" in pre):
                fails.append("nightly-flag")
        rows = ["1" if cfg_used else "0", B.srow(cfg_used or ""), "1" if nightly else "0", "1" if written else "0", B.srow(out_name)] + [B.srow(a) for a in passed]
        return " ; ".join(rows) + " # fails=%s" % ("|".join(fails) if fails else "-")
    finally:
        shutil.rmtree(d, ignore_errors=True)


def run_impl(lines):
    def work(i):
        try:
            return one_cli(i, lines[i]) if lines[i].startswith("18 ") else one_header(i, lines[i])
        except Exception as e:      # noqa
            return "-9 # fails=harness-exception:%s" % re.sub(r"\s+", "_", repr(e))[:200]
    with ThreadPoolExecutor(max_workers=vlib.NPROC) as ex:
        return list(ex.map(work, range(len(lines))))


def compare(l, impl_rows, model_rows):
    norm = lambda s: [r.strip() for r in (s or "").split(";") if r.strip() != "" or True]
    a, b = [r.strip() for r in (impl_rows or "").split(";")], [r.strip() for r in (model_rows or "").split(";")]
    if l.startswith("18 "):
        if a == ["-8"] or a == ["-7"]:
            return True      # rejected for a missing configuration file / a failing cbindgen: the model knows nothing about the file system
        # an empty string row prints as an empty row on both sides
        return a == b
    return [r for r in a if r] == [r for r in b if r]


def nontrivial(l):
    return True


def cli_case(rng, malformed=False):
    pre = []
    for _ in range(rng.below(3)):
        pre += [rng.choice(["-c", "--config"]), rng.choice(["cfg1.toml", "cfg2.toml"])]
    if rng.chance(1, 2):
        pre.insert(2 * rng.below(len(pre) // 2 + 1), "+nightly")
    post = []
    outs = ["out1.h", "out2.h"]
    for _ in range(rng.below(7)):
        k = rng.below(6)
        if k == 0:
            post += ["--config", "cb.toml"]
        elif k == 1:
            post += ["--crate", "plugin-api"]
        elif k == 2:
            post += ["-l", rng.choice(["C", "C++"])]
        elif k == 3 and outs:
            post += [rng.choice(["-o", "--output"]), outs.pop(0)]
        elif k == 4:
            post += ["-q"]
        else:
            post += ["--lockfile", "Cargo.lock"]
    if malformed:
        post.insert(rng.below(len(post) + 1), rng.choice(["-o", "--output"]))
    argv = pre + (["--"] if rng.chance(9, 10) else []) + post
    # header field 2 = 1: the output paths already hold an older, LONGER header (regeneration in place)
    return "18 %d | " % (1 if rng.chance(1, 2) else 0) + " ; ".join(B.srow(a) for a in argv)


def gen_cases(rng, tier):
    n = {"quick": 40, "thorough": 400, "search": 200}[tier]
    lines = []
    dist = {"header_cases": 0, "cli_cases": 0, "contexts>=2": 0, "generic_ctx": 0, "foreign_blocks": 0, "foreign_named_like_generic": 0, "malformed_cli": 0}
    for i in range(n):
        r = rng.fork("h%d" % i)
        api = B.gen_api(r, "small" if i % 3 == 0 else "normal")
        # at least two contexts in most headers
        if not any(o["ctx"] == "None" for o in api["objects"]):
            api["objects"].append({"trait": 0, "inner": "Box", "ctx": "None"})
        if not any(o["ctx"] == "Arc" for o in api["objects"]) and r.chance(3, 4):
            api["objects"].append({"trait": 0, "inner": "Mut", "ctx": "Arc"})
        api["generic_ctx"] = r.chance(2, 3)
        k = r.below(7)
        pool = list(FOREIGN_POOL)
        foreign = []
        for _ in range(k):
            foreign.append(pool.pop(r.below(len(pool))))
        if r.chance(1, 8):
            foreign.append(FOREIGN_CTX)
            dist["foreign_named_like_generic"] += 1
        api["foreign"] = foreign
        api["foreign_pos"] = sorted(r.below(12) for _ in foreign)
        api["foreign_fns"] = [f for f in FOREIGN_FNS if r.chance(1, 2) and ("settings" not in f or any("Settings" in x for x in foreign))]
        api["foreign_cpp"] = [f for f in FOREIGN_CPP if r.chance(1, 2)]
        lines.append(B.api_line(api, str(ordered()), 118))
        dist["header_cases"] += 1
        dist["contexts>=2"] += 1 if len(contexts_of(api)) >= 2 else 0
        dist["generic_ctx"] += 1 if api["generic_ctx"] else 0
        dist["foreign_blocks"] += len(foreign) + len(api["foreign_fns"])
    # fixed: non-ASCII documentation in foreign declarations, in a header whose first `MaybeUninit<` (a RetTmp slot) comes before them
    for k in range(3):
        r = rng.fork("utf8-%d" % k)
        api = B.gen_api(r, "small")
        api["groups"] = []
        api["traits"][0]["rettmp"] = True
        api["objects"] = [{"trait": 0, "inner": "Box", "ctx": "Arc"}, {"trait": 0, "inner": "Box", "ctx": "None"}]
        api["generic_ctx"] = False
        api["foreign"] = [f for f in FOREIGN_POOL if "Reading" in f or "FilterMode" in f or "Settings" in f]
        api["foreign_pos"] = sorted(r.below(12) for _ in api["foreign"])
        api["foreign_fns"] = []
        api["foreign_cpp"] = [f for f in FOREIGN_CPP if "Reading" in f or "FilterMode" in f]
        lines.append(B.api_line(api, str(ordered()), 118))
        dist["header_cases"] += 1
    for i in range(n):
        mal = (i % 8 == 7)
        lines.append(cli_case(rng.fork("cli%d" % i), mal))
        if i % 6 == 1:      # a cbindgen output far larger than a pipe buffer (header field 2 = 3)
            bl = cli_case(rng.fork("clib%d" % i), False)
            lines.append("18 3 |" + bl.split("|", 1)[1])
        if i % 5 == 0:      # the failure paths: cbindgen fails (header field 2 = 2); a configuration file that does not exist
            fl = cli_case(rng.fork("clif%d" % i), False)
            lines.append("18 2 |" + fl.split("|", 1)[1])
            argv = argv_of(fl)
            k = argv.index("--") if "--" in argv else 0
            lines.append("18 0 | " + " ; ".join(B.srow(a) for a in (argv[:k] + ["-c", "missing.toml"] + argv[k:])))
        dist["cli_cases"] += 1
        dist["malformed_cli"] += 1 if mal else 0
    return lines, dist


def known_match(kf, l, fails):
    real = [f for f in fails if f != "model-mismatch"]
    if not real or not l.startswith("118 "):
        return False
    pats = kf.get("match", {}).get("fail_patterns", [])
    return all(any(re.search(p, f) for p in pats) for f in real)


def describe(l):
    if l.startswith("18 "):
        return "argv " + json.dumps(argv_of(l))
    return "header " + json.dumps(B.line_api(l), separators=(",", ":"), sort_keys=True)


def shrink_line(line, pred):
    if line.startswith("18 "):
        argv = argv_of(line)
        changed = True
        while changed:
            changed = False
            for i in range(len(argv)):
                a = argv[:i] + argv[i + 1:]
                l = line.split("|", 1)[0] + "| " + " ; ".join(B.srow(x) for x in a)
                if pred(l):
                    argv, changed = a, True
                    break
        return line.split("|", 1)[0] + "| " + " ; ".join(B.srow(x) for x in argv)
    return B.shrink_api_line(line, pred)
