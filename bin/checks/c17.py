"""C17 — generated C/C++ wrappers forward to the right slot with the right arguments.
Case line: '17 <vt_mode> | <API model as JSON, one character code per integer>'  (see bgcommon.py / hdrgen.py for the API model).
Implementation side: the API is rendered as a cbindgen-shaped header, processed by the REAL cglue-bindgen code (harness/bindgen includes its
sources by path), the wrappers are extracted and the processed header is compiled (gcc -std=c99) with a generated mock-vtable driver.
Output rows:
  1 <codes>                   text of an emitted wrapper (white space removed), in output order
  2 e f status ev.. 7 retv    what calling the wrapper that serves vtable entry f of header entry e did (status 0 = called; -1 no wrapper;
                              -2 / -3 / -4: the serving wrapper's self / parameter / return types do not fit this entry); events as in bgcommon.py;
                              retv 1 = returned the entry's result (for container-returning entries: in an object carrying the original's vtables),
                              2 = container right but vtable pointers not those of the object, 0 = wrong value
Model side (coq/model/Bindgen.v, id 17): the same API, as the list of vtables the discovery is supposed to find -> emitted wrapper texts (rendered from
the wrapper AST the theorems talk about), the serving wrapper per entry and its trace/return according to the AST semantics."""
import os
import re
import shutil
import sys
from concurrent.futures import ThreadPoolExecutor

import vlib
from checks import bgcommon as B
from checks import hdrgen as H

PROP = "C17"
PROP_V = "props/C17.v"
HARNESS = "bindgen"
SHRINK = False
RULE = ("API models from the grammar of the property (1-4 traits, 0-2 groups with 1-2 container/context variants, 0-3 objects, methods with 0-4 "
        "arguments of scalar/struct/slice/callback/pointer kinds, by-ref/by-mut/consuming receivers, value/pointer/struct/container returns, Box/Mut/Ref, "
        "NoContext/Arc, clashing method names, with/without default container, default context and function prefix); every vtable entry and drop helper "
        "of every object and group variant is exercised; non-trivial = every API; distinct by text")
TRUSTED = [
    "cbindgen-shaped header generator bin/checks/hdrgen.py (cbindgen is not installed; shape taken from examples/pregen-headers and the tool's own regular expressions)",
    "harness/bindgen: includes cglue-bindgen/src/{config,types,codegen/*}.rs by #[path] and runs the real parse_header",
    "mock-vtable driver generator bin/checks/bgcommon.py and gcc 12 (C99) / the x86-64 SysV ABI",
    "translator translators/bindgentables.py: container/context tables, the vtable list handed to create_wrappers_c and the type of the context collection are re-read from the source",
    "model coq/model/Bindgen.v; the discovery regular expressions are not modelled (the model is given what they should find)",
]
ASSUMPTIONS = ["headers have the shape produced by hdrgen.py", "gcc as the C99 compiler"]


def pre():
    sys.path.insert(0, os.path.join(vlib.VERIF, "translators"))
    import bindgentables
    from srcdump import TranslateError
    try:
        bindgentables.generate()
        return []
    except TranslateError as e:
        return ["translator cannot express the current source: %s" % e]


_modes = {}


def vt_mode():
    """(vt_mode, clash) as read from the source; the code as found (0, 0) when the translator cannot classify it"""
    if "m" not in _modes:
        sys.path.insert(0, os.path.join(vlib.VERIF, "translators"))
        import bindgentables
        try:
            f = bindgentables.facts()
            _modes["m"] = "%d %d" % (f["vt_mode"], f["clash"])
            _modes["cpp"] = "%d" % f["cpp_release"]
        except Exception:
            _modes["m"] = "0 0"
            _modes["cpp"] = "0"
    return _modes["m"]


def build_harness(tier):
    return B.build(tier)


def model_line(l):
    if l.startswith("117 "):
        vt_mode()
        return B.model_line_cpp(l).replace("117 |", "117 %s |" % _modes["cpp"], 1)
    # the two source-dependent decisions come from the translator, not from the case line
    body = l.split("|", 1)[1]
    return B.model_line("17 %s |%s" % (vt_mode(), body))


def parse_model_cpp(mo, api):
    rows = [r.strip() for r in (mo or "").split(";")]
    texts, names = [], {}
    for j in range(0, len(rows) - 4, 5):
        h = [int(x) for x in rows[j].split()]
        if len(h) != 5 or h[0] != 1:
            break
        nm = "".join(chr(int(x)) for x in rows[j + 1].split())
        texts.append("".join(chr(int(x)) for x in rows[j + 2].split()))
        names[(h[1], h[2], h[3], h[4])] = {"name": nm, "trace": [int(x) for x in rows[j + 3].split()][1:], "ret": [int(x) for x in rows[j + 4].split()][1:]}
    es = B.entries(api)
    vts = B.cpp_vtables(api)
    gidx = {g["name"]: k for k, g in enumerate(api["groups"])}
    serve = {}
    for ei, e in enumerate(es):
        vi = vts.index(e["ti"])
        for fi in range(len(api["traits"][e["ti"]]["methods"])):
            key = (1, vi, vi, fi) if e["obj"] else (0, gidx[e["cont"]], vi, fi)
            n = names.get(key)
            serve[(ei, fi)] = dict(n, k=0) if n else {"name": None, "k": -1, "trace": [], "ret": []}
    return texts, serve


def parse_model(mo):
    rows = [r.strip() for r in (mo or "").split(";")]
    texts, serve = [], {}
    j = 0
    while j < len(rows):
        r = rows[j].split()
        if r and r[0] == "1" and len(r) == 3 and j + 1 < len(rows):
            texts.append("".join(chr(int(x)) for x in rows[j + 1].split()))
            j += 2
        elif r and r[0] == "2" and len(r) == 4 and j + 3 < len(rows):
            nm = "".join(chr(int(x)) for x in rows[j + 1].split())
            serve[(int(r[1]), int(r[2]))] = {"name": nm if int(r[3]) >= 0 else None, "k": int(r[3]),
                                             "trace": [int(x) for x in rows[j + 2].split()][1:], "ret": [int(x) for x in rows[j + 3].split()][1:]}
            j += 4
        else:
            j += 1
    return texts, serve


def one(idx, line, out, err, mo):
    api = B.line_api(line)
    cpp = line.startswith("117 ")
    if out is None:
        return "-9 # fails=tool-error:%s" % re.sub(r"\s+", "_", err)[:200]
    d = os.path.join(B.WORK, "d%d_%d" % (os.getpid(), idx))
    shutil.rmtree(d, ignore_errors=True)
    os.makedirs(d)
    es = B.entries(api)
    if cpp:
        ws = B.extract_wrappers_cpp(out, api)
        texts, serve = parse_model_cpp(mo, api)
        hp = os.path.join(d, "out.hpp")
        open(hp, "w").write(out)
        drv = B.make_driver_cpp(api, es, {k: v["name"] for k, v in serve.items()}, ws, hp)
        o, e = B.compile_run_cpp(drv, d, "drv")
    else:
        ws = B.extract_wrappers_c(out)
        texts, serve = parse_model(mo)
        hp = os.path.join(d, "out.h")
        open(hp, "w").write(out)
        drv = B.make_driver(api, es, {k: v["name"] for k, v in serve.items()}, ws, hp)
        o, e = B.compile_run(drv, d, "drv")
    shutil.rmtree(d, ignore_errors=True)
    rows = ["1 " + " ".join(str(ord(c)) for c in B.nows(w["text"])) for w in ws]
    if o is None:
        return " ; ".join(rows) + " # fails=driver:%s" % re.sub(r"\s+", "_", e)[:400]
    for l in o.strip().split("\n"):
        if l.strip():
            rows.append("2 " + l.strip())
    return " ; ".join(rows) + " # fails=-"


def run_impl(lines):
    items = []
    for l in lines:
        api = B.line_api(l)
        if l.startswith("117 "):
            h, _ = H.render_cpp(api)
            items.append((h, api.get("config", {}), "auto"))
        else:
            h, _ = H.render_c(api)
            items.append((h, api.get("config", {}), "auto"))
    res = B.process_batch(items, "c17_")
    runner, _ = vlib.build_runner()
    mos = vlib.run_lines(runner, [model_line(l) for l in lines])
    with ThreadPoolExecutor(max_workers=vlib.NPROC) as ex:
        outs = list(ex.map(lambda i: one(i, lines[i], res[i][0], res[i][1], mos[i]), range(len(lines))))
    return outs


def _impl_rows(impl_rows):
    ws, tr = [], {}
    for r in impl_rows.split(";"):
        t = r.split()
        if not t:
            continue
        if t[0] == "1":
            ws.append("".join(chr(int(x)) for x in t[1:]))
        elif t[0] == "2":
            v = [int(x) for x in t[1:]]
            tr[(v[0], v[1])] = {"status": v[2], "ev": v[3:-2], "retv": v[-1]}
    return ws, tr


def expected_events(api, es, ei, fi):
    """what the PROPERTY demands of the wrapper serving entry (ei, fi) — independent of the model"""
    e = es[ei]
    ms = api["traits"][e["ti"]]["methods"]
    if fi == len(ms):      # drop helper
        return None
    m = ms[fi]
    call = [2, ei, fi, 1, 1]
    if m["recv"] == "own" and e["ck"] == "Arc":
        return [1, 1] + call + [3]
    return call


def split_marker(ev):
    """C++ driver: events before / after the end of the object's scope (marker 999)"""
    if 999 in ev:
        k = ev.index(999)
        return ev[:k], ev[k + 1:]
    return ev, []


def monitor(l, impl_rows, kv):
    api = B.line_api(l)
    cpp = l.startswith("117 ")
    es = B.entries(api)
    ws, tr = _impl_rows(impl_rows)
    fails = []
    for (ei, fi), r in sorted(tr.items()):
        if fi < 1000:
            continue
        e = es[ei]
        what = "%s.%s of %s<%s,empty Arc>" % (e["trait"], api["traits"][e["ti"]]["methods"][fi - 1000]["name"], e["cont"], e["ik"])
        if r["status"] == -7:
            fails.append("empty-context-crash:" + what)
        elif split_marker(r["ev"])[0] != [2, ei, fi - 1000, 1, 1]:
            fails.append("empty-context(%s):%s" % (" ".join(map(str, r["ev"])), what))
    for ei, e in enumerate(es):
        ms = api["traits"][e["ti"]]["methods"]
        for fi in range(len(ms) + (0 if cpp else 1)):
            what = "%s.%s of %s<%s,%s>" % (e["trait"], ms[fi]["name"] if fi < len(ms) else "drop", e["cont"], e["ik"], e["ck"])
            r = tr.get((ei, fi))
            if r is None:
                fails.append("not-exercised:" + what)
                continue
            if r["status"] == -1:
                fails.append("missing-wrapper:" + what)
                continue
            if r["status"] in (-2, -3, -4):
                fails.append("foreign-wrapper(%s):%s" % ({-2: "self", -3: "params", -4: "return"}[r["status"]], what))
                continue
            exp = expected_events(api, es, ei, fi)
            if cpp:
                pre, post = split_marker(r["ev"])
                m = ms[fi]
                call = [2, ei, fi, 1, 1]
                own_rel = ([4, 1] if e["ik"] == "Box" else []) + ([5] if e["ck"] == "Arc" else [])
                if m["recv"] == "own":
                    # ownership went to the callee: the wrapper clones the context before the call, releases the clone after it, and the
                    # moved-from object releases nothing
                    want_pre = ([1, 1] if e["ck"] == "Arc" else []) + call
                    if pre[:len(want_pre)] != want_pre:
                        fails.append("wrong-forward(%s):%s" % (" ".join(map(str, r["ev"])), what))
                    elif e["ck"] == "Arc" and (pre[len(want_pre):] + post).count(3) != 1:
                        fails.append("cpp-ctx-clone-not-released(%s):%s" % (" ".join(map(str, r["ev"])), what))
                    elif [x for x in pre[len(want_pre):] + post if x != 3]:
                        fails.append("moved-from-object-releases(%s):%s" % (" ".join(map(str, r["ev"])), what))
                    elif r["retv"] != 1:
                        fails.append(("ret-vtbl-uninit:" if r["retv"] == 2 else "wrong-return:") + what)
                else:
                    if pre != call:
                        fails.append("wrong-forward(%s):%s" % (" ".join(map(str, r["ev"])), what))
                    elif post != own_rel:
                        fails.append("destructor(%s):%s" % (" ".join(map(str, r["ev"])), what))
                    elif r["retv"] != 1:
                        fails.append(("ret-vtbl-uninit:" if r["retv"] == 2 else "wrong-return:") + what)
                continue
            if exp is None:
                want = sorted(([(4, 1)] if e["ik"] == "Box" else []) + ([(5,)] if e["ck"] == "Arc" else []))
                got, ev, i = [], r["ev"], 0
                while i < len(ev):
                    if ev[i] == 4:
                        got.append((4, ev[i + 1]))
                        i += 2
                    else:
                        got.append((ev[i],))
                        i += 1
                if sorted(got) != want:
                    fails.append("drop-helper(%s):%s" % (" ".join(map(str, ev)), what))
            else:
                if r["ev"] != exp:
                    fails.append("wrong-forward(%s):%s" % (" ".join(map(str, r["ev"])), what))
                elif r["retv"] == 2:
                    fails.append("ret-vtbl-uninit:" + what)
                elif r["retv"] != 1:
                    fails.append("wrong-return:" + what)
    return fails


def compare(l, impl_rows, model_rows):
    api = B.line_api(l)
    es = B.entries(api)
    ws, tr = _impl_rows(impl_rows)
    cpp = l.startswith("117 ")
    texts, serve = parse_model_cpp(model_rows, api) if cpp else parse_model(model_rows)
    if [B.nows(t) for t in texts] != ws:
        return False
    variants = {}
    for ei, e in enumerate(es):
        variants.setdefault(e["variant"], []).append(ei)
    for (ei, fi), r in tr.items():
        if fi >= 1000:
            continue
        s = serve.get((ei, fi))
        if s is None:
            return False
        if r["status"] == -1:
            if s["k"] != -1:
                return False
            continue
        if r["status"] != 0:
            continue
        # translate the model's trace
        t, exp, i = s["trace"], [], 0
        ok = True
        while i < len(t):
            if t[i] == 1:
                if not (cpp and es[ei]["ck"] != "Arc"):      # C++: clone_context() of a void context is a no-op
                    exp += [1, 1]
                i += 1
            elif t[i] == 2:
                addr, nargs, lv = t[i + 1], t[i + 2], t[i + 3]
                vt = "".join(chr(x) for x in t[i + 4:i + 4 + lv])
                ls = t[i + 4 + lv]
                slot = "".join(chr(x) for x in t[i + 5 + lv:i + 5 + lv + ls])
                i += 5 + lv + ls
                tgt = [k for k in variants[es[ei]["variant"]] if (es[k]["obj"] and vt == "vtbl") or vt == "vtbl_" + es[k]["trait"].lower()]
                if not tgt:
                    ok = False
                    break
                ms = api["traits"][es[tgt[0]]["ti"]]["methods"]
                fis = [k for k, m in enumerate(ms) if m["name"] == slot]
                if not fis:
                    ok = False
                    break
                exp += [2, tgt[0], fis[0], 1, 1]
            elif t[i] == 3:
                if not (cpp and es[ei]["ck"] != "Arc"):
                    exp.append(3)
                i += 1
            elif t[i] == 4:
                exp += [4, 1]
                i += 1
            elif t[i] == 5:
                exp.append(5)
                i += 1
            else:
                i += 1
        got = split_marker(r["ev"])[0] if cpp else r["ev"]
        if not ok or exp != got:
            return False
        rc = s["ret"]
        if rc and rc[0] == 2:
            fields = sorted(["vtbl"] if es[ei]["obj"] else ["vtbl_" + es[k]["trait"].lower() for k in variants[es[ei]["variant"]]])
            copied, j = [], 2
            for _ in range(rc[1]):
                n = rc[j]
                copied.append("".join(chr(x) for x in rc[j + 1:j + 1 + n]))
                j += 1 + n
            want = 1 if sorted(copied) == fields else 2
            if r["retv"] != want:
                return False
        elif rc and rc[0] in (0, 1):
            if r["retv"] != 1:
                return False
    return True


def nontrivial(l):
    return True


def gen_cases(rng, tier):
    n = {"quick": 48, "thorough": 600, "search": 300}[tier]
    vm = vt_mode()
    lines, dist = [], {"apis": n, "c_mode": 0, "cpp_mode": 0, "objects": 0, "groups": 0, "entries": 0, "clash": 0, "self_ret": 0, "consuming": 0, "cfg": 0}
    # fixed: groups whose traits have names that are prefixes / suffixes of one another AND share method names (so that a wrapper picked by a
    # loosely matched name reaches another trait's table), and entries with a two-argument generic type (a comma inside `<>` in C++)
    fixed = []
    for names in B.TRAIT_NAME_SETS[2:]:
        for order in ((0, 1, 2, 3), (1, 0, 3, 2), (3, 2, 1, 0)):
            traits = []
            for k, ti in enumerate(order):
                ms = [{"name": "get", "recv": "ref", "args": [("u32", "x")], "ret": "u32"},
                      {"name": ["put", "run", "dup", "eat"][k], "recv": ["mut", "ref", "mut", "own"][k], "args": [("tup", "t"), ("u8", "y")] if k % 2 == 0 else [("pair", "val")], "ret": ["void", "tup", "u32", "u32"][k]}]
                if k < 2:      # a container-returning entry (like clone) in a trait that is NOT the last one of its group
                    ms.append({"name": ["scan", "size"][k], "recv": "ref", "args": [], "ret": "self"})
                traits.append({"name": names[ti], "methods": ms, "rettmp": False})
            fixed.append({"traits": traits, "objects": [{"trait": 1, "inner": "Box", "ctx": "Arc"}],
                          "groups": [{"name": "Grp", "traits": [0, 1, 2, 3], "variants": [["Box", "Arc"]]}, {"name": "Feat", "traits": [1, 3], "variants": [["Mut", "None"]]}],
                          "config": {"default_container": "Box", "default_context": "Arc"} if order[0] == 0 else {}})
    for api in fixed:
        import copy
        lines.append(B.api_line(copy.deepcopy(api), vm))
        lines.append(B.api_line(copy.deepcopy(api), "", 117))
        dist["c_mode"] += 1; dist["cpp_mode"] += 1
    for i in range(n):
        api = B.gen_api(rng.fork("api%d" % i), "small" if i % 4 == 0 else "normal")
        cpp = (i % 3 == 2)
        if cpp:
            # C++ templates are generic over the context; how cbindgen spells a context-free default is not known here
            if api["config"].get("default_context") == "" or ("default_container" in api["config"] and "default_context" not in api["config"]):
                api["config"]["default_context"] = "Arc"
            # groups whose container keeps a non-empty RetTmp field are outside the reconstructed C++ shape (DESIGN, candidates)
            for g in api["groups"]:
                for ti in g["traits"]:
                    api["traits"][ti]["rettmp"] = False
            lines.append(B.api_line(api, "", 117))
        else:
            lines.append(B.api_line(api, vm))
        dist["cpp_mode" if cpp else "c_mode"] += 1
        dist["objects"] += len(api["objects"])
        dist["groups"] += len(api["groups"])
        dist["entries"] += len(B.entries(api))
        dist["cfg"] += 1 if api["config"] else 0
        for t in api["traits"]:
            dist["self_ret"] += sum(1 for m in t["methods"] if m["ret"] == "self")
            dist["consuming"] += sum(1 for m in t["methods"] if m["recv"] == "own")
        for g in api["groups"]:
            names = [m["name"] for ti in g["traits"] for m in api["traits"][ti]["methods"]]
            dist["clash"] += 1 if len(names) != len(set(names)) else 0
    return lines, dist


def known_match(kf, l, fails):
    """the finding is among the failures of this case, and every failure of the case belongs to some recorded finding of C17"""
    real = [f for f in fails if f != "model-mismatch"]
    if not real:
        return False
    mine = kf.get("match", {}).get("fail_patterns", [])
    if kf.get("match", {}).get("mode") == "cpp" and not l.startswith("117 "):
        return False
    if not any(re.search(p, f) for p in mine for f in real):
        return False
    allp = []
    for k in vlib.known_findings(PROP):
        if k.get("status") == "known" and (k.get("match", {}).get("mode") != "cpp" or l.startswith("117 ")):
            allp += k.get("match", {}).get("fail_patterns", [])
    return all(any(re.search(p, f) for p in allp) for f in real)


def describe(l):
    import json
    return ("C++ " if l.startswith("117 ") else "C ") + json.dumps(B.line_api(l), separators=(",", ":"), sort_keys=True)


def shrink_line(line, pred):
    return B.shrink_api_line(line, pred)
