"""cbindgen-shaped header generator for C17/C18 (cbindgen itself is not installed and cannot be).

An API model (python dict) is rendered into the text cbindgen 0.20 emits for a cglue crate in C mode (`language = "C"`, `style = "both"`,
`documentation_style = "doxy"`, `cpp_compat = true`) or C++ mode.  The shape was taken from the only real sample in the repository
(examples/pregen-headers/bindings.h{,pp}, inverted through the documented processing steps) and from the regular expressions the tool matches.
This generator is part of the trusted base of C17/C18.

API model:
  structs  : user structs (always a `Pair`, plus foreign look-alikes)
  traits   : [{name, methods:[{name, recv:'ref'|'mut'|'own', args:[(kind, argname)], ret:kind}], rettmp:bool}]
  objects  : [{trait:i, inner:'Box'|'Mut'|'Ref', ctx:'Arc'|'None'}]
  groups   : [{name, traits:[i..], variants:[(inner, ctx)..]}]
  foreign  : [text blocks that do not belong to cglue constructs] (C18)
  generic_ctx : bool — also emit `_Context` generic structs (C18, several contexts)
  config   : {default_container, default_context, function_prefix}
"""

ZST_DOC = """/**
 * Type definition for temporary return value wrapping storage.
 *
 * The trait does not use return wrapping, thus is a typedef to `PhantomData`.
 *
 * Note that `cbindgen` will generate wrong structures for this type. It is important
 * to go inside the generated headers and fix it - all RetTmp structures without a
 * body should be completely deleted, both as types, and as fields in the
 * groups/objects. If C++11 templates are generated, it is important to define a
 * custom type for CGlueTraitObj that does not have `ret_tmp` defined, and change all
 * type aliases of this trait to use that particular structure.
 */
"""
RT_DOC = """/**
 * Type definition for temporary return value wrapping storage.
 *
 * The trait does use return wrapping, and thus is storage for `MaybeUninit` values.
 */
"""
VTBL_DOC = """/**
 * CGlue vtable for trait %s.
 *
 * This virtual function table contains ABI-safe interface for the given trait.
 */
"""
OBJ_DOC = """/**
 * Simple CGlue trait object.
 *
 * This is the simplest form of CGlue object, represented by a container and vtable for a single
 * trait.
 *
 * Container merely is a this pointer with some optional temporary return reference context.
 */
"""
OBJCONT_DOC = """/**
 * Simple CGlue trait object container.
 *
 * This is the simplest form of container, represented by an instance, clone context, and
 * temporary return context.
 *
 * `instance` value usually is either a reference, or a mutable reference, or a `CBox`, which
 * contains static reference to the instance, and a dedicated drop function for freeing resources.
 *
 * `context` is either `PhantomData` representing nothing, or typically a `CArc` that can be
 * cloned at will, reference counting some resource, like a `Library` for automatic unloading.
 *
 * `ret_tmp` is usually `PhantomData` representing nothing, unless the trait has functions that
 * return references to associated types, in which case space is reserved for wrapping structures.
 */
"""
GROUP_DOC = """/**
 * Trait group potentially implementing `%s` traits.
 *
 * Optional traits are not implemented here, however. There are numerous conversion
 * functions available for safely retrieving a concrete collection of traits.
 *
 * `check_impl_` functions allow to check if the object implements the wanted traits.
 *
 * `into_impl_` functions consume the object and produce a new final structure that
 * keeps only the required information.
 *
 * `cast_impl_` functions merely check and transform the object into a type that can
 *be transformed back into `%s` without losing data.
 *
 * `as_ref_`, and `as_mut_` functions obtain references to safe objects, but do not
 * perform any memory transformations either. They are the safest to use, because
 * there is no risk of accidentally consuming the whole object.
 */
"""
CBOX_DOC = """/**
 * FFI-safe box
 *
 * This box has a static self reference, alongside a custom drop function.
 *
 * The drop function can be called from anywhere, it will free on correct allocator internally.
 */
"""
CARC_DOC = """/**
 * FFI-Safe Arc
 *
 * This is an FFI-Safe equivalent of Arc<T> and Option<Arc<T>>.
 */
"""

INNER_C = {"Box": "CBox_c_void", "Mut": "____c_void", "Ref": "_____c_void"}
INNER_GENERIC = {"Box": True, "Mut": False, "Ref": False}
CTX_C = {"Arc": "CArc_c_void", "None": "NoContext"}
CTX_GENERIC = {"Arc": True, "None": False}
INNER_FIELD_C = {"Box": "struct CBox_c_void instance;", "Mut": "void *instance;", "Ref": "const void *instance;"}
INNER_CPP = {"Box": "CBox<void>", "Mut": "void *", "Ref": "const void *"}
CTX_CPP = {"Arc": "CArc<void>", "None": "NoContext"}

# argument / return kinds: C text, C++ text
KINDS = {
    "void": ("void", "void"),
    "u8": ("uint8_t", "uint8_t"),
    "u32": ("uint32_t", "uint32_t"),
    "usize": ("uintptr_t", "uintptr_t"),
    "i64": ("int64_t", "int64_t"),
    "f64": ("double", "double"),
    "bool": ("bool", "bool"),
    "pair": ("struct Pair", "Pair"),
    "slice": ("struct CSliceRef_u8", "CSliceRef<uint8_t>"),
    # a generic type with TWO arguments: in C++ its spelling contains a comma inside the angle brackets
    "tup": ("struct CTup2_u32__u64", "CTup2<uint32_t, uint64_t>"),
    "cb": ("PairCallback", "PairCallback"),
    "ptr": ("const struct Pair *", "const Pair *"),
    "vptr": ("void *", "void *"),
    "mptr": ("uint8_t *", "uint8_t *"),
}
ARG_KINDS = ["u8", "u32", "usize", "i64", "f64", "bool", "pair", "slice", "cb", "ptr", "vptr", "mptr", "tup"]
RET_KINDS = ["void", "u8", "u32", "usize", "i64", "f64", "bool", "pair", "slice", "ptr", "vptr", "self", "tup"]


def sep(generic):
    return "_____" if generic else "__"


def variant_suffix(inner, ctx):
    """mangled `<inner, ctx>` as it follows `Name_`"""
    return INNER_C[inner] + sep(INNER_GENERIC[inner]) + CTX_C[ctx]


def obj_names(trait, inner, ctx):
    rt = "%sRetTmp_%s" % (trait, CTX_C[ctx])
    second = INNER_C[inner] + sep(INNER_GENERIC[inner]) + CTX_C[ctx] + sep(CTX_GENERIC[ctx]) + rt
    cont = "CGlueObjContainer_" + second
    vtbl = "%sVtbl_%s" % (trait, cont)
    closings = 4 if CTX_GENERIC[ctx] else 3
    obj = "CGlueTraitObj_" + INNER_C[inner] + sep(INNER_GENERIC[inner]) + vtbl + "___" * closings + "__" + CTX_C[ctx] + sep(CTX_GENERIC[ctx]) + rt
    return {"rettmp": rt, "second": second, "cont": cont, "vtbl": vtbl, "obj": obj}


def group_names(group, inner, ctx):
    second = variant_suffix(inner, ctx)
    return {"second": second, "cont": "%sContainer_%s" % (group, second), "group": "%s_%s" % (group, second)}


def c_type(kind, cont_ty):
    if kind == "self":
        return "struct " + cont_ty
    return KINDS[kind][0]


def fn_decl_c(m, cont_ty):
    """one function-pointer member of a vtable, as cbindgen prints it"""
    recv = {"ref": "const struct %s *cont" % cont_ty, "mut": "struct %s *cont" % cont_ty, "own": "struct %s cont" % cont_ty}[m["recv"]]
    args = "".join(", %s%s%s" % (c_type(k, cont_ty), "" if c_type(k, cont_ty).endswith("*") else " ", n) for k, n in m["args"])
    rt = c_type(m["ret"], cont_ty)
    if m.get("wrap") and m["args"]:
        # an over-long member as cbindgen breaks it: one parameter per line, aligned after the opening parenthesis
        head = "%s%s(*%s)(" % (rt, "" if rt.endswith("*") else " ", m["name"])
        params = [recv] + ["%s%s%s" % (c_type(k, cont_ty), "" if c_type(k, cont_ty).endswith("*") else " ", n) for k, n in m["args"]]
        return head + (",\n" + " " * (4 + len(head))).join(params) + ");"
    return "%s%s(*%s)(%s%s);" % (rt, "" if rt.endswith("*") else " ", m["name"], recv, args)


def vtbl_c(trait, cont_ty, vt_ty):
    body = "\n    ".join(fn_decl_c(m, cont_ty) for m in trait["methods"])
    return VTBL_DOC % trait["name"] + "typedef struct %s {\n    %s\n} %s;\n" % (vt_ty, body, vt_ty)


def render_c_meta(api):
    """-> (text, [(kind, text)] in header order) with kind in {'foreign', 'generic', 'cglue'}"""
    o = []
    shape = api.get("shape", {})
    if shape.get("guard"):
        o.append("#ifndef PLUGIN_API_H\n#define PLUGIN_API_H\n")
    o.append("#include <stdarg.h>\n#include <stdbool.h>\n#include <stdint.h>\n#include <stdlib.h>\n")
    blocks = []          # (is_foreign, text)
    foreign = list(api.get("foreign", []))
    fpos = api.get("foreign_pos", [])

    def cg(t):
        blocks.append((False, t))

    uses_box = any(o_["inner"] == "Box" for o_ in api["objects"]) or any(v[0] == "Box" for g in api["groups"] for v in g["variants"])
    uses_arc = any(o_["ctx"] == "Arc" for o_ in api["objects"]) or any(v[1] == "Arc" for g in api["groups"] for v in g["variants"])
    uses_none = any(o_["ctx"] == "None" for o_ in api["objects"]) or any(v[1] == "None" for g in api["groups"] for v in g["variants"])
    blocks.append((True, "typedef struct Pair {\n    uint32_t a;\n    uint64_t b;\n} Pair;\n"))
    blocks.append((True, "typedef struct CSliceRef_u8 {\n    const uint8_t *data;\n    uintptr_t len;\n} CSliceRef_u8;\n"))
    blocks.append((True, "typedef struct CTup2_u32__u64 {\n    uint32_t a;\n    uint64_t b;\n} CTup2_u32__u64;\n"))
    blocks.append((False, "typedef struct Callback_c_void__Pair {\n    void *context;\n    bool (*func)(void*, struct Pair);\n} Callback_c_void__Pair;\n"))
    blocks.append((True, "typedef struct Callback_c_void__Pair OpaqueCallback_Pair;\n"))
    blocks.append((True, "typedef OpaqueCallback_Pair PairCallback;\n"))
    if uses_box:
        cg(CBOX_DOC + "typedef struct CBox_c_void {\n    void *instance;\n    void (*drop_fn)(void*);\n} CBox_c_void;\n")
    if uses_arc:
        cg(CARC_DOC + "typedef struct CArc_c_void {\n    const void *instance;\n    const void *(*clone_fn)(const void*);\n    void (*drop_fn)(const void*);\n} CArc_c_void;\n")
    if uses_none:
        cg("typedef struct NoContext NoContext;\n")
    # zero-sized RetTmp typedefs that mention every context in use (this is how the tool learns the context set)
    rt_done = set()

    def rettmp_decl(t, ctx):
        rt = "%sRetTmp_%s" % (t["name"], CTX_C[ctx])
        if rt in rt_done:
            return
        rt_done.add(rt)
        if t.get("rettmp"):
            cg(RT_DOC + "typedef struct %s {\n    struct Pair slot0;\n} %s;\n" % (rt, rt))
        else:
            cg(ZST_DOC + "typedef struct %s %s;\n" % (rt, rt))

    for g in api["groups"]:
        for (inner, ctx) in g["variants"]:
            n = group_names(g["name"], inner, ctx)
            for ti in g["traits"]:
                rettmp_decl(api["traits"][ti], ctx)
            fields = [INNER_FIELD_C[inner], "struct %s context;" % CTX_C[ctx]]
            fields += ["struct %sRetTmp_%s ret_tmp_%s;" % (api["traits"][ti]["name"], CTX_C[ctx], api["traits"][ti]["name"].lower()) for ti in g["traits"]]
            cg("typedef struct %s {\n    %s\n} %s;\n" % (n["cont"], "\n    ".join(fields), n["cont"]))
            for ti in g["traits"]:
                t = api["traits"][ti]
                vt = "%sVtbl_%s" % (t["name"], n["cont"])
                cg(vtbl_c(t, n["cont"], vt))
            members = ["const struct %sVtbl_%s *vtbl_%s;" % (api["traits"][ti]["name"], n["cont"], api["traits"][ti]["name"].lower()) for ti in g["traits"]]
            members.append("struct %s container;" % n["cont"])
            doc = GROUP_DOC % (" + ".join(api["traits"][ti]["name"] + " < >" for ti in g["traits"]), g["name"])
            cg(doc + "typedef struct %s {\n    %s\n} %s;\n" % (n["group"], "\n    ".join(members), n["group"]))
    for ob in api["objects"]:
        t = api["traits"][ob["trait"]]
        n = obj_names(t["name"], ob["inner"], ob["ctx"])
        rettmp_decl(t, ob["ctx"])
        fields = [INNER_FIELD_C[ob["inner"]], "struct %s context;" % CTX_C[ob["ctx"]], "struct %s ret_tmp;" % n["rettmp"]]
        cg(OBJCONT_DOC + "typedef struct %s {\n    %s\n} %s;\n" % (n["cont"], "\n    ".join(fields), n["cont"]))
        cg(vtbl_c(t, n["cont"], n["vtbl"]))
        cg(OBJ_DOC + "typedef struct %s {\n    const struct %s *vtbl;\n    struct %s container;\n} %s;\n" % (n["obj"], n["vtbl"], n["cont"], n["obj"]))
        base = "%sBase_%s" % (t["name"], variant_suffix(ob["inner"], ob["ctx"]))
        cg("/**\n * Base CGlue trait object for trait %s.\n */\ntypedef struct %s %s;\n" % (t["name"], n["obj"], base))
        alias = "%s%s%s" % (t["name"], {"Arc": "Arc", "None": ""}[ob["ctx"]], ob["inner"])
        cg("/**\n * CtxBoxed CGlue trait object for trait %s with context.\n */\ntypedef %s %s;\n" % (t["name"], base, alias))
    # generic `_Context` structs (what cbindgen leaves behind for aliases generic over the context): the tool emits one copy per context
    # it knows about (learned from the zero-sized RetTmp typedefs above)
    if api.get("generic_ctx"):
        inner = "Box" if uses_box else "Mut"
        second = INNER_C[inner] + sep(INNER_GENERIC[inner]) + "Context"
        cont = "GenContainer_%s" % second
        blocks.append(("generic", "typedef struct %s {\n    %s\n    Context context;\n} %s;\n" % (cont, INNER_FIELD_C[inner], cont)))
    # interleave foreign blocks at the requested positions
    out_blocks = []
    fi = 0
    for i, b in enumerate(blocks):
        while fi < len(foreign) and fi < len(fpos) and fpos[fi] <= i:
            out_blocks.append((True, foreign[fi]))
            fi += 1
        out_blocks.append(b)
    while fi < len(foreign):
        out_blocks.append((True, foreign[fi]))
        fi += 1
    out_blocks = [(("foreign" if k is True else "cglue" if k is False else k), t) for k, t in out_blocks]
    o.append("\n".join(b for _, b in out_blocks))
    compat = shape.get("cpp_compat", True)
    if compat:
        o.append("#ifdef __cplusplus\nextern \"C\" {\n#endif // __cplusplus\n")
    fns = []
    for ob in api["objects"][:1]:
        t = api["traits"][ob["trait"]]
        alias = "%s%s%s" % (t["name"], {"Arc": "Arc", "None": ""}[ob["ctx"]], ob["inner"])
        fns.append("/**\n * Load a plugin.\n */\nint32_t load_plugin(const char *name, %s *ok_out);\n" % alias)
    for f in api.get("foreign_fns", []):
        fns.append(f)
    o.append("\n".join(fns))
    if compat:
        o.append("#ifdef __cplusplus\n} // extern \"C\"\n#endif // __cplusplus\n")
    if shape.get("guard"):
        o.append("#endif /* PLUGIN_API_H */\n")
    meta = out_blocks + [("foreign", f) for f in api.get("foreign_fns", [])]
    return "\n".join(o), meta


def render_c(api):
    text, meta = render_c_meta(api)
    return text, [t for k, t in meta if k == "foreign"]


# ------------------------------------------------------------------------------------------------ C++ mode
ZST_DOC_CPP = ZST_DOC


def cpp_type(kind):
    return "CGlueC" if kind == "self" else KINDS[kind][1]


def fn_decl_cpp(m):
    recv = {"ref": "const CGlueC *cont", "mut": "CGlueC *cont", "own": "CGlueC cont"}[m["recv"]]
    args = "".join(", %s%s%s" % (cpp_type(k), "" if cpp_type(k).endswith("*") else " ", n) for k, n in m["args"])
    rt = cpp_type(m["ret"])
    if m.get("wrap") and m["args"]:
        head = "%s%s(*%s)(" % (rt, "" if rt.endswith("*") else " ", m["name"])
        params = [recv] + ["%s%s%s" % (cpp_type(k), "" if cpp_type(k).endswith("*") else " ", n) for k, n in m["args"]]
        return head + (",\n" + " " * (4 + len(head))).join(params) + ");"
    return "%s%s(*%s)(%s%s);" % (rt, "" if rt.endswith("*") else " ", m["name"], recv, args)


def render_cpp(api):
    """the C++ header cbindgen emits for the same API: templates are generic over container and context, so object and group variants
    do not show up in the text (they are instantiated by the user / the driver)"""
    shape = api.get("shape", {})
    o = (["#ifndef PLUGIN_API_H\n#define PLUGIN_API_H\n"] if shape.get("guard") else []) + ["#include <cstdarg>\n#include <cstdint>\n#include <cstdlib>\n#include <ostream>\n#include <new>\n"]
    b = []
    used = sorted({ob["trait"] for ob in api["objects"]} | {t for g in api["groups"] for t in g["traits"]})
    for ti in used:
        t = api["traits"][ti]
        if t.get("rettmp"):
            b.append(RT_DOC + "template<typename CGlueCtx = void>\nstruct %sRetTmp {\n    MaybeUninit<Pair> slot0;\n};\n" % t["name"])
        else:
            b.append(ZST_DOC_CPP + "template<typename CGlueCtx = void>\nstruct %sRetTmp;\n" % t["name"])
    b.insert(0, "struct Pair {\n    uint32_t a;\n    uint64_t b;\n};\n")
    b.insert(0, "template<typename T = void>\nstruct MaybeUninit;\n")
    b.append(CARC_DOC + "template<typename T>\nstruct CArc {\n    const T *instance;\n    const T *(*clone_fn)(const T*);\n    void (*drop_fn)(const T*);\n};\n")
    b.append(CBOX_DOC + "template<typename T>\nstruct CBox {\n    T *instance;\n    void (*drop_fn)(T*);\n};\n")
    b.append("template<typename T>\nstruct CSliceRef {\n    const T *data;\n    uintptr_t len;\n};\n")
    b.append("template<typename A, typename B>\nstruct CTup2 {\n    A a;\n    B b;\n};\n")
    b.append("template<typename T, typename F>\nstruct Callback {\n    T *context;\n    bool (*func)(T*, F);\n};\n")
    b.append("template<typename T>\nusing OpaqueCallback = Callback<void, T>;\n")
    b.append("using PairCallback = OpaqueCallback<Pair>;\n")
    done = set()

    def vt(ti):
        if ti in done:
            return
        done.add(ti)
        t = api["traits"][ti]
        b.append(VTBL_DOC % t["name"] + "template<typename CGlueC>\nstruct %sVtbl {\n    %s\n};\n" % (t["name"], "\n    ".join(fn_decl_cpp(m) for m in t["methods"])))

    for g in api["groups"]:
        fields = ["CGlueInst instance;", "CGlueCtx context;"] + ["%sRetTmp<CGlueCtx> ret_tmp_%s;" % (api["traits"][ti]["name"], api["traits"][ti]["name"].lower()) for ti in g["traits"]]
        b.append("template<typename CGlueInst, typename CGlueCtx>\nstruct %sContainer {\n    %s\n};\n" % (g["name"], "\n    ".join(fields)))
        for ti in g["traits"]:
            vt(ti)
        members = ["const %sVtbl<%sContainer<CGlueInst, CGlueCtx>> *vtbl_%s;" % (api["traits"][ti]["name"], g["name"], api["traits"][ti]["name"].lower()) for ti in g["traits"]]
        members.append("%sContainer<CGlueInst, CGlueCtx> container;" % g["name"])
        doc = GROUP_DOC % (" + ".join(api["traits"][ti]["name"] + " < >" for ti in g["traits"]), g["name"])
        b.append(doc + "template<typename CGlueInst, typename CGlueCtx>\nstruct %s {\n    %s\n};\n" % (g["name"], "\n    ".join(members)))
    if True:   # the generic single-trait object types are always part of the supported shape (the tool specialises them unconditionally)
        b.append(OBJCONT_DOC + "template<typename T, typename C, typename R>\nstruct CGlueObjContainer {\n    T instance;\n    C context;\n    R ret_tmp;\n};\n")
        for ob in api["objects"]:
            vt(ob["trait"])
        b.append(OBJ_DOC + "template<typename T, typename V, typename C, typename R>\nstruct CGlueTraitObj {\n    const V *vtbl;\n    CGlueObjContainer<T, C, R> container;\n};\n")
        seen = set()
        for ob in api["objects"]:
            n = api["traits"][ob["trait"]]["name"]
            if n in seen:
                continue
            seen.add(n)
            b.append("/**\n * Base CGlue trait object for trait %s.\n */\ntemplate<typename CGlueInst, typename CGlueCtx>\nusing %sBase = CGlueTraitObj<CGlueInst, %sVtbl<CGlueObjContainer<CGlueInst, CGlueCtx, %sRetTmp<CGlueCtx>>>, CGlueCtx, %sRetTmp<CGlueCtx>>;\n" % (n, n, n, n, n))
            b.append("/**\n * CtxBoxed CGlue trait object for trait %s with context.\n */\ntemplate<typename CGlueT, typename CGlueCtx>\nusing %sBaseCtxBox = %sBase<CBox<CGlueT>, CGlueCtx>;\n" % (n, n, n))
            b.append("/**\n * Boxed CGlue trait object for trait %s with a [`CArc`](cglue::arc::CArc) reference counted context.\n */\ntemplate<typename CGlueT, typename CGlueC>\nusing %sBaseArcBox = %sBaseCtxBox<CGlueT, CArc<CGlueC>>;\n" % (n, n, n))
            b.append("/**\n * Opaque Boxed CGlue trait object for trait %s with a [`CArc`](cglue::arc::CArc) reference counted context.\n */\nusing %sArcBox = %sBaseArcBox<void, void>;\n" % (n, n, n))
    foreign = list(api.get("foreign_cpp", []))
    o.append("\n".join(b + foreign))
    o.append('extern "C" {\n')
    fns = []
    for ob in api["objects"][:1]:
        n = api["traits"][ob["trait"]]["name"]
        fns.append("/**\n * Load a plugin.\n */\nint32_t load_plugin(const char *name, MaybeUninit<%sArcBox> *ok_out);\n" % n)
    for f in api.get("foreign_fns", []):
        fns.append(f)
    o.append("\n".join(fns))
    o.append('} // extern "C"\n')
    if shape.get("guard"):
        o.append("#endif // PLUGIN_API_H\n")
    return "\n".join(o), foreign + list(api.get("foreign_fns", []))
