"""C13 — integer result codes: runtime functions and the generated out-parameter plumbing.
Case format: '13 | t shape x ; ...'  t: 0 io::Error, 1 (), 2 fmt::Error; shape: 0 Ok(x) with a heap-owning droppable payload,
1 Err(OS code x), 2 Err(io error without OS code, kind x mod 4), 3 Err of the unit-like type.
Output row per case: [code; slot written?; decoded variant 0 Ok/1 Err; decoded payload (value / raw OS code / -1);
into_int_result code; from_int_result_empty variant].  The slot is pre-filled with a 0xAB pattern to see writes.
Monitor: code==0 iff Ok; slot written iff Ok; decode returns the original variant/payload; the success payload is dropped
exactly once (by its final owner), never by the encoder; non-zero OS codes survive unchanged.
Generated part: '1 ..' glue-IR rows of REAL expansions of traits using #[int_result] / #[no_int_result] / both (ok_out parameter, writer tail, decoder tail
must come together) vs the generator model; '101 ..' compiled programs calling such methods directly and through opaque objects (Ok/Err, OS codes, droppable
success payloads: codes 16 17 18 19 20 of harness/prog/src/shapes.rs)."""
PROP = "C13"
PROP_V = "props/C13.v"
HARNESS = "rt"
COUNT_ROWS = True
SHRINK = True
RULE = ("every (error type, shape) with payload / OS code drawn from boundary values {0,+-1,i32::MIN,i32::MAX,0xffff,..} and random "
        "i32s; non-trivial = every case (each is a distinct value/shape combination); distinct by exact text")
TRUSTED = [
    "hand-written model coq/model/IntResult.v of cglue/src/result.rs (into_int_result, into_int_out_result, from_int_result(_empty), the three IntError impls); tied by differential execution",
    "std::io::Error::{from_raw_os_error, raw_os_error}",
    "generated out-parameter plumbing (traits with #[int_result]) is checked by the generator harness (C01/C02), not by this model",
]
ASSUMPTIONS = ["rustc, std::io::Error"]

BOUND = [0, 1, -1, 2, 5, 65535, 65536, -65535, 2 ** 31 - 1, -2 ** 31, 2 ** 31 - 2, 255, 256, 11, 32, 104]


from checks import gencommon as G


def build_harness(tier):
    return G.build(tier)


def run_impl(lines):
    return G.run_impl(lines)


def model_line(l):
    if l.startswith("13 "):
        # payload type 3 (a zero-sized value with a destructor) is, for the model, the unit-error case with the value 0
        hdr, body = l.split("|", 1)
        rows = [r.split() for r in body.split(";") if r.strip()]
        return hdr + "| " + " ; ".join(" ".join(["1", r[1], "0"] if r[0] == "3" else r) for r in rows)
    return "0 |" if l.startswith("101 ") else l


def compare(l, impl_rows, model_rows):
    return True if l.startswith("101 ") else impl_rows == model_rows


def monitor(l, impl_rows, kv):
    return G.ir_monitor(l, impl_rows) if l.startswith("1 ") else []


def generated_cases(rng, tier):
    cases = []
    for ti in (0, 1):
        for recv in (0, 1, 2):
            for im in (0, 1, 2):
                for ret in (6, 7, 11, 12):
                    if G.wf(ti, im, ret):
                        for args in ([], [(0, 2)], [(1, 0), (4, 3)]):
                            cases.append("1 %d | %s" % (ti, " ".join(map(str, G.method_row(recv, im, ret, 3, args)))))
                        # the same method with a doc comment and an unrelated attribute beside #[int_result] / #[no_int_result] (receiver field +8)
                        cases.append("1 %d | %s" % (ti, " ".join(map(str, G.method_row(recv + 8, im, ret, 3, [(0, 2)])))))
    for kind in (0, 1, 2, 3, 4, 5):
        ops = [[16, 5], [16, -2], [16, 0], [18, 4], [18, -9], [19, 0], [19, 1], [19, 13], [19, -7], [19, 65535], [19, -2147483648], [19, 2147483647], [20, 3], [20, -1], [20, 0]]
        cases.append("101 0 %d | %s" % (kind, " ; ".join(" ".join(map(str, o)) for o in ops)))
    for kind in (0, 1, 3):
        cases.append("101 1 %d | 17 2 ; 17 3 ; 17 0 ; 17 -1" % kind)
    return cases


def gen_cases_rt(rng, tier):
    n = 4000 if tier == "quick" else 60000
    rows = []
    for x in BOUND:
        rows += [[0, 0, x], [0, 1, x], [0, 2, x], [1, 0, x], [1, 3, x], [2, 0, x], [2, 3, x], [3, 0, x], [3, 3, x]]
    for _ in range(n):
        t = rng.below(4)
        x = rng.range(-2 ** 31, 2 ** 31 - 1) if rng.chance(1, 2) else rng.range(-200, 200)
        shape = rng.choice([0, 1, 2]) if t == 0 else rng.choice([0, 3])
        rows.append([t, shape, x])
    # several cases per line so that process start-up is amortised; shrinking works per line
    cases = []
    for i in range(0, len(rows), 8):
        cases.append("13 | " + " ; ".join(" ".join(map(str, r)) for r in rows[i:i + 8]))
    dist = {"rows": len(rows), "lines": len(cases), "boundary_values": BOUND}
    return cases, dist


def gen_cases(rng, tier):
    a, d = gen_cases_rt(rng, tier)
    b = generated_cases(rng, tier)
    d["generated_plumbing_cases"] = len(b)
    return a + b, d


def nontrivial(l):
    return True


def known_match(kf, l, fails):
    return False
