"""C08 — group casts succeed exactly when the requested traits are present.
 '108 <enabled mask> <container 0 Box/1 &mut/2 &> | castop request ; ..'  compiled program: a group with 3 optional traits, 8 implementor types enabling the 8
     subsets; castop 0 check / 1 as_ref / 2 as_mut / 3 cast(+upcast back) / 4 into; row = [castop request success peek a b c enabled-after-upcast].
 '4 <nmand> | names'  structural abstraction of REAL group expansions and of the REAL cast macros (see C04)."""
PROP = "C08"
PROP_V = "props/C08.v"
RULE = ("ALL 8 enabled sets x 7 requests x 5 operations x 3 containers (exhaustive: 840 cells) in compiled programs; structural: fixed and random groups with "
        "up to 4 optional traits, every subset requested in reverse order; non-trivial = more than 8 tokens")
TRUSTED = [
    "hand-written generator model coq/model/{Glue,Group,Life}.v of cglue-gen; tied on every run by abstracting REAL expansions (cglue-gen called as a library, output parsed with syn) to the integer rows the model predicts, and by compiled programs using the real macros",
    "the abstraction harness/gen (statement shapes it does not recognise are encoded as 9/99, i.e. show up as disagreements, never guessed) and the program harness/prog",
    "rustc's own dispatch of <T as Trait>::m, Deref, and the From impls of the runtime wrapper types (C12)",
]
ASSUMPTIONS = ["rustc code generation", "grammar = the shapes listed in coq/model/Glue.v (Pin receivers, generics, wrapped associated returns are covered by the compiled programs only)"]
import os
import vlib
from checks import gencommon as G

HARNESS = "gen"
COUNT_ROWS = True
SHRINK = True


def build_harness(tier):
    return G.build(tier)


def run_impl(lines):
    return G.run_impl(lines)


def model_line(l):
    return "0 |" if l.startswith("101 ") else l


def compare(l, impl_rows, model_rows):
    if l.startswith("101 "):
        return True          # behavioural direct-vs-opaque runs: decided by the implementation-side monitor alone
    return impl_rows == model_rows


def nontrivial(l):
    return len(l.split()) > 8


def known_match(kf, l, fails):
    return False


def gen_cases(rng, tier):
    a, d1 = G.cast_cases(rng, tier)
    b, d2 = G.grp_cases(rng, tier)
    d1.update(d2)
    return a + b, d1
