"""C08 — group casts succeed exactly when the requested traits are present.
 '108 <enabled mask> <container 0 Box/1 &mut/2 &> | castop request ; ..'  compiled program: a group with 3 optional traits, 8 implementor types enabling the 8
     subsets; castop 0 check / 1 as_ref / 2 as_mut / 3 cast(+upcast back) / 4 into; row = [castop request success peek a b c enabled-after-upcast].
 '4 <nmand> | names'  structural abstraction of REAL group expansions and of the REAL cast macros (see C04); a name may be an aliased instantiation of a
     generic trait, `Get<u8>=GetU8`.
 '204 <nmand> | names'  REAL cglue_impl_group! expansions (TraitGroupImpl) for every subset of the optional traits, listed in reverse order: which vtables
     fill_table / fill_fwd_table enable and which traits the where clause names."""
PROP = "C08"
PROP_V = "props/C08.v"
RULE = ("ALL 8 enabled sets x 7 requests x 5 operations x 3 containers (exhaustive: 840 cells) in compiled programs; structural: fixed and random groups with "
        "up to 4 optional traits, every subset requested in reverse order; non-trivial = more than 8 tokens")
TRUSTED = [
    "hand-written generator model coq/model/{Glue,Group,Life}.v of cglue-gen; tied on every run by abstracting REAL expansions (cglue-gen called as a library, output parsed with syn) to the integer rows the model predicts, and by compiled programs using the real macros",
    "the abstraction harness/gen (statement shapes it does not recognise are encoded as 9/99, i.e. show up as disagreements, never guessed) and the program harness/prog",
    "rustc's own dispatch of <T as Trait>::m, Deref, and the From impls of the runtime wrapper types (C12)",
]
ASSUMPTIONS = ["rustc code generation", "grammar = the shapes listed in coq/model/Glue.v (plus a trait type parameter `T: Copy + 'static` written for leaf 2; Pin receivers, several type parameters, wrapped associated returns are covered by the compiled programs only)"]
import os
import vlib
from checks import gencommon as G

HARNESS = "gen"
COUNT_ROWS = True
SHRINK = True


def build_harness(tier):
    return G.build(tier)


def run_impl(lines):
    return G.run_impl(lines)


def model_line(l):
    return "0 |" if l.startswith("101 ") else l


def compare(l, impl_rows, model_rows):
    if l.startswith("101 "):
        return True          # behavioural direct-vs-opaque runs: decided by the implementation-side monitor alone
    if impl_rows.strip() == "-6":
        return True          # not a group definition (reached by shrinking only)
    return impl_rows == model_rows


def nontrivial(l):
    return len(l.split()) > 8


def known_match(kf, l, fails):
    return False


def gen_cases(rng, tier):
    a, d1 = G.cast_cases(rng, tier)
    b, d2 = G.grp_cases(rng, tier)
    c, d3 = G.grp_cases(rng.fork("impl"), tier, mid=204)
    d1.update(d2)
    d1.update(d3)
    return b + c + a, d1      # (the structural cases first: their reports name the definition and the generated signature)


def _names(l):
    return G.grp_names(l)


def impl_monitor(l, impl_rows):
    """cglue_impl_group!(T, G, { listed }): the vtables filled for T are exactly the listed ones (for the owned and the Fwd filler alike)"""
    fails = []
    nmand, names = _names(l)
    hdr = [int(x) for x in l.split("|", 1)[0].split()]
    fm = hdr[2] if len(hdr) > 2 else 0
    nopt = len(names) - nmand
    for r in impl_rows.split(" ; "):
        r = [int(x) for x in r.split()]
        mask = r[0]
        listed = [names[nmand + b] for b in range(nopt) if mask >> b & 1]
        # the forward list of the case (header field 3): the same list, none, the complement, the rotation — independent of the owned list
        fmask = ((1 << nopt) - 1) - mask if fm == 2 else ((mask // 2 + (mask % 2) * (1 << (nopt - 1))) if nopt else 0) if fm == 3 else mask
        flisted = [names[nmand + b] for b in range(nopt) if fmask >> b & 1]
        src = "cglue_impl_group!(T, G, {%s}%s)" % (", ".join(listed), "" if fm == 1 else ", {%s}" % ", ".join(flisted))
        if len(r) < 7:
            fails.append("%s is rejected or its expansion is not recognised" % src)
            continue
        show = lambda m: "{%s}" % ", ".join(names[nmand + b] for b in range(nopt) if m >= 0 and m >> b & 1)
        for what, em, cnt, wm, wl in (("fill_table", r[1], r[2], mask, listed), ("fill_fwd_table", r[3], r[4], fmask, flisted)):
            if fm == 1 and what == "fill_fwd_table":
                if (em, cnt) != (-1, -1):
                    fails.append("%s: a Fwd filler is generated although no forward list was given" % src)
                continue
            if em != wm or cnt != len(wl):
                fails.append("%s: %s enables %s with %d calls instead of %s — a cast to a listed trait that is not enabled fails although the type provides it"
                             % (src, what, show(em), cnt, show(wm)))
        if r[6] != 0:
            fails.append("cglue_impl_group!(T, G, {%s}) enables %d vtables that are no optional trait of the group" % (", ".join(listed), r[6]))
        if r[5] != mask:
            fails.append("cglue_impl_group!(T, G, {%s}): the where clause requires T to implement %s" % (", ".join(listed), show(r[5])))
    return fails[:4]


def monitor(l, impl_rows, kv):
    """model-independent oracle on REAL group expansions: the property statement itself"""
    if l.startswith("204 ") and impl_rows and impl_rows.strip() != "-6":
        return impl_monitor(l, impl_rows)
    if not l.startswith("4 ") or not impl_rows or impl_rows.strip() == "-6":
        return []
    fails = []
    nmand, names = _names(l)
    rows = [[int(x) for x in r.split()] for r in impl_rows.split(" ; ")]
    if len(rows) < 2 or rows[0][0] != 1 or rows[1][0] != 1:
        return ["group or container struct is not #[repr(C)]"]
    base = [rows[0][1:][i:i + 3] for i in range(0, len(rows[0]) - 1, 3)]
    vt = [f for f in base if f[0] == 1]
    if not base or base[-1][0] != 2:
        fails.append("the container is not the last field of the group struct")
    mand = [names[f[1]] for f in vt if f[2] == 0]
    opt = [names[f[1]] for f in vt if f[2] == 1]
    if [f[2] for f in vt] != [0] * len(mand) + [1] * len(opt):
        fails.append("mandatory and optional vtable pointers are interleaved")
    if sorted(mand) != mand or set(mand) != set(names[:nmand]):
        fails.append("mandatory vtable pointers are %s, not the mandatory traits in name order" % mand)
    if sorted(opt) != opt or set(opt) != set(names[nmand:]):
        fails.append("optional vtable pointers are %s, not the optional traits in name order" % opt)
    cont = [rows[1][1:][i:i + 3] for i in range(0, len(rows[1]) - 1, 3)]
    if [f[0] for f in cont[:2]] != [3, 4]:
        fails.append("container does not start with instance, context")
    for r in rows[2:]:
        mask = r[0]
        cast, asref, asmut, into, check = r[1:4], r[4:7], r[7:10], r[10:13], r[13:16]
        for nm, f in (("cast", cast), ("as_ref", asref), ("as_mut", asmut), ("into", into), ("check", check)):
            if f[0] != 1:
                fails.append("no %s function for the requested subset %s (traits given in another order than declared)" % (nm, bin(mask)))
                break
        else:
            if cast[1] != mask or asref[1] != mask or asmut[1] != mask or into[1] != mask:
                fails.append("subset %s: validated vtables cast=%s as_ref=%s as_mut=%s into=%s" % (bin(mask), bin(cast[1]), bin(asref[1]), bin(asmut[1]), bin(into[1])))
            if cast[2] != mask or into[2] != mask:
                fails.append("subset %s: the variant built by cast/into has non-null vtables %s / %s (or another field shape than the base struct)" % (bin(mask), cast[2], into[2]))
    return fails[:4]
