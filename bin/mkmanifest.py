#!/usr/bin/env python3
"""Regenerates /verif/MANIFEST.json from the table below (kept in one place so the manifest is always valid)."""
import json
import os

V = os.path.dirname(os.path.dirname(os.path.abspath(__file__)))
props = [json.loads(l) for l in open(os.path.join(V, "properties.jsonl"))]

CLAIMED = {
    "C10": ("Proof: over every finite history of operations on a pool of CArc/CArcSome/Arc handles (hence every interleaving of per-thread "
            "histories) the field-level model never reaches UB, the strong count of each allocation equals the number of live owning handles, "
            "the payload is destroyed exactly once exactly when the count reaches zero, every count change runs the creating module's function, "
            "empty handles clone to empty and drop as no-ops. Model tied to cglue/src/arc.rs by differential execution on exhaustive short and "
            "random long scripts each run; live-handle counting + tracking allocator as independent monitor.",
            "5.C10", "Trusted: Coq kernel; hand-written model tied by correspondence; ExtrOcamlBasic extraction; harness; std::sync::Arc atomicity (not modelled).",
            "Coq invariant proof (induction over op list) + model/impl differential execution"),
    "C11": ("Proof: CVec's field/raw-memory model refines Vec (list) for every operation from every well-formed state, for every growth policy "
            "honouring reserve's contract, never reaching UB; lifted to all histories; capacity>=length invariant; exactly-once multiset accounting. "
            "Model tied to cglue/src/vec.rs by running both on the same op scripts (exhaustive short, random long, 5 element types) every run; "
            "std::Vec + tracking allocator as independent monitor.",
            "5.C11", "Trusted: Coq kernel; hand-written model (tied by correspondence, not generated); extraction (ExtrOcamlBasic only); harness; std Vec::reserve contract.",
            "Coq refinement proof (induction over op list) + model/impl differential execution"),
}
CLAIMED["C13"] = ("Proof (runtime part): encoding a Result yields 0 exactly for Ok and then the success value sits in the caller's slot; for Err the code is "
    "non-zero and the slot untouched; decoding reads the slot only when the code is 0; none of the shipped error types encodes to 0; a non-zero OS "
    "code survives unchanged; round trip through a fresh slot never reads uninitialised memory. Model tied to cglue/src/result.rs by differential "
    "execution over boundary and random i32 values with droppable payloads; slot-write detection + drop counters as monitor. The generated "
    "out-parameter plumbing of #[int_result] traits: parameter/writer/decoder of REAL expansions vs the generator model (theorem int_plumbing) and compiled end-to-end calls.",
    "5.C13", "Trusted: Coq kernel; hand-written model tied by correspondence; extraction; harness; std::io::Error.",
    "Coq algebraic laws + model/impl differential execution")
CLAIMED["C14"] = ("Proof: for every input the buffer is the input up to its first NUL plus exactly one NUL, the NUL scan stays inside the allocation and "
    "returns the allocated size, read-back is the prefix, clones are equal by content, the free uses the allocated size, nothing else is allocated; "
    "the pre-repair byte-slice constructor is proved to violate this (C14_v0_refuted). Model tied to cglue/src/repr_cstring.rs by differential "
    "execution over all sequences up to a bound over {NUL, ASCII, 2/3/4-byte sequences} x 3 constructors; tracking allocator (size of every free) as monitor. "
    "One genuine defect found and repaired (fix: a044aba).",
    "5.C14", "Trusted: Coq kernel; hand-written model tied by correspondence; extraction; harness allocator.",
    "Coq proof over all byte strings (induction) + model/impl differential execution")
CLAIMED["C12"] = ("Proof: the UTF-8 decision is sound and complete against a specification (encodings of Unicode scalar values), so conversion to &str is "
    "refused exactly for ill-formed byte strings; slice->view->slice is the identity on (address,length) for every length incl. 0 and a write through a "
    "mutable view lands in the original cell and nowhere else; COption/CResult/CTupN conversions are mutual inverses. Model tied to cglue/src/{slice,option,"
    "result,tuple}.rs by differential execution: all byte strings of length<=3 over the 22 boundary bytes, random valid/corrupted strings, every "
    "(offset,len,index) view over 4 element types, every enum variant with droppable payloads; core::str::from_utf8, pointer identity, tag words and drop "
    "counters as monitor.",
    "5.C12", "Trusted: Coq kernel; hand-written model tied by correspondence; extraction; harness; core::str::from_utf8 (the implementation delegates to it).",
    "Coq proof (UTF-8 soundness/completeness by induction, algebraic laws) + model/impl differential execution")
CLAIMED["C15"] = ("Proof: for every item list and every sink state, feed_into_mut / Extend deliver exactly the prefix up to and including the first item on "
    "which the sink says stop, in order, once each, report the number offered, and leave the rest to the source; collecting sinks end up with exactly the "
    "items; a CIterator's next() is the source's next() (slot read only after a 0 return), so any interleaving of wrapper and direct calls sees the source's "
    "sequence. Model tied to cglue/src/{callback,iter}.rs by differential execution over all item counts 0..8 x all stop positions x 3 sinks x 3 feed methods "
    "and all op strings up to length 6 over fused/non-fused scripted sources; prefix/count/drop-log oracle as monitor.",
    "5.C15", "Trusted: Coq kernel; hand-written model tied by correspondence; extraction; harness.",
    "Coq proof (induction over item list / op list) + model/impl differential execution")
CLAIMED["C19"] = ("Proof: for every finite history of clone/wake/wake_by_ref/drop on the tree of foreign-side wakers (hence every interleaving) the model of the "
    "repaired code never uses a released waker, wakes the caller's waker exactly once per successful wake operation, holds exactly one clone of the caller's "
    "waker per live shared record (record count = number of foreign handles sharing it) and has released everything once all handles are gone; the pre-repair "
    "code is proved to violate this (C19_v0_refuted). Model tied to cglue/src/task/mod.rs by differential execution through a real trait_obj!(.. as Future) "
    "whose poll runs the script, exhaustive short + random long histories incl. wakers retained after the poll; counting Arc waker + allocator as monitor. "
    "One genuine defect found and repaired (fix: bcca95f).",
    "5.C19", "Trusted: Coq kernel; hand-written model tied by correspondence; extraction; harness; tarc::BaseArc and core::task vtable dispatch; cross-thread memory-model effects not modelled.",
    "Coq invariant proof (induction over history) + model/impl differential execution")
CLAIMED["C09"] = ("Proof by complete enumeration inside the kernel: for every opaque-conversion rule found in the current source (runtime impls and the impls of a real "
    "expansion of sample definitions), every (Send?,Sync?) assignment of every parameter and Opaquable projection, and both markers, a gained marker is one "
    "of the known cells (F-C09); the compositional rules (Fwd, containers, objects, groups, PhantomData) add nothing at all under the hypothesis that the "
    "inner conversion adds nothing; the known class is proved real. The environment/rules are REGENERATED from /repo by a syn-based translator on every run; "
    "the auto-trait calculus is validated against rustc itself on every nameable rule instance x 4 payload classes; rustc's own verdicts are the monitor and "
    "a compiling witness program is the replay.",
    "5.C09", "Trusted: Coq kernel (vm_compute); translator (xlate + autotraits.py); auto-trait calculus (validated against rustc each run); rustc trait resolution.",
    "Coq finite-matrix proof over a model regenerated from source + rustc differential probe")
CLAIMED["C16"] = ("Proof: field names, order, pointer/integer kinds and function-pointer arities of every published runtime struct agree between the Rust "
    "definitions (with a C repr), the C++ patterns and C snippets of the post-processor, the pre-generated header and the property's own list; enum tags are "
    "None=0/Some=1, Ok=0/Err=1; offsets are independent of the element type; releasing/cloning/growing/invoking/advancing through the fields is definitionally "
    "the Rust operation on the shared field-level models (C10/C11/C15). All declarations are REGENERATED from /repo by a translator on every run. Tie/monitor: a "
    "C program containing only the published declarations drives real values from a static library built from /repo (4 element layouts) and its observations are "
    "compared with the models and with Rust-side read-backs.",
    "5.C16", "Trusted: Coq kernel (vm_compute); translator; hand-written C declarations in driver.c; gcc / x86-64 SysV layout; shared models.",
    "Coq finite check over translator-generated declarations + drive-equivalence lemmas + C-driven differential execution")
_GEN_NOTE = "Trusted: Coq kernel; hand-written generator model tied by structural abstraction of REAL expansions + compiled programs using the real macros; extraction; harness/gen and harness/prog; rustc."
CLAIMED["C01"] = ("Proof: for every trait of the grammar and every call, dispatch through the generated glue (trait re-implementation -> vtable slot -> Default entry -> "
    "wrapper -> trait method) reaches the method of the same index exactly once with identical arguments and the result comes back unchanged; receiver access matches "
    "the receiver kind. The generator model is compared on every run with REAL expansions over ALL single-method traits of the grammar + random multi-method ones; compiled "
    "direct-vs-opaque histories on every container kind and all cast cells are the monitor.", "5.C01", _GEN_NOTE,
    "Coq proof over a generator model + structural translation validation of real expansions + compiled differential runs")
CLAIMED["C02"] = ("Proof: for every argument shape and every inhabitant, and every return shape (integer results through a fresh out slot), the conversion chosen by the generator on "
    "the caller side followed by the one chosen on the wrapper side is the identity; whole argument vectors in order. Tie: per-position conversions and C types of REAL "
    "expansions vs the model (exhaustive single-method grammar); monitor: compiled programs in which the implementation records address, length and digest of every argument "
    "and the caller checks results and callee writes.", "5.C02", _GEN_NOTE,
    "Coq algebraic laws over a generator model + structural translation validation + compiled differential runs")
CLAIMED["C04"] = ("Proof: one vtable slot per method in declaration order; group = mandatory vtables in identifier order, optional ones in identifier order, container; every "
    "With-variant has the field shape of the base struct; the sorted order is independent of the user's listing order (determinism: the model takes no other input). Tie: slot "
    "positions and field sequences of REAL trait and group expansions (adversarial identifiers, every subset) vs the model.", "5.C04", _GEN_NOTE,
    "Coq proof (sorting, positional merge) over a generator model + structural translation validation of real expansions")
CLAIMED["C06"] = ("Proof: over every finite history of create/call/owned child/consuming calls/clone/cast (successful or failing)/upcast/drop followed by the release of what is left, the "
    "instances created and destroyed are the same multiset and none is alive; at every prefix the live instances are exactly those owned by live handles. The lifecycle model is "
    "compared row by row with compiled programs (drop logs, live counters) on random histories; all cast cells check exactly-once destruction.", "5.C06", _GEN_NOTE,
    "Coq invariant proof over a lifecycle model + compiled differential runs")
CLAIMED["C07"] = ("Proof: at every point the context count equals live derived objects + clones parked in return slots; outside the known class (borrowed wrapped children, F-C07) the "
    "count is back to its starting value once all derived objects are gone; the known class is proved real. Tie/monitor: compiled lifecycle histories with Arc::strong_count "
    "sampled after every op; consuming calls on the holder of the last reference must not destroy the context payload inside the callee's wrapper (backtrace probe).", "5.C07", _GEN_NOTE,
    "Coq invariant proof over a lifecycle/context model + compiled differential runs; one known finding")
CLAIMED["C08"] = ("Proof (any number of optional traits with distinct identifiers): the macro's sorted request equals the sublist of the group's sorted optional list a function was "
    "generated for; that function validates exactly the requested vtables; success <-> requested subset of enabled; With-variants share the base layout. Tie: REAL group "
    "expansions + REAL cast macros abstracted per subset; monitor: ALL 8x7x5x3 cells in compiled programs with post-cast calls, upcast and destructor counts.", "5.C08", _GEN_NOTE,
    "Coq proof (sorted-permutation uniqueness, peekable merge) + structural translation validation + exhaustive compiled runs")
CLAIMED["C03"] = ("Proof: every vtable entry generated for a well-formed trait has FFI-safe parameter and return types (each Rust shape is mapped to its C wrapper: no slice, str, "
    "non-NPO Option, Result or tuple reaches a signature); every shipped wrapper type carries a C repr (over declarations regenerated from source). The predicate is validated "
    "against rustc's own improper_ctypes lints on every run by re-compiling REAL expansions (accept side: every argument/return shape x receiver x int mode; reject side: "
    "CResult with an error type without C repr); extern \"C\" and #[repr(C)] are read off the real expansions.", "5.C03", _GEN_NOTE,
    "Coq proof over a generator model + rustc lint as differential oracle on re-compiled real expansions")
CLAIMED["C20"] = ("Proof: VerifyLayout::and (translated from the source on every run) equals the specification on all 9 ordered pairs; a missing description yields Unknown; "
    "is_valid_strict/relaxed; the predicted verdict is Valid only if every slot agrees in name, position, receiver form and C parameter/return types, and identical "
    "definitions are Valid; every kind of single edit is evaluated by the kernel. Tie/monitor: (definition, single-edit variant) pairs are compiled with the layout_checks "
    "feature and the REAL compare_layouts (abi_stable) must give the predicted verdict; group pairs against the property's own expectation.", "5.C20",
    "Trusted: Coq kernel; translator verifyand.py; abi_stable's checker (third party, tied only through compiled pairs); generator model.",
    "Coq proof over a translated function + differential runs against abi_stable on compiled definition pairs")
CLAIMED["C17"] = ("Proof: the argument splitter returns the (type, name) pairs of a well-formed parameter list unchanged and in order (unbalanced input: a prefix, never a "
    "reordering); in C mode every vtable entry and drop helper of every object and group type is served by a wrapper present in the header which, when it is the entry's own "
    "or differs only in the cast type of `self`, invokes that entry's slot with the container and the arguments in order, returns the result (with all vtable pointers for "
    "container returns), clones the context before a consuming call and releases the clone after it; the drop helper releases instance and context once; C++ member functions "
    "of groups and single-trait objects forward likewise. Tie: the wrapper AST the theorems talk about is rendered and compared (modulo white space) with the text the REAL "
    "parse_header emits for generated cbindgen-shaped headers; the container/context tables and two source-dependent decisions are re-read from the source. Monitor: the processed "
    "header is compiled (gcc -std=c99 / g++ -std=c++11) with a generated mock-vtable driver and every entry's wrapper or member function is called; mocks log slot, container, arguments, clone/release order, destructor effects; consuming entries also on an empty context.", "5.C17",
    "Trusted: Coq kernel; header generator hdrgen.py (cbindgen is not installed); harness/bindgen (includes the tool's sources by path); mock driver generator + gcc; translator bindgentables.py. "
    "Not modelled: the discovery regular expressions (differential runs only); null function pointers (covered by the driver's empty-context scenario only).",
    "Coq proof over a model of the wrapper generator + text-level tie to the real tool + compiled mock-vtable runs")
CLAIMED["C18"] = ("Proof: main.rs's argument split equals the specification (before `--`: last -c/--config and +nightly; after it: everything except each -o/--output pair; the first "
    "output value is the target) for every argument vector whose output values are not themselves output flags, and passes nothing without `--`; the context collection "
    "iterates in sorted order (fact re-read from the source on every run), hence the copies of context-generic structs do not depend on the process or on the order contexts are "
    "met (and with a hashed collection two contexts suffice for two outputs); at block level foreign declarations survive unmodified and in order unless a user struct is named "
    "like a context-generic one. Tie/monitor: generated C and C++ headers with several contexts, context-generic structs and foreign look-alike declarations through the REAL "
    "tool in 3 fresh processes each (byte identity), gcc -std=c99 -pedantic-errors / g++ -std=c++11 acceptance, verbatim in-order search of every foreign declaration, order of "
    "emitted copies against the block model; the REAL binary with stub cbindgen/rustup on random argument vectors against the model of the split.", "5.C18",
    "Trusted: Coq kernel; header generator; harness/bindgen and the real binary with stub executables; gcc/g++; translator bindgentables.py. Not modelled: the regular expressions "
    "(block-level abstraction validated by the runs), compiler acceptance (empirical), `--output=X`/`-oX` spellings (outside the documented form).",
    "Coq proof over models of the argument split and of block-level processing + multi-process differential runs of the real tool + compiler acceptance")
CLAIMED["C05"] = ("Proof (partial, logical routing model): which module carries an operation out cannot influence what it computes; any two-module history has the results of the "
    "same history run inside one module; every release is carried out by the module that owns the block; at the end nothing is alive in either module. Tie/monitor: the model's "
    "histories are run on REAL module pairs — one source (harness/xmod) compiled twice, host binary and dlopen'ed cdylib, by different compiler versions (stable 1.95, nightly 1.97 "
    "with -Zrandomize-layout, 1.98.1), optimisation levels and layout seeds, each with its own tagging global allocator and live-instance counters — exchanging contexts, objects, "
    "groups, vectors, slices, callbacks and iterators; results are compared with the model and with the single-module reference run; foreign frees, unknown frees, size mismatches, "
    "leaks and surviving instances/context tokens are counted per module.", "5.C05",
    "Trusted: Coq kernel; harness/xmod (API, tagging allocator, interpreter); the toolchains installed here. Not proved: that two compilers agree on the layout of the exchanged "
    "#[repr(C)] types and that no allocation crosses modules at run time — observed on the pairs built (quick: 1 pair, thorough: 6 pairs).",
    "Coq proof over a two-module routing model + differential runs on separately compiled host/plugin pairs with tagging allocators")
PENDING = "not yet built in this round (planned, see DESIGN.md section 5); not claimed until its theorem, tie and monitor exist"
NA = {}

m = {
    "version": 1,
    "setup_cmd": "bin/setup",
    "hooks": {"guard": "h33p_cglue_verif",
              "enable": "RUSTFLAGS=\"--cfg h33p_cglue_verif\" (no hook is currently needed: all observation is done from harness crates outside /repo)",
              "baseline_off_cmd": "cd /repo && cargo test --workspace --no-fail-fast --offline",
              "source_commits": [], "add_only": True},
    "engines": [{"name": "coq-proof+correspondence", "path": "bin/check", "serves_properties": sorted(CLAIMED),
                 "kind_free_text": "Coq 8.16.1 theorems over executable models; models tied to /repo on every run by differential execution "
                                   "(extracted OCaml runner vs Rust harness linked against /repo) and/or by translators that regenerate model text "
                                   "from the source; an implementation-side monitor finds replays"}],
    "checks": [],
    "not_applicable": [],
    "notes": "See DESIGN.md. Every check: bin/check <ID> --tier quick|thorough; replay: bin/check <ID> --replay <file>.",
}
for p in props:
    i = p["id"]
    if i in CLAIMED:
        t = CLAIMED[i]
        m["checks"].append({
            "property_id": i, "quick_cmd": "bin/check %s --tier quick" % i, "thorough_cmd": "bin/check %s --tier thorough" % i,
            "evidence_file": "evidence/%s.json" % i, "replay_cmd_template": "bin/check %s --replay {path}" % i,
            "engine": "coq-proof+correspondence",
            "level_claimed": {"category": "proof", "text": t[0], "design_ref": t[1]}, "level_note": t[2], "technique": t[3]})
    else:
        m["not_applicable"].append({"property_id": i, "reason": NA.get(i, PENDING)})
json.dump(m, open(os.path.join(V, "MANIFEST.json"), "w"), indent=1)
print("claimed:", sorted(CLAIMED))
