"""Generic flow of one property check (DESIGN 2.3): corpus -> prove -> correspond -> monitor ->
decide -> evidence.  Property modules (bin/checks/cNN.py) supply generators and oracles."""
import json
import os
import sys
import time

import vlib
from vlib import Rng

COMMON_KV_MON = ("leak_bytes", "leak_blocks", "mismatch", "double", "unknown", "stray_drops")


def kv_failures(kv, allow=()):
    """model-independent oracle shared by all runtime harness models: allocator + drop log"""
    f = []
    if "crash" in kv:
        return ["process crashed: " + str(kv["crash"])]
    for k in COMMON_KV_MON:
        if k in allow:
            continue
        if k in kv and kv[k] not in ("0", "-"):
            f.append("%s=%s" % (k, kv[k]))
    if kv.get("fails", "-") != "-":
        f.extend(kv["fails"].split("|"))
    return f


class Outcome:
    def __init__(self):
        self.violations = []      # (kind, description, replay_path, nofail)
        self.known = []           # descriptions printed as KNOWN-FINDING
        self.notes = []


def corpus_lines(prop):
    p = os.path.join(vlib.VERIF, "corpus", prop + ".cases")
    if not os.path.exists(p):
        return []
    return [l.strip() for l in open(p) if l.strip() and not l.startswith("#")]


def run_pair(mod, harness, runner, lines):
    if hasattr(mod, "run_impl"):
        impl = mod.run_impl(lines)
        model_lines = [mod.model_line(l) if hasattr(mod, "model_line") else l for l in lines]
        model = vlib.run_lines(runner, model_lines)
        return impl, model
    impl = vlib.run_lines(harness, lines)
    # crashed shards: a process that dies takes the rest of its shard with it — re-run EVERY affected case on its own (in parallel), so that
    # only cases that crash by themselves remain marked; when the batch died but no case reproduces alone (state carried across the
    # cases of one process: a corrupted heap, a count released too often), the first case at which a process died is reported
    crashed = [i for i, o in enumerate(impl) if o is None or o.startswith("!CRASH")]
    if crashed:
        batch_msg = impl[crashed[0]] or "!CRASH"
        from concurrent.futures import ThreadPoolExecutor
        with ThreadPoolExecutor(max_workers=vlib.NPROC) as ex:
            res = list(ex.map(lambda i: vlib.run_one(harness, lines[i]), crashed))
        for i, o in zip(crashed, res):
            impl[i] = o
        if not any(o.startswith("!CRASH") for o in res):
            impl[crashed[0]] = batch_msg + " [the process died at this case while running a batch of cases; no case crashes on its own: state carried over from earlier cases of the batch]"
    model_lines = [mod.model_line(l) if hasattr(mod, "model_line") else l for l in lines]
    model = vlib.run_lines(runner, model_lines)
    return impl, model


def evaluate(mod, line, impl_o, model_o):
    rows, kv = vlib.split_out(impl_o)
    if impl_o.startswith("!SKIPPED"):
        return [], False
    fails = kv_failures(kv, getattr(mod, "KV_ALLOW", ()))
    if hasattr(mod, "monitor") and "crash" not in kv:
        fails.extend(mod.monitor(line, rows, kv))
    mism = False
    if "crash" not in kv:
        mrows = vlib.norm_rows(model_o) if model_o and not model_o.startswith("!CRASH") else model_o
        if hasattr(mod, "compare"):
            mism = not mod.compare(line, rows, mrows)
        else:
            mism = rows != mrows
    return fails, mism


def run_rt_property(mod, tier, seed, replay=None):
    t0 = time.time()
    prop = mod.PROP
    out = Outcome()
    rng = Rng(seed ^ vlib.hash_int(prop))
    # ---- translators first: the generated Coq files must reflect /repo's current tree before anything is proved or extracted
    pre_broken = mod.pre() if hasattr(mod, "pre") else []
    # ---- prove
    proof = vlib.prove(mod.PROP_V)
    # ---- build runner + harness from /repo's current tree
    runner, rerr = vlib.build_runner()
    if hasattr(mod, "build_harness"):
        harness, herr, hdt = mod.build_harness(tier)
    else:
        harness, herr, hdt = vlib.build_harness(mod.HARNESS, release=getattr(mod, "RELEASE", False),
                                                features=getattr(mod, "FEATURES", None))
    if harness is None:
        # the tree does not build with the harness: the tie cannot be evaluated
        rp = vlib.write_replay(prop, seed, tier, "correspondence", {"error": herr[:3000], "what": "harness does not build against /repo"})
        print("VIOLATION property=%s replay=%s no-failing-input-found" % (prop, rp))
        finish(mod, tier, seed, proof, {}, out, t0, 1)
        return 1
    if runner is None:
        rp = vlib.write_replay(prop, seed, tier, "proof-obligation", {"error": rerr[:3000], "what": "model extraction does not build"})
        print("VIOLATION property=%s replay=%s no-failing-input-found" % (prop, rp))
        finish(mod, tier, seed, proof, {}, out, t0, 1)
        return 1

    if replay:
        rj = json.load(open(replay))
        lines = [rj["case"]] if "case" in rj else []
        dist = {"replay": replay}
    else:
        corp = corpus_lines(prop)
        gen, dist = mod.gen_cases(rng.fork("gen"), tier)
        lines = corp + gen
        dist["corpus_cases"] = len(corp)

    impl, model = run_pair(mod, harness, runner, lines)
    nrows = sum(l.count(";") + 1 for l in lines) if getattr(mod, "COUNT_ROWS", False) else len(lines)
    stats = {"evaluations": nrows, "case_lines": len(lines), "mismatches": 0, "monitor_failures": 0, "dist": dist,
             "harness_build_s": round(hdt, 1)}
    failing, mismatching = [], []
    distinct = set()
    for i, l in enumerate(lines):
        fails, mism = evaluate(mod, l, impl[i], model[i])
        if mod.nontrivial(l):
            distinct.add(l)
        if fails:
            failing.append((i, fails))
        if mism:
            mismatching.append(i)
    stats["distinct_nontrivial"] = (len({r.strip() for l in distinct for r in l.split("|", 1)[1].split(";")})
                                    if getattr(mod, "COUNT_ROWS", False) else len(distinct))
    stats["monitor_failures"] = len(failing)
    stats["mismatches"] = len(mismatching)
    stats["traces_validated_against_impl"] = len(lines) - len(mismatching)
    stats["samples"] = [{"case": lines[i], "impl": impl[i][:300], "model": (model[i] or "")[:300]}
                        for i in pick_samples(lines, rng)]

    def one_impl(l):
        return mod.run_impl([l])[0] if hasattr(mod, "run_impl") else vlib.run_one(harness, l)

    def fails_fn(hdr, ops):
        l = vlib.case_line(hdr, ops)
        o = one_impl(l)
        m = vlib.run_one(runner, mod.model_line(l) if hasattr(mod, "model_line") else l)
        f, mm = evaluate(mod, l, o, m)
        return bool(f)

    def mism_fn(hdr, ops):
        l = vlib.case_line(hdr, ops)
        o = one_impl(l)
        m = vlib.run_one(runner, mod.model_line(l) if hasattr(mod, "model_line") else l)
        f, mm = evaluate(mod, l, o, m)
        return bool(mm)

    def shrink(line, want_fail=True):
        """smallest case that still fails (or still mismatches); property modules with structured case lines bring their own shrinker"""
        def pred(l):
            o = one_impl(l)
            m = vlib.run_one(runner, mod.model_line(l) if hasattr(mod, "model_line") else l)
            f, mm = evaluate(mod, l, o, m)
            if want_fail:
                return bool(f) and match_known(mod, known, l, f) is None
            return bool(mm)
        # a shrinker that trips over a degenerate candidate must never hide the failure it was shrinking: fall back to the case as found
        try:
            if hasattr(mod, "shrink_line"):
                return mod.shrink_line(line, pred)
            hdr, ops = vlib.parse_case(line)
            small = vlib.shrink_ops(hdr, ops, fails_fn if want_fail else mism_fn) if getattr(mod, "SHRINK", True) else ops
            return vlib.case_line(hdr, small)
        except Exception as e:      # noqa
            sys.stderr.write("  (shrinking abandoned: %s)\n" % str(e)[:120])
            return line

    known = vlib.known_findings(prop)
    reported_known = set()
    n_reported = 0
    # ---- monitor failures: concrete failing inputs
    for i, fails in failing[:40]:
        hdr, ops = vlib.parse_case(lines[i])
        kf = match_known(mod, known, lines[i], fails)
        if kf is not None:
            if kf["id"] not in reported_known:
                reported_known.add(kf["id"])
                out.known.append("%s [%s] witness: %s" % (kf["what"], kf["id"], describe(mod, lines[i])))
            continue
        if n_reported >= 3:
            continue
        sl = shrink(lines[i])
        so = one_impl(sl)
        sm = vlib.run_one(runner, mod.model_line(sl) if hasattr(mod, "model_line") else sl)
        sf, _ = evaluate(mod, sl, so, sm)
        kf = match_known(mod, known, sl, sf or fails)
        if kf is not None:
            if kf["id"] not in reported_known:
                reported_known.add(kf["id"])
                out.known.append("%s [%s] witness: %s" % (kf["what"], kf["id"], describe(mod, sl)))
            continue
        rp = vlib.write_replay(prop, seed, tier, "input", {
            "case": sl, "decoded": describe(mod, sl, 4000), "original_case": lines[i], "failures": sf or fails,
            "observed": so, "expected_by_model": sm,
            "how_to_read": mod.__doc__})
        out.violations.append(("input", "; ".join((sf or fails)[:3]), rp, False))
        n_reported += 1

    # ---- broken proof or correspondence without a failing input: search, then report
    if not out.violations:
        broken = [("correspondence", b) for b in pre_broken]
        if not proof["ok"]:
            broken.append(("proof-obligation", proof["reason"]))
        # mismatches that coincide with known-finding cases are not news
        mm = [i for i in mismatching if match_known(mod, known, lines[i], ["model-mismatch"]) is None]
        if mm:
            i = mm[0]
            sl = shrink(lines[i], want_fail=False)
            broken.append(("correspondence", "model and implementation differ on: " + sl[:2000]))
        if broken and not replay:
            # search phase: bigger budget, biased to the neighbourhood of the disagreement
            found = None
            srng = rng.fork("search")
            extra, _ = mod.gen_cases(srng, "search")
            if mm and hasattr(mod, "neighbours"):
                for i in mm[:20]:
                    extra = mod.neighbours(lines[i], srng) + extra
            simpl, smodel = run_pair(mod, harness, runner, extra)
            stats["search_cases"] = len(extra)
            for j, l in enumerate(extra):
                f, _ = evaluate(mod, l, simpl[j], smodel[j])
                if f and match_known(mod, known, l, f) is None:
                    found = (l, f, simpl[j], smodel[j])
                    break
            if found:
                l, f, o, m = found
                sl = shrink(l)
                rp = vlib.write_replay(prop, seed, tier, "input", {"case": sl, "original_case": l, "failures": f,
                                                                  "observed": one_impl(sl), "broken": broken})
                out.violations.append(("input", "; ".join(f[:3]), rp, False))
        if broken and not out.violations:
            kind, why = broken[0]
            payload = {"what": why, "all_broken": broken}
            if kind == "correspondence" and mm:
                payload.update({"case": sl, "impl": one_impl(sl),
                                "model": vlib.run_one(runner, mod.model_line(sl) if hasattr(mod, "model_line") else sl)})
            elif kind == "correspondence":
                payload.update({"correspondence": "a tie established before the cases ran (translator output / probe of the pre hook) no longer checks"})
            else:
                payload.update({"theorems": proof["theorems"], "coq_error": proof["reason"]})
            rp = vlib.write_replay(prop, seed, tier, kind, payload)
            out.violations.append((kind, why[:200], rp, True))

    for k in out.known:
        print("KNOWN-FINDING: property=%s %s" % (prop, k))
    for kind, desc, rp, nofail in out.violations:
        print("VIOLATION property=%s replay=%s%s" % (prop, rp, " no-failing-input-found" if nofail else ""))
        print("  (%s) %s" % (kind, desc), file=sys.stderr)
    rc = 1 if out.violations else 0
    finish(mod, tier, seed, proof, stats, out, t0, rc)
    return rc


def describe(mod, line, limit=160):
    if hasattr(mod, "describe"):
        try:
            return mod.describe(line)[:limit]
        except Exception:
            pass
    return line[:limit]


def match_known(mod, known, line, fails):
    for kf in known:
        if kf.get("status") != "known":
            continue
        if hasattr(mod, "known_match") and mod.known_match(kf, line, fails):
            return kf
    return None


def pick_samples(lines, rng):
    if not lines:
        return []
    idx = sorted(set([0, len(lines) // 2, len(lines) - 1] + [rng.below(len(lines)) for _ in range(3)]))
    return idx[:6]


def finish(mod, tier, seed, proof, stats, out, t0, rc):
    tb = list(vlib.KERNEL_TB)
    axs = sorted({a for v in proof.get("axioms", {}).values() for a in v})
    tb.append("axioms reported by Print Assumptions for %s: %s" % (", ".join(proof.get("theorems", [])) or "-",
                                                                    ", ".join(axs) if axs else "none (closed under the global context)"))
    tb.extend(getattr(mod, "TRUSTED", []))
    cov = {
        "obligations": max(1, proof.get("obligations", 0)),
        "discharged": proof.get("discharged", 0),
        "checker_cmd": "cd /verif/coq && make -j16 %s   (coqc 8.16.1, full .vo; then Print Assumptions on each theorem)" % (mod.PROP_V[:-2] + ".vo"),
        "trusted_base": tb,
        "theorems": proof.get("theorems", []),
        "proof_ok": proof.get("ok", False),
        "proof_reason": proof.get("reason", ""),
        "coq_files": proof.get("files", []),
        "coq_wall_s": round(proof.get("wall_s", 0), 1),
        "evaluations": stats.get("evaluations", 0),
        "distinct_nontrivial": stats.get("distinct_nontrivial", 0),
        "rule": getattr(mod, "RULE", ""),
        "traces_validated_against_impl": stats.get("traces_validated_against_impl", 0),
        "model_impl_mismatches": stats.get("mismatches", 0),
        "monitor_failures": stats.get("monitor_failures", 0),
        "input_distribution": stats.get("dist", {}),
        "samples": stats.get("samples", []) or [{"note": "no case was run"}],
        "known_findings_reported": out.known,
        "violations_reported": [{"kind": k, "what": d, "replay": r} for k, d, r, _ in out.violations],
        "repo_state": vlib.repo_state(),
    }
    for k, v in stats.items():
        if k not in cov and k not in ("dist",):
            cov[k] = v
    vlib.write_evidence(mod.PROP, tier if tier in ("quick", "thorough") else "quick", seed, cov,
                        getattr(mod, "ASSUMPTIONS", []), time.time() - t0, len(out.violations))
