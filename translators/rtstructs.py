"""Translator for C16/C03/C20: regenerates coq/gen/RtStructs_Src.v from /repo:
 * rt_structs / rt_enums : every struct/enum of the runtime modules (repr, field names, order, field kinds, StableAbi derive);
 * cpp_patterns          : the struct shapes hard-coded as regular expressions in cglue-bindgen/src/codegen/cpp.rs;
 * header_structs        : the typedef structs of examples/pregen-headers/bindings.h that instantiate runtime types;
 * snippet_uses          : the fields dereferenced by the C clone/drop snippets of cglue-bindgen/src/types.rs."""
import os
import re
import sys

sys.path.insert(0, os.path.dirname(os.path.abspath(__file__)))
from srcdump import *

INTS = {"u8": 1, "i8": 1, "bool": 1, "u16": 2, "i16": 2, "u32": 4, "i32": 4, "u64": 8, "i64": 8, "c_char": 1, "c_int": 4}


def kind_of(t, params):
    k = t["k"]
    if k in ("ref", "ptr"):
        return "KPtr"
    if k == "fn":
        return "(KFnPtr %d)" % len(t["inputs"])
    if k == "array":
        return "(KOther %s)" % coq_string(tstr(t))
    if k == "path":
        n = t["name"]
        args = [a for a in t["args"] if a.get("k") != "other"]
        if n == "Option" and args:
            inner = kind_of(args[0], params)
            if inner == "KPtr" or inner.startswith("(KFnPtr"):
                return inner
            return "(KOther %s)" % coq_string(tstr(t))
        if n == "NonNull":
            return "KPtr"
        if n == "PhantomData":
            return "KPhantom"
        if n == "usize":
            return "KUsize"
        if n in INTS:
            return "(KInt %d)" % INTS[n]
        if n in params and len(t["path"]) == 1:
            return "KElem"
        if n == "MaybeUninit" and args:
            return kind_of(args[0], params)
        return "(KAdt %s)" % coq_string(n)
    return "(KOther %s)" % coq_string(tstr(t))


def c_field(decl):
    """one C member declaration -> (name, kind) or None"""
    d = decl.strip()
    m = re.match(r"(.+?)\(\s*\*\s*(\w+)\s*\)\s*\((.*)\)$", d)
    if m:
        args = [a for a in m.group(3).split(",") if a.strip() and a.strip() != "void"]
        return m.group(2), "(KFnPtr %d)" % len(args)
    m = re.match(r"(.+?)\s*(\*?)\s*(\w+)$", d)
    if not m:
        return None
    ty, star, name = m.group(1).strip(), m.group(2), m.group(3)
    if star or ty.endswith("*"):
        return name, "KPtr"
    if ty in ("uintptr_t", "size_t"):
        return name, "KUsize"
    for cn, sz in (("uint8_t", 1), ("int8_t", 1), ("bool", 1), ("uint16_t", 2), ("int16_t", 2), ("uint32_t", 4), ("int32_t", 4), ("uint64_t", 8), ("int64_t", 8)):
        if ty == cn:
            return name, "(KInt %d)" % sz
    if ty in ("T", "F"):
        return name, "KElem"
    return name, "(KAdt %s)" % coq_string(re.sub(r"^struct\s+", "", ty))


def unregex(s):
    return re.sub(r"\\([{}()*\[\].+?|^$])", r"\1", s)


def cpp_patterns():
    src = open(os.path.join(REPO, "cglue-bindgen", "src", "codegen", "cpp.rs")).read()
    out = {}
    for m in re.finditer(r"struct (\w+) \\\{\n((?:\s+[^\n]*;\)?\n)+)", src):
        name, body = m.group(1), unregex(m.group(2))
        fields = []
        for line in body.split("\n"):
            line = line.strip().rstrip(")").rstrip(";").strip()
            if not line:
                continue
            f = c_field(line)
            if f:
                fields.append(f)
        if fields and name not in out:
            out[name] = fields
    return out


def header_structs():
    src = open(os.path.join(REPO, "examples", "pregen-headers", "bindings.h")).read()
    out = {}
    want = {"CBox_c_void": "CBox", "CArc_c_void": "CArc", "CSliceRef_u8": "CSliceRef", "Callback_c_void__KeyValue": "Callback",
            "CIterator_i32": "CIterator", "CSliceMut_u8": "CSliceMut"}
    for m in re.finditer(r"typedef struct (\w+) \{\n(.*?)\n\} \1;", src, re.S):
        if m.group(1) in want:
            fields = []
            for line in m.group(2).split("\n"):
                line = line.strip()
                if not line or line.startswith("/") or line.startswith("*"):
                    continue
                f = c_field(line.rstrip(";"))
                if f:
                    # concrete element types of the sample instantiation count as "a pointer"/"the element"
                    fields.append(f)
            out[want[m.group(1)]] = fields
    return out


def snippet_uses():
    items = dump([os.path.join(REPO, "cglue-bindgen", "src", "types.rs")])
    uses = {}
    src = open(os.path.join(REPO, "cglue-bindgen", "src", "types.rs")).read()
    # ("CBox_c_void", ContainerType { .. drop_impl: Some("..self->drop_fn..") }) ; ("CArc_c_void", ContextType {..})
    for m in re.finditer(r'\(\s*"(C\w+?)_c_void"\s*,\s*(?:ContainerType|ContextType)\s*\{(.*?)\}\s*,?\s*\)', src, re.S):
        fields = sorted(set(re.findall(r"self->(\w+)", m.group(2))))
        uses.setdefault(m.group(1), [])
        uses[m.group(1)] = sorted(set(uses[m.group(1)] + fields))
    return uses


def generate():
    rt = [i for i in runtime_items() if cfg_on(i.get("attrs", []))]
    lines = ["(* GENERATED by /verif/translators/rtstructs.py from /repo's current source — do not edit. *)",
             "Require Import Verif.common.Prelude Verif.model.Layout.", "From Coq Require Import String. Open Scope string_scope."]
    structs, enums = [], []
    names = []
    for i in rt:
        if i["item"] == "struct":
            params = [p["name"] for p in i["generics"]["params"]]
            fs = "; ".join("(%s, %s)" % (coq_string(f["name"]), kind_of(f["ty"], params)) for f in i["fields"])
            structs.append("mksdef %s %s [%s]" % (coq_string(i["name"]), coq_string(has_repr(i["attrs"]) or "Rust"), fs))
            names.append({"name": i["name"], "repr": has_repr(i["attrs"]), "stableabi": derives_stableabi(i["attrs"]), "file": os.path.basename(i["file"]),
                          "vis_pub": True})
        elif i["item"] == "enum":
            vs = "; ".join("(%s, %d)" % (coq_string(v["name"]), len(v["fields"])) for v in i["variants"])
            enums.append("mkedef %s %s [%s]" % (coq_string(i["name"]), coq_string(has_repr(i["attrs"]) or "Rust"), vs))
            names.append({"name": i["name"], "repr": has_repr(i["attrs"]), "stableabi": derives_stableabi(i["attrs"]), "file": os.path.basename(i["file"]), "enum": True})
    # make_tuple! expansions: CTupN are generated by a macro_rules; expand textually from its invocations
    for i in rt:
        if i["item"] == "macro" and i["path"] == "make_tuple":
            m = re.search(r"(\w+)\s*\[\s*([\w\s,]+)\]\s*$", i["tokens"])
            if m:
                ps = [p.strip() for p in m.group(2).split(",") if p.strip()]
                fs = "; ".join("(%s, KElem)" % coq_string(str(k)) for k in range(len(ps)))
                structs.append("mksdef %s \"C\" [%s]" % (coq_string(m.group(1)), fs))
                names.append({"name": m.group(1), "repr": "C", "stableabi": True, "file": "tuple.rs"})
    lines.append("Definition rt_structs : list sdef := [\n  " + ";\n  ".join(structs) + "\n].")
    lines.append("Definition rt_enums : list edef := [\n  " + ";\n  ".join(enums) + "\n].")
    cpp = cpp_patterns()
    lines.append("Definition cpp_patterns : list sdef := [\n  " + ";\n  ".join(
        "mksdef %s \"C\" [%s]" % (coq_string(n), "; ".join("(%s, %s)" % (coq_string(f), k) for f, k in fs)) for n, fs in sorted(cpp.items())) + "\n].")
    hs = header_structs()
    lines.append("Definition header_structs : list sdef := [\n  " + ";\n  ".join(
        "mksdef %s \"C\" [%s]" % (coq_string(n), "; ".join("(%s, %s)" % (coq_string(f), k) for f, k in fs)) for n, fs in sorted(hs.items())) + "\n].")
    su = snippet_uses()
    lines.append("Definition snippet_uses : list (string * list string) := [\n  " + ";\n  ".join(
        "(%s, [%s])" % (coq_string(n), "; ".join(coq_string(f) for f in fs)) for n, fs in sorted(su.items())) + "\n].")
    out = os.path.join(vlib.COQ, "gen", "RtStructs_Src.v")
    os.makedirs(os.path.dirname(out), exist_ok=True)
    new = "\n".join(lines) + "\n"
    if not os.path.exists(out) or open(out).read() != new:
        open(out, "w").write(new)
    return {"structs": names, "cpp_patterns": sorted(cpp), "header_structs": sorted(hs), "snippet_uses": su}


if __name__ == "__main__":
    import json
    print(json.dumps(generate(), indent=1)[:2500])
