//! Structural dump of Rust source files (parsed with syn, so formatting/comments are irrelevant) as JSON:
//! structs, enums, impl headers (trait, self type, generics with bounds, where clauses, associated types),
//! fn items (name + body token string).  Consumed by /verif/translators/*.py which print Coq definitions.
use quote::ToTokens;
use std::fmt::Write;
use syn::*;

fn esc(s: &str) -> String {
    let mut o = String::new();
    for c in s.chars() {
        match c {
            '"' => o.push_str("\\\""),
            '\\' => o.push_str("\\\\"),
            '\n' => o.push_str("\\n"),
            '\t' => o.push_str(" "),
            c if (c as u32) < 0x20 => {}
            c => o.push(c),
        }
    }
    o
}
fn js(s: &str) -> String { format!("\"{}\"", esc(s)) }
fn arr(v: Vec<String>) -> String { format!("[{}]", v.join(",")) }

fn ty(t: &Type) -> String {
    match t {
        Type::Reference(r) => format!("{{\"k\":\"ref\",\"mut\":{},\"elem\":{}}}", r.mutability.is_some(), ty(&r.elem)),
        Type::Ptr(p) => format!("{{\"k\":\"ptr\",\"mut\":{},\"elem\":{}}}", p.mutability.is_some(), ty(&p.elem)),
        Type::Path(p) => {
            let seg = p.path.segments.last().unwrap();
            let full: Vec<String> = p.path.segments.iter().map(|s| s.ident.to_string()).collect();
            let mut args = vec![];
            if let PathArguments::AngleBracketed(a) = &seg.arguments {
                for g in &a.args {
                    match g {
                        GenericArgument::Type(t) => args.push(ty(t)),
                        GenericArgument::Lifetime(_) => {}
                        other => args.push(format!("{{\"k\":\"other\",\"s\":{}}}", js(&other.to_token_stream().to_string()))),
                    }
                }
            }
            let qself = p.qself.as_ref().map(|q| ty(&q.ty)).unwrap_or("null".into());
            format!("{{\"k\":\"path\",\"name\":{},\"path\":{},\"args\":{},\"qself\":{}}}", js(&seg.ident.to_string()), arr(full.iter().map(|s| js(s)).collect()), arr(args), qself)
        }
        Type::BareFn(f) => {
            let abi = f.abi.as_ref().map(|a| a.name.as_ref().map(|n| n.value()).unwrap_or("C".into())).unwrap_or("Rust".into());
            let ins: Vec<String> = f.inputs.iter().map(|a| ty(&a.ty)).collect();
            let out = match &f.output { ReturnType::Default => "null".to_string(), ReturnType::Type(_, t) => ty(t) };
            format!("{{\"k\":\"fn\",\"abi\":{},\"unsafe\":{},\"inputs\":{},\"output\":{}}}", js(&abi), f.unsafety.is_some(), arr(ins), out)
        }
        Type::Tuple(t) => format!("{{\"k\":\"tuple\",\"elems\":{}}}", arr(t.elems.iter().map(ty).collect())),
        Type::Array(a) => format!("{{\"k\":\"array\",\"elem\":{},\"len\":{}}}", ty(&a.elem), js(&a.len.to_token_stream().to_string())),
        Type::Slice(s) => format!("{{\"k\":\"slice\",\"elem\":{}}}", ty(&s.elem)),
        Type::Paren(p) => ty(&p.elem),
        Type::Group(g) => ty(&g.elem),
        other => format!("{{\"k\":\"other\",\"s\":{}}}", js(&other.to_token_stream().to_string())),
    }
}

fn attrs(a: &[Attribute]) -> String {
    arr(a.iter().filter(|x| !x.path.is_ident("doc")).map(|x| js(&x.to_token_stream().to_string().replace(' ', ""))).collect())
}

fn bounds(b: &punctuated::Punctuated<TypeParamBound, token::Add>) -> String {
    arr(b.iter().filter_map(|x| match x { TypeParamBound::Trait(t) => Some(js(&t.to_token_stream().to_string().replace(' ', ""))), _ => None }).collect())
}

fn generics(g: &Generics) -> String {
    let mut ps = vec![];
    for p in &g.params {
        match p {
            GenericParam::Type(t) => ps.push(format!("{{\"name\":{},\"bounds\":{}}}", js(&t.ident.to_string()), bounds(&t.bounds))),
            GenericParam::Lifetime(_) => {}
            GenericParam::Const(c) => ps.push(format!("{{\"name\":{},\"bounds\":[],\"const\":true}}", js(&c.ident.to_string()))),
        }
    }
    let mut wh = vec![];
    if let Some(w) = &g.where_clause {
        for p in &w.predicates {
            if let WherePredicate::Type(t) = p {
                wh.push(format!("{{\"ty\":{},\"bounds\":{}}}", ty(&t.bounded_ty), bounds(&t.bounds)));
            }
        }
    }
    let nlt = g.params.iter().filter(|p| matches!(p, GenericParam::Lifetime(_))).count();
    format!("{{\"params\":{},\"where\":{},\"lifetimes\":{}}}", arr(ps), arr(wh), nlt)
}

fn fields(f: &Fields) -> String {
    arr(f.iter().enumerate().map(|(i, x)| format!("{{\"name\":{},\"ty\":{},\"vis\":{}}}", js(&x.ident.as_ref().map(|i| i.to_string()).unwrap_or(i.to_string())), ty(&x.ty), js(&x.vis.to_token_stream().to_string()))).collect())
}

fn items(its: &[Item], file: &str, modpath: &str, out: &mut Vec<String>) {
    for it in its {
        match it {
            Item::Struct(s) => out.push(format!("{{\"item\":\"struct\",\"file\":{},\"mod\":{},\"name\":{},\"attrs\":{},\"generics\":{},\"fields\":{},\"tuple\":{}}}",
                js(file), js(modpath), js(&s.ident.to_string()), attrs(&s.attrs), generics(&s.generics), fields(&s.fields), matches!(s.fields, Fields::Unnamed(_)))),
            Item::Enum(e) => {
                let vs: Vec<String> = e.variants.iter().map(|v| format!("{{\"name\":{},\"fields\":{},\"disc\":{}}}", js(&v.ident.to_string()), fields(&v.fields),
                    v.discriminant.as_ref().map(|d| js(&d.1.to_token_stream().to_string())).unwrap_or("null".into()))).collect();
                out.push(format!("{{\"item\":\"enum\",\"file\":{},\"mod\":{},\"name\":{},\"attrs\":{},\"generics\":{},\"variants\":{}}}",
                    js(file), js(modpath), js(&e.ident.to_string()), attrs(&e.attrs), generics(&e.generics), arr(vs)));
            }
            Item::Impl(i) => {
                let tr = i.trait_.as_ref().map(|t| js(&t.1.to_token_stream().to_string().replace(' ', ""))).unwrap_or("null".into());
                let neg = i.trait_.as_ref().map(|t| t.0.is_some()).unwrap_or(false);
                let mut assoc = vec![];
                let mut fns = vec![];
                for ii in &i.items {
                    match ii {
                        ImplItem::Type(t) => assoc.push(format!("{{\"name\":{},\"ty\":{}}}", js(&t.ident.to_string()), ty(&t.ty))),
                        ImplItem::Method(m) => fns.push(format!("{{\"name\":{},\"sig\":{},\"body\":{}}}", js(&m.sig.ident.to_string()), js(&m.sig.to_token_stream().to_string()), js(&m.block.to_token_stream().to_string()))),
                        _ => {}
                    }
                }
                out.push(format!("{{\"item\":\"impl\",\"file\":{},\"mod\":{},\"unsafe\":{},\"trait\":{},\"neg\":{},\"attrs\":{},\"generics\":{},\"self\":{},\"assoc\":{},\"fns\":{}}}",
                    js(file), js(modpath), i.unsafety.is_some(), tr, neg, attrs(&i.attrs), generics(&i.generics), ty(&i.self_ty), arr(assoc), arr(fns)));
            }
            Item::Fn(f) => out.push(format!("{{\"item\":\"fn\",\"file\":{},\"mod\":{},\"name\":{},\"attrs\":{},\"sig\":{},\"body\":{}}}",
                js(file), js(modpath), js(&f.sig.ident.to_string()), attrs(&f.attrs), js(&f.sig.to_token_stream().to_string()), js(&f.block.to_token_stream().to_string()))),
            Item::Macro(m) => out.push(format!("{{\"item\":\"macro\",\"file\":{},\"mod\":{},\"path\":{},\"tokens\":{}}}",
                js(file), js(modpath), js(&m.mac.path.to_token_stream().to_string()), js(&m.mac.tokens.to_string()))),
            Item::Mod(m) => {
                if m.attrs.iter().any(|a| a.to_token_stream().to_string().replace(' ', "").contains("cfg(test)")) { continue; }
                if let Some((_, its2)) = &m.content { items(its2, file, &format!("{}::{}", modpath, m.ident), out); }
            }
            Item::Trait(t) => {
                let sup: Vec<String> = t.supertraits.iter().filter_map(|x| match x { TypeParamBound::Trait(t) => Some(js(&t.to_token_stream().to_string().replace(' ', ""))), _ => None }).collect();
                out.push(format!("{{\"item\":\"trait\",\"file\":{},\"mod\":{},\"name\":{},\"attrs\":{},\"unsafe\":{},\"supertraits\":{}}}",
                    js(file), js(modpath), js(&t.ident.to_string()), attrs(&t.attrs), t.unsafety.is_some(), arr(sup)));
            }
            Item::Type(t) => out.push(format!("{{\"item\":\"type\",\"file\":{},\"mod\":{},\"name\":{},\"attrs\":{},\"generics\":{},\"ty\":{}}}",
                js(file), js(modpath), js(&t.ident.to_string()), attrs(&t.attrs), generics(&t.generics), ty(&t.ty))),
            Item::Const(c) => out.push(format!("{{\"item\":\"const\",\"file\":{},\"mod\":{},\"name\":{},\"ty\":{},\"expr\":{}}}",
                js(file), js(modpath), js(&c.ident.to_string()), ty(&c.ty), js(&c.expr.to_token_stream().to_string()))),
            _ => {}
        }
    }
}

fn main() {
    let mut out = vec![];
    let mut errs = String::new();
    for path in std::env::args().skip(1) {
        let src = match std::fs::read_to_string(&path) { Ok(s) => s, Err(e) => { let _ = writeln!(errs, "{}: {}", path, e); continue; } };
        match syn::parse_file(&src) {
            Ok(f) => items(&f.items, &path, "", &mut out),
            Err(e) => { let _ = writeln!(errs, "{}: parse error {}", path, e); }
        }
    }
    println!("{{\"errors\":{},\"items\":[\n{}\n]}}", js(&errs), out.join(",\n"));
}
