"""Translator for C09: regenerates coq/gen/AutoTraits_Src.v from /repo's current source:
 * the ADT environment (every struct/enum of the runtime modules + the generated structs of a real expansion of
   translators/samples/c09_defs.rs), with explicit `unsafe impl Send/Sync` and their bounds;
 * the list of opaque-conversion rules (every `unsafe impl .. Opaquable for X { type OpaqueTarget = Y }` in the runtime and in
   the expansion), plus instantiations of the compositional rules at the base rules (so that rustc can be asked about them);
 * the known cells (from /verif/known_findings.json).
Also writes the rustc probe program and the key to read its output."""
import json
import os
import sys

sys.path.insert(0, os.path.dirname(os.path.abspath(__file__)))
from srcdump import *

PRIMS = {"u8", "u16", "u32", "u64", "u128", "usize", "i8", "i16", "i32", "i64", "i128", "isize", "bool", "f32", "f64", "char",
         "c_char", "c_int", "NonZeroI32", "str"}
WRAPS = {"PhantomData", "Option", "MaybeUninit", "ManuallyDrop", "Pin"}
PTRS = {"NonNull"}


class Ctx:
    def __init__(self, items):
        self.items = [i for i in items if cfg_on(i.get("attrs", []))]
        self.adts = {}
        self.aliases = {}
        self.traits = {}
        for i in self.items:
            if i["item"] in ("struct", "enum"):
                self.adts.setdefault(i["name"], i)
            elif i["item"] == "type":
                self.aliases.setdefault(i["name"], i)
            elif i["item"] == "trait":
                self.traits.setdefault(i["name"], i)

    def marker_bounds(self, bound_names, seen=()):
        """(needs_send, needs_sync, is_opaquable) implied by a list of trait bounds (through supertraits)"""
        s = y = o = False
        for b in bound_names:
            name = b.split("<")[0].split("::")[-1]
            if name == "Send":
                s = True
            elif name == "Sync":
                y = True
            elif name in ("Opaquable", "CGlueBaseVtbl", "Opaque"):
                o = True
            elif name in self.traits and name not in seen:
                s2, y2, o2 = self.marker_bounds(self.traits[name]["supertraits"], seen + (name,))
                s, y, o = s or s2, y or y2, o or o2
        return s, y, o


def coq_ty(cx, t, params, depth=0):
    """JSON type tree -> Coq term of type AutoTrait.ty; params: list of parameter names of the enclosing definition"""
    if depth > 30:
        return 'TUnknown "too deep"'
    if t is None:
        return "TPrim"
    k = t["k"]
    if k == "ref":
        return "(%s %s)" % ("TMutRef" if t["mut"] else "TRef", coq_ty(cx, t["elem"], params, depth + 1))
    if k == "ptr":
        return "(TPtr %s)" % coq_ty(cx, t["elem"], params, depth + 1)
    if k == "fn":
        return "TFn"
    if k == "tuple":
        if not t["elems"]:
            return "TPrim"
        return "(TAdt \"(tuple)\" [%s])" % "; ".join(coq_ty(cx, e, params, depth + 1) for e in t["elems"])
    if k == "array":
        return "(TWrap %s)" % coq_ty(cx, t["elem"], params, depth + 1)
    if k == "path":
        name = t["name"]
        if t.get("qself"):
            q = t["qself"]
            if q["k"] == "path" and q["name"] in params and name in ("OpaqueTarget", "OpaqueVtbl"):
                return "(TOpaqueOf %d)" % params.index(q["name"])
            return "(TUnknown %s)" % coq_string(tstr(t))
        if len(t["path"]) == 2 and t["path"][0] in params and t["path"][1] in ("OpaqueTarget", "OpaqueVtbl"):
            return "(TOpaqueOf %d)" % params.index(t["path"][0])
        if name in params and len(t["path"]) == 1:
            return "(TParam %d)" % params.index(name)
        if t["path"][0] in ("core", "std") and name == "c_void":
            return "TPrim"
        if name in PRIMS:
            return "TPrim"
        args = [a for a in t["args"] if a.get("k") != "other"]
        if name in WRAPS:
            return "(TWrap %s)" % (coq_ty(cx, args[0], params, depth + 1) if args else "TPrim")
        if name in PTRS:
            return "(TPtr %s)" % (coq_ty(cx, args[0], params, depth + 1) if args else "TPrim")
        if name in cx.aliases and name not in cx.adts:
            al = cx.aliases[name]
            aps = [p["name"] for p in al["generics"]["params"]]
            sub = dict(zip(aps, args))
            return coq_ty(cx, subst(al["ty"], sub), params, depth + 1)
        if name in cx.adts:
            return "(TAdt %s [%s])" % (coq_string(name), "; ".join(coq_ty(cx, a, params, depth + 1) for a in args))
        return "(TUnknown %s)" % coq_string(tstr(t))
    return "(TUnknown %s)" % coq_string(tstr(t))


def subst(t, sub):
    if t is None:
        return None
    k = t["k"]
    if k == "path":
        if t["name"] in sub and len(t["path"]) == 1 and not t["args"]:
            return sub[t["name"]]
        n = dict(t)
        n["args"] = [subst(a, sub) for a in t["args"]]
        if t.get("qself"):
            n["qself"] = subst(t["qself"], sub)
        return n
    if k in ("ref", "ptr", "array", "slice"):
        n = dict(t)
        n["elem"] = subst(t["elem"], sub)
        return n
    if k == "tuple":
        n = dict(t)
        n["elems"] = [subst(a, sub) for a in t["elems"]]
        return n
    return t


def bounds_of(cx, gen, params):
    """per parameter: (send, sync, opaquable) from inline bounds and where-clauses on bare parameters"""
    res = {p: [False, False, False] for p in params}
    for p in gen["params"]:
        s, y, o = cx.marker_bounds(p["bounds"])
        r = res[p["name"]]
        r[0], r[1], r[2] = r[0] or s, r[1] or y, r[2] or o
    for w in gen["where"]:
        t = w["ty"]
        if t["k"] == "path" and t["name"] in params and len(t["path"]) == 1:
            s, y, o = cx.marker_bounds(w["bounds"])
            r = res[t["name"]]
            r[0], r[1], r[2] = r[0] or s, r[1] or y, r[2] or o
    return res


def coq_bounds(res, params, only_markers=True):
    out = []
    for i, p in enumerate(params):
        s, y, _ = res[p]
        if s or y:
            out.append("(%d, %s, %s)" % (i, "true" if s else "false", "true" if y else "false"))
    return "[" + "; ".join(out) + "]"


def build(feature_set=("std",)):
    rt = runtime_items()
    ex, exp_path = expansion_items(os.path.join(vlib.VERIF, "translators", "samples", "c09_defs.rs"))
    cx = Ctx(rt + ex)
    # ---- ADT environment
    explicit = {}  # name -> {"Send": bounds_str, "Sync": ...}
    for i in cx.items:
        if i["item"] == "impl" and i["unsafe"] and i["trait"] in ("Send", "Sync") and not i["neg"]:
            st = i["self"]
            if st["k"] != "path":
                continue
            targs = [a["name"] for a in st["args"] if a.get("k") == "path"]
            params = [p["name"] for p in i["generics"]["params"]]
            res = bounds_of(cx, i["generics"], params)
            # positions are those of the ADT's own parameters
            bs = []
            for pos, an in enumerate(targs):
                if an in res and (res[an][0] or res[an][1]):
                    bs.append("(%d, %s, %s)" % (pos, "true" if res[an][0] else "false", "true" if res[an][1] else "false"))
            explicit.setdefault(st["name"], {})[i["trait"]] = "[" + "; ".join(bs) + "]"
    env = []
    env.append('mkadt "(tuple)" 4 [TParam 0; TParam 1; TParam 2; TParam 3] None None')
    # the std handles the wrapper types are built from (facts about std, not about cglue): Arc<T> is Send/Sync iff T: Send + Sync;
    # Box<T>, Box<[T]>, Vec<T> own a T: structural
    env.append('mkadt "std::Arc" 1 [] (Some [(0, true, true)]) (Some [(0, true, true)])')
    env.append('mkadt "std::Box" 1 [TParam 0] None None')
    env.append('mkadt "std::BoxSlice" 1 [TParam 0] None None')
    env.append('mkadt "std::Vec" 1 [TParam 0] None None')
    for name, a in sorted(cx.adts.items()):
        params = [p["name"] for p in a["generics"]["params"] if not p.get("const")]
        if a["item"] == "struct":
            fields = [coq_ty(cx, f["ty"], params) for f in a["fields"]]
        else:
            fields = [coq_ty(cx, f["ty"], params) for v in a["variants"] for f in v["fields"]]
        ex_s = explicit.get(name, {}).get("Send")
        ex_y = explicit.get(name, {}).get("Sync")
        env.append("mkadt %s %d [%s] %s %s" % (coq_string(name), len(params), "; ".join(fields),
                                                "(Some %s)" % ex_s if ex_s is not None else "None",
                                                "(Some %s)" % ex_y if ex_y is not None else "None"))
    # ---- rules
    rules = []   # dicts: name, family, params, bounds(res), src(json), tgt(json), opaquable idxs
    for i in cx.items:
        if i["item"] == "impl" and i["unsafe"] and i["trait"] and i["trait"].split("::")[-1] == "Opaquable":
            params = [p["name"] for p in i["generics"]["params"] if not p.get("const")]
            res = bounds_of(cx, i["generics"], params)
            tgt = [a["ty"] for a in i["assoc"] if a["name"] == "OpaqueTarget"]
            if not tgt:
                raise TranslateError("Opaquable impl without OpaqueTarget: " + tstr(i["self"]))
            rules.append({"name": tstr(i["self"]), "params": params, "res": res, "src": i["self"], "tgt": tgt[0],
                          "file": os.path.basename(i["file"])})
    # the vtable of the sample trait: OpaqueVtbl relation read from the expansion
    vt = {}
    for i in cx.items:
        if i["item"] == "impl" and i["unsafe"] and i["trait"] and i["trait"].split("::")[-1].startswith("CGlueBaseVtbl"):
            ov = [a["ty"] for a in i["assoc"] if a["name"] == "OpaqueVtbl"]
            rt_ = [a["ty"] for a in i["assoc"] if a["name"] == "RetTmp"]
            if ov and i["self"]["k"] == "path":
                vt[i["self"]["name"]] = {"params": [p["name"] for p in i["generics"]["params"]], "self": i["self"], "opaque": ov[0],
                                         "rettmp": rt_[0] if rt_ else None}
    return cx, env, rules, vt, exp_path


def P(name):
    return {"k": "path", "name": name, "path": [name], "args": [], "qself": None}


def PA(name, args):
    return {"k": "path", "name": name, "path": [name], "args": args, "qself": None}


BASE_FAMILIES = {"&T": "ref", "&mut T": "mutref", "CBox<T>": "cbox", "CSliceBox<T>": "cslicebox", "CArc<T>": "carc",
                 "CArcSome<T>": "carcsome"}
# payload classes the probe program can name: (Send, Sync) -> a Rust type
PAYLOADS = {(True, True): "u32", (True, False): "core::cell::Cell<u32>",
            (False, True): "NotSendButSync", (False, False): "std::rc::Rc<u32>"}


def generate():
    cx, env, rules, vt, exp_path = build()
    known = load_known()
    lines = []
    w = lines.append
    w("(* GENERATED by /verif/translators/autotraits.py from /repo's current source — do not edit. *)")
    w("Require Import Verif.common.Prelude Verif.model.AutoTrait.")
    w("From Coq Require Import String. Open Scope string_scope.")
    w("Definition env : list adt := [")
    w("  " + ";\n  ".join(env))
    w("].")
    coq_rules = []
    rules_json = []
    probe_rules = []   # (index in coq_rules, rust src type fmt, rust tgt type fmt) for rules without compositional parameters
    meta = []
    base_by_family = {}

    def add_rule(name, family, params, res, src, tgt, rust=None):
        opq = [i for i, p in enumerate(params) if res[p][2]]
        coq_rules.append("mkrule %s %d %s [%s] %s %s" % (coq_string(name), len(params), coq_bounds(res, params),
                                                         "; ".join(map(str, opq)), coq_ty(cx, src, params), coq_ty(cx, tgt, params)))
        meta.append({"name": name, "family": family, "nparams": len(params), "opaquable": opq,
                     "bounds": {p: res[p] for p in params}, "rust": rust})
        rules_json.append({"params": params, "src": src, "tgt": tgt})
        return len(coq_rules) - 1

    for r in rules:
        fam = BASE_FAMILIES.get(r["name"], None)
        rust = None
        if not any(r["res"][p][2] for p in r["params"]) and len(r["params"]) <= 1:
            # directly probeable: substitute the payload for the single parameter
            rust = {"src": tstr(r["src"]), "tgt": tstr(r["tgt"]), "param": r["params"][0] if r["params"] else None}
        idx = add_rule(r["name"], fam or r["name"], r["params"], r["res"], r["src"], r["tgt"], rust)
        if fam:
            base_by_family[fam] = r
    # construction rules: the std handle a wrapper is built from -> the wrapper (From impls).  A wrapper that is Send/Sync where its handle
    # is not has gained a marker before any erasure takes place.
    for name, std, wrapper, rs, rt_ in (("Arc<T> -> CArc<T>", "std::Arc", "CArc", "std::sync::Arc<{T}>", "CArc<{T}>"),
                                       ("Arc<T> -> CArcSome<T>", "std::Arc", "CArcSome", "std::sync::Arc<{T}>", "CArcSome<{T}>"),
                                       ("Box<T> -> CBox<T>", "std::Box", "CBox", "Box<{T}>", "CBox<'static, {T}>"),
                                       ("Box<[T]> -> CSliceBox<T>", "std::BoxSlice", "CSliceBox", "Box<[{T}]>", "CSliceBox<'static, {T}>"),
                                       ("Vec<T> -> CVec<T>", "std::Vec", "CVec", "Vec<{T}>", "cglue::vec::CVec<{T}>")):
        if wrapper not in cx.adts:
            raise TranslateError("wrapper type %s not found" % wrapper)
        coq_rules.append("mkrule %s 1 [] [] (TAdt %s [TParam 0]) (TAdt %s [TParam 0])" % (coq_string(name), coq_string(std), coq_string(wrapper)))
        meta.append({"name": name, "family": "construct", "nparams": 1, "opaquable": [], "bounds": {"T": [False, False, False]},
                     "rust": {"raw": True, "src": rs, "tgt": rt_}})
        rules_json.append({"params": ["T"], "raw": True, "src": rs, "tgt": rt_})
    # instantiations of compositional rules at each base rule (and objects of the sample trait): T := base.src, T::OpaqueTarget := base.tgt
    comp = [r for r in rules if any(r["res"][p][2] for p in r["params"])]
    for c in comp:
        opq = [p for p in c["params"] if c["res"][p][2]]
        if len(opq) != 1:
            continue     # CGlueTraitObj has two (T and F): instantiated below through the sample vtable
        for fam, b in sorted(base_by_family.items()):
            inst_params = ["T"] + [p for p in c["params"] if p != opq[0]]
            sub_src = {opq[0]: b["src"]}
            src = subst(c["src"], sub_src)
            tgt = subst_opaque(c["tgt"], opq[0], b["tgt"])
            tgt = subst(tgt, sub_src)
            res = {"T": b["res"]["T"]}
            for p in c["params"]:
                if p != opq[0]:
                    res[p] = c["res"][p]
            name = "%s @ %s" % (c["name"], b["name"])
            rust = None
            if all(res[p][0] and res[p][1] for p in inst_params[1:]) or len(inst_params) == 1:
                rust = {"src": tstr(src), "tgt": tstr(tgt), "param": "T", "others": inst_params[1:]}
            add_rule(name, fam, inst_params, res, src, tgt, rust)
    # single-trait objects of the sample trait: F := FooVtbl<CGlueObjContainer<T,C,R>>, R := FooRetTmp<C>
    tobj = [r for r in rules if r["name"].startswith("CGlueTraitObj<")]
    if tobj and "FooVtbl" in vt:
        c = tobj[0]
        for fam, b in sorted(base_by_family.items()):
            C = P("CGlueCtx")
            R = PA("FooRetTmp", [C])
            cont_s = PA("CGlueObjContainer", [b["src"], C, R])
            cont_t = PA("CGlueObjContainer", [b["tgt"], C, R])
            src = PA("CGlueTraitObj", [b["src"], PA("FooVtbl", [cont_s]), C, R])
            tgt = PA("CGlueTraitObj", [b["tgt"], PA("FooVtbl", [cont_t]), C, R])
            res = {"T": b["res"]["T"], "CGlueCtx": [True, True, False]}
            add_rule("trait object of Foo @ %s" % b["name"], fam, ["T", "CGlueCtx"], res, src, tgt,
                     {"src": tstr(src), "tgt": tstr(tgt), "param": "T", "others": ["CGlueCtx"]})
    w("Definition rules : list rule := [")
    w("  " + ";\n  ".join(coq_rules))
    w("].")
    # known cells: every marker gained within a known (family, payload class)
    kc = []
    for m in meta:
        if m["family"] in known and m["nparams"] >= 1:
            for pc in known[m["family"]]:
                others = m["nparams"] - 1
                # parameter 0 is the payload; other parameters range over all assignments
                for rest in all_assign(others):
                    rho = [tuple(pc)] + rest
                    for ro in rho_o_cands(m):
                        for mk in ("MSend", "MSync"):
                            kc.append("mkcell %s [%s] [%s] %s" % (coq_string(m["name"]), "; ".join(cb(p) for p in rho), "; ".join(cb(p) for p in ro), mk))
    w("Definition known : list cell := [")
    w("  " + ";\n  ".join(kc))
    w("].")
    w("Definition rule_names : list string := map r_name rules.")
    out = os.path.join(vlib.COQ, "gen", "AutoTraits_Src.v")
    os.makedirs(os.path.dirname(out), exist_ok=True)
    new = "\n".join(lines) + "\n"
    if not os.path.exists(out) or open(out).read() != new:
        open(out, "w").write(new)
    return {"meta": meta, "n_adts": len(env), "n_rules": len(coq_rules), "n_known_cells": len(kc), "expansion": exp_path,
            "_cx": cx, "_rules_json": rules_json, "known_families": {k: sorted(v) for k, v in known.items()}}


def cb(p):
    return "(%s, %s)" % ("true" if p[0] else "false", "true" if p[1] else "false")


def all_assign(n):
    if n == 0:
        return [[]]
    out = []
    for a in all_assign(n - 1):
        for p in [(True, True), (True, False), (False, True), (False, False)]:
            out.append([p] + a)
    return out


def rho_o_cands(m):
    n = m["nparams"]
    out = []
    for a in all_assign(n):
        if all((i in m["opaquable"]) or a[i] == (False, False) for i in range(n)):
            out.append(a)
    return out


def subst_opaque(t, pname, repl):
    """replace <pname as Opaquable>::OpaqueTarget (in either spelling) by repl"""
    if t is None:
        return None
    k = t["k"]
    if k == "path":
        if t.get("qself") and t["qself"]["k"] == "path" and t["qself"]["name"] == pname and t["name"] in ("OpaqueTarget", "OpaqueVtbl"):
            return repl
        if len(t["path"]) == 2 and t["path"][0] == pname and t["path"][1] in ("OpaqueTarget", "OpaqueVtbl"):
            return repl
        n = dict(t)
        n["args"] = [subst_opaque(a, pname, repl) for a in t["args"]]
        return n
    if k in ("ref", "ptr", "array", "slice"):
        n = dict(t)
        n["elem"] = subst_opaque(t["elem"], pname, repl)
        return n
    if k == "tuple":
        n = dict(t)
        n["elems"] = [subst_opaque(a, pname, repl) for a in t["elems"]]
        return n
    return t


def load_known():
    """{family: [(send, sync), ...]} from known_findings.json (status known, property C09)"""
    out = {}
    for f in vlib.known_findings("C09"):
        if f.get("status") != "known":
            continue
        for fam, classes in f.get("match", {}).get("families", {}).items():
            for c in classes:
                out.setdefault(fam, []).append((bool(c[0]), bool(c[1])))
    return out





# ------------------------------------------------------------------------------------------- rustc probe
DEREF_FAMILIES = {"ref", "mutref", "cbox", "carcsome"}
OTHER_PARAM_TYPES = {"C": "NoContext", "CGlueCtx": "NoContext", "R": "()"}


def rust_ty(cx, t, sub):
    """JSON type tree -> Rust type text with 'static lifetimes re-inserted; sub: parameter name -> Rust type text"""
    if t is None:
        return "()"
    k = t["k"]
    if k == "ref":
        return "&'static " + ("mut " if t["mut"] else "") + rust_ty(cx, t["elem"], sub)
    if k == "path":
        name = t["name"]
        if name in sub and len(t["path"]) == 1:
            return sub[name]
        args = [rust_ty(cx, a, sub) for a in t["args"] if a.get("k") != "other"]
        nlt = 0
        if name in cx.adts:
            nlt = cx.adts[name]["generics"].get("lifetimes", 0)
        elif name in cx.aliases:
            nlt = cx.aliases[name]["generics"].get("lifetimes", 0)
        allargs = ["'static"] * nlt + args
        return name + ("<" + ", ".join(allargs) + ">" if allargs else "")
    if k == "tuple" and not t["elems"]:
        return "()"
    return tstr(t)


def write_probe(cx_rules_meta, out_dir):
    """generate the probe crate; returns the list of probed rows [(rule index, payload class)] in print order"""
    cx, rules_json, meta = cx_rules_meta
    os.makedirs(os.path.join(out_dir, "src"), exist_ok=True)
    open(os.path.join(out_dir, "Cargo.toml"), "w").write(
        '[package]\nname = "c09probe"\nversion = "0.0.0"\nedition = "2018"\n\n[workspace]\n\n[dependencies]\ncglue = { path = "/repo/cglue" }\n')
    defs = open(os.path.join(vlib.VERIF, "translators", "samples", "c09_defs.rs")).read()
    src = ["#![allow(dead_code, unused_imports, non_camel_case_types)]",
           "use cglue::prelude::v1::*;", "use cglue::*;", "use cglue::arc::*;", "use cglue::boxed::*;", "use cglue::forward::*;",
           "use cglue::trait_group::*;", "use cglue::vec::*;", "use cglue::slice::*;", "use cglue::option::*;", "use cglue::result::*;", "use cglue::callback::*;",
           "use cglue::iter::*;", "use cglue::repr_cstring::*;", "use cglue::tuple::*;", "use core::marker::PhantomData;", defs,
           "pub struct NotSendButSync(std::sync::MutexGuard<'static, u32>);",
           "macro_rules! payload { ($t:ty) => { impl Foo for $t { fn get(&self, x: u32) -> u32 { x } fn set(&mut self, v: &[u8]) -> usize { v.len() } } impl Bar for $t { fn bar(&self) -> u8 { 0 } } } }",
           "payload!(u32); payload!(core::cell::Cell<u32>); payload!(NotSendButSync); payload!(std::rc::Rc<u32>);",
           "struct P<T: ?Sized>(PhantomData<T>);",
           "trait NoSend { const SEND: bool = false; } impl<T: ?Sized> NoSend for P<T> {}",
           "trait NoSync { const SYNC: bool = false; } impl<T: ?Sized> NoSync for P<T> {}",
           "trait NoOpq { const OPQ: bool = false; } impl<T: ?Sized> NoOpq for P<T> {}",
           "impl<T: ?Sized + Send> P<T> { const SEND: bool = true; }",
           "impl<T: ?Sized + Sync> P<T> { const SYNC: bool = true; }",
           "impl<T: Opaquable> P<T> { const OPQ: bool = true; }",
           "fn main() {"]
    rows = []
    for idx, (m, rj) in enumerate(zip(meta, rules_json)):
        if rj is None or m["rust"] is None:
            continue
        if rj.get("raw"):
            for pc, pty in PAYLOADS.items():
                s_ty, t_ty = rj["src"].replace("{T}", pty), rj["tgt"].replace("{T}", pty)
                src.append('    println!("%d %d %d 1 {} {} {} {}", P::<%s>::SEND as u8, P::<%s>::SYNC as u8, P::<%s>::SEND as u8, P::<%s>::SYNC as u8);'
                           % (idx, pc[0], pc[1], s_ty, s_ty, t_ty, t_ty))
                rows.append({"rule": idx, "payload": pc, "src": s_ty, "tgt": t_ty})
            continue
        # rules of families that are not known base families are probed too when they are plain one-parameter rules (a NEW `unsafe impl Opaquable`):
        # rustc then says directly whether the erased form gains a marker
        if m["nparams"] >= 1 and m["family"] not in BASE_FAMILIES.values() and (m["nparams"] != 1 or m["opaquable"] or " @ " in m["name"]):
            continue
        needs_deref = any(x in m["name"] for x in ("trait object", "Grp"))
        if needs_deref and m["family"] not in DEREF_FAMILIES:
            continue
        classes = list(PAYLOADS.items()) if m["nparams"] >= 1 else [((True, True), None)]
        for pc, pty in classes:
            sub = dict(OTHER_PARAM_TYPES)
            if m["nparams"] >= 1:
                sub[rj["params"][0]] = pty
            s_ty = rust_ty(cx, rj["src"], sub)
            t_ty = rust_ty(cx, rj["tgt"], sub)
            src.append('    println!("%d %d %d {} {} {} {} {}", P::<%s>::OPQ as u8, P::<%s>::SEND as u8, P::<%s>::SYNC as u8, P::<%s>::SEND as u8, P::<%s>::SYNC as u8);'
                       % (idx, pc[0], pc[1], s_ty, s_ty, s_ty, t_ty, t_ty))
            rows.append({"rule": idx, "payload": pc, "src": s_ty, "tgt": t_ty})
    src.append("}")
    open(os.path.join(out_dir, "src", "main.rs"), "w").write("\n".join(src) + "\n")
    return rows


if __name__ == "__main__":
    g = generate()
    rows = write_probe((g["_cx"], g["_rules_json"], g["meta"]), os.path.join(vlib.CACHE, "c09probe"))
    print(len(rows), "probe rows;", g["n_rules"], "rules;", g["n_adts"], "adts;", g["n_known_cells"], "known cells")
