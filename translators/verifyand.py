"""Translator for C20: regenerates coq/gen/VerifyAnd_Src.v from cglue/src/trait_group.rs:
 * the body of VerifyLayout::and  (nested `match` over the three variants, results `self` / `other` / a variant),
 * is_valid_strict / is_valid_relaxed (`matches!(self, A | B)`),
 * the shape of compare_layouts (`if let (Some(..), Some(..)) = .. { match check(..) { Ok(_) => V, Err(_) => V } } else { V }`).
A deliberately tiny expression subset; anything else stops the translation with a precise message (a broken tie)."""
import os
import re
import sys

sys.path.insert(0, os.path.dirname(os.path.abspath(__file__)))
from srcdump import *

VARIANTS = ("Valid", "Invalid", "Unknown")


def tokens(s):
    return re.findall(r"[A-Za-z_][A-Za-z0-9_]*|=>|::|[{}(),|_;!&#\[\]=<>.*]", s)


class P:
    def __init__(self, toks):
        self.t, self.i = toks, 0

    def peek(self):
        return self.t[self.i] if self.i < len(self.t) else None

    def eat(self, x=None):
        v = self.peek()
        if x is not None and v != x:
            raise TranslateError("expected %r, found %r at token %d of %s" % (x, v, self.i, " ".join(self.t[max(0, self.i - 6):self.i + 6])))
        self.i += 1
        return v

    def variant(self):
        if self.peek() in ("VerifyLayout", "Self"):
            self.eat(); self.eat("::")
        v = self.eat()
        if v not in VARIANTS:
            raise TranslateError("unknown variant %r" % v)
        return v

    def pattern(self):
        if self.peek() == "_":
            self.eat()
            return None
        vs = [self.variant()]
        while self.peek() == "|":
            self.eat()
            vs.append(self.variant())
        return vs

    def expr(self):
        if self.peek() == "{":
            self.eat("{"); e = self.expr(); self.eat("}")
            return e
        if self.peek() == "match" and self.t[self.i + 1:self.i + 7] == ["(", "self", ",", "other", ")", "{"]:
            # match (self, other) { (P, Q) => e, .. }: a component pattern is a variant alternative, `_`, or the component's own name (a binding
            # that shadows the parameter with the very same value)
            self.i += 7
            arms = []
            while self.peek() != "}":
                if self.peek() == "#":
                    raise TranslateError("attribute on a match arm of VerifyLayout::and")
                self.eat("(")
                comps = []
                for name in ("self", "other"):
                    if self.peek() == name:
                        self.eat(); comps.append(None)
                    else:
                        comps.append(self.pattern())
                    if name == "self":
                        self.eat(",")
                if self.peek() == ",":
                    self.eat(",")
                self.eat(")")
                self.eat("=>")
                e = self.expr()
                if self.peek() == ",":
                    self.eat(",")
                arms.append((comps, e))
            self.eat("}")
            return ("match2", arms)
        if self.peek() == "match":
            self.eat("match")
            scrut = self.eat()
            if scrut not in ("self", "other"):
                raise TranslateError("match on %r" % scrut)
            self.eat("{")
            arms = []
            while self.peek() != "}":
                while self.peek() == "#":     # attributes on arms (cfg) are outside the subset
                    raise TranslateError("attribute on a match arm of VerifyLayout::and")
                pat = self.pattern()
                self.eat("=>")
                e = self.expr()
                if self.peek() == ",":
                    self.eat(",")
                arms.append((pat, e))
            self.eat("}")
            return ("match", scrut, arms)
        if self.peek() in ("self", "other"):
            return ("var", self.eat())
        return ("lit", self.variant())


def to_coq(e, ind="  "):
    if e[0] == "var":
        return "a" if e[1] == "self" else "b"
    if e[0] == "lit":
        return e[1]
    if e[0] == "match2":
        # Coq checks exhaustiveness (and rejects redundant clauses) itself
        pat = lambda c: "_" if c is None else ("(%s)" % " | ".join(c) if len(c) > 1 else c[0])
        out = "match a, b with"
        for comps, body in e[1]:
            out += "\n%s| %s, %s => %s" % (ind, pat(comps[0]), pat(comps[1]), to_coq(body, ind + "  "))
        return "(" + out + "\n%send)" % ind
    _, scrut, arms = e
    out = "match %s with" % ("a" if scrut == "self" else "b")
    covered = set()
    for pat, body in arms:
        pats = [v for v in VARIANTS if v not in covered] if pat is None else [v for v in pat if v not in covered]
        if not pats:
            continue
        covered.update(pats)
        out += "\n%s| %s => %s" % (ind, " | ".join(pats), to_coq(body, ind + "  "))
    if covered != set(VARIANTS):
        raise TranslateError("non-exhaustive match in VerifyLayout::and")
    return "(" + out + "\n%send)" % ind


def generate():
    items = [i for i in dump([os.path.join(REPO, "cglue", "src", "trait_group.rs")])]
    fns = {}
    enum = None
    for i in items:
        if i["item"] == "impl" and i["self"].get("name") == "VerifyLayout":
            for f in i["fns"]:
                fns[f["name"]] = f
        if i["item"] == "enum" and i["name"] == "VerifyLayout":
            enum = i
        if i["item"] == "fn" and i["name"] == "compare_layouts":
            fns["compare_layouts"] = i
    if enum is None or "and" not in fns:
        raise TranslateError("VerifyLayout / VerifyLayout::and not found")
    order = [v["name"] for v in enum["variants"]]
    if sorted(order) != sorted(VARIANTS):
        raise TranslateError("VerifyLayout variants are %s" % order)
    body = P(tokens(fns["and"]["body"]))
    e = body.expr()
    if body.peek() is not None:
        raise TranslateError("trailing tokens in VerifyLayout::and")
    lines = ["(* GENERATED by /verif/translators/verifyand.py from cglue/src/trait_group.rs — do not edit. *)",
             "Require Import Verif.common.Prelude Verif.model.LayoutCheck.",
             "Definition and_src (a b : verdict) : verdict :=\n  %s." % to_coq(e)]

    def matches(name):
        m = re.search(r"matches\s*!\s*\(\s*self\s*,\s*(.*?)\)\s*}?\s*$", fns[name]["body"].strip(), re.S) if name in fns else None
        if not m:
            raise TranslateError("%s is not a matches!(self, ..)" % name)
        p = P(tokens(m.group(1)))
        vs = p.pattern()
        return vs

    for name in ("is_valid_strict", "is_valid_relaxed"):
        vs = matches(name)
        lines.append("Definition %s_src (a : verdict) : bool :=\n  match a with %s => true | %s end." % (
            name, " | ".join(vs), " | ".join(v for v in VARIANTS if v not in vs) + " => false" if len(vs) < 3 else "_ => true"))
    # compare_layouts: which verdicts for (both present & compatible, both present & incompatible, one missing)
    cb = re.sub(r"\s+", "", fns["compare_layouts"]["body"])
    m = re.search(r"^\{iflet\(Some\(expected\),Some\(found\)\)=\(expected,found\)\{matchcheck_layout_compatibility\(expected,found\)\.into_result\(\)\{Ok\(_\)=>VerifyLayout::(\w+),(.*)\}\}else\{VerifyLayout::(\w+)\}\}$", cb)
    if not m:
        # the same decision written with an early return
        m = re.search(r"^\{let\(expected,found\)=match\(expected,found\)\{\(Some\(expected\),Some\(found\)\)=>\(expected,found\),_=>return(?:VerifyLayout|Self)::(\w+),?\};matchcheck_layout_compatibility\(expected,found\)\.into_result\(\)\{Ok\(_\)=>VerifyLayout::(\w+),(.*)\}\}$", cb)
        if m:
            class M2:
                def __init__(self, g): self.g = g
                def group(self, k): return self.g[k]
            m = M2({1: m.group(2), 2: m.group(3), 3: m.group(1)})
    if not m:
        raise TranslateError("compare_layouts has another shape than `if let (Some, Some) { match check(..) { Ok => .., Err => .. } } else { .. }`: " + cb[:200])
    errs = set(re.findall(r"=>(?:\{[^}]*;)?VerifyLayout::(\w+)", m.group(2)))
    if len(errs) != 1:
        raise TranslateError("compare_layouts: Err arms yield %s" % errs)
    lines.append("Definition compare_src (expected_present found_present compatible : bool) : verdict :=\n"
                 "  if expected_present && found_present then (if compatible then %s else %s) else %s." % (m.group(1), errs.pop(), m.group(3)))
    lines.append("Definition variant_order : list verdict := [%s]." % "; ".join(order))
    out = os.path.join(vlib.COQ, "gen", "VerifyAnd_Src.v")
    new = "\n".join(lines) + "\n"
    if not os.path.exists(out) or open(out).read() != new:
        open(out, "w").write(new)
    return {"and": fns["and"]["body"]}


if __name__ == "__main__":
    print(generate())
    print(open(os.path.join(vlib.COQ, "gen", "VerifyAnd_Src.v")).read())
