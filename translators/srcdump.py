"""Front end shared by the translators: structural dump of /repo sources (and of real expansions produced by calling
cglue-gen as a library) through translators/xlate (syn), cfg filtering, small helpers on the JSON type trees."""
import json
import os
import re
import subprocess
import sys

sys.path.insert(0, os.path.join(os.path.dirname(os.path.dirname(os.path.abspath(__file__))), "bin"))
import vlib

REPO = vlib.REPO
RUNTIME_FILES = ["boxed", "arc", "slice", "vec", "option", "result", "callback", "iter", "tuple", "repr_cstring", "forward",
                 "trait_group", "task/mod"]


class TranslateError(Exception):
    pass


def build_tools():
    exe, err, _ = vlib.build_harness_dir(os.path.join(vlib.VERIF, "translators", "xlate"), "xlate")
    if exe is None:
        raise TranslateError("translator front end does not build: " + err)
    return exe


def dump(files):
    exe = build_tools()
    rc, o, e, _ = vlib.sh([exe] + files, timeout=120)
    if rc != 0:
        raise TranslateError("xlate failed: " + e[-500:])
    j = json.loads(o)
    if j["errors"].strip():
        raise TranslateError("source does not parse: " + j["errors"])
    return j["items"]


def runtime_items():
    return dump([os.path.join(REPO, "cglue", "src", f + ".rs") for f in RUNTIME_FILES])


def expand(defs_path, features=None):
    """expansion of a definitions file by the real generator (cglue-gen as a library)"""
    exe, err, _ = vlib.build_harness("gen", features=features)
    if exe is None:
        raise TranslateError("gen harness does not build: " + err)
    env = dict(vlib.ENV)
    env["CARGO_MANIFEST_DIR"] = os.path.join(vlib.VERIF, "harness", "gen")
    rc, o, e, _ = vlib.sh([exe, "expand", defs_path], env=env, timeout=300)
    if rc != 0:
        raise TranslateError("expansion failed: " + e[-800:])
    return o


def expansion_items(defs_path, features=None, keep=None):
    src = expand(defs_path, features)
    out = keep or os.path.join(vlib.CACHE, "expansions", os.path.basename(defs_path) + (".lc" if features else "") + ".exp.rs")
    os.makedirs(os.path.dirname(out), exist_ok=True)
    open(out, "w").write(src)
    return dump([out]), out


def cfg_on(attrs, features=("std",)):
    """evaluate the simple #[cfg(feature=..)] / #[cfg(not(feature=..))] attributes used in cglue"""
    for a in attrs:
        m = re.match(r'#\[cfg\((.*)\)\]$', a)
        if not m:
            continue
        c = m.group(1)
        mm = re.match(r'feature="([^"]+)"$', c)
        if mm:
            if mm.group(1) not in features:
                return False
            continue
        mm = re.match(r'not\(feature="([^"]+)"\)$', c)
        if mm:
            if mm.group(1) in features:
                return False
            continue
        if c == "test":
            return False
        # anything else (e.g. cfg(feature = "serde") impls) : keep only if all mentioned features are on
        feats = re.findall(r'feature="([^"]+)"', c)
        if feats and not all(f in features for f in feats):
            return False
    return True


def has_repr(attrs):
    for a in attrs:
        m = re.match(r'#\[repr\((.*)\)\]$', a)
        if m:
            return m.group(1)
    return None


def derives_stableabi(attrs):
    return any("StableAbi" in a for a in attrs)


def tstr(t):
    if t is None:
        return "()"
    k = t["k"]
    if k == "path":
        q = "<%s>::" % tstr(t["qself"]) if t.get("qself") else ""
        return q + t["name"] + ("<" + ",".join(tstr(a) for a in t["args"]) + ">" if t["args"] else "")
    if k == "ref":
        return "&" + ("mut " if t["mut"] else "") + tstr(t["elem"])
    if k == "ptr":
        return "*" + ("mut " if t["mut"] else "const ") + tstr(t["elem"])
    if k == "fn":
        return ("unsafe " if t["unsafe"] else "") + 'extern "%s" fn(%s)%s' % (t["abi"], ",".join(tstr(a) for a in t["inputs"]),
                                                                              " -> " + tstr(t["output"]) if t["output"] else "")
    if k == "tuple":
        return "(" + ",".join(tstr(a) for a in t["elems"]) + ")"
    if k == "array":
        return "[%s;%s]" % (tstr(t["elem"]), t["len"])
    if k == "slice":
        return "[%s]" % tstr(t["elem"])
    return t.get("s", "?")


def coq_string(s):
    return '"' + s.replace('"', '""') + '"'
