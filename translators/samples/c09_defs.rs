// Canonical definitions whose REAL expansion (cglue-gen called as a library) is read back to obtain the
// generated structs and the Opaquable / CGlueBaseVtbl impls that exist only inside quote! templates.
#[cglue_trait]
pub trait Foo {
    fn get(&self, x: u32) -> u32;
    fn set(&mut self, v: &[u8]) -> usize;
}
#[cglue_trait]
pub trait Bar {
    fn bar(&self) -> u8;
}
cglue_trait_group!(Grp, Foo, { Bar });
