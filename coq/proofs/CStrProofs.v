Require Import Verif.common.Prelude Verif.model.CStr.
Open Scope Z_scope.

Lemma prefix_no_nul b : Forall (fun x => x <> 0) (prefix_to_nul b).
Proof. induction b as [|x r IH]; cbn; [constructor|]. destruct (Z.eqb_spec x 0); constructor; auto. Qed.

Lemma size_of_terminated p : Forall (fun x => x <> 0) p -> string_size (p ++ [0]) = Some (S (length p)).
Proof.
  induction 1 as [|x r Hx F IH]; cbn; [reflexivity|].
  destruct (Z.eqb_spec x 0); [contradiction|]. now rewrite IH.
Qed.

Lemma from_str_spec input :
  let c := from_str input in
  bytes c = prefix_to_nul input ++ [0] /\
  string_size (bytes c) = Some (alloc_size c) /\
  as_ref c = Ok (prefix_to_nul input) /\
  drop_cstring c = Ok (alloc_size c) /\
  leaked_extra c = 0%nat.
Proof.
  cbn. pose proof (size_of_terminated _ (prefix_no_nul input)) as HS.
  unfold as_ref, drop_cstring; cbn. rewrite HS, app_length; cbn.
  replace (length (prefix_to_nul input) + 1)%nat with (S (length (prefix_to_nul input))) by lia.
  rewrite Nat.eqb_refl. repeat split; auto.
  rewrite Nat.sub_0_r. f_equal.
  rewrite firstn_app, Nat.sub_diag, firstn_all. cbn. apply app_nil_r.
Qed.

Lemma prefix_idem p : Forall (fun x => x <> 0) p -> prefix_to_nul p = p.
Proof. induction 1 as [|x r Hx F IH]; cbn; [reflexivity|]. destruct (Z.eqb_spec x 0); [contradiction|]. now rewrite IH. Qed.

Lemma clone_spec input :
  exists c2, clone_cstring (from_str input) = Ok c2 /\ as_ref c2 = Ok (prefix_to_nul input) /\
             drop_cstring c2 = Ok (alloc_size c2) /\ bytes c2 = bytes (from_str input).
Proof.
  destruct (from_str_spec input) as (B & HS & A & D & L). unfold clone_cstring. rewrite A.
  eexists; split; [reflexivity|].
  destruct (from_str_spec (prefix_to_nul input)) as (B2 & S2 & A2 & D2 & L2).
  rewrite (prefix_idem _ (prefix_no_nul input)) in *. repeat split; auto.
Qed.

(* the code before the repair: a NUL-free non-empty input makes every access scan out of bounds *)
Lemma v0_refuted : exists input, as_ref (from_bytes_v0 input) = UB /\ leaked_extra (from_bytes_v0 input) <> 0%nat.
Proof. exists [97]. split; [reflexivity|cbn; lia]. Qed.

(* ---- comparison, hashing, the borrowed view, shape of the buffer ---- *)
Lemma eq_by_content i j :
  eq_cstring (from_str i) (from_str j) = Ok (if list_eq_dec Z.eq_dec (prefix_to_nul i) (prefix_to_nul j) then true else false).
Proof.
  unfold eq_cstring. destruct (from_str_spec i) as (_ & _ & Ai & _). destruct (from_str_spec j) as (_ & _ & Aj & _).
  now rewrite Ai, Aj.
Qed.

Lemma eq_iff_content i j :
  eq_cstring (from_str i) (from_str j) = Ok true <-> prefix_to_nul i = prefix_to_nul j.
Proof.
  rewrite eq_by_content. destruct (list_eq_dec Z.eq_dec (prefix_to_nul i) (prefix_to_nul j)) as [E|N]; split; intro H; auto; try discriminate.
  contradiction.
Qed.

Lemma hash_by_content i : hash_key (from_str i) = Ok (prefix_to_nul i).
Proof. unfold hash_key. now destruct (from_str_spec i) as (_ & _ & A & _). Qed.

Lemma size_stops_at_first_nul p rest : Forall (fun x => x <> 0) p -> string_size (p ++ 0 :: rest) = Some (S (length p)).
Proof.
  induction 1 as [|x r Hx F IH]; cbn; [reflexivity|].
  destruct (Z.eqb_spec x 0); [contradiction|]. now rewrite IH.
Qed.

Lemma borrowed_reads_back p rest : Forall (fun x => x <> 0) p -> borrowed_as_ref (p ++ 0 :: rest) = Ok p.
Proof.
  intro F. unfold borrowed_as_ref. rewrite (size_stops_at_first_nul p rest F). cbn [Nat.sub]. rewrite Nat.sub_0_r.
  f_equal. rewrite firstn_app, Nat.sub_diag, firstn_all. cbn. apply app_nil_r.
Qed.

Lemma borrowed_unterminated p : Forall (fun x => x <> 0) p -> borrowed_as_ref p = UB.
Proof.
  intro F. unfold borrowed_as_ref. replace (string_size p) with (@None nat); [reflexivity|].
  induction F as [|x r Hx F IH]; cbn; [reflexivity|]. destruct (Z.eqb_spec x 0); [contradiction|]. now rewrite <- IH.
Qed.

Lemma borrow_agrees input : borrowed_as_ref (borrow_cstring (from_str input)) = as_ref (from_str input).
Proof. reflexivity. Qed.

Lemma count_no_nul p : Forall (fun x => x <> 0) p -> count_occ Z.eq_dec p 0 = 0%nat.
Proof. induction 1 as [|x r Hx F IH]; cbn; [reflexivity|]. destruct (Z.eq_dec x 0); [contradiction|exact IH]. Qed.

Lemma one_nul_last input :
  count_occ Z.eq_dec (bytes (from_str input)) 0 = 1%nat /\ last (bytes (from_str input)) 1 = 0.
Proof.
  cbn [from_str bytes]. split.
  - rewrite count_occ_app, (count_no_nul _ (prefix_no_nul input)). reflexivity.
  - apply last_last.
Qed.

Lemma from_readback_idem input : from_str (prefix_to_nul input) = from_str input.
Proof. unfold from_str. now rewrite (prefix_idem _ (prefix_no_nul input)). Qed.

Lemma prefix_is_prefix input : exists rest, input = prefix_to_nul input ++ rest /\ (rest = [] \/ exists r, rest = 0 :: r).
Proof.
  induction input as [|x r IH]; cbn.
  - exists []. auto.
  - destruct (Z.eqb_spec x 0) as [->|N].
    + exists (0 :: r). split; [reflexivity|right; eauto].
    + destruct IH as (rest & E & H). exists rest. split; [cbn; now rewrite <- E|exact H].
Qed.
