Require Import Verif.common.Prelude Verif.model.CStr.
Open Scope Z_scope.

Lemma prefix_no_nul b : Forall (fun x => x <> 0) (prefix_to_nul b).
Proof. induction b as [|x r IH]; cbn; [constructor|]. destruct (Z.eqb_spec x 0); constructor; auto. Qed.

Lemma size_of_terminated p : Forall (fun x => x <> 0) p -> string_size (p ++ [0]) = Some (S (length p)).
Proof.
  induction 1 as [|x r Hx F IH]; cbn; [reflexivity|].
  destruct (Z.eqb_spec x 0); [contradiction|]. now rewrite IH.
Qed.

Lemma from_str_spec input :
  let c := from_str input in
  bytes c = prefix_to_nul input ++ [0] /\
  string_size (bytes c) = Some (alloc_size c) /\
  as_ref c = Ok (prefix_to_nul input) /\
  drop_cstring c = Ok (alloc_size c) /\
  leaked_extra c = 0%nat.
Proof.
  cbn. pose proof (size_of_terminated _ (prefix_no_nul input)) as HS.
  unfold as_ref, drop_cstring; cbn. rewrite HS, app_length; cbn.
  replace (length (prefix_to_nul input) + 1)%nat with (S (length (prefix_to_nul input))) by lia.
  rewrite Nat.eqb_refl. repeat split; auto.
  rewrite Nat.sub_0_r. f_equal.
  rewrite firstn_app, Nat.sub_diag, firstn_all. cbn. apply app_nil_r.
Qed.

Lemma prefix_idem p : Forall (fun x => x <> 0) p -> prefix_to_nul p = p.
Proof. induction 1 as [|x r Hx F IH]; cbn; [reflexivity|]. destruct (Z.eqb_spec x 0); [contradiction|]. now rewrite IH. Qed.

Lemma clone_spec input :
  exists c2, clone_cstring (from_str input) = Ok c2 /\ as_ref c2 = Ok (prefix_to_nul input) /\
             drop_cstring c2 = Ok (alloc_size c2) /\ bytes c2 = bytes (from_str input).
Proof.
  destruct (from_str_spec input) as (B & HS & A & D & L). unfold clone_cstring. rewrite A.
  eexists; split; [reflexivity|].
  destruct (from_str_spec (prefix_to_nul input)) as (B2 & S2 & A2 & D2 & L2).
  rewrite (prefix_idem _ (prefix_no_nul input)) in *. repeat split; auto.
Qed.

(* the code before the repair: a NUL-free non-empty input makes every access scan out of bounds *)
Lemma v0_refuted : exists input, as_ref (from_bytes_v0 input) = UB /\ leaked_extra (from_bytes_v0 input) <> 0%nat.
Proof. exists [97]. split; [reflexivity|cbn; lia]. Qed.
