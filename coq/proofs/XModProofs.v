(* Proofs about the two-module model (model/XMod.v). *)
Require Import Verif.common.Prelude Verif.model.XMod.
Open Scope Z_scope.

(* the module that carries an operation out does not influence what it computes *)
Lemma pstep_indep : forall s c m m' r, pstep s (c :: m :: r) = pstep s (c :: m' :: r).
Proof. intros [p nt] c m m' r. unfold pstep. cbn [nth]. reflexivity. Qed.

Definition relabel1 (o : list Z) : list Z := match o with c :: _ :: r => c :: 0 :: r | _ => o end.

Lemma pstep_relabel : forall s o, pstep s (relabel1 o) = pstep s o.
Proof. intros s [|c [|m r]]; try reflexivity; cbn [relabel1]; apply pstep_indep. Qed.

Lemma run_ops_relabel : forall ops s hs hs',
  fst (fst (run_ops s hs ops)) = fst (fst (run_ops s hs' (relabel ops))) /\
  snd (run_ops s hs ops) = snd (run_ops s hs' (relabel ops)).
Proof.
  induction ops as [|o r IH]; intros s hs hs'; [split; reflexivity|].
  cbn [relabel map run_ops]. fold (relabel1 o). fold (relabel r). rewrite pstep_relabel.
  destruct (pstep s o) as [[s1 row] c].
  specialize (IH s1 (hstep hs (module_of o) c) (hstep hs' (module_of (relabel1 o)) c)).
  destruct (run_ops s1 (hstep hs (module_of o) c) r) as [[s2 h2] rows].
  destruct (run_ops s1 (hstep hs' (module_of (relabel1 o)) c) (relabel r)) as [[s2' h2'] rows'].
  cbn [fst snd] in *. destruct IH as [-> ->]. split; reflexivity.
Qed.

(* every release is carried out by the module that owns the block *)
Definition routed (l : list (nat * nat)) : Prop := Forall (fun e : nat * nat => fst e = snd e) l.

Lemma hstep_routed : forall hs m c, routed (hlog hs) -> routed (hlog (hstep hs m c)).
Proof.
  intros hs m [| |src|slot] H; cbn [hstep hlog]; try assumption.
  apply Forall_app. split; [assumption|]. constructor; [reflexivity|constructor].
Qed.

Lemma run_ops_routed : forall ops s hs, routed (hlog hs) -> routed (hlog (snd (fst (run_ops s hs ops)))).
Proof.
  induction ops as [|o r IH]; intros s hs H; [exact H|].
  cbn [run_ops]. destruct (pstep s o) as [[s1 row] c].
  specialize (IH s1 (hstep hs (module_of o) c) (hstep_routed hs (module_of o) c H)).
  destruct (run_ops s1 (hstep hs (module_of o) c) r) as [[s2 h2] rows]. exact IH.
Qed.

Lemma cleanup_routed : forall s hs, routed (hlog hs) -> routed (hlog (snd (cleanup s hs))).
Proof.
  intros s hs H. unfold cleanup. cbn [snd hlog]. apply Forall_app. split; [assumption|].
  apply Forall_forall. intros e He. apply in_flat_map in He. destruct He as [[v h] [_ Hin]].
  cbn [fst snd] in Hin. destruct (is_live v); [|contradiction]. destruct Hin as [<-|[]]. reflexivity.
Qed.

Lemma routed_misrouted : forall k l, routed l -> misrouted k l = 0.
Proof.
  intros k l H. unfold misrouted. replace (filter _ l) with (@nil (nat * nat)); [reflexivity|].
  symmetry. induction H as [|e r He Hr IH]; [reflexivity|]. cbn [filter]. rewrite He, Nat.eqb_refl. cbn [negb]. rewrite andb_false_r. exact IH.
Qed.

(* after the final cleanup nothing is alive in either module *)
Lemma all_dead_instances : forall k (p : list pvalue) hm, live_instances k (map (fun _ => PDead) p) hm = 0.
Proof.
  intros k p. unfold live_instances. induction p as [|v r IH]; intros hm; [reflexivity|].
  destruct hm as [|h hm]; [reflexivity|]. cbn [map combine filter fst is_inst andb]. apply IH.
Qed.

Lemma all_dead_tokens : forall k (p : list pvalue) th, live_tokens k (map (fun _ => PDead) p) th = 0.
Proof.
  intros k p th. unfold live_tokens.
  replace (filter _ _) with (@nil (nat * nat)); [reflexivity|]. symmetry.
  assert (H : forall t, existsb (holds t) (map (fun _ => PDead) p) = false).
  { intros t. induction p as [|v r IH]; [reflexivity|]. exact IH. }
  induction (combine (seq 0 (length th)) th) as [|e r IH]; [reflexivity|]. cbn [filter]. rewrite H, andb_false_r. exact IH.
Qed.

(* the results of a two-module run are those of the single-module reference run, and the final accounting is clean *)
Theorem xmod_same_results : forall rows,
  firstn (length rows) (run_xmod [0] rows) = firstn (length rows) (run_xmod [1] rows).
Proof.
  intros rows. unfold run_xmod. cbn [zb Z.eqb negb].
  pose proof (run_ops_relabel rows ([], 0%nat) (mkh [] []) (mkh [] [])) as [_ H].
  destruct (run_ops ([], 0%nat) (mkh [] []) rows) as [[s hs] out] eqn:E1.
  destruct (run_ops ([], 0%nat) (mkh [] []) (relabel rows)) as [[s' hs'] out'] eqn:E2.
  cbn [snd] in H. subst out'.
  assert (Hl : length out = length rows).
  { clear -E1. revert s hs out E1. generalize (([], 0%nat) : pst) as s0. generalize (mkh [] []) as h0.
    induction rows as [|o r IH]; intros h0 s0 s hs out E; cbn [run_ops] in E.
    - inversion E. reflexivity.
    - destruct (pstep s0 o) as [[s1 row] c]. destruct (run_ops s1 (hstep h0 (module_of o) c) r) as [[s2 h2] rows'] eqn:E'.
      inversion E; subst. cbn [length]. f_equal. eapply IH. exact E'. }
  destruct (cleanup s hs) as [f fh]. destruct (cleanup s' hs') as [f' fh'].
  rewrite <- Hl, !firstn_app, Nat.sub_diag, !firstn_all. cbn [firstn]. reflexivity.
Qed.

Theorem xmod_clean_end : forall rows,
  skipn (length rows) (run_xmod [0] rows) = [[-1; 0; 0; 0; 0; 0; 0; 0]; [-1; 1; 0; 0; 0; 0; 0; 0]].
Proof.
  intros rows. unfold run_xmod. cbn [zb Z.eqb negb].
  pose proof (run_ops_routed rows ([], 0%nat) (mkh [] []) (Forall_nil _)) as Hr.
  destruct (run_ops ([], 0%nat) (mkh [] []) rows) as [[s hs] out] eqn:E1.
  assert (Hl : length out = length rows).
  { clear -E1. revert s hs out E1. generalize (([], 0%nat) : pst) as s0. generalize (mkh [] []) as h0.
    induction rows as [|o r IH]; intros h0 s0 s hs out E; cbn [run_ops] in E.
    - inversion E. reflexivity.
    - destruct (pstep s0 o) as [[s1 row] c]. destruct (run_ops s1 (hstep h0 (module_of o) c) r) as [[s2 h2] rows'] eqn:E'.
      inversion E; subst. cbn [length]. f_equal. eapply IH. exact E'. }
  cbn [fst snd] in Hr. pose proof (cleanup_routed s hs Hr) as Hc.
  unfold cleanup in *. cbn [fst snd] in *.
  rewrite <- Hl, skipn_app, Nat.sub_diag, skipn_all. cbn [skipn app].
  rewrite !all_dead_instances, !all_dead_tokens, !(routed_misrouted _ _ Hc). reflexivity.
Qed.
