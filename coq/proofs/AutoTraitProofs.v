(* Lifting of the boolean matrix check of model/AutoTrait.v to a quantified statement — for an
   arbitrary environment, rule list and known-cell list (so that no tactic ever has to look
   inside the concrete, generated lists). *)
Require Import Verif.common.Prelude Verif.model.AutoTrait.
From Coq Require Import String.

Lemma list_eqb_pair_eq a : forall b, list_eqb pair_eqb a b = true -> a = b.
Proof.
  induction a as [|x a IH]; destruct b as [|y b]; cbn; try discriminate; auto.
  intros H. apply andb_true_iff in H. destruct H as (H1 & H2). f_equal; [|now apply IH].
  unfold pair_eqb in H1. apply andb_true_iff in H1. destruct H1 as (Ha & Hb).
  apply Bool.eqb_prop in Ha. apply Bool.eqb_prop in Hb. destruct x, y; cbn in *; congruence.
Qed.

Lemma marker_eqb_eq a b : marker_eqb a b = true -> a = b.
Proof. destruct a, b; cbn; congruence. Qed.

Lemma sound_but_lift env rules known : all_sound_but env rules known = true ->
  forall r c, In r rules -> In c (cells_of r) -> cell_adds env r c = true ->
  exists k, In k known /\ c_rule k = r_name r /\ c_rho k = c_rho c /\ c_rho_o k = c_rho_o c /\ c_marker k = c_marker c.
Proof.
  intros M r c Hr Hc A. unfold all_sound_but in M.
  rewrite forallb_forall in M. specialize (M r Hr). cbv zeta in M. rewrite forallb_forall in M. specialize (M c Hc).
  rewrite A in M. cbn [implb] in M. apply existsb_exists in M. destruct M as (k & Hk & E).
  apply filter_In in Hk. destruct Hk as (Hk & N). apply String.eqb_eq in N.
  unfold cell_eqb_same_rule in E. apply andb_true_iff in E. destruct E as (E & E3). apply andb_true_iff in E. destruct E as (E1 & E2).
  exists k. split; [exact Hk|]. split; [exact N|].
  split; [symmetry; now apply list_eqb_pair_eq|]. split; [symmetry; now apply list_eqb_pair_eq|].
  symmetry. now apply marker_eqb_eq.
Qed.

Definition compositional (r : rule) : bool := negb (match r_opaquable r with [] => true | _ => false end).
Definition comp_sound (env : list adt) (rules : list rule) : bool :=
  forallb (fun r => implb (compositional r) (forallb (fun c => negb (cell_adds env r c)) (cells_of r))) rules.

Lemma comp_sound_lift env rules : comp_sound env rules = true ->
  forall r c, In r rules -> compositional r = true -> In c (cells_of r) -> cell_adds env r c = false.
Proof.
  intros H r c Hr Hc Hin. unfold comp_sound in H. rewrite forallb_forall in H. specialize (H r Hr). rewrite Hc in H. cbn [implb] in H.
  rewrite forallb_forall in H. specialize (H c Hin). now apply negb_true_iff in H.
Qed.
