Require Import Verif.common.Prelude Verif.model.IntResult Verif.model.Callback.
Open Scope Z_scope.

(* the decision a sink makes on its n-th call only depends on n *)
Definition goes (k : sink_kind) (n : nat) : bool :=   (* n = number of items received including this one *)
  match k with SClosure 0 => true | SClosure s => negb (Nat.eqb n s) | _ => true end.

Lemma call_spec s v : call s v = (mksink (kind s) (got s ++ [v]), goes (kind s) (length (got s) + 1)).
Proof.
  unfold call, goes. destruct (kind s) as [[|k]| |]; cbn [got]; rewrite ?app_length; cbn; auto.
Qed.

(* what a sink that has already received [n0] items accepts from [items] *)
Fixpoint offered (k : sink_kind) (n0 : nat) (items : list Z) : list Z :=
  match items with
  | [] => []
  | v :: r => if goes k (n0 + 1) then v :: offered k (n0 + 1) r else [v]
  end.

Lemma feed_loop_spec items : forall s cnt,
  feed_loop items s cnt =
    (mksink (kind s) (got s ++ offered (kind s) (length (got s)) items),
     (cnt + length (offered (kind s) (length (got s)) items))%nat,
     skipn (length (offered (kind s) (length (got s)) items)) items).
Proof.
  induction items as [|v r IH]; intros s cnt; cbn [feed_loop offered].
  - rewrite app_nil_r, Nat.add_0_r. destruct s; reflexivity.
  - rewrite call_spec. destruct (goes (kind s) (length (got s) + 1)) eqn:G.
    + rewrite IH. cbn [kind got]. rewrite app_length. cbn [length]. rewrite <- app_assoc. cbn [app length skipn].
      f_equal. f_equal. lia.
    + cbn [length skipn]. f_equal. f_equal. lia.
Qed.

Lemma extend_loop_spec items : forall s,
  extend_loop items s =
    (mksink (kind s) (got s ++ offered (kind s) (length (got s)) items),
     skipn (length (offered (kind s) (length (got s)) items)) items).
Proof.
  induction items as [|v r IH]; intros s; cbn [extend_loop offered].
  - rewrite app_nil_r. destruct s; reflexivity.
  - rewrite call_spec. destruct (goes (kind s) (length (got s) + 1)) eqn:G.
    + rewrite IH. cbn [kind got]. rewrite app_length. cbn [length]. rewrite <- app_assoc. reflexivity.
    + reflexivity.
Qed.

(* offered = items up to and including the first one on which the sink says stop *)
Lemma offered_prefix k n items : offered k n items = firstn (length (offered k n items)) items.
Proof.
  revert n; induction items as [|v r IH]; intros n; cbn [offered]; [reflexivity|].
  destruct (goes k (n + 1)); cbn [length firstn]; f_equal; apply IH.
Qed.

Lemma offered_never_stops k n items : (forall m, goes k m = true) -> offered k n items = items.
Proof.
  intros H. revert n; induction items as [|v r IH]; intros n; cbn [offered]; [reflexivity|].
  rewrite H. f_equal. apply IH.
Qed.

Lemma offered_stop_at s items : (0 < s)%nat ->
  offered (SClosure s) 0 items = firstn s items.
Proof.
  intros Hs.
  assert (G : forall n items, (n < s)%nat -> offered (SClosure s) n items = firstn (s - n) items).
  { intros n its. revert n. induction its as [|v r IH]; intros n Hn; cbn [offered].
    - now rewrite firstn_nil.
    - unfold goes. destruct s as [|s']; [lia|]. destruct (Nat.eqb_spec (n + 1) (S s')) as [E|E]; cbn [negb].
      + replace (S s' - n)%nat with 1%nat by lia. reflexivity.
      + destruct (S s' - n)%nat as [|d] eqn:D; [lia|]. cbn [firstn]. f_equal.
        rewrite IH by lia. f_equal. lia. }
  rewrite G by lia. f_equal. lia.
Qed.

(* CIterator::next is the source's next: never reads an unwritten slot, never invents or drops an item *)
Lemma citer_next_spec s : citer_next s = Ok (src_next s).
Proof.
  unfold citer_next, tramp. destruct (src_next s) as [[e|] r]; reflexivity.
Qed.

Fixpoint direct_ops (ops : list Z) (s : source) : list Z :=
  match ops with
  | [] => []
  | _ :: os => match src_next s with
               | (Some v, r) => 1 :: v :: direct_ops os r
               | (None, r) => 0 :: 0 :: direct_ops os r
               end
  end.

Lemma interleaved_is_direct ops : forall s, run_iter_ops ops s = direct_ops ops s.
Proof.
  induction ops as [|o os IH]; intros s; cbn [run_iter_ops direct_ops]; [reflexivity|].
  destruct (o =? 0).
  - rewrite citer_next_spec. destruct (src_next s) as [[v|] r]; now rewrite IH.
  - destruct (src_next s) as [[v|] r]; now rewrite IH.
Qed.
