(* Proofs about the model of cglue-bindgen's wrapper generator (model/Bindgen.v). *)
Require Import Verif.common.Prelude Verif.model.Bindgen.
From Coq Require Import String Ascii.
Open Scope string_scope.
Open Scope nat_scope.

(* ------------------------------------------------------------------------------------------------ ArgsParser *)
Definition plain (c : ascii) : bool :=
  negb (aeq c (ch "<") || aeq c (ch "(") || aeq c (ch "[") || aeq c (ch ">") || aeq c (ch ")") || aeq c (ch "]") || aeq c (ch ",")).

Lemma scan_plain_comma : forall p rest acc,
  forallb plain p = true ->
  scan (p ++ ch "," :: rest)%list 0 0 0 false acc = ((rev acc ++ p)%list, Some rest, false).
Proof.
  induction p as [|c p IH]; intros rest acc Hp.
  - cbn. rewrite app_nil_r. reflexivity.
  - cbn [forallb] in Hp. apply andb_true_iff in Hp. destruct Hp as [Hc Hp].
    unfold plain in Hc. rewrite negb_true_iff in Hc.
    repeat (apply orb_false_iff in Hc; destruct Hc as [Hc ?]).
    cbn [app scan].
    repeat match goal with H : aeq c _ = false |- _ => rewrite H; clear H end.
    cbn [andb]. rewrite IH by assumption. cbn [rev]. rewrite <- app_assoc. reflexivity.
Qed.

Lemma scan_plain_end : forall p acc,
  forallb plain p = true ->
  scan p 0 0 0 false acc = ((rev acc ++ p)%list, None, false).
Proof.
  induction p as [|c p IH]; intros acc Hp.
  - cbn. rewrite app_nil_r. reflexivity.
  - cbn [forallb] in Hp. apply andb_true_iff in Hp. destruct Hp as [Hc Hp].
    unfold plain in Hc. rewrite negb_true_iff in Hc.
    repeat (apply orb_false_iff in Hc; destruct Hc as [Hc ?]).
    cbn [scan].
    repeat match goal with H : aeq c _ = false |- _ => rewrite H; clear H end.
    cbn [andb]. rewrite IH by assumption. cbn [rev]. rewrite <- app_assoc. reflexivity.
Qed.

Lemma ltrim_nonws : forall l, is_ws (hd (ch "a") l) = false -> ltrim l = l.
Proof. destruct l as [|c l]; cbn; intros H; [reflexivity|]. rewrite H. reflexivity. Qed.

Definition name_char (c : ascii) : bool := negb (is_namesep c) && negb (is_ws c) && plain c.

Definition good_name (n : list ascii) : Prop := n <> [] /\ forallb name_char n = true.
Definition good_ty (t : list ascii) : Prop :=
  t <> [] /\ forallb plain t = true /\ is_ws (hd (ch "a") t) = false /\ is_ws (last t (ch "a")) = false.

Lemma take_name_rev_spec : forall n s r,
  forallb name_char n = true -> is_namesep s = true ->
  take_name_rev (rev n ++ s :: r)%list = rev n.
Proof.
  intros n s r Hn Hs.
  assert (Hr : forallb name_char (rev n) = true).
  { apply forallb_forall. intros x Hx. apply in_rev in Hx. rewrite forallb_forall in Hn. auto. }
  clear Hn. induction (rev n) as [|c m IH]; cbn [app take_name_rev].
  - rewrite Hs. reflexivity.
  - cbn [forallb] in Hr. apply andb_true_iff in Hr. destruct Hr as [Hc Hm].
    unfold name_char in Hc. apply andb_true_iff in Hc. destruct Hc as [Hc _]. apply andb_true_iff in Hc. destruct Hc as [Hc _].
    rewrite negb_true_iff in Hc. rewrite Hc. rewrite IH by assumption. reflexivity.
Qed.

Lemma hd_rev_last : forall (l : list ascii) d, l <> [] -> hd d (rev l) = last l d.
Proof.
  intros l d Hl. destruct (exists_last Hl) as [m [x ->]]. rewrite rev_unit, last_last. reflexivity.
Qed.

Lemma trim_good : forall t, good_ty t -> trim t = t.
Proof.
  intros t [Hne [_ [Hh Hl]]]. unfold trim. rewrite (ltrim_nonws t Hh).
  rewrite ltrim_nonws; [apply rev_involutive|]. rewrite hd_rev_last by assumption. exact Hl.
Qed.

Lemma name_nonws : forall n c, forallb name_char n = true -> In c n -> is_ws c = false.
Proof.
  intros n c Hn Hc. rewrite forallb_forall in Hn. specialize (Hn c Hc). unfold name_char in Hn.
  apply andb_true_iff in Hn. destruct Hn as [Hn _]. apply andb_true_iff in Hn. destruct Hn as [_ Hn].
  apply negb_true_iff in Hn. exact Hn.
Qed.

Lemma trim_name : forall n, good_name n -> trim n = n.
Proof.
  intros n [Hne Hn]. unfold trim.
  rewrite (ltrim_nonws n).
  - rewrite ltrim_nonws; [apply rev_involutive|]. rewrite hd_rev_last by assumption.
    apply (name_nonws n); [assumption|]. destruct (exists_last Hne) as [m [x ->]]. rewrite last_last. apply in_or_app. right. left. reflexivity.
  - destruct n as [|c n]; [contradiction|]. cbn. apply (name_nonws (c :: n)); [assumption|left; reflexivity].
Qed.

(* leading blank, type, a single blank, name:  ` uint32_t x` *)
Lemma trim_lead_trail : forall t, good_ty t -> trim (ch " " :: t ++ [ch " "])%list = t.
Proof.
  intros t Ht. pose proof Ht as [Hne [_ [Hh Hl]]]. unfold trim.
  cbn [ltrim]. replace (is_ws (ch " ")) with true by reflexivity.
  rewrite (ltrim_nonws (t ++ [ch " "])%list).
  - rewrite rev_unit. cbn [ltrim]. replace (is_ws (ch " ")) with true by reflexivity.
    rewrite ltrim_nonws; [apply rev_involutive|]. rewrite hd_rev_last by assumption. exact Hl.
  - destruct t as [|c t]; [contradiction|]. exact Hh.
Qed.

Lemma trim_lead : forall t, good_ty t -> trim (ch " " :: t)%list = t.
Proof.
  intros t Ht. pose proof Ht as [Hne [_ [Hh Hl]]]. unfold trim.
  cbn [ltrim]. replace (is_ws (ch " ")) with true by reflexivity.
  rewrite (ltrim_nonws t Hh). rewrite ltrim_nonws; [apply rev_involutive|]. rewrite hd_rev_last by assumption. exact Hl.
Qed.

Lemma split_piece_spaced : forall t n, good_ty t -> good_name n ->
  split_piece (ch " " :: t ++ ch " " :: n)%list = (t, n).
Proof.
  intros t n Ht Hn. unfold split_piece.
  replace (rev (ch " " :: t ++ ch " " :: n))%list with (rev n ++ ch " " :: rev t ++ [ch " "])%list
    by (cbn [rev]; rewrite rev_app_distr; cbn [rev]; rewrite <- !app_assoc; reflexivity).
  rewrite take_name_rev_spec by (destruct Hn; auto).
  rewrite rev_length, rev_involutive.
  replace (List.length (ch " " :: t ++ ch " " :: n)%list - List.length n) with (List.length (ch " " :: t ++ [ch " "])%list)
    by (cbn [List.length]; rewrite !app_length; cbn [List.length]; lia).
  replace (ch " " :: t ++ ch " " :: n)%list with ((ch " " :: t ++ [ch " "]) ++ n)%list by (cbn; rewrite <- app_assoc; reflexivity).
  rewrite firstn_app, Nat.sub_diag, firstn_all. cbn [firstn]. rewrite app_nil_r.
  rewrite trim_lead_trail by assumption. rewrite trim_name by assumption. reflexivity.
Qed.

(* pointer style:  ` const struct Pair *q` — the type ends with `*` or `&` and the name follows directly *)
Lemma split_piece_ptr : forall t n, good_ty t -> good_name n -> is_namesep (last t (ch "a")) = true ->
  split_piece (ch " " :: t ++ n)%list = (t, n).
Proof.
  intros t n Ht Hn Hp. unfold split_piece.
  pose proof Ht as [Hne _]. destruct (exists_last Hne) as [m [x Hm]].
  rewrite Hm in Hp. rewrite last_last in Hp.
  replace (rev (ch " " :: t ++ n))%list with (rev n ++ x :: rev m ++ [ch " "])%list
    by (rewrite Hm; cbn [rev]; rewrite rev_app_distr, rev_unit; cbn [app]; rewrite <- app_assoc; reflexivity).
  rewrite take_name_rev_spec by (destruct Hn; auto).
  rewrite rev_length, rev_involutive.
  replace (List.length (ch " " :: t ++ n)%list - List.length n) with (List.length (ch " " :: t)%list)
    by (cbn [List.length]; rewrite !app_length; lia).
  replace (ch " " :: t ++ n)%list with ((ch " " :: t) ++ n)%list by reflexivity.
  rewrite firstn_app, Nat.sub_diag, firstn_all. cbn [firstn]. rewrite app_nil_r.
  rewrite trim_lead by assumption. rewrite trim_name by assumption. reflexivity.
Qed.

(* an argument as cbindgen prints it after the container parameter *)
Record carg := mkcarg { ca_ty : list ascii; ca_name : list ascii; ca_spaced : bool }.
Definition wf_carg (a : carg) : Prop :=
  good_ty (ca_ty a) /\ good_name (ca_name a) /\ (ca_spaced a = false -> is_namesep (last (ca_ty a) (ch "a")) = true).
Definition piece (a : carg) : list ascii :=
  if ca_spaced a then (ch " " :: ca_ty a ++ ch " " :: ca_name a)%list else (ch " " :: ca_ty a ++ ca_name a)%list.
Fixpoint render_args (l : list carg) : list ascii :=
  match l with
  | [] => []
  | a :: r => match r with [] => piece a | _ => (piece a ++ ch "," :: render_args r)%list end
  end.

Lemma piece_plain : forall a, wf_carg a -> forallb plain (piece a) = true.
Proof.
  intros a [[_ [Ht _]] [[_ Hn] _]].
  assert (Hn' : forallb plain (ca_name a) = true).
  { apply forallb_forall. intros c Hc. rewrite forallb_forall in Hn. specialize (Hn c Hc). unfold name_char in Hn.
    apply andb_true_iff in Hn. tauto. }
  unfold piece. destruct (ca_spaced a); cbn [forallb]; rewrite forallb_app; cbn [forallb]; rewrite Ht, Hn'; reflexivity.
Qed.

Lemma split_piece_ok : forall a, wf_carg a -> split_piece (piece a) = (ca_ty a, ca_name a).
Proof.
  intros a [Ht [Hn Hp]]. unfold piece. destruct (ca_spaced a) eqn:Hs.
  - apply split_piece_spaced; assumption.
  - apply split_piece_ptr; auto.
Qed.

Lemma piece_nonempty : forall a, exists c r, piece a = c :: r.
Proof. intros a. unfold piece. destruct (ca_spaced a); eauto. Qed.

Lemma split_args_fuel_step : forall fuel l, l <> [] ->
  split_args_fuel (S fuel) l =
  let '(p, rest, ill) := scan l 0 0 0 false [] in
  if ill then [] else split_piece p :: match rest with Some r => split_args_fuel fuel r | None => [] end.
Proof. intros fuel l Hl. destruct l; [contradiction|reflexivity]. Qed.

Lemma split_args_fuel_spec : forall l fuel,
  Forall wf_carg l -> List.length l <= fuel ->
  split_args_fuel fuel (render_args l) = map (fun a => (ca_ty a, ca_name a)) l.
Proof.
  induction l as [|a r IH]; intros fuel Hwf Hf.
  - destruct fuel; reflexivity.
  - destruct fuel as [|fuel]; [cbn in Hf; lia|].
    inversion Hwf as [|? ? Ha Hr]; subst.
    cbn [render_args map]. destruct r as [|b r'].
    + rewrite split_args_fuel_step by (destruct (piece_nonempty a) as [c [q Hq]]; rewrite Hq; discriminate).
      rewrite scan_plain_end by (apply piece_plain; assumption). cbn [rev app].
      rewrite split_piece_ok by assumption. reflexivity.
    + rewrite split_args_fuel_step by (destruct (piece_nonempty a) as [c [q Hq]]; rewrite Hq; discriminate).
      rewrite scan_plain_comma by (apply piece_plain; assumption). cbn [rev app].
      rewrite split_piece_ok by assumption.
      rewrite IH; [reflexivity|assumption|cbn [List.length] in *; lia].
Qed.

Lemma render_args_length : forall l, List.length l <= List.length (render_args l).
Proof.
  induction l as [|a r IH]; [cbn; lia|].
  cbn [render_args]. destruct (piece_nonempty a) as [c [q Hq]]. destruct r as [|b r'].
  - rewrite Hq. cbn. lia.
  - rewrite app_length. rewrite Hq. cbn [List.length] in *. lia.
Qed.

(* ArgsParser returns exactly the (type, name) pairs of a well-formed argument list, in order *)
Theorem split_args_spec : forall l,
  Forall wf_carg l -> split_args (render_args l) = map (fun a => (ca_ty a, ca_name a)) l.
Proof.
  intros l Hwf. unfold split_args. apply split_args_fuel_spec; [assumption|].
  pose proof (render_args_length l). lia.
Qed.

(* once a closing bracket went negative the flag stays set ... *)
Lemma scan_ill_sticky : forall l b0 b1 b2 a, exists x y, scan l b0 b1 b2 true a = (x, y, true).
Proof.
  induction l as [|d l IHl]; intros b0 b1 b2 a; cbn [scan]; [eauto|].
  destruct (aeq d (ch "<")); [apply IHl|].
  destruct (aeq d (ch "(")); [apply IHl|].
  destruct (aeq d (ch "[")); [apply IHl|].
  destruct (aeq d (ch ">")); [cbn [orb]; apply IHl|].
  destruct (aeq d (ch ")")); [cbn [orb]; apply IHl|].
  destruct (aeq d (ch "]")); [cbn [orb]; apply IHl|].
  cbn [negb]. rewrite andb_false_r. cbn [andb]. apply IHl.
Qed.

(* ... so an unbalanced closing bracket ends the enumeration: nothing is reordered, the remaining text is dropped *)
Lemma split_args_ill_prefix : forall p rest,
  forallb plain p = true ->
  split_args (p ++ ch ")" :: rest)%list = [].
Proof.
  intros p rest Hp. unfold split_args.
  rewrite split_args_fuel_step by (destruct p; discriminate).
  assert (H : forall acc, exists x y, scan (p ++ ch ")" :: rest)%list 0 0 0 false acc = (x, y, true)).
  { clear -Hp. induction p as [|c p IH]; intros acc.
    - cbn [app scan]. replace (aeq (ch ")") (ch "<")) with false by reflexivity.
      replace (aeq (ch ")") (ch "(")) with false by reflexivity. replace (aeq (ch ")") (ch "[")) with false by reflexivity.
      replace (aeq (ch ")") (ch ">")) with false by reflexivity. replace (aeq (ch ")") (ch ")")) with true by reflexivity.
      cbn [orb]. replace (0 - 1 <? 0)%Z with true by reflexivity. apply scan_ill_sticky.
    - cbn [forallb] in Hp. apply andb_true_iff in Hp. destruct Hp as [Hc Hp].
      unfold plain in Hc. rewrite negb_true_iff in Hc.
      repeat (apply orb_false_iff in Hc; destruct Hc as [Hc ?]).
      cbn [app scan].
      repeat match goal with H : aeq c _ = false |- _ => rewrite H; clear H end.
      cbn [andb]. apply IH. assumption. }
  destruct (H []) as [x [y Hxy]]. rewrite Hxy. reflexivity.
Qed.

(* ------------------------------------------------------------------------------------------------ one wrapper *)
Definition call_ev (vtbl : string) (f : func) : ev := EvCall vtbl (f_name f) (negb (f_moves f)) (map snd (f_args f)).

Lemma trace_c : forall rel f container vtbl p cast this vtbls cty cpre cdrop xty xpre xdrop,
  trace (mk_wrapper rel f container vtbl p false cast this vtbls cty cpre cdrop xty xpre xdrop) =
  if f_calls f then (if f_moves f && xdrop then [EvClone; call_ev vtbl f; EvDropClone] else [call_ev vtbl f])
  else if f_moves f then ((if cdrop then [EvDropInst] else []) ++ (if xdrop then [EvDropCtx] else []))%list
  else [].
Proof.
  intros. unfold mk_wrapper, trace, call_ev. cbn [w_body].
  destruct (f_calls f), (f_moves f), xdrop, cdrop, (String.eqb (trim_s (f_ret f)) "void"); reflexivity.
Qed.

Lemma trace_cpp : forall rel f container vtbl p cast this vtbls cty cpre cdrop xty xpre xdrop,
  trace (mk_wrapper rel f container vtbl p true cast this vtbls cty cpre cdrop xty xpre xdrop) =
  let tail := if rel then [EvForget; EvDropClone] else [EvForget] in
  if f_calls f then (if f_moves f then (EvClone :: call_ev vtbl f :: tail) else [call_ev vtbl f])
  else if f_moves f then tail else [].
Proof.
  intros. unfold mk_wrapper, trace, call_ev. cbn [w_body].
  destruct rel, (f_calls f), (f_moves f), (String.eqb (trim_s (f_ret f)) "void"); reflexivity.
Qed.

Lemma returns_wrapper : forall rel f container vtbl p cpp cast this vtbls cty cpre cdrop xty xpre xdrop,
  f_calls f = true ->
  returns (mk_wrapper rel f container vtbl p cpp cast this vtbls cty cpre cdrop xty xpre xdrop) =
  if String.eqb (trim_s (f_ret f)) "void" then RetVoid
  else if String.eqb (trim_s (f_ret f)) cty then RetWrapped vtbls else RetCall.
Proof.
  intros until xdrop. intros Hc. unfold mk_wrapper, returns, dest_of. cbn [w_body]. rewrite Hc.
  destruct rel, cpp, (f_moves f), xdrop, (String.eqb (trim_s (f_ret f)) "void"), (String.eqb (trim_s (f_ret f)) cty); reflexivity.
Qed.

Lemma params_wrapper : forall rel f container vtbl p cpp cast this vtbls cty cpre cdrop xty xpre xdrop,
  w_params (mk_wrapper rel f container vtbl p cpp cast this vtbls cty cpre cdrop xty xpre xdrop) = f_args f.
Proof. reflexivity. Qed.

Lemma ret_ty_wrapper : forall rel f container vtbl p cpp cast this vtbls cty cpre cdrop xty xpre xdrop,
  w_ret (mk_wrapper rel f container vtbl p cpp cast this vtbls cty cpre cdrop xty xpre xdrop) =
  if String.eqb (trim_s (f_ret f)) cty then this else trim_s (f_ret f).
Proof. reflexivity. Qed.

(* ------------------------------------------------------------------------------------------------ header level, C mode *)
Lemma key_eqb_eq : forall a b, key_eqb a b = true <-> a = b.
Proof.
  intros [a1 a2] [b1 b2]. unfold key_eqb. cbn [fst snd]. rewrite andb_true_iff, !String.eqb_eq.
  split; [intros [-> ->]; reflexivity|intros H; inversion H; auto].
Qed.

Definition item : Type := (nat * nat * entry * func)%type.

Fixpoint items_from (ei : nat) (e : entry) (fs : list func) (fi : nat) : list item :=
  match fs with [] => [] | f :: r => (ei, fi, e, f) :: items_from ei e r (S fi) end.

Definition all_items (es : list entry) : list item :=
  flat_map (fun p : nat * entry => items_from (fst p) (snd p) (funcs_of (snd p)) 0) (ordered es).

Section Flat.
Variable clash : bool.
Variable cfg : config.
Variable alles : list entry.
Variable vtbls : entry -> list string.

Definition ikey (x : item) : string * string :=
  let '(_, _, e, f) := x in (fst (c_prefix_of clash cfg alles e f), f_name f).
Definition iwrap (x : item) : wrapper := let '(_, _, e, f) := x in wrapper_of clash cfg alles vtbls e f.
Definition iemit (x : item) : emitted := let '(ei, fi, e, f) := x in (ei, fi, wrapper_of clash cfg alles vtbls e f).

Fixpoint gen_flat (xs : list item) (seen : list (string * string)) : list emitted * list (string * string) :=
  match xs with
  | [] => ([], seen)
  | x :: r =>
      if existsb (key_eqb (ikey x)) seen then gen_flat r seen
      else let '(o, s') := gen_flat r (ikey x :: seen) in (iemit x :: o, s')
  end.

Lemma gen_funcs_flat : forall ei e fs fi seen,
  gen_funcs clash cfg alles vtbls ei e fs fi seen = gen_flat (items_from ei e fs fi) seen.
Proof.
  induction fs as [|f r IH]; intros fi seen; [reflexivity|].
  cbn [gen_funcs items_from gen_flat ikey iemit].
  destruct (c_prefix_of clash cfg alles e f) as [p c] eqn:Hp. cbn [fst].
  destruct (existsb (key_eqb (p, f_name f)) seen); [apply IH|].
  rewrite IH. reflexivity.
Qed.

Lemma gen_flat_app : forall a b seen,
  gen_flat (a ++ b)%list seen =
  let '(o1, s1) := gen_flat a seen in let '(o2, s2) := gen_flat b s1 in ((o1 ++ o2)%list, s2).
Proof.
  induction a as [|x a IH]; intros b seen; cbn [app gen_flat].
  - destruct (gen_flat b seen); reflexivity.
  - destruct (existsb (key_eqb (ikey x)) seen); [apply IH|].
    rewrite IH. destruct (gen_flat a (ikey x :: seen)) as [o1 s1]. destruct (gen_flat b s1) as [o2 s2]. reflexivity.
Qed.

Lemma gen_entries_flat : forall es seen,
  gen_entries clash cfg alles vtbls es seen =
  fst (gen_flat (flat_map (fun p : nat * entry => items_from (fst p) (snd p) (funcs_of (snd p)) 0) es) seen).
Proof.
  induction es as [|[ei e] r IH]; intros seen; [reflexivity|].
  cbn [gen_entries flat_map fst snd]. rewrite gen_funcs_flat, gen_flat_app.
  destruct (gen_flat (items_from ei e (funcs_of e) 0) seen) as [o1 s1].
  rewrite IH. destruct (gen_flat _ s1) as [o2 s2]. reflexivity.
Qed.

Fixpoint first_with (k : string * string) (xs : list item) : option item :=
  match xs with [] => None | x :: r => if key_eqb (ikey x) k then Some x else first_with k r end.

Lemma first_with_key : forall k xs y, first_with k xs = Some y -> ikey y = k /\ In y xs.
Proof.
  induction xs as [|x r IH]; intros y H; [discriminate|]. cbn [first_with] in H.
  destruct (key_eqb (ikey x) k) eqn:E.
  - inversion H; subst. apply key_eqb_eq in E. split; [assumption|left; reflexivity].
  - destruct (IH y H). split; [assumption|right; assumption].
Qed.

(* every item is served: the wrapper generated for the FIRST item with the same (prefix, name) key is in the output *)
Lemma gen_flat_serves : forall xs seen x,
  In x xs -> existsb (key_eqb (ikey x)) seen = false ->
  exists y, first_with (ikey x) xs = Some y /\ In (iemit y) (fst (gen_flat xs seen)).
Proof.
  induction xs as [|x0 r IH]; intros seen x Hin Hseen; [contradiction|].
  cbn [first_with gen_flat].
  destruct (key_eqb (ikey x0) (ikey x)) eqn:E.
  - apply key_eqb_eq in E. rewrite E, Hseen.
    destruct (gen_flat r (ikey x :: seen)) as [o s']. exists x0. split; [reflexivity|left; reflexivity].
  - assert (Hx : In x r).
    { destruct Hin as [->|]; [|assumption]. assert (key_eqb (ikey x) (ikey x) = true) by (apply key_eqb_eq; reflexivity). congruence. }
    destruct (existsb (key_eqb (ikey x0)) seen) eqn:E0.
    + apply IH; assumption.
    + destruct (IH (ikey x0 :: seen) x Hx) as [y [Hy Hi]].
      { cbn [existsb]. rewrite Hseen, orb_false_r.
        destruct (key_eqb (ikey x) (ikey x0)) eqn:E1; [|reflexivity].
        apply key_eqb_eq in E1. assert (key_eqb (ikey x0) (ikey x) = true) by (apply key_eqb_eq; auto). congruence. }
      exists y. split; [assumption|]. destruct (gen_flat r (ikey x0 :: seen)) as [o s']. right. exact Hi.
Qed.

(* no two emitted wrappers share a key *)
Lemma gen_flat_keys : forall xs seen o,
  In o (fst (gen_flat xs seen)) -> exists x, In x xs /\ o = iemit x /\ existsb (key_eqb (ikey x)) seen = false.
Proof.
  induction xs as [|x0 r IH]; intros seen o H; [contradiction|]. cbn [gen_flat] in H.
  destruct (existsb (key_eqb (ikey x0)) seen) eqn:E0.
  - destruct (IH _ _ H) as [x [? [? ?]]]. exists x. auto with datatypes.
  - destruct (gen_flat r (ikey x0 :: seen)) as [o' s'] eqn:G. cbn [fst] in H. destruct H as [<-|H].
    + exists x0. auto with datatypes.
    + assert (H' : In o (fst (gen_flat r (ikey x0 :: seen)))) by (rewrite G; exact H).
      destruct (IH _ _ H') as [x [Hx [Ho Hs]]]. exists x. repeat split; auto with datatypes.
      cbn [existsb] in Hs. apply orb_false_iff in Hs. tauto.
Qed.
End Flat.

Lemma gen_c_flat : forall vt clash cfg es,
  gen_c vt clash cfg es = fst (gen_flat clash cfg es (vtbls_passed vt es) (all_items es) []).
Proof. intros. unfold gen_c, all_items. apply gen_entries_flat. Qed.

Theorem gen_c_serves : forall vt clash cfg es x,
  In x (all_items es) ->
  exists y, first_with clash cfg es (ikey clash cfg es x) (all_items es) = Some y /\
            In (iemit clash cfg es (vtbls_passed vt es) y) (gen_c vt clash cfg es).
Proof. intros. rewrite gen_c_flat. apply gen_flat_serves; [assumption|reflexivity]. Qed.

(* every vtable entry (and the drop helper) of every discovered vtable is an item *)
Lemma items_from_nth : forall ei e fs fi k f, nth_error fs k = Some f -> In (ei, fi + k, e, f) (items_from ei e fs fi).
Proof.
  induction fs as [|g r IH]; intros fi k f H; [destruct k; discriminate|].
  destruct k as [|k]; cbn [nth_error] in H.
  - inversion H; subst. rewrite Nat.add_0_r. left. reflexivity.
  - right. replace (fi + S k) with (S fi + k) by lia. apply IH. assumption.
Qed.

Lemma combine_seq_nth : forall {A} (es : list A) s ei e, nth_error es ei = Some e -> In (s + ei, e) (combine (seq s (List.length es)) es).
Proof.
  intros A. induction es as [|x r IH]; intros s ei e H; [destruct ei; discriminate|].
  destruct ei as [|ei]; cbn [nth_error] in H; cbn [List.length seq combine].
  - inversion H; subst. rewrite Nat.add_0_r. left. reflexivity.
  - right. replace (s + S ei) with (S s + ei) by lia. apply IH. assumption.
Qed.

Theorem all_items_complete : forall es ei e fi f,
  nth_error es ei = Some e -> nth_error (funcs_of e) fi = Some f -> In (ei, fi, e, f) (all_items es).
Proof.
  intros es ei e fi f He Hf. unfold all_items. apply in_flat_map. exists (ei, e). split.
  - unfold ordered. apply in_or_app. pose proof (combine_seq_nth es 0 ei e He) as Hin. cbn [Nat.add] in Hin.
    destruct (e_obj e) eqn:Ho; [left|right]; apply filter_In; split; try assumption; cbn [snd]; rewrite Ho; reflexivity.
  - cbn [fst snd]. apply (items_from_nth ei e (funcs_of e) 0 fi f Hf).
Qed.

(* ------------------------------------------------------------------------------------------------ what the property demands *)
Definition expected_trace_c (e : entry) (f : func) : list ev :=
  let cdrop := snd (inner_info (e_inner e)) in
  let xdrop := snd (ctx_info (e_ctx e)) in
  if f_calls f then
    (if f_moves f && xdrop then [EvClone; call_ev (vtbl_field e) f; EvDropClone] else [call_ev (vtbl_field e) f])
  else if f_moves f then ((if cdrop then [EvDropInst] else []) ++ (if xdrop then [EvDropCtx] else []))%list
  else [].

Definition expected_ret (es : list entry) (e : entry) (f : func) : retval :=
  if String.eqb (trim_s (f_ret f)) "void" then RetVoid
  else if String.eqb (trim_s (f_ret f)) (container_ty e) then RetWrapped (fields_of es e) else RetCall.

Definition expected_ret_ty (e : entry) (f : func) : string :=
  if String.eqb (trim_s (f_ret f)) (container_ty e) then this_ty e else trim_s (f_ret f).

Definition self_ok (e : entry) (f : func) (w : wrapper) : Prop :=
  match w_this w with
  | ThisCast c _ => c = f_const f /\ w_selfparam w = Some ((if f_const f then "const " else "") ++ "void *self")
  | ThisVal => w_selfparam w = Some (this_ty e ++ " self")
  | ThisPtr => w_selfparam w = Some ((if f_const f then "const " else "") ++ this_ty e ++ " *self")
  | ThisCpp => False
  end.

(* wrapper [w], called on an object of the type of entry [e], does for function [f] what C17 states *)
Definition correct_c (es : list entry) (e : entry) (f : func) (w : wrapper) : Prop :=
  trace w = expected_trace_c e f /\
  (f_calls f = true -> returns w = expected_ret es e f) /\
  w_params w = f_args f /\
  w_ret w = expected_ret_ty e f /\
  self_ok e f w.

Lemma vtbls_passed_3 : forall es e, vtbls_passed 3 es e = fields_of es e.
Proof. intros. unfold vtbls_passed. destruct (e_obj e); reflexivity. Qed.

Lemma cast_flag : forall clash cfg es e f,
  snd (c_prefix_of clash cfg es e f) = negb (f_moves f || String.eqb (f_ret f) (this_ty e)).
Proof.
  intros. unfold c_prefix_of. destruct (inner_info (e_inner e)) as [a b]. destruct (ctx_info (e_ctx e)) as [c d].
  destruct (f_moves f || String.eqb (f_ret f) (this_ty e)); destruct (c_prefix cfg); reflexivity.
Qed.

(* the wrapper generated FOR an entry is correct for it *)
Theorem own_correct_c : forall clash cfg es e f,
  correct_c es e f (wrapper_of clash cfg es (vtbls_passed 3 es) e f).
Proof.
  intros clash cfg es e f. unfold wrapper_of, correct_c, expected_trace_c, expected_ret, expected_ret_ty.
  pose proof (cast_flag clash cfg es e f) as Hcast.
  destruct (inner_info (e_inner e)) as [cpre cdrop]. destruct (ctx_info (e_ctx e)) as [xpre xdrop].
  destruct (c_prefix_of clash cfg es e f) as [p cast]. cbn [snd] in *. subst cast.
  rewrite trace_c, params_wrapper, ret_ty_wrapper, vtbls_passed_3.
  repeat split.
  - intros Hc. apply returns_wrapper. exact Hc.
  - unfold self_ok, mk_wrapper. cbn [w_this w_selfparam].
    destruct (f_moves f); cbn [orb negb andb].
    + reflexivity.
    + destruct (String.eqb (f_ret f) (this_ty e)); cbn [negb]; destruct (f_const f); try split; reflexivity.
Qed.

(* two wrappers that differ only in the struct type their `void *self` is cast to *)
Definition strip_this (w : wrapper) : wrapper :=
  mkw (w_cpp w) (w_ret w) (w_name w) (match w_this w with ThisCast c _ => ThisCast c "" | t => t end)
      (w_selfparam w) (w_params w) (w_constness w) (w_body w).

Theorem eqv_correct_c : forall es e f w w',
  strip_this w' = strip_this w -> correct_c es e f w -> correct_c es e f w'.
Proof.
  intros es e f w w' H [Ht [Hr [Hp [Hy Hs]]]].
  assert (Hb : w_body w' = w_body w) by (apply (f_equal w_body) in H; exact H).
  assert (Hpar : w_params w' = w_params w) by (apply (f_equal w_params) in H; exact H).
  assert (Hret : w_ret w' = w_ret w) by (apply (f_equal w_ret) in H; exact H).
  assert (Hsp : w_selfparam w' = w_selfparam w) by (apply (f_equal w_selfparam) in H; exact H).
  assert (Hth : match w_this w' with ThisCast c _ => ThisCast c "" | t => t end = match w_this w with ThisCast c _ => ThisCast c "" | t => t end)
    by (apply (f_equal w_this) in H; exact H).
  unfold correct_c, trace, returns, dest_of in *. rewrite Hb, Hpar, Hret. repeat split; try assumption.
  unfold self_ok in *. rewrite Hsp.
  destruct (w_this w') as [| | |c' t'], (w_this w) as [| | |c t]; try discriminate; try assumption.
  inversion Hth; subst. exact Hs.
Qed.

(* every vtable entry of every object and group type is served by a wrapper present in the header; that wrapper is correct for the
   entry whenever it is the entry's own wrapper or differs from it only in the struct type `self` is cast to *)
Theorem c_mode_serves : forall cfg es ei e fi f,
  nth_error es ei = Some e -> nth_error (funcs_of e) fi = Some f ->
  let x := (ei, fi, e, f) in
  exists y, first_with true cfg es (ikey true cfg es x) (all_items es) = Some y /\
            In (iemit true cfg es (vtbls_passed 3 es) y) (gen_c 3 true cfg es) /\
            (strip_this (iwrap true cfg es (vtbls_passed 3 es) y) = strip_this (iwrap true cfg es (vtbls_passed 3 es) x) ->
             correct_c es e f (iwrap true cfg es (vtbls_passed 3 es) y)).
Proof.
  intros cfg es ei e fi f He Hf x.
  destruct (gen_c_serves 3 true cfg es x (all_items_complete es ei e fi f He Hf)) as [y [Hy Hin]].
  exists y. split; [exact Hy|]. split; [exact Hin|].
  intros Heq. apply (eqv_correct_c es e f (iwrap true cfg es (vtbls_passed 3 es) x)); [exact Heq|].
  apply own_correct_c.
Qed.

(* when no other entry maps to the same (prefix, name) the served wrapper is the entry's own *)
Corollary c_mode_unique_key : forall cfg es ei e fi f,
  nth_error es ei = Some e -> nth_error (funcs_of e) fi = Some f ->
  (forall y, In y (all_items es) -> ikey true cfg es y = ikey true cfg es (ei, fi, e, f) -> y = (ei, fi, e, f)) ->
  In (ei, fi, wrapper_of true cfg es (vtbls_passed 3 es) e f) (gen_c 3 true cfg es) /\
  correct_c es e f (wrapper_of true cfg es (vtbls_passed 3 es) e f).
Proof.
  intros cfg es ei e fi f He Hf Hu.
  destruct (c_mode_serves cfg es ei e fi f He Hf) as [y [Hy [Hin _]]].
  destruct (first_with_key true cfg es _ _ _ Hy) as [Hk Hiny].
  rewrite (Hu y Hiny Hk) in Hin. split; [exact Hin|apply own_correct_c].
Qed.

(* the remaining defect of the C generator (known finding F-C17-variant): an entry that returns the container type is served, for the
   second container/context variant of the same trait or group, by the wrapper of the first variant, whose return type is another struct *)
Definition wit_e1 : entry :=
  mkentry true "Delta" "CGlueObjContainer" "S1" "CBox_c_void" "CArc_c_void" "Obj1" [parse_func "dup" "struct CGlueObjContainer_S1 " 1 ""].
Definition wit_e2 : entry :=
  mkentry true "Delta" "CGlueObjContainer" "S2" "CBox_c_void" "NoContext" "Obj2" [parse_func "dup" "struct CGlueObjContainer_S2 " 1 ""].
Definition wit_cfg : config := mkcfg None None None.

Lemma variant_conflict_witness :
  let es := [wit_e1; wit_e2] in
  let f2 := parse_func "dup" "struct CGlueObjContainer_S2 " 1 "" in
  exists y, first_with true wit_cfg es (ikey true wit_cfg es (1, 0, wit_e2, f2)) (all_items es) = Some y /\
            w_ret (iwrap true wit_cfg es (vtbls_passed 3 es) y) = "struct Obj1" /\
            expected_ret_ty wit_e2 f2 = "struct Obj2".
Proof. cbv zeta. eexists. split; [vm_compute; reflexivity|]. split; vm_compute; reflexivity. Qed.

(* ------------------------------------------------------------------------------------------------ C++ mode *)
Definition expected_trace_cpp (rel : bool) (vtbl : string) (f : func) : list ev :=
  if f_moves f then (EvClone :: call_ev vtbl f :: (if rel then [EvForget; EvDropClone] else [EvForget])) else [call_ev vtbl f].

Lemma cpp_wrapper_trace : forall rel f vtbl prefix this vtbls,
  f_calls f = true -> trace (cpp_wrapper rel f vtbl prefix this vtbls) = expected_trace_cpp rel vtbl f.
Proof. intros rel f vtbl prefix this vtbls Hc. unfold cpp_wrapper. rewrite trace_cpp, Hc. reflexivity. Qed.

Lemma cpp_wrapper_returns : forall rel f vtbl prefix this vtbls,
  f_calls f = true ->
  returns (cpp_wrapper rel f vtbl prefix this vtbls) =
  if String.eqb (trim_s (f_ret f)) "void" then RetVoid else if String.eqb (trim_s (f_ret f)) "CGlueC" then RetWrapped vtbls else RetCall.
Proof. intros. unfold cpp_wrapper. apply returns_wrapper. assumption. Qed.

(* every function of every vtable of a group gets a member function that forwards to that vtable's slot *)
Theorem cpp_group_serves : forall rel vs g t v fi f,
  In t (g_traits g) -> find_vtbl vs t = Some v -> nth_error (v_funcs v) fi = Some f -> f_calls f = true ->
  exists w, In (t, fi, w) (gen_cpp_group rel vs g) /\
            trace w = expected_trace_cpp rel ("vtbl_" ++ lower t) f /\ w_params w = f_args f /\
            returns w = (if String.eqb (trim_s (f_ret f)) "void" then RetVoid
                         else if String.eqb (trim_s (f_ret f)) "CGlueC" then RetWrapped (map (fun t => "vtbl_" ++ lower t) (g_traits g)) else RetCall).
Proof.
  intros rel vs g t v fi f Ht Hv Hf Hc. eexists. split; [|split; [|split]].
  - unfold gen_cpp_group. apply in_flat_map. exists t. split; [exact Ht|]. rewrite Hv.
    apply in_map_iff. exists (fi, f). split; [reflexivity|].
    apply (combine_seq_nth (v_funcs v) 0 fi f Hf).
  - cbn [snd]. apply cpp_wrapper_trace. exact Hc.
  - reflexivity.
  - cbn [snd]. apply cpp_wrapper_returns. exact Hc.
Qed.

(* ... and so does every function of a single-trait object's vtable *)
Theorem cpp_obj_serves : forall rel v fi f,
  nth_error (v_funcs v) fi = Some f -> f_calls f = true ->
  exists w, In (v_name v, fi, w) (gen_cpp_obj rel v) /\
            trace w = expected_trace_cpp rel "vtbl" f /\ w_params w = f_args f /\
            returns w = (if String.eqb (trim_s (f_ret f)) "void" then RetVoid
                         else if String.eqb (trim_s (f_ret f)) "CGlueC" then RetWrapped ["vtbl"] else RetCall).
Proof.
  intros rel v fi f Hf Hc. eexists. split; [|split; [|split]].
  - unfold gen_cpp_obj. apply in_map_iff. exists (fi, f). split; [reflexivity|]. apply (combine_seq_nth (v_funcs v) 0 fi f Hf).
  - cbn [snd]. apply cpp_wrapper_trace. exact Hc.
  - reflexivity.
  - cbn [snd]. apply cpp_wrapper_returns. exact Hc.
Qed.

(* the C++ generator as found (release mode false) never released the context clone of a consuming call (F-C17-cpp-leak, repaired) *)
Lemma cpp_clone_never_released_before_fix : forall f vtbl prefix this vtbls,
  ~ In EvDropClone (trace (cpp_wrapper false f vtbl prefix this vtbls)).
Proof.
  intros f vtbl prefix this vtbls. unfold cpp_wrapper. rewrite trace_cpp.
  destruct (f_calls f), (f_moves f); cbn [In]; intros H; repeat (destruct H as [H|H]; [discriminate|]); exact H.
Qed.

(* ------------------------------------------------------------------------------------------------ main.rs: argument split *)
Fixpoint ok_args (l : list string) : Prop :=
  match l with
  | [] => True
  | a :: r => if is_out a then match r with [] => True | v :: r' => is_out v = false /\ ok_args r' end else ok_args r
  end.

Lemma windows_step : forall a0 a1 r out acc,
  windows (a0 :: a1 :: r) out acc =
  if is_out a0 then windows (a1 :: r) (match out with None => Some a1 | Some _ => out end) acc
  else if is_out a1 then windows (a1 :: r) out acc
  else windows (a1 :: r) out (a1 :: acc).
Proof. reflexivity. Qed.

Lemma windows_one : forall a0 out acc, windows [a0] out acc = (out, rev acc).
Proof. reflexivity. Qed.

Lemma windows_spec : forall n rest a0 out acc,
  List.length rest <= n -> is_out a0 = false -> ok_args rest ->
  windows (a0 :: rest) out acc =
  (match out with None => first_out rest | Some _ => out end, (rev acc ++ strip_pairs rest)%list).
Proof.
  induction n as [|n IH]; intros rest a0 out acc Hl Ha Hok.
  - destruct rest; [|cbn in Hl; lia]. rewrite windows_one. cbn [first_out strip_pairs]. rewrite app_nil_r. destruct out; reflexivity.
  - destruct rest as [|a1 r].
    + rewrite windows_one. cbn [first_out strip_pairs]. rewrite app_nil_r. destruct out; reflexivity.
    + rewrite windows_step, Ha. destruct (is_out a1) eqn:H1.
      * (* a1 is -o / --output *)
        destruct r as [|v r'].
        -- rewrite windows_one. cbn [strip_pairs first_out]. rewrite H1. rewrite app_nil_r. destruct out; reflexivity.
        -- cbn [ok_args] in Hok. rewrite H1 in Hok. destruct Hok as [Hv Hok].
           rewrite windows_step, H1.
           rewrite IH; [|cbn [List.length] in *; lia|exact Hv|exact Hok].
           cbn [strip_pairs first_out]. rewrite H1. destruct out; reflexivity.
      * cbn [ok_args] in Hok. rewrite H1 in Hok.
        rewrite IH; [|cbn [List.length] in *; lia|exact H1|exact Hok].
        cbn [strip_pairs first_out rev]. rewrite H1. rewrite <- app_assoc. reflexivity.
Qed.

Lemma take_pre_app : forall pre rest, ~ In "--" pre -> take_pre (pre ++ "--" :: rest)%list = pre.
Proof.
  induction pre as [|a r IH]; intros rest H; [reflexivity|]. cbn [app take_pre].
  destruct (String.eqb a "--") eqn:E; [apply String.eqb_eq in E; subst; exfalso; apply H; left; reflexivity|].
  rewrite IH; [reflexivity|]. intros Hin. apply H. right. exact Hin.
Qed.

Lemma drop_pre_app : forall pre rest, ~ In "--" pre -> drop_pre (pre ++ "--" :: rest)%list = ("--" :: rest)%list.
Proof.
  induction pre as [|a r IH]; intros rest H; [reflexivity|]. cbn [app drop_pre].
  destruct (String.eqb a "--") eqn:E; [apply String.eqb_eq in E; subst; exfalso; apply H; left; reflexivity|].
  apply IH. intros Hin. apply H. right. exact Hin.
Qed.

(* arguments before `--` configure the tool; those after it go to cbindgen except every `-o X` / `--output X` pair; the first X is the output *)
Theorem split_cli_spec : forall pre rest,
  ~ In "--" pre -> ok_args rest ->
  split_cli (pre ++ "--" :: rest)%list =
  (cfg_path pre None, existsb (String.eqb "+nightly") pre, strip_pairs rest, first_out rest).
Proof.
  intros pre rest Hpre Hok. unfold split_cli. rewrite take_pre_app, drop_pre_app by assumption.
  rewrite (windows_spec (List.length rest) rest "--" None []); [reflexivity|lia|reflexivity|exact Hok].
Qed.

(* without `--` nothing is passed on and nothing is hijacked *)
Lemma split_cli_no_dashes : forall argv, ~ In "--" argv -> split_cli argv = (cfg_path argv None, existsb (String.eqb "+nightly") argv, [], None).
Proof.
  intros argv H. unfold split_cli.
  assert (Ht : take_pre argv = argv).
  { induction argv as [|a r IH]; [reflexivity|]. cbn [take_pre].
    destruct (String.eqb a "--") eqn:E; [apply String.eqb_eq in E; subst; exfalso; apply H; left; reflexivity|].
    rewrite IH; [reflexivity|]. intros Hin. apply H. right. exact Hin. }
  assert (Hd : drop_pre argv = []).
  { clear Ht. induction argv as [|a r IH]; [reflexivity|]. cbn [drop_pre].
    destruct (String.eqb a "--") eqn:E; [apply String.eqb_eq in E; subst; exfalso; apply H; left; reflexivity|].
    apply IH. intros Hin. apply H. right. exact Hin. }
  rewrite Ht, Hd. reflexivity.
Qed.

(* outside the domain of split_cli_spec: when the value of an output option is itself `-o`, the argument after it is swallowed too *)
Example split_cli_flag_as_value :
  split_cli ["--"; "-o"; "-o"; "x"] = (None, false, [], Some "-o") /\ strip_pairs ["-o"; "-o"; "x"] = ["x"].
Proof. split; reflexivity. Qed.
