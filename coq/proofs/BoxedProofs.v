(* Proofs about the CBox / CSliceBox model (model/Boxed.v): every value handed to a box is destroyed exactly once or handed back. *)
Require Import Verif.common.Prelude Verif.model.Boxed.
From Coq Require Import Permutation.
Open Scope Z_scope.

Definition vals (h : bxh) : list Z := match h with XDead => [] | XBox v _ => [v] | XSlice vs _ => vs end.
Definition held (p : list bxh) : list Z := flat_map vals p.

(* values that the operation brings into existence *)
Definition bx_created (p : list bxh) (o : bxop) : list Z :=
  match o with
  | XNew v | XFromBox v | XFromPair v => [v]
  | XNewSlice vs => vs
  | XWrite h i x => match bxget p h with XBox _ false | XSlice _ false => [x] | _ => [] end
  | _ => []
  end.

Lemma held_app a b : held (a ++ b) = held a ++ held b.
Proof. unfold held. apply flat_map_app. Qed.

Lemma held_single h : held [h] = vals h.
Proof. unfold held. cbn. apply app_nil_r. Qed.

Lemma bxget_live p h : bxget p h <> XDead -> (h < length p)%nat.
Proof.
  unfold bxget. intros N. destruct (Nat.lt_ge_cases h (length p)); auto.
  rewrite nth_overflow in N by lia. contradiction.
Qed.

Lemma bxset_perm p : forall h y, (h < length p)%nat ->
  Permutation (held p ++ vals y) (held (bxset p h y) ++ vals (bxget p h)).
Proof.
  induction p as [|a p IH]; intros [|h] y L; cbn [length] in L; try lia.
  - cbn [bxset bxget nth]. change (held (a :: p)) with (vals a ++ held p). change (held (y :: p)) with (vals y ++ held p).
    rewrite <- !app_assoc. etransitivity; [apply Permutation_app_comm|].
    rewrite !app_assoc. apply Permutation_app_tail. apply Permutation_app_comm.
  - cbn [bxset]. change (bxget (a :: p) (S h)) with (bxget p h).
    change (held (a :: p)) with (vals a ++ held p). change (held (a :: bxset p h y)) with (vals a ++ held (bxset p h y)).
    rewrite <- !app_assoc. apply Permutation_app_head. apply IH. lia.
Qed.

Lemma set_val_perm vs : forall i x, (i < length vs)%nat -> Permutation (x :: vs) (nth i vs 0 :: set_val vs i x).
Proof.
  induction vs as [|a vs IH]; intros [|i] x L; cbn [length] in L; try lia.
  - cbn. apply perm_swap.
  - cbn [set_val nth]. etransitivity; [apply perm_swap|]. etransitivity; [apply perm_skip, (IH i x); lia|]. apply perm_swap.
Qed.

Lemma perm_cancel_helper (A B V V' : list Z) x old :
  Permutation (A ++ V') (B ++ V) -> Permutation (x :: V) (old :: V') -> Permutation (A ++ [x]) (B ++ [old]).
Proof.
  intros P1 P2. apply Permutation_app_inv_r with (l := V').
  rewrite <- !app_assoc. cbn [app].
  etransitivity; [apply Permutation_sym, Permutation_middle|].
  etransitivity; [apply perm_skip, P1|].
  etransitivity; [apply Permutation_middle|].
  apply Permutation_app_head. exact P2.
Qed.

Theorem bxstep_inv p o :
  let '(p', r, ds, back) := bxstep p o in
  Permutation (held p ++ bx_created p o) (held p' ++ ds ++ back).
Proof.
  destruct o as [v|v|v|vs|h|h i x|h|h|h]; cbn [bxstep bx_created bxnew bxrej].
  1-3: rewrite held_app, held_single, !app_nil_r; reflexivity.
  - rewrite held_app, held_single, !app_nil_r; reflexivity.
  - destruct (bxget p h) as [|v [|]|vs [|]]; cbn [bxrej]; rewrite !app_nil_r; reflexivity.
  - destruct (bxget p h) as [|v [|]|vs [|]] eqn:G; cbn [bxrej]; try (rewrite !app_nil_r; reflexivity).
    + assert (L : (h < length p)%nat) by (apply bxget_live; rewrite G; discriminate).
      pose proof (bxset_perm p h (XBox x false) L) as P. rewrite G in P. cbn [vals] in P. rewrite app_nil_r. exact P.
    + destruct ((0 <=? i) && (i <? nz (length vs))) eqn:B.
      * apply andb_true_iff in B. destruct B as (B1 & B2). apply Z.leb_le in B1. apply Z.ltb_lt in B2. unfold nz in B2.
        assert (L : (h < length p)%nat) by (apply bxget_live; rewrite G; discriminate).
        pose proof (bxset_perm p h (XSlice (set_val vs (zn i) x) false) L) as P. rewrite G in P. cbn [vals] in P.
        rewrite app_nil_r.
        assert (LI : (zn i < length vs)%nat) by (unfold zn; lia).
        cbn [app]. exact (perm_cancel_helper _ _ _ _ _ _ P (set_val_perm vs (zn i) x LI)).
      * rewrite app_nil_r. reflexivity.
  - destruct (bxget p h) as [|v b|vs b] eqn:G; cbn [bxnew bxrej]; try (rewrite !app_nil_r; reflexivity).
    + assert (L : (h < length p)%nat) by (apply bxget_live; rewrite G; discriminate).
      pose proof (bxset_perm p h XDead L) as P. rewrite G in P. cbn [vals] in P.
      rewrite held_app, held_single, !app_nil_r. cbn [vals]. rewrite app_nil_r in P. exact P.
    + assert (L : (h < length p)%nat) by (apply bxget_live; rewrite G; discriminate).
      pose proof (bxset_perm p h XDead L) as P. rewrite G in P. cbn [vals] in P.
      rewrite held_app, held_single, !app_nil_r. cbn [vals]. rewrite app_nil_r in P. exact P.
  - destruct (bxget p h) as [|v b|vs b] eqn:G; cbn [bxrej]; try (rewrite !app_nil_r; reflexivity).
    all: assert (L : (h < length p)%nat) by (apply bxget_live; rewrite G; discriminate);
      pose proof (bxset_perm p h XDead L) as P; rewrite G in P; cbn [vals] in P; rewrite !app_nil_r in *; exact P.
  - destruct (bxget p h) as [|v [|]|vs b] eqn:G; cbn [bxrej]; try (rewrite !app_nil_r; reflexivity).
    assert (L : (h < length p)%nat) by (apply bxget_live; rewrite G; discriminate).
    pose proof (bxset_perm p h XDead L) as P. rewrite G in P. cbn [vals] in P. rewrite !app_nil_r in *. exact P.
Qed.

(* ---- whole histories ---- *)
Fixpoint bxexec (p : list bxh) (ops : list bxop) : list bxh * list Z * list Z * list Z :=     (* pool, destroyed, handed back, created *)
  match ops with
  | [] => (p, [], [], [])
  | o :: os => let '(p1, _, ds, back) := bxstep p o in
               let '(p2, ds2, back2, cr2) := bxexec p1 os in
               (p2, ds ++ ds2, back ++ back2, bx_created p o ++ cr2)
  end.

Theorem bxexec_inv ops : forall p,
  let '(p', ds, back, cr) := bxexec p ops in Permutation (held p ++ cr) (held p' ++ ds ++ back).
Proof.
  induction ops as [|o os IH]; intros p; cbn [bxexec].
  - rewrite !app_nil_r. reflexivity.
  - pose proof (bxstep_inv p o) as S. destruct (bxstep p o) as [[[p1 r] ds] back].
    specialize (IH p1). destruct (bxexec p1 os) as [[[p2 ds2] back2] cr2].
    rewrite app_assoc. etransitivity; [apply Permutation_app_tail, S|].
    rewrite <- !app_assoc.
    (* held p1 ++ ds ++ back ++ cr2  ~  held p2 ++ (ds ++ ds2) ++ back ++ back2 *)
    etransitivity; [apply Permutation_app_head; rewrite app_assoc; apply Permutation_app_comm|].
    rewrite app_assoc. etransitivity; [apply Permutation_app_tail, IH|].
    rewrite <- !app_assoc. apply Permutation_app_head.
    (* ds2 ++ back2 ++ ds ++ back ~ ds ++ ds2 ++ back ++ back2 *)
    etransitivity; [rewrite app_assoc; apply Permutation_app_comm|]. rewrite <- !app_assoc.
    apply Permutation_app_head.
    etransitivity; [apply Permutation_app_comm|]. rewrite <- !app_assoc. apply Permutation_app_head. apply Permutation_app_comm.
Qed.

Lemma bxexec_app a : forall p b,
  bxexec p (a ++ b) = let '(p1, d1, k1, c1) := bxexec p a in let '(p2, d2, k2, c2) := bxexec p1 b in (p2, d1 ++ d2, k1 ++ k2, c1 ++ c2).
Proof.
  induction a as [|o a IH]; intros p b; cbn [bxexec app].
  - destruct (bxexec p b) as [[[p2 d2] k2] c2]. reflexivity.
  - destruct (bxstep p o) as [[[p1 r] ds] back]. rewrite IH. destruct (bxexec p1 a) as [[[p2 d2] k2] c2].
    destruct (bxexec p2 b) as [[[p3 d3] k3] c3]. now rewrite !app_assoc.
Qed.

Lemma bxset_length p : forall i x, length (bxset p i x) = length p.
Proof. induction p; intros [|i] x; cbn; auto. Qed.
Lemma bxset_same p : forall i x, (i < length p)%nat -> bxget (bxset p i x) i = x.
Proof. unfold bxget. induction p; intros [|i] x H; cbn in *; try lia; auto. apply IHp; lia. Qed.
Lemma bxset_other p : forall i j x, i <> j -> bxget (bxset p i x) j = bxget p j.
Proof. unfold bxget. induction p; intros [|i] [|j] x H; cbn; auto; try congruence. Qed.

Lemma bxdrop_pool p h :
  let '(p', _, _, _) := bxstep p (XDrop h) in
  length p' = length p /\ bxget p' h = XDead /\ (forall j, bxget p j = XDead -> bxget p' j = XDead).
Proof.
  cbn [bxstep]. destruct (bxget p h) eqn:G; cbn [bxrej].
  - repeat split; auto.
  - assert (L : (h < length p)%nat) by (apply bxget_live; rewrite G; discriminate).
    rewrite bxset_length. split; [reflexivity|]. split; [now apply bxset_same|].
    intros j Hj. destruct (Nat.eq_dec h j) as [->|D]; [now apply bxset_same | now rewrite bxset_other].
  - assert (L : (h < length p)%nat) by (apply bxget_live; rewrite G; discriminate).
    rewrite bxset_length. split; [reflexivity|]. split; [now apply bxset_same|].
    intros j Hj. destruct (Nat.eq_dec h j) as [->|D]; [now apply bxset_same | now rewrite bxset_other].
Qed.

Lemma bxdrop_all k : forall p, (k <= length p)%nat ->
  let '(p', _, _, _) := bxexec p (map XDrop (seq 0 k)) in
  length p' = length p /\ forall j, (j < k)%nat -> bxget p' j = XDead.
Proof.
  induction k as [|k IH]; intros p L.
  - cbn. split; auto. intros; lia.
  - rewrite seq_S, map_app, bxexec_app. cbn [Nat.add map].
    specialize (IH p ltac:(lia)). destruct (bxexec p (map XDrop (seq 0 k))) as [[[p1 d1] k1] c1]. destruct IH as (L1 & D1).
    cbn [bxexec]. pose proof (bxdrop_pool p1 k) as DS. destruct (bxstep p1 (XDrop k)) as [[[p2 r] ds] back].
    destruct DS as (L2 & Dk & Keep). split; [congruence|].
    intros j Hj. destruct (Nat.eq_dec j k) as [->|N]; [exact Dk|]. apply Keep. apply D1. lia.
Qed.

Lemma all_dead_held p : (forall j, (j < length p)%nat -> bxget p j = XDead) -> held p = [].
Proof.
  induction p as [|x p IH]; intros H; [reflexivity|].
  pose proof (H 0%nat ltac:(cbn; lia)) as H0. unfold bxget in H0. cbn in H0. subst x.
  change (held (XDead :: p)) with (held p). apply IH. intros j Hj. apply (H (S j)). cbn. lia.
Qed.

Lemma drops_create_nothing l : forall p, let '(_, _, back, cr) := bxexec p (map XDrop l) in back = [] /\ cr = [].
Proof.
  induction l as [|h l IH]; intros p; cbn [map bxexec]; [auto|].
  destruct (bxstep p (XDrop h)) as [[[p1 r] ds] back] eqn:S. specialize (IH p1).
  destruct (bxexec p1 (map XDrop l)) as [[[p2 d2] k2] c2]. destruct IH as (-> & ->).
  cbn [bxstep] in S. destruct (bxget p h); cbn [bxrej] in S; inversion S; subst; auto.
Qed.

(* any history, then every remaining box is dropped *)
Definition bx_full (ops : list bxop) : list bxh * list Z * list Z * list Z :=
  let '(p1, d1, k1, c1) := bxexec [] ops in
  let '(p2, d2, k2, c2) := bxexec p1 (map XDrop (seq 0 (length p1))) in
  (p2, d1 ++ d2, k1 ++ k2, c1 ++ c2).

Theorem bx_full_spec ops :
  let '(p, ds, back, cr) := bx_full ops in Permutation cr (ds ++ back) /\ held p = [].
Proof.
  unfold bx_full.
  pose proof (bxexec_inv ops []) as E1. destruct (bxexec [] ops) as [[[p1 d1] k1] c1].
  pose proof (bxexec_inv (map XDrop (seq 0 (length p1))) p1) as E2.
  pose proof (bxdrop_all (length p1) p1 (Nat.le_refl _)) as DA.
  pose proof (drops_create_nothing (seq 0 (length p1)) p1) as DN.
  destruct (bxexec p1 (map XDrop (seq 0 (length p1)))) as [[[p2 d2] k2] c2]. destruct DA as (L2 & Dead). destruct DN as (-> & ->).
  assert (H2 : held p2 = []) by (apply all_dead_held; intros j Hj; apply Dead; lia).
  split; [|exact H2]. rewrite H2 in E2. cbn [held flat_map app] in E1. rewrite !app_nil_r in *. cbn [app] in E2.
  (* c1 ~ held p1 ++ d1 ++ k1 ;  held p1 ~ d2 *)
  etransitivity; [exact E1|]. etransitivity; [apply Permutation_app_tail, E2|].
  rewrite <- !app_assoc. etransitivity; [apply Permutation_app_comm|]. rewrite <- !app_assoc. apply Permutation_app_head.
  etransitivity; [apply Permutation_app_comm|]. reflexivity.
Qed.
