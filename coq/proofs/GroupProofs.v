(* Proofs about the group generator model (model/Group.v). *)
Require Import Verif.common.Prelude Verif.model.Group.
From Coq Require Import Permutation Sorting.Sorted.
Open Scope Z_scope.

(* ---- the identifier order is a total order ------------------------------------------------------------- *)
Lemma lex_leb_total a : forall b, lex_leb a b = true \/ lex_leb b a = true.
Proof.
  induction a as [|x a IH]; intros [|y b]; cbn; auto.
  destruct (Z.ltb_spec x y); auto. destruct (Z.ltb_spec y x); auto.
Qed.

Lemma lex_leb_antisym a : forall b, lex_leb a b = true -> lex_leb b a = true -> a = b.
Proof.
  induction a as [|x a IH]; intros [|y b]; cbn; auto; try discriminate.
  destruct (Z.ltb_spec x y), (Z.ltb_spec y x); try lia; try discriminate.
  intros H1 H2. assert (x = y) by lia. subst. f_equal. now apply IH.
Qed.

Lemma ltb_t x y : x < y -> (x <? y) = true. Proof. intros; now apply Z.ltb_lt. Qed.
Lemma ltb_f x y : y <= x -> (x <? y) = false. Proof. intros; now apply Z.ltb_ge. Qed.

Lemma lex_leb_trans a : forall b c, lex_leb a b = true -> lex_leb b c = true -> lex_leb a c = true.
Proof.
  induction a as [|x a IH]; intros [|y b] [|z c]; cbn; auto; try discriminate.
  destruct (Z.lt_trichotomy x y) as [L1|[E1|G1]].
  - rewrite (ltb_t x y L1). intros _.
    destruct (Z.lt_trichotomy y z) as [L2|[E2|G2]].
    + intros _. rewrite (ltb_t x z) by lia. reflexivity.
    + subst z. rewrite (ltb_f y y) by lia. intros _. rewrite (ltb_t x y L1). reflexivity.
    + rewrite (ltb_f y z) by lia. rewrite (ltb_t z y G2). discriminate.
  - subst y. rewrite (ltb_f x x) by lia.
    destruct (Z.lt_trichotomy x z) as [L2|[E2|G2]].
    + intros _ _. rewrite (ltb_t x z L2). reflexivity.
    + subst z. rewrite (ltb_f x x) by lia. apply IH.
    + rewrite (ltb_f x z) by lia. rewrite (ltb_t z x G2). intros _; discriminate.
  - rewrite (ltb_f x y) by lia. rewrite (ltb_t y x G1). discriminate.
Qed.

Lemma ident_eqb_eq a : forall b, ident_eqb a b = true <-> a = b.
Proof.
  induction a as [|x a IH]; intros [|y b]; cbn; split; auto; try discriminate.
  - intros H. apply andb_true_iff in H. destruct H as (H1 & H2). apply Z.eqb_eq in H1. apply IH in H2. congruence.
  - intros H. inversion H; subst. apply andb_true_iff. split; [apply Z.eqb_refl|now apply IH].
Qed.

(* ---- insertion sort: a sorted permutation --------------------------------------------------------------------------- *)
Definition ti_le (a b : tinfo) : Prop := ti_leb a b = true.

Lemma insert_perm x l : Permutation (x :: l) (insert_sorted x l).
Proof.
  induction l as [|y r IH]; cbn; [reflexivity|]. destruct (ti_leb x y); [reflexivity|].
  etransitivity; [apply perm_swap|]. now apply perm_skip.
Qed.

Lemma sort_perm l : Permutation l (sort_ti l).
Proof.
  induction l as [|x l IH]; cbn; [reflexivity|]. etransitivity; [apply perm_skip, IH|apply insert_perm].
Qed.

Lemma insert_sorted_sorted x l : StronglySorted ti_le l -> StronglySorted ti_le (insert_sorted x l).
Proof.
  induction 1 as [|y r S IH F]; cbn; [repeat constructor|].
  destruct (ti_leb x y) eqn:E.
  - constructor; [constructor; assumption|]. constructor; [exact E|].
    eapply Forall_impl; [|exact F]. intros z Hz. unfold ti_le, ti_leb in *. eapply lex_leb_trans; eauto.
  - constructor; [exact IH|]. 
    assert (YX : ti_le y x). { unfold ti_le, ti_leb in *. destruct (lex_leb_total (ti_name y) (ti_name x)); congruence. }
    eapply Permutation_Forall; [apply insert_perm|]. constructor; assumption.
Qed.

Lemma sort_sorted l : StronglySorted ti_le (sort_ti l).
Proof. induction l as [|x l IH]; cbn; [constructor|now apply insert_sorted_sorted]. Qed.

Lemma filter_sorted P l : StronglySorted ti_le l -> StronglySorted ti_le (filter P l).
Proof.
  induction 1 as [|y r S IH F]; cbn; [constructor|]. destruct (P y); auto.
  constructor; auto. clear - F. induction r as [|z r IH]; cbn; [constructor|]. inversion F; subst. destruct (P z); auto.
Qed.

(* two sorted lists with the same members, whose identifiers are pairwise distinct, are equal *)
Lemma sorted_perm_unique l1 : forall l2, StronglySorted ti_le l1 -> StronglySorted ti_le l2 -> Permutation l1 l2 ->
  NoDup (map ti_name l1) -> l1 = l2.
Proof.
  induction l1 as [|h1 t1 IH]; intros l2 S1 S2 P N.
  - apply Permutation_nil in P. now subst.
  - destruct l2 as [|h2 t2]; [apply Permutation_sym, Permutation_nil in P; discriminate|].
    inversion S1 as [|? ? S1' F1]; subst. inversion S2 as [|? ? S2' F2]; subst.
    assert (H12 : h1 = h2).
    { assert (I1 : In h1 (h2 :: t2)) by (eapply Permutation_in; [exact P|left; reflexivity]).
      assert (I2 : In h2 (h1 :: t1)) by (eapply Permutation_in; [apply Permutation_sym, P|left; reflexivity]).
      destruct I1 as [->|I1]; [reflexivity|]. destruct I2 as [->|I2]; [reflexivity|].
      rewrite Forall_forall in F1, F2. pose proof (F1 _ I2) as A. pose proof (F2 _ I1) as B.
      assert (E : ti_name h1 = ti_name h2) by (apply lex_leb_antisym; assumption).
      (* h2 is in t1 and has the name of h1: contradicts NoDup *)
      exfalso. inversion N as [|? ? NI ND]; subst. apply NI. rewrite E. now apply in_map. }
    subst h2. f_equal. apply IH; auto.
    + now apply Permutation_cons_inv in P.
    + now inversion N.
Qed.

(* ---- the peekable merge marks exactly the requested sublist ------------------------------------------------------------ *)
Lemma ti_eqb_refl v : ti_eqb v v = true.
Proof. unfold ti_eqb. now apply ident_eqb_eq. Qed.

Lemma mixed_fst opts : forall req, map fst (mixed opts req) = opts.
Proof.
  induction opts as [|v r IH]; intros req; cbn; [reflexivity|].
  destruct req as [|q req']; cbn; [now rewrite IH|]. destruct (ti_eqb q v); cbn; now rewrite IH.
Qed.

Lemma mixed_spec P opts : NoDup (map ti_name opts) ->
  mixed opts (filter P opts) = map (fun v => (v, P v)) opts.
Proof.
  induction opts as [|v r IH]; intros N; cbn [mixed filter map]; [reflexivity|].
  inversion N as [|? ? NI ND]; subst. destruct (P v) eqn:E.
  - rewrite ti_eqb_refl. now rewrite IH.
  - destruct (filter P r) as [|q req'] eqn:F.
    + now rewrite IH.
    + assert (Q : In q r) by (assert (In q (filter P r)) by (rewrite F; left; reflexivity); apply filter_In in H; tauto).
      assert (D : ti_eqb q v = false).
      { destruct (ti_eqb q v) eqn:X; auto. unfold ti_eqb in X. apply ident_eqb_eq in X. exfalso. apply NI. rewrite <- X. now apply in_map. }
      rewrite D. now rewrite IH.
Qed.

(* ---- the macro side meets the group side ----------------------------------------------------------------------------- *)
Lemma NoDup_names_perm l1 l2 : Permutation l1 l2 -> NoDup (map ti_name l1) -> NoDup (map ti_name l2).
Proof. intros P N. eapply Permutation_NoDup; [apply Permutation_map, P|exact N]. Qed.

Lemma NoDup_names_filter P l : NoDup (map ti_name l) -> NoDup (map ti_name (filter P l)).
Proof.
  induction l as [|x l IH]; cbn; intros N; [constructor|]. inversion N; subst. destruct (P x); cbn; auto.
  constructor; auto. intros I. apply H1. apply in_map_iff in I. destruct I as (y & E & Iy). apply filter_In in Iy. rewrite <- E. apply in_map. tauto.
Qed.

Lemma filter_perm {A} (P : A -> bool) l1 l2 : Permutation l1 l2 -> Permutation (filter P l1) (filter P l2).
Proof.
  induction 1; cbn; auto.
  - destruct (P x); auto.
  - destruct (P x), (P y); auto. apply perm_swap.
  - etransitivity; eauto.
Qed.

(* whatever order the user writes the requested traits in, the sorted request is the sublist of the sorted optional
   list that the group side generated a function for *)
Theorem macro_meets_group P opts req_in :
  NoDup (map ti_name opts) -> Permutation req_in (filter P opts) ->
  sort_ti req_in = filter P (sort_ti opts).
Proof.
  intros N PR. apply sorted_perm_unique.
  - apply sort_sorted.
  - apply filter_sorted, sort_sorted.
  - etransitivity; [apply Permutation_sym, sort_perm|]. etransitivity; [exact PR|]. apply filter_perm, sort_perm.
  - eapply NoDup_names_perm; [apply sort_perm|]. eapply NoDup_names_perm; [apply Permutation_sym, PR|]. now apply NoDup_names_filter.
Qed.

(* and the function found validates (unwraps with `?`) exactly the requested vtables, nothing else *)
Theorem validated_exactly_requested P opts :
  NoDup (map ti_name opts) ->
  map snd (mixed (sort_ti opts) (filter P (sort_ti opts))) = map P (sort_ti opts).
Proof.
  intros N. rewrite mixed_spec; [now rewrite map_map|]. eapply NoDup_names_perm; [apply sort_perm|exact N].
Qed.

(* ---- layout: every With-variant has the field sequence of the base struct ------------------------------------------------ *)
Definition shape (fields : list Z) : list (Z * Z) :=
  (fix go (l : list Z) : list (Z * Z) := match l with k :: i :: _ :: r => (k, i) :: go r | _ => [] end) fields.

Lemma shape_app_vtbl (f : tinfo -> bool) l rest :
  shape (flat_map (fun t => f_vtbl t (f t)) l ++ rest) = map (fun t => (1, nz (ti_idx t))) l ++ shape rest.
Proof. induction l as [|t l IH]; cbn [flat_map map app]; [reflexivity|]. unfold f_vtbl at 1. cbn [app shape]. f_equal. exact IH. Qed.

Theorem with_same_shape g req : shape (with_fields g req) = shape (base_fields g).
Proof.
  unfold with_fields, base_fields.
  rewrite (shape_app_vtbl (fun _ => false)), (shape_app_vtbl (fun _ => false)). f_equal.
  rewrite (shape_app_vtbl (fun _ => true)).
  replace (flat_map (fun p : tinfo * bool => f_vtbl (fst p) (negb (snd p))) (mixed (sort_ti (g_opt g)) req))
    with (flat_map (fun p : tinfo * bool => f_vtbl (fst p) (negb (snd p))) (mixed (sort_ti (g_opt g)) req)) by reflexivity.
  assert (G : forall (l : list (tinfo * bool)) rest,
             shape (flat_map (fun p => f_vtbl (fst p) (negb (snd p))) l ++ rest) = map (fun t => (1, nz (ti_idx t))) (map fst l) ++ shape rest).
  { induction l as [|p l IH]; intros rest; cbn [flat_map map app]; [reflexivity|]. unfold f_vtbl at 1. cbn [app shape]. f_equal. apply IH. }
  rewrite G, mixed_fst. reflexivity.
Qed.

(* ---- layout of the Final variants: the base struct's field sequence with the non-requested optional tables removed -------- *)
Inductive subseq {A} : list A -> list A -> Prop :=
| ss_nil : subseq [] []
| ss_skip x l1 l2 : subseq l1 l2 -> subseq l1 (x :: l2)
| ss_keep x l1 l2 : subseq l1 l2 -> subseq (x :: l1) (x :: l2).

Lemma subseq_refl {A} (l : list A) : subseq l l.
Proof. induction l as [|x l IH]; [apply ss_nil|apply ss_keep, IH]. Qed.
Lemma subseq_app {A} (a1 a2 b1 b2 : list A) : subseq a1 a2 -> subseq b1 b2 -> subseq (a1 ++ b1) (a2 ++ b2).
Proof. induction 1 as [|x l1 l2 H IH|x l1 l2 H IH]; cbn [app]; intros B; [exact B|apply ss_skip, IH, B|apply ss_keep, IH, B]. Qed.
Lemma subseq_filter_map {A B} (f : A -> B) (P : A -> bool) l : subseq (map f (filter P l)) (map f l).
Proof. induction l as [|x l IH]; cbn [filter map]; [apply ss_nil|]. destruct (P x); cbn [map]; [apply ss_keep|apply ss_skip]; exact IH. Qed.

Definition vt (t : tinfo) : Z * Z := (1, nz (ti_idx t)).

Theorem final_shape g req :
  shape (final_fields g req) = map vt (sort_ti (g_mand g)) ++ map vt req ++ [(2, 0)].
Proof.
  unfold final_fields. rewrite (shape_app_vtbl (fun _ => false)). f_equal.
  rewrite (shape_app_vtbl (fun _ => false)). reflexivity.
Qed.

Theorem base_shape g :
  shape (base_fields g) = map vt (sort_ti (g_mand g)) ++ map vt (sort_ti (g_opt g)) ++ [(2, 0)].
Proof.
  unfold base_fields. rewrite (shape_app_vtbl (fun _ => false)). f_equal.
  rewrite (shape_app_vtbl (fun _ => true)). reflexivity.
Qed.

Theorem final_restricts_base g mask :
  subseq (shape (final_fields g (generated_for g mask))) (shape (base_fields g)).
Proof.
  rewrite final_shape, base_shape. apply subseq_app; [apply subseq_refl|]. apply subseq_app; [|apply subseq_refl].
  unfold generated_for, select. apply subseq_filter_map.
Qed.

(* ---- cglue_impl_group: the vtables enabled for a type are exactly the traits listed for it ---- *)
Lemma mask_of_perm nm l1 l2 : Permutation l1 l2 -> mask_of nm l1 = mask_of nm l2.
Proof.
  intros P. induction P as [|x l l' P IH|x y l|l l' l'' P1 IH1 P2 IH2]; cbn [mask_of fold_right]; auto.
  - unfold mask_of in IH. now rewrite IH.
  - rewrite <- !Z.lor_assoc. f_equal. apply Z.lor_comm.
  - congruence.
Qed.

Theorem impl_enables_listed nm listed :
  Permutation (impl_enabled listed) listed /\ length (impl_enabled listed) = length listed /\
  mask_of nm (impl_enabled listed) = mask_of nm listed.
Proof.
  unfold impl_enabled. pose proof (sort_perm listed) as P. split; [now apply Permutation_sym|]. split.
  - symmetry. now apply Permutation_length.
  - symmetry. now apply mask_of_perm.
Qed.

(* the Fwd filler enables exactly the FORWARD list, whatever the owned list is (and the owned filler exactly the owned list) *)
Theorem impl_row_lists g fm mask : fm <> 1 ->
  let nm := length (g_mand g) in
  let owned := rev (filter (in_mask nm mask) (g_opt g)) in
  let fwd := rev (filter (in_mask nm (fwd_mask (length (g_opt g)) fm mask)) (g_opt g)) in
  impl_row g fm mask = [mask; mask_of nm owned; nz (length owned); mask_of nm fwd; nz (length fwd); mask_of nm owned; 0].
Proof.
  intros F nm owned fwd. unfold impl_row. destruct (fm =? 1) eqn:E; [apply Z.eqb_eq in E; contradiction|].
  fold nm. fold owned. fold fwd.
  destruct (impl_enables_listed nm owned) as (_ & L1 & M1). destruct (impl_enables_listed nm fwd) as (_ & L2 & M2).
  now rewrite L1, M1, L2, M2.
Qed.
