(* Proofs about the block-level model of the C post-processor (model/BindgenHeader.v). *)
Require Import Verif.common.Prelude Verif.model.Group Verif.proofs.GroupProofs Verif.model.BindgenHeader.
From Coq Require Import Permutation Sorted.

(* a sorted iteration order depends on the SET of contexts only, not on the order they were found in *)
Lemma sort_ti_perm_eq : forall l1 l2, Permutation l1 l2 -> NoDup (map ti_name l1) -> sort_ti l1 = sort_ti l2.
Proof.
  intros l1 l2 P N. apply sorted_perm_unique.
  - apply sort_sorted.
  - apply sort_sorted.
  - eapply Permutation_trans; [apply Permutation_sym, sort_perm|]. eapply Permutation_trans; [exact P|apply sort_perm].
  - eapply NoDup_names_perm; [apply sort_perm|exact N].
Qed.

Theorem ordered_deterministic : forall hash1 hash2 ins1 ins2 h,
  Permutation ins1 ins2 -> NoDup (map ti_name ins1) ->
  process (iter_order true hash1 ins1) h = process (iter_order true hash2 ins2) h.
Proof. intros. unfold iter_order. rewrite (sort_ti_perm_eq ins1 ins2) by assumption. reflexivity. Qed.

(* with a per-process order two contexts and one context-generic struct suffice for two different outputs *)
Lemma hashed_not_deterministic :
  exists (hash1 hash2 : list tinfo -> list tinfo) ins h,
    (forall l, Permutation l (hash1 l)) /\ (forall l, Permutation l (hash2 l)) /\
    process (iter_order false hash1 ins) h <> process (iter_order false hash2 ins) h.
Proof.
  exists (fun l => l), (@rev tinfo), [mkti 0 [67%Z]; mkti 1 [78%Z]], [HGeneric 0 false].
  split; [intros; apply Permutation_refl|]. split; [intros; apply Permutation_rev|].
  cbn. intros H. inversion H.
Qed.

Lemma copies_not_foreign : forall id order, foreign_out (map (OCopy id) order) = [].
Proof. intros id order. induction order as [|c o IH]; [reflexivity|]. exact IH. Qed.

Lemma foreign_out_app : forall a b, foreign_out (a ++ b) = (foreign_out a ++ foreign_out b)%list.
Proof. intros. unfold foreign_out. apply flat_map_app. Qed.

(* foreign declarations: exactly those that are not taken for a context-generic struct survive, unmodified (by identity) and in order *)
Theorem foreign_preserved : forall order h,
  foreign_out (process order h) = flat_map (fun b => match b with HForeign id => [id] | _ => [] end) h.
Proof.
  intros order h. induction h as [|b r IH]; [reflexivity|].
  change (process order (b :: r)) with (expand order b ++ process order r)%list.
  rewrite foreign_out_app, IH. cbn [flat_map]. f_equal.
  destruct b as [id|id f|id]; cbn [expand]; try reflexivity. apply copies_not_foreign.
Qed.

Corollary foreign_all_preserved : forall order h,
  (forall id, ~ In (HGeneric id true) h) -> foreign_out (process order h) = foreign_in h.
Proof.
  intros order h Hn. rewrite foreign_preserved. unfold foreign_in.
  induction h as [|b r IH]; [reflexivity|]. cbn [flat_map]. rewrite IH.
  - destruct b as [id|id [|]|id]; try reflexivity. exfalso. apply (Hn id). left. reflexivity.
  - intros id H. apply (Hn id). right. exact H.
Qed.

(* the known finding F-C18-ctx-suffix: a user struct that is merely NAMED like a context-generic one does not survive *)
Lemma foreign_named_like_generic_lost : forall order id,
  foreign_in [HGeneric id true] = [id] /\ foreign_out (process order [HGeneric id true]) = [].
Proof.
  intros order id. split; [reflexivity|]. rewrite foreign_preserved. reflexivity.
Qed.
