(* Proofs about the CArc/CArcSome model: the strong count of every allocation equals the
   number of live owning handles, no operation reaches UB, count changes are executed by
   the creating module, the payload is destroyed exactly when the count reaches zero. *)
Require Import Verif.common.Prelude Verif.model.Arc.

Definition strong_of (s : st) (a : nat) : nat :=
  match nth_error (arcs s) a with Some r => strong r | None => 0 end.
Definition owner_of (s : st) (a : nat) : nat :=
  match nth_error (arcs s) a with Some r => owner r | None => 0 end.

Definition owns (a : nat) (h : handle) : nat :=
  match h with
  | HArc (Some b) _ (Some _) | HSome b _ (Some _) | HStd b _ => if b =? a then 1 else 0
  | _ => 0
  end.
Fixpoint owners (a : nat) (p : list handle) : nat :=
  match p with [] => 0 | h :: t => owns a h + owners a t end.

Definition wfh (s : st) (h : handle) : Prop :=
  match h with
  | HArc (Some a) c d => a < length (arcs s) /\ c = Some (owner_of s a) /\ d = Some (owner_of s a)
  | HSome a c d => a < length (arcs s) /\ c = owner_of s a /\ d = Some (owner_of s a)
  | HStd a m => a < length (arcs s) /\ m = owner_of s a
  | _ => True
  end.

Definition Inv (s : st) : Prop :=
  Forall (wfh s) (pool s) /\ forall a, strong_of s a = owners a (pool s).

(* ---- list lemmas ------------------------------------------------------------------- *)
Lemma set_nth_length {A} (l : list A) i x : length (set_nth l i x) = length l.
Proof. revert i; induction l; intros [|i]; cbn; auto. Qed.

Lemma nth_error_set_nth_eq {A} (l : list A) i x : i < length l -> nth_error (set_nth l i x) i = Some x.
Proof. revert i; induction l; intros [|i] H; cbn in *; try lia; auto. apply IHl; lia. Qed.

Lemma nth_error_set_nth_neq {A} (l : list A) i j x : i <> j -> nth_error (set_nth l i x) j = nth_error l j.
Proof. revert i j; induction l; intros [|i] [|j] H; cbn; auto; try congruence. Qed.

Lemma owners_app a p q : owners a (p ++ q) = owners a p + owners a q.
Proof. induction p as [|x p IH]; cbn [owners app]; lia. Qed.

Lemma owners_set_nth a p i h :
  i < length p -> owners a (set_nth p i h) + owns a (nth i p HDead) = owners a p + owns a h.
Proof.
  revert i; induction p as [|x p IH]; intros [|i] H; cbn [owners set_nth nth length] in *; try lia.
  specialize (IH i ltac:(lia)). lia.
Qed.

Lemma Forall_set_nth {A} (P : A -> Prop) l i x : Forall P l -> P x -> Forall P (set_nth l i x).
Proof.
  intros F Px. revert i; induction F; intros [|i]; cbn; constructor; auto.
Qed.

Lemma get_h_in s i h : get_h s i = h -> h <> HDead -> i < length (pool s) /\ In h (pool s).
Proof.
  unfold get_h. intros E N. destruct (Nat.lt_ge_cases i (length (pool s))) as [L|L].
  - split; auto. rewrite <- E. now apply nth_In.
  - rewrite nth_overflow in E by lia. congruence.
Qed.

(* ---- state-extension: wfh only looks at the allocation table's length and owners ----- *)
Definition ext (s s' : st) : Prop :=
  length (arcs s) <= length (arcs s') /\ forall a, a < length (arcs s) -> owner_of s' a = owner_of s a.

Lemma wfh_ext s s' h : ext s s' -> wfh s h -> wfh s' h.
Proof.
  intros (L & O) W. destruct h as [|[a|] c d|a c d|a m]; cbn in *; auto.
  - destruct W as (H & -> & ->). rewrite O by auto. repeat split; auto; lia.
  - destruct W as (H & -> & ->). rewrite O by auto. repeat split; auto; lia.
  - destruct W as (H & ->). rewrite O by auto. split; auto; lia.
Qed.

Lemma Forall_wfh_ext s s' p : ext s s' -> Forall (wfh s) p -> Forall (wfh s') p.
Proof. intros E F. eapply Forall_impl; [|exact F]. intros h. now apply wfh_ext. Qed.

Lemma ext_refl s : ext s s. Proof. split; auto. Qed.

Lemma ext_pool s p : ext s (mks p (arcs s)). Proof. split; auto. Qed.

Lemma ext_same_arcs s s' : arcs s' = arcs s -> ext s s'.
Proof. intros E. unfold ext, owner_of. rewrite E. split; auto. Qed.

Lemma ext_set_arc s p a r r' :
  nth_error (arcs s) a = Some r -> owner r' = owner r -> ext s (mks p (set_nth (arcs s) a r')).
Proof.
  intros N O. split; cbn; [now rewrite set_nth_length|].
  intros b Hb. unfold owner_of; cbn. destruct (Nat.eq_dec a b) as [->|D].
  - rewrite nth_error_set_nth_eq by auto. now rewrite N.
  - now rewrite nth_error_set_nth_neq.
Qed.

Lemma ext_app_arc s p r : ext s (mks p (arcs s ++ [r])).
Proof.
  split; cbn; [rewrite app_length; lia|]. intros a H. unfold owner_of; cbn. now rewrite nth_error_app1.
Qed.

(* ---- count primitives ---------------------------------------------------------------- *)
Lemma arc_inc_ok s a m : 0 < strong_of s a ->
  exists r, nth_error (arcs s) a = Some r /\
    arc_inc s a m = Ok (mks (pool s) (set_nth (arcs s) a (mka (S (strong r)) (payload r) (owner r))), [AInc a m]).
Proof.
  unfold strong_of, arc_inc. destruct (nth_error (arcs s) a) as [r|] eqn:N; [|lia].
  intros H. exists r. split; auto. destruct (Nat.eqb_spec (strong r) 0); [lia|reflexivity].
Qed.

Lemma strong_of_set s p a r r' b :
  nth_error (arcs s) a = Some r ->
  strong_of (mks p (set_nth (arcs s) a r')) b = if a =? b then strong r' else strong_of s b.
Proof.
  intros N. unfold strong_of; cbn. destruct (Nat.eqb_spec a b) as [->|D].
  - rewrite nth_error_set_nth_eq; auto. apply nth_error_Some. congruence.
  - now rewrite nth_error_set_nth_neq.
Qed.

Lemma arc_dec_ok s a m : 0 < strong_of s a ->
  exists r s' ev, nth_error (arcs s) a = Some r /\ arc_dec s a m = Ok (s', ev) /\
    s' = mks (pool s) (set_nth (arcs s) a (mka (strong r - 1) (payload r) (owner r))) /\
    ev = (ADec a m :: if strong r =? 1 then [ADropPayload a (payload r)] else []).
Proof.
  unfold strong_of, arc_dec. destruct (nth_error (arcs s) a) as [r|] eqn:N; [|lia].
  intros H. exists r. destruct (strong r) as [|[|n]] eqn:S; [lia| |]; do 2 eexists; repeat split; cbn; auto.
Qed.

(* ---- per-op invariant preservation ----------------------------------------------------- *)
Ltac inv_pool :=
  match goal with
  | H : get_h ?s ?i = ?h |- _ =>
      let L := fresh "L" in let I := fresh "I" in
      destruct (get_h_in s i h H ltac:(discriminate)) as (L & I)
  end.

Lemma Inv_wfh s h : Inv s -> In h (pool s) -> wfh s h.
Proof. intros (F & _) I. rewrite Forall_forall in F. auto. Qed.

Lemma owns_pos_strong s a h : Inv s -> In h (pool s) -> owns a h = 1 -> 0 < strong_of s a.
Proof.
  intros (F & C) I O. rewrite C. clear C F.
  induction (pool s) as [|x p IH]; [contradiction|]. cbn [owners]. destruct I as [->|I]; [lia|].
  specialize (IH I). lia.
Qed.

(* moving a handle from slot h (left as [repl]) into a fresh slot, table unchanged *)
Lemma move_inv s i hnew repl :
  Inv s -> i < length (pool s) -> wfh s hnew -> wfh s repl ->
  (forall a, owns a hnew + owns a repl = owns a (nth i (pool s) HDead)) ->
  Inv (add_h (set_h s i repl) hnew).
Proof.
  intros (F & C) L Wn Wr O. split; cbn.
  - apply Forall_app. split.
    + apply Forall_set_nth; auto.
    + constructor; auto.
  - intros a. unfold strong_of in *; cbn. rewrite C, owners_app. cbn [owners].
    pose proof (owners_set_nth a (pool s) i repl L). specialize (O a). lia.
Qed.

Definition ev_by_owner (s : st) (ev : list aev) : Prop :=
  Forall (fun e => match e with AInc a m | ADec a m => m = owner_of s a | _ => True end) ev.

(* payload destructor events are exactly the 1 -> 0 transitions *)
Definition dropcount (ev : list aev) (a : nat) : nat :=
  count_occ Nat.eq_dec (flat_map (fun e => match e with ADropPayload b _ => [b] | _ => [] end) ev) a.
Definition drops_exact (s s' : st) (ev : list aev) : Prop :=
  forall a, (0 < strong_of s a /\ strong_of s' a = 0 -> dropcount ev a = 1) /\
            (~ (0 < strong_of s a /\ strong_of s' a = 0) -> dropcount ev a = 0).

Lemma owner_of_eq s a r : nth_error (arcs s) a = Some r -> owner_of s a = owner r.
Proof. unfold owner_of. now intros ->. Qed.

Lemma strong_of_eq s a r : nth_error (arcs s) a = Some r -> strong_of s a = strong r.
Proof. unfold strong_of. now intros ->. Qed.

Lemma drops_exact_none s s' : (forall a, 0 < strong_of s a -> 0 < strong_of s' a) -> drops_exact s s' [].
Proof.
  intros H a. split; intros K; [|reflexivity]. destruct K as (K1 & K2). specialize (H a K1). lia.
Qed.

Lemma owns_other a b h : owns a h = 1 -> a <> b -> owns b h = 0.
Proof.
  destruct h as [|[x|] ? [?|]|x ? [?|]|x ?]; cbn; try discriminate;
    destruct (Nat.eqb_spec x a); try discriminate; intros _ D; destruct (Nat.eqb_spec x b); auto; congruence.
Qed.

(* increment of a through a handle of the pool, result stored in a fresh slot *)
Lemma inc_inv s i a hnew c :
  Inv s -> In (nth i (pool s) HDead) (pool s) -> owns a (nth i (pool s) HDead) = 1 -> wfh s hnew ->
  (forall b, owns b hnew = if a =? b then 1 else 0) ->
  exists s' r ev,
    match arc_inc s a (owner_of s a) with Ok (s', ev) => newslot s' hnew c ev | _ => UB end = Ok (s', r, ev) /\
    Inv s' /\ ev_by_owner s ev /\ drops_exact s s' ev /\ ext s s'.
Proof.
  intros I In1 O W Ob. pose proof I as (F & C).
  destruct (arc_inc_ok s a (owner_of s a) (owns_pos_strong s a _ I In1 O)) as (r & N & ->).
  do 3 eexists; split; [reflexivity|].
  assert (E : ext s (mks (pool s) (set_nth (arcs s) a (mka (S (strong r)) (payload r) (owner r)))))
    by (eapply ext_set_arc; eauto).
  split; [|split; [|split; [|exact E]]].
  - split; cbn [pool add_h arcs].
    + apply Forall_app; split.
      * eapply Forall_wfh_ext; [exact E|exact F].
      * constructor; auto. eapply wfh_ext; [exact E|exact W].
    + intros b. rewrite owners_app. cbn [owners]. rewrite Ob.
      change (strong_of (add_h (mks (pool s) (set_nth (arcs s) a (mka (S (strong r)) (payload r) (owner r)))) hnew) b)
        with (strong_of (mks (pool s) (set_nth (arcs s) a (mka (S (strong r)) (payload r) (owner r)))) b).
      rewrite (strong_of_set s (pool s) a r _ b N). cbn [strong]. rewrite <- C.
      destruct (Nat.eqb_spec a b) as [->|]; [rewrite (strong_of_eq _ _ _ N)|]; lia.
  - constructor; [reflexivity|constructor].
  - intros b. split; intros K; [|reflexivity]. exfalso. destruct K as (K1 & K2).
    change (strong_of (add_h (mks (pool s) (set_nth (arcs s) a (mka (S (strong r)) (payload r) (owner r)))) hnew) b)
      with (strong_of (mks (pool s) (set_nth (arcs s) a (mka (S (strong r)) (payload r) (owner r)))) b) in K2.
    rewrite (strong_of_set s (pool s) a r _ b N) in K2. cbn [strong] in K2.
    destruct (Nat.eqb_spec a b); lia.
Qed.

(* decrement of a through slot h, which dies *)
Lemma dec_inv s h a :
  Inv s -> h < length (pool s) -> In (nth h (pool s) HDead) (pool s) -> owns a (nth h (pool s) HDead) = 1 ->
  exists s' r ev,
    match arc_dec s a (owner_of s a) with Ok (s', ev) => Ok (set_h s' h HDead, [12; 1; -1]%Z, ev) | _ => UB end = Ok (s', r, ev) /\
    Inv s' /\ ev_by_owner s ev /\ drops_exact s s' ev /\ ext s s'.
Proof.
  intros I L I1 O. pose proof I as (F & C).
  pose proof (owns_pos_strong s a _ I I1 O) as P.
  destruct (arc_dec_ok s a (owner_of s a) P) as (r & s' & ev & N & -> & -> & ->).
  rewrite (strong_of_eq _ _ _ N) in P.
  do 3 eexists; split; [reflexivity|].
  set (r' := mka (strong r - 1) (payload r) (owner r)).
  assert (E : ext s (mks (pool s) (set_nth (arcs s) a r'))) by (eapply ext_set_arc; eauto).
  assert (SS : forall b, strong_of (set_h (mks (pool s) (set_nth (arcs s) a r')) h HDead) b
                         = if a =? b then strong r - 1 else strong_of s b).
  { intros b. change (strong_of (set_h (mks (pool s) (set_nth (arcs s) a r')) h HDead) b)
      with (strong_of (mks (pool s) (set_nth (arcs s) a r')) b).
    now rewrite (strong_of_set s (pool s) a r r' b N). }
  split; [|split; [|split]].
  - split.
    + cbn [set_h pool arcs]. apply Forall_set_nth; [|exact Logic.I].
      eapply Forall_wfh_ext; [exact E|exact F].
    + intros b. rewrite SS. cbn [set_h pool arcs].
      pose proof (owners_set_nth b (pool s) h HDead L) as OS. cbn [owns] in OS.
      pose proof (C b) as Cb.
      destruct (Nat.eqb_spec a b) as [->|D].
      * rewrite O in OS. rewrite (strong_of_eq _ _ _ N) in Cb. lia.
      * rewrite (owns_other a b _ O D) in OS. lia.
  - constructor; [reflexivity|]. destruct (strong r =? 1); repeat constructor.
  - intros b. rewrite SS. unfold dropcount. cbn [flat_map app].
    destruct (Nat.eqb_spec a b) as [->|D].
    + rewrite (strong_of_eq _ _ _ N). destruct (Nat.eqb_spec (strong r) 1) as [E1|E1]; cbn [flat_map app count_occ].
      * destruct (Nat.eq_dec b b); [|congruence]. split; intros; [reflexivity|lia].
      * split; intros; [lia|reflexivity].
    + destruct (Nat.eqb_spec (strong r) 1) as [E1|E1]; cbn [flat_map app count_occ].
      * destruct (Nat.eq_dec a b); [congruence|]. split; intros; [lia|reflexivity].
      * split; intros; [lia|reflexivity].
  - split; [cbn [set_h arcs]; now rewrite set_nth_length|].
    intros b Hb. destruct E as (_ & E). now apply E.
Qed.

Theorem astep_inv s o : Inv s ->
  exists s' r ev, astep s o = Ok (s', r, ev) /\ Inv s' /\ ev_by_owner s ev /\ drops_exact s s' ev /\ ext s s'.
Proof.
  intros I. pose proof I as (F & C).
  assert (NEW : forall m v h c,
      wfh (mks (pool s) (arcs s ++ [mka 1 v m])) h ->
      (forall a, owns a h = if length (arcs s) =? a then 1 else 0) ->
      exists s' r ev, newslot (mks (pool s) (arcs s ++ [mka 1 v m])) h c [] = Ok (s', r, ev) /\ Inv s' /\
                      ev_by_owner s ev /\ drops_exact s s' ev /\ ext s s').
  { intros m v h c W O. do 3 eexists; split; [reflexivity|]. split; [|split; [apply Forall_nil|split]].
    - split; cbn.
      + apply Forall_app; split; [|constructor; auto].
        eapply Forall_wfh_ext; [|exact F]. apply ext_app_arc.
      + intros a. rewrite owners_app. cbn [owners]. rewrite O, <- C.
        unfold strong_of; cbn. destruct (Nat.eqb_spec (length (arcs s)) a) as [<-|D].
        * rewrite nth_error_app2, Nat.sub_diag by lia. cbn.
          assert (nth_error (arcs s) (length (arcs s)) = None) as -> by (apply nth_error_None; lia). lia.
        * destruct (Nat.lt_ge_cases a (length (arcs s))).
          -- rewrite nth_error_app1 by lia. lia.
          -- rewrite nth_error_app2 by lia.
             assert (nth_error (arcs s) a = None) as -> by (apply nth_error_None; lia).
             destruct (a - length (arcs s)) as [|k] eqn:K; [lia|]. cbn. destruct k; cbn; lia.
    - apply drops_exact_none. intros a Ha. unfold strong_of in *; cbn.
      destruct (nth_error (arcs s) a) eqn:N; [|lia]. rewrite nth_error_app1; [now rewrite N|].
      apply nth_error_Some; congruence.
    - apply ext_app_arc. }
  assert (OWN_NEW : forall m v, owner_of (mks (pool s) (arcs s ++ [mka 1 v m])) (length (arcs s)) = m).
  { intros. unfold owner_of; cbn. now rewrite nth_error_app2, Nat.sub_diag by lia. }
  assert (MOVE : forall i hnew repl c,
      i < length (pool s) -> wfh s hnew -> wfh s repl ->
      (forall a, owns a hnew + owns a repl = owns a (nth i (pool s) HDead)) ->
      exists s' r ev, newslot (set_h s i repl) hnew c [] = Ok (s', r, ev) /\ Inv s' /\
                      ev_by_owner s ev /\ drops_exact s s' ev /\ ext s s').
  { intros i hnew repl c L W1 W2 O. do 3 eexists; split; [reflexivity|].
    split; [now apply move_inv|]. split; [apply Forall_nil|]. split; [|apply ext_same_arcs; reflexivity].
    apply drops_exact_none. auto. }
  assert (REJ : forall c, exists s' r ev, rej s c = Ok (s', r, ev) /\ Inv s' /\ ev_by_owner s ev /\ drops_exact s s' ev /\ ext s s').
  { intros c. do 3 eexists; split; [reflexivity|]. split; auto. split; [apply Forall_nil|]. split; [|apply ext_refl].
    apply drops_exact_none; auto. }
  destruct o as [m v|m v|m v|h|h| |h|h|h|h|h|h|h]; cbn [astep].
  - apply NEW.
    + cbn. rewrite app_length, OWN_NEW. cbn. repeat split; auto; lia.
    + intros a. reflexivity.
  - apply NEW.
    + cbn. rewrite app_length, OWN_NEW. cbn. repeat split; auto; lia.
    + intros a. reflexivity.
  - apply NEW.
    + cbn. rewrite app_length, OWN_NEW. cbn. repeat split; auto; lia.
    + intros a. reflexivity.
  - destruct (get_h s h) as [|? ? ?|? ? ?|a m] eqn:G; try apply REJ.
    inv_pool. pose proof (Inv_wfh s _ I I0) as (Wa & ->). apply MOVE; auto.
    + cbn. auto.
    + cbn. exact Logic.I.
    + intros b. unfold get_h in G. rewrite G. cbn. lia.
  - destruct (get_h s h) as [|? ? ?|? ? ?|a m] eqn:G; try apply REJ.
    inv_pool. pose proof (Inv_wfh s _ I I0) as (Wa & ->). apply MOVE; auto.
    + cbn. auto.
    + cbn. exact Logic.I.
    + intros b. unfold get_h in G. rewrite G. cbn. lia.
  - (* FromNone *)
    do 3 eexists; split; [reflexivity|]. split; [|split; [apply Forall_nil|split; [apply drops_exact_none; auto|apply ext_same_arcs; reflexivity]]].
    split; cbn.
    + apply Forall_app; split; auto. constructor; cbn; auto.
    + intros a. rewrite owners_app. cbn [owners]. rewrite <- C. unfold strong_of; cbn. lia.
  - (* Clone *)
    destruct (get_h s h) as [|[a|] c d|a c d|a m] eqn:G; try apply REJ.
    + inv_pool. pose proof (Inv_wfh s _ I I0) as (Wa & -> & ->).
      unfold get_h in G. rewrite <- G in I0.
      apply (inc_inv s h a _ 6 I I0); auto.
      * rewrite G. cbn. now rewrite Nat.eqb_refl.
      * cbn. auto.
    + (* empty *)
      do 3 eexists; split; [reflexivity|]. split; [|split; [apply Forall_nil|split; [apply drops_exact_none; auto|apply ext_same_arcs; reflexivity]]].
      split; cbn.
      * apply Forall_app; split; auto. constructor; cbn; auto.
      * intros a. rewrite owners_app. cbn [owners]. rewrite <- C. unfold strong_of; cbn. lia.
    + inv_pool. pose proof (Inv_wfh s _ I I0) as (Wa & -> & ->).
      unfold get_h in G. rewrite <- G in I0.
      apply (inc_inv s h a _ 6 I I0); auto.
      * rewrite G. cbn. now rewrite Nat.eqb_refl.
      * cbn. auto.
    + inv_pool. pose proof (Inv_wfh s _ I I0) as (Wa & ->).
      unfold get_h in G. rewrite <- G in I0.
      apply (inc_inv s h a _ 6 I I0); auto.
      * rewrite G. cbn. now rewrite Nat.eqb_refl.
      * cbn. auto.
  - (* Take *)
    destruct (get_h s h) as [|i c d|? ? ?|? ?] eqn:G; try apply REJ.
    inv_pool. pose proof (Inv_wfh s _ I I0) as W. apply MOVE; auto.
    + cbn. exact Logic.I.
    + intros b. unfold get_h in G. rewrite G. cbn. lia.
  - (* ToSome *)
    destruct (get_h s h) as [|[a|] c d|? ? ?|? ?] eqn:G; try apply REJ.
    + inv_pool. pose proof (Inv_wfh s _ I I0) as (Wa & -> & ->). apply MOVE; auto.
      * cbn. auto.
      * cbn. exact Logic.I.
      * intros b. unfold get_h in G. rewrite G. cbn. lia.
    + inv_pool. do 3 eexists; split; [reflexivity|].
      split; [|split; [apply Forall_nil|split; [apply drops_exact_none; auto|apply ext_same_arcs; reflexivity]]].
      split; cbn.
      * apply Forall_set_nth; auto. cbn. exact Logic.I.
      * intros a. unfold strong_of in *; cbn. rewrite C.
        pose proof (owners_set_nth a (pool s) h HDead L). unfold get_h in G. rewrite G in H. cbn in H. lia.
  - (* ToOpt *)
    destruct (get_h s h) as [|? ? ?|a c d|? ?] eqn:G; try apply REJ.
    inv_pool. pose proof (Inv_wfh s _ I I0) as (Wa & -> & ->). apply MOVE; auto.
    + cbn. auto.
    + cbn. exact Logic.I.
    + intros b. unfold get_h in G. rewrite G. cbn. lia.
  - (* Opaque *)
    destruct (get_h s h) as [|i c d|a c d|? ?] eqn:G; try apply REJ.
    + inv_pool. pose proof (Inv_wfh s _ I I0) as W. apply MOVE; auto.
      * cbn. exact Logic.I.
      * intros b. unfold get_h in G. rewrite G. cbn. lia.
    + inv_pool. pose proof (Inv_wfh s _ I I0) as W. apply MOVE; auto.
      * cbn. exact Logic.I.
      * intros b. unfold get_h in G. rewrite G. cbn. lia.
  - (* IntoArc *)
    destruct (get_h s h) as [|? ? ?|a c d|? ?] eqn:G; try apply REJ.
    inv_pool. pose proof (Inv_wfh s _ I I0) as (Wa & -> & ->). apply MOVE; auto.
    + cbn. auto.
    + cbn. exact Logic.I.
    + intros b. unfold get_h in G. rewrite G. cbn. lia.
  - (* Drop *)
    destruct (get_h s h) as [|i c d|a c d|a m] eqn:G; try apply REJ.
    all: inv_pool; pose proof (Inv_wfh s _ I I0) as W.
    all: unfold get_h in G; assert (I1 : In (nth h (pool s) HDead) (pool s)) by (rewrite G; exact I0).
    + (* CArc *)
      destruct i as [a|].
      * destruct W as (Wa & -> & ->). cbn [drop_handle drop_arc drop_some].
        apply dec_inv; auto. rewrite G. cbn. now rewrite Nat.eqb_refl.
      * cbn [drop_handle drop_arc]. do 3 eexists; split; [reflexivity|].
        split; [|split; [apply Forall_nil|split; [apply drops_exact_none; auto|apply ext_same_arcs; reflexivity]]].
        split; cbn.
        -- apply Forall_set_nth; auto.
        -- intros a. unfold strong_of in *; cbn. rewrite C.
           pose proof (owners_set_nth a (pool s) h HDead L). rewrite G in H. cbn in H. lia.
    + destruct W as (Wa & -> & ->). cbn [drop_handle drop_some].
      apply dec_inv; auto. rewrite G. cbn. now rewrite Nat.eqb_refl.
    + destruct W as (Wa & ->). cbn [drop_handle].
      apply dec_inv; auto. rewrite G. cbn. now rewrite Nat.eqb_refl.
Qed.

(* ---- a freed allocation is never touched again (no Inv needed: the model itself refuses) -- *)
Lemma arc_inc_dead s a m s' ev b :
  arc_inc s a m = Ok (s', ev) -> strong_of s b = 0 -> b < length (arcs s) -> strong_of s' b = 0.
Proof.
  unfold arc_inc. destruct (nth_error (arcs s) a) as [r|] eqn:N; [|discriminate].
  destruct (Nat.eqb_spec (strong r) 0) as [Z|NZ]; [discriminate|]. intros E H L. inversion E; subst.
  rewrite (strong_of_set s (pool s) a r _ b N). destruct (Nat.eqb_spec a b) as [->|]; auto.
  rewrite (strong_of_eq _ _ _ N) in H. lia.
Qed.

Lemma arc_dec_dead s a m s' ev b :
  arc_dec s a m = Ok (s', ev) -> strong_of s b = 0 -> b < length (arcs s) -> strong_of s' b = 0.
Proof.
  unfold arc_dec. destruct (nth_error (arcs s) a) as [r|] eqn:N; [|discriminate].
  destruct (strong r) as [|[|n]] eqn:S; [discriminate| |]; intros E H L; inversion E; subst;
    rewrite (strong_of_set s (pool s) a r _ b N); destruct (Nat.eqb_spec a b) as [->|]; auto;
    rewrite (strong_of_eq _ _ _ N) in H; lia.
Qed.

Lemma strong_of_pool s p b : strong_of (mks p (arcs s)) b = strong_of s b.
Proof. reflexivity. Qed.

Lemma strong_of_app s p r b : b < length (arcs s) -> strong_of (mks p (arcs s ++ [r])) b = strong_of s b.
Proof. intros L. unfold strong_of; cbn. now rewrite nth_error_app1. Qed.

(* how one step can change the allocation table *)
Lemma astep_arcs s o s' r ev : astep s o = Ok (s', r, ev) ->
  arcs s' = arcs s \/ (exists v m, arcs s' = arcs s ++ [mka 1 v m]) \/
  (exists a m s1 ev1, arc_inc s a m = Ok (s1, ev1) /\ arcs s' = arcs s1) \/
  (exists a m s1 ev1, arc_dec s a m = Ok (s1, ev1) /\ arcs s' = arcs s1).
Proof.
  intros E. destruct o; cbn [astep] in E; unfold drop_handle, drop_arc, drop_some in E;
  repeat match type of E with
         | context [match get_h ?s ?h with _ => _ end] => destruct (get_h s h) eqn:?
         | context [match ?x with _ => _ end] => destruct x eqn:?
         end; try discriminate; unfold newslot, rej in E; inversion E; subst; cbn [arcs add_h set_h];
  repeat match goal with
         | H : match ?x with _ => _ end = Ok _ |- _ => destruct x eqn:?
         | H : Ok (_, _) = Ok (_, _) |- _ => inversion H; subst; clear H
         end;
  first [ left; reflexivity
        | right; left; do 2 eexists; reflexivity
        | right; right; left; do 4 eexists; split; [eassumption|reflexivity]
        | right; right; right; do 4 eexists; split; [eassumption|reflexivity] ].
Qed.

Lemma arc_inc_len s a m s' ev : arc_inc s a m = Ok (s', ev) -> length (arcs s') = length (arcs s).
Proof.
  unfold arc_inc. destruct (nth_error (arcs s) a); [|discriminate]. destruct (strong a0 =? 0); [discriminate|].
  intros E; inversion E; subst; cbn. apply set_nth_length.
Qed.
Lemma arc_dec_len s a m s' ev : arc_dec s a m = Ok (s', ev) -> length (arcs s') = length (arcs s).
Proof.
  unfold arc_dec. destruct (nth_error (arcs s) a); [|discriminate]. destruct (strong a0) as [|[|n]]; [discriminate| |];
  intros E; inversion E; subst; cbn; apply set_nth_length.
Qed.

Lemma strong_of_arcs s s' b : arcs s' = arcs s -> strong_of s' b = strong_of s b.
Proof. unfold strong_of. now intros ->. Qed.

Lemma astep_dead s o s' r ev b :
  astep s o = Ok (s', r, ev) -> b < length (arcs s) -> strong_of s b = 0 -> strong_of s' b = 0.
Proof.
  intros E L H. destruct (astep_arcs _ _ _ _ _ E) as [A|[(v & m & A)|[(a & m & s1 & ev1 & X & A)|(a & m & s1 & ev1 & X & A)]]].
  - now rewrite (strong_of_arcs _ _ _ A).
  - unfold strong_of in *. rewrite A, nth_error_app1 by lia. exact H.
  - rewrite (strong_of_arcs _ _ _ A). eapply arc_inc_dead; eauto.
  - rewrite (strong_of_arcs _ _ _ A). eapply arc_dec_dead; eauto.
Qed.

(* a slot of the table that did not exist before the step starts with count 1 *)
Lemma astep_fresh s o s' r ev b :
  astep s o = Ok (s', r, ev) -> length (arcs s) <= b -> b < length (arcs s') -> strong_of s' b = 1.
Proof.
  intros E L1 L2. destruct (astep_arcs _ _ _ _ _ E) as [A|[(v & m & A)|[(a & m & s1 & ev1 & X & A)|(a & m & s1 & ev1 & X & A)]]].
  - rewrite A in L2. lia.
  - unfold strong_of. rewrite A in *. rewrite app_length in L2. cbn in L2.
    assert (b = length (arcs s)) as -> by lia. now rewrite nth_error_app2, Nat.sub_diag by lia.
  - rewrite A, (arc_inc_len _ _ _ _ _ X) in L2. lia.
  - rewrite A, (arc_dec_len _ _ _ _ _ X) in L2. lia.
Qed.

Lemma astep_len s o s' r ev : astep s o = Ok (s', r, ev) -> length (arcs s) <= length (arcs s').
Proof.
  intros E. destruct (astep_arcs _ _ _ _ _ E) as [A|[(v & m & A)|[(a & m & s1 & ev1 & X & A)|(a & m & s1 & ev1 & X & A)]]]; rewrite A.
  - lia. - rewrite app_length; lia. - now rewrite (arc_inc_len _ _ _ _ _ X). - now rewrite (arc_dec_len _ _ _ _ _ X).
Qed.

(* ---- whole histories -------------------------------------------------------------------- *)
Fixpoint exec (s : st) (ops : list aop) : option (st * list aev) :=
  match ops with
  | [] => Some (s, [])
  | o :: os => match astep s o with
               | Ok (s1, _, ev1) => match exec s1 os with
                                    | Some (s2, ev2) => Some (s2, ev1 ++ ev2)
                                    | None => None
                                    end
               | _ => None
               end
  end.

Lemma dropcount_app e1 e2 a : dropcount (e1 ++ e2) a = dropcount e1 a + dropcount e2 a.
Proof. unfold dropcount. now rewrite flat_map_app, count_occ_app. Qed.

Lemma ext_trans s1 s2 s3 : ext s1 s2 -> ext s2 s3 -> ext s1 s3.
Proof.
  intros (L1 & O1) (L2 & O2). split; [lia|]. intros a H. rewrite O2 by lia. now apply O1.
Qed.

(* 1 when allocation a exists and has been freed, else 0 *)
Definition deadn (s : st) (a : nat) : nat :=
  if (a <? length (arcs s)) && (strong_of s a =? 0) then 1 else 0.

Lemma step_dropcount s o s' r ev a :
  Inv s -> astep s o = Ok (s', r, ev) -> drops_exact s s' ev -> dropcount ev a + deadn s a = deadn s' a.
Proof.
  intros I E DE. destruct (DE a) as (D1 & D2). pose proof (astep_len _ _ _ _ _ E) as LL. unfold deadn.
  destruct (Nat.ltb_spec a (length (arcs s))) as [L|L]; cbn [andb].
  - destruct (Nat.ltb_spec a (length (arcs s'))); [|lia]. cbn [andb].
    destruct (Nat.eqb_spec (strong_of s a) 0) as [Z|NZ].
    + rewrite (astep_dead _ _ _ _ _ a E L Z). cbn. rewrite D2; lia.
    + destruct (Nat.eqb_spec (strong_of s' a) 0) as [Z'|NZ']; [rewrite D1; lia | rewrite D2; lia].
  - assert (S0 : strong_of s a = 0) by (unfold strong_of; assert (nth_error (arcs s) a = None) as -> by (apply nth_error_None; lia); reflexivity).
    rewrite D2 by lia.
    destruct (Nat.ltb_spec a (length (arcs s'))); cbn [andb]; [|reflexivity].
    rewrite (astep_fresh _ _ _ _ _ a E) by lia. reflexivity.
Qed.

Definition in_range (s : st) (e : aev) : Prop :=
  match e with AInc a _ | ADec a _ | ADropPayload a _ => a < length (arcs s) end.

Lemma arc_inc_range s a m s1 ev1 : arc_inc s a m = Ok (s1, ev1) -> Forall (in_range s) ev1.
Proof.
  unfold arc_inc. destruct (nth_error (arcs s) a) eqn:N; [|discriminate].
  destruct (strong a0 =? 0); [discriminate|]. intros X; inversion X; subst.
  repeat constructor. apply nth_error_Some. congruence.
Qed.
Lemma arc_dec_range s a m s1 ev1 : arc_dec s a m = Ok (s1, ev1) -> Forall (in_range s) ev1.
Proof.
  unfold arc_dec. destruct (nth_error (arcs s) a) eqn:N; [|discriminate].
  assert (a < length (arcs s)) by (apply nth_error_Some; congruence).
  destruct (strong a0) as [|[|n]]; [discriminate| |]; intros X; inversion X; subst; repeat constructor; auto.
Qed.

Lemma astep_range s o s' r ev : astep s o = Ok (s', r, ev) -> Forall (in_range s) ev.
Proof.
  intros E. destruct o; cbn [astep] in E; unfold drop_handle, drop_arc, drop_some in E;
  repeat match type of E with
         | context [match get_h ?s ?h with _ => _ end] => destruct (get_h s h) eqn:?
         | context [match ?x with _ => _ end] => destruct x eqn:?
         end; try discriminate; unfold newslot, rej in E; inversion E; subst;
  repeat match goal with
         | H : match ?x with _ => _ end = Ok _ |- _ => destruct x eqn:?
         | H : Ok (_, _) = Ok (_, _) |- _ => inversion H; subst; clear H
         end;
  first [ now constructor | eapply arc_inc_range; eassumption | eapply arc_dec_range; eassumption ].
Qed.

Theorem exec_inv ops : forall s, Inv s ->
  exists s' ev, exec s ops = Some (s', ev) /\ Inv s' /\ ext s s' /\
    Forall (fun e => match e with AInc a m | ADec a m => m = owner_of s' a | _ => True end) ev /\
    forall a, dropcount ev a + deadn s a = deadn s' a.
Proof.
  induction ops as [|o os IH]; intros s I; cbn [exec].
  - exists s, []. split; [reflexivity|]. split; [exact I|]. split; [apply ext_refl|]. split; [constructor|].
    intros a. reflexivity.
  - destruct (astep_inv s o I) as (s1 & r & ev1 & E & I1 & BO & DE & X1). rewrite E.
    destruct (IH s1 I1) as (s2 & ev2 & E2 & I2 & X2 & BO2 & D). rewrite E2.
    exists s2, (ev1 ++ ev2). split; [reflexivity|]. split; [exact I2|]. split; [eapply ext_trans; eauto|].
    split.
    + apply Forall_app; split; auto.
      pose proof (astep_range _ _ _ _ _ E) as RNG. unfold ev_by_owner in BO.
      rewrite Forall_forall in *. intros e He. specialize (BO e He). specialize (RNG e He).
      destruct X1 as (L1 & O1), X2 as (L2 & O2).
      destruct e as [a m|a m|a v]; auto; cbn [in_range] in RNG; rewrite BO; symmetry; rewrite O2 by lia; now apply O1.
    + intros a. rewrite dropcount_app, <- D, <- (step_dropcount s o s1 r ev1 a I E DE). lia.
Qed.

(* ---- calls view: the code of module m runs exactly the count changes of the allocations module m created ----------- *)
Definition incs_on (s : st) (m : nat) (ev : list aev) : nat :=
  length (filter (fun e => match e with AInc a _ => owner_of s a =? m | _ => false end) ev).
Definition decs_on (s : st) (m : nat) (ev : list aev) : nat :=
  length (filter (fun e => match e with ADec a _ => owner_of s a =? m | _ => false end) ev).

Lemma calls_by_owner s m ev :
  Forall (fun e => match e with AInc a m' | ADec a m' => m' = owner_of s a | _ => True end) ev ->
  incs_by m ev = incs_on s m ev /\ decs_by m ev = decs_on s m ev.
Proof.
  unfold incs_by, incs_on, decs_by, decs_on.
  induction 1 as [|e ev He _ IH]; [split; reflexivity|]. destruct IH as (IH1 & IH2).
  destruct e as [a m'|a m'|a v]; cbn [filter]; try subst m'.
  - split; [|exact IH2]. destruct (owner_of s a =? m); cbn [length]; congruence.
  - split; [exact IH1|]. destruct (owner_of s a =? m); cbn [length]; congruence.
  - split; assumption.
Qed.

(* the per-operation event logs of a history, and the rows of the calls view *)
Fixpoint steps (s : st) (ops : list aop) : option (st * list (list aev)) :=
  match ops with
  | [] => Some (s, [])
  | o :: os => match astep s o with
               | Ok (s1, _, ev1) => match steps s1 os with
                                    | Some (s2, evs) => Some (s2, ev1 :: evs)
                                    | None => None
                                    end
               | _ => None
               end
  end.
Fixpoint odd_rows (rows : list (list Z)) : list (list Z) :=
  match rows with _ :: c :: rest => c :: odd_rows rest | _ => [] end.

(* from the empty state *)
Lemma Inv_init : Inv init.
Proof. split; [constructor|]. intros a. unfold strong_of; cbn. now destruct a. Qed.

Lemma steps_exec : forall ops s f evs, steps s ops = Some (f, evs) -> exec s ops = Some (f, concat evs).
Proof.
  induction ops as [|o os IH]; intros s f evs E; cbn [steps exec] in *.
  - inversion E; subst. reflexivity.
  - destruct (astep s o) as [[[s1 r] ev1]| |]; try discriminate.
    destruct (steps s1 os) as [[s2 evs2]|] eqn:E2; [|discriminate]. inversion E; subst.
    rewrite (IH _ _ _ E2). reflexivity.
Qed.

Lemma arun_calls_steps : forall ops s rows f, arun_calls_raw s ops = (rows, Some f) ->
  exists evs, steps s ops = Some (f, evs) /\ odd_rows rows = map (calls_of 1) evs.
Proof.
  induction ops as [|o os IH]; intros s rows f E; cbn [arun_calls_raw steps] in *.
  - inversion E; subst. exists []. split; reflexivity.
  - destruct (astep s o) as [[[s1 r] ev1]| |]; try discriminate.
    destruct (arun_calls_raw s1 os) as [rows1 fin] eqn:E1. inversion E; subst.
    destruct (IH _ _ _ E1) as (evs & S1 & O1). rewrite S1. exists (ev1 :: evs). split; [reflexivity|].
    cbn [odd_rows map]. now rewrite O1.
Qed.

Lemma Forall_concat {A} (P : A -> Prop) (ls : list (list A)) : Forall P (concat ls) -> Forall (Forall P) ls.
Proof. induction ls as [|l ls IH]; cbn [concat]; intros F; [constructor|]. apply Forall_app in F. destruct F. constructor; auto. Qed.

Theorem calls_view ops s evs : steps init ops = Some (s, evs) ->
  Forall (fun ev => forall m, incs_by m ev = incs_on s m ev /\ decs_by m ev = decs_on s m ev) evs.
Proof.
  intros E. pose proof (steps_exec _ _ _ _ E) as X.
  destruct (exec_inv ops init Inv_init) as (s' & ev' & E' & _ & _ & R & _). rewrite X in E'. inversion E'; subst.
  apply Forall_concat in R. rewrite Forall_forall in *. intros ev He m. apply calls_by_owner. apply R. exact He.
Qed.

(* ---- the view of one thread: result rows and handle kinds do not depend on the counts ---------------------------- *)
Lemma arc_inc_shape s a m s' ev : arc_inc s a m = Ok (s', ev) -> pool s' = pool s /\ length (arcs s') = length (arcs s).
Proof.
  unfold arc_inc. destruct (nth_error (arcs s) a) as [r|]; [|discriminate]. destruct (strong r =? 0); [discriminate|].
  intros E. inversion E; subst. cbn [pool arcs]. split; [reflexivity|apply set_nth_length].
Qed.
Lemma arc_dec_shape s a m s' ev : arc_dec s a m = Ok (s', ev) -> pool s' = pool s /\ length (arcs s') = length (arcs s).
Proof.
  unfold arc_dec. destruct (nth_error (arcs s) a) as [r|]; [|discriminate]. destruct (strong r) as [|[|n]]; [discriminate| |];
    intros E; inversion E; subst; cbn [pool arcs]; (split; [reflexivity|apply set_nth_length]).
Qed.
Lemma drop_handle_shape s h s' ev : drop_handle s h = Ok (s', ev) -> pool s' = pool s /\ length (arcs s') = length (arcs s).
Proof.
  destruct h as [|[a|] c d|a c d|a m]; cbn [drop_handle drop_arc drop_some]; try (intros E; inversion E; subst; auto; fail).
  - destruct d; [apply arc_dec_shape|intros E; inversion E; subst; auto].
  - destruct d; [apply arc_dec_shape|intros E; inversion E; subst; auto].
  - apply arc_dec_shape.
Qed.

Definition same_view (s1 s2 : st) : Prop := pool s1 = pool s2 /\ length (arcs s1) = length (arcs s2).

Theorem thread_view o s1 s2 s1' s2' r1 r2 e1 e2 : same_view s1 s2 ->
  astep s1 o = Ok (s1', r1, e1) -> astep s2 o = Ok (s2', r2, e2) -> r1 = r2 /\ same_view s1' s2'.
Proof.
  intros (P & L) E1 E2. unfold same_view.
  destruct o as [m v|m v|m v|h|h| |h|h|h|h|h|h|h]; cbn [astep] in E1, E2; unfold get_h, newslot, rej, set_h, add_h in *; rewrite <- P in E2.
  1-3: rewrite <- L in E2; inversion E1; inversion E2; subst; cbn [pool arcs]; rewrite !app_length, P, L; auto.
  all: try (destruct (nth h (pool s1) HDead) as [|[a|] [c|] d|a c d|a m]; inversion E1; inversion E2; subst; cbn [pool arcs]; rewrite ?P, ?L; auto; fail).
  - (* AFromNone *) inversion E1; inversion E2; subst; cbn [pool arcs]; rewrite ?P, ?L; auto.
  - (* AClone *)
    destruct (nth h (pool s1) HDead) as [|[a|] [c|] d|a c d|a m]; try discriminate;
      try (inversion E1; inversion E2; subst; cbn [pool arcs]; rewrite ?P, ?L; auto; fail);
    match type of E1 with context [arc_inc s1 ?a ?c] => destruct (arc_inc s1 a c) as [[t1 v1]| |] eqn:I1; try discriminate;
           destruct (arc_inc s2 a c) as [[t2 v2]| |] eqn:I2; try discriminate;
           apply arc_inc_shape in I1; apply arc_inc_shape in I2; destruct I1 as (Q1 & M1), I2 as (Q2 & M2);
           inversion E1; inversion E2; subst; cbn [pool arcs]; rewrite Q1, Q2, M1, M2, P, L; auto end.
  - (* AIntoArc *)
    destruct (nth h (pool s1) HDead) as [|i c d|a c [d|]|a m]; try discriminate; inversion E1; inversion E2; subst; cbn [pool arcs]; rewrite ?P, ?L; auto.
  - (* ADrop *)
    destruct (nth h (pool s1) HDead) as [|i c d|a c d|a m] eqn:G; try (inversion E1; inversion E2; subst; auto; fail);
    match type of E1 with context [drop_handle s1 ?hh] => destruct (drop_handle s1 hh) as [[t1 v1]| |] eqn:D1; try discriminate;
           destruct (drop_handle s2 hh) as [[t2 v2]| |] eqn:D2; try discriminate;
           apply drop_handle_shape in D1; apply drop_handle_shape in D2; destruct D1 as (Q1 & M1), D2 as (Q2 & M2);
           inversion E1; inversion E2; subst; cbn [pool arcs]; rewrite Q1, Q2, M1, M2, P, L; auto end.
Qed.

Definition kind_h (h : handle) : Z :=
  match h with HDead => 0 | HArc None _ _ => 1 | HArc (Some _) _ _ => 2 | HSome _ _ _ => 3 | HStd _ _ => 4 end.

Lemma kinds_of_obs s p : kinds_of (flat_map (obs_h s) p) = map kind_h p.
Proof.
  induction p as [|h p IH]; [reflexivity|]. cbn [flat_map map].
  destruct h as [|[a|] c d|a c d|a m]; cbn [obs_h kind_h app]; try (cbn [kinds_of]; now rewrite IH).
  all: destruct (nth_error (arcs s) a); cbn [app kinds_of]; now rewrite IH.
Qed.

(* whole histories: two runs of the same history from states with the same handles — whatever the counts are, i.e. whatever
   other threads did to the shared allocations in between — produce the same result rows and the same handle kinds *)
Theorem thread_rows ops : forall s1 s2 rows1 f1 rows2 f2, same_view s1 s2 ->
  arun_raw s1 ops = (rows1, Some f1) -> arun_raw s2 ops = (rows2, Some f2) ->
  proj_thread rows1 = proj_thread rows2 /\ same_view f1 f2.
Proof.
  induction ops as [|o os IH]; intros s1 s2 rows1 f1 rows2 f2 V R1 R2; cbn [arun_raw] in R1, R2.
  - inversion R1; inversion R2; subst. auto.
  - destruct (astep s1 o) as [[[t1 r1] e1]| |] eqn:A1; try (inversion R1; fail).
    destruct (astep s2 o) as [[[t2 r2] e2]| |] eqn:A2; try (inversion R2; fail).
    destruct (thread_view o s1 s2 t1 t2 r1 r2 e1 e2 V A1 A2) as (-> & V').
    destruct (arun_raw t1 os) as [rw1 g1] eqn:T1. destruct (arun_raw t2 os) as [rw2 g2] eqn:T2.
    inversion R1; inversion R2; subst.
    destruct (IH t1 t2 rw1 f1 rw2 f2 V' T1 T2) as (PR & VF). split; [|exact VF].
    cbn [proj_thread]. unfold obs. rewrite !kinds_of_obs. destruct V' as (-> & _). now rewrite PR.
Qed.
