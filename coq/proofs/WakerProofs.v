(* Proofs about the waker model (repaired code): no UB over any history, one wake of the
   caller's waker per successful wake operation, the clones taken of the caller's waker are
   exactly the live shared records, everything is released once all handles are gone. *)
Require Import Verif.common.Prelude Verif.model.Arc Verif.proofs.ArcProofs Verif.model.Waker.

Fixpoint hcount (r : nat) (hs : list (option nat)) : nat :=
  match hs with
  | [] => 0
  | Some r' :: t => (if r' =? r then 1 else 0) + hcount r t
  | None :: t => hcount r t
  end.
Fixpoint livecount (rs : list rec) : nat :=
  match rs with [] => 0 | x :: t => (if rc x =? 0 then 0 else 1) + livecount t end.

Definition WInv (s : wst) : Prop :=
  Forall (fun x => inner_live x = negb (rc x =? 0)) (recs s) /\
  Forall (fun h => match h with Some r => r < length (recs s) | None => True end) (handles s) /\
  (forall r x, nth_error (recs s) r = Some x -> rc x = hcount r (handles s)) /\
  orig_clones s = livecount (recs s).

Lemma hcount_app r a b : hcount r (a ++ b) = hcount r a + hcount r b.
Proof. induction a as [|[x|] a IH]; cbn [hcount app]; lia. Qed.

Lemma hcount_set_none r hs h : 
  hcount r (set_nth hs h None) + (match nth_error hs h with Some (Some r') => if r' =? r then 1 else 0 | _ => 0 end) = hcount r hs.
Proof.
  revert h; induction hs as [|x hs IH]; intros [|h]; cbn [set_nth hcount nth_error]; try lia.
  - destruct x as [r'|]; lia.
  - specialize (IH h). destruct x as [r'|]; lia.
Qed.

Lemma hcount_out_of_range r hs n :
  Forall (fun h => match h with Some r => r < n | None => True end) hs -> n <= r -> hcount r hs = 0.
Proof.
  induction 1 as [|[x|] hs Hx F IH]; intros L; cbn [hcount]; auto.
  destruct (Nat.eqb_spec x r); [lia|auto].
Qed.

Lemma livecount_app a b : livecount (a ++ b) = livecount a + livecount b.
Proof. induction a as [|x a IH]; cbn [livecount app]; lia. Qed.

Lemma livecount_set rs r x y : nth_error rs r = Some x ->
  livecount (set_nth rs r y) + (if rc x =? 0 then 0 else 1) = livecount rs + (if rc y =? 0 then 0 else 1).
Proof.
  revert r; induction rs as [|z rs IH]; intros [|r] N; cbn [nth_error set_nth livecount] in *; try discriminate.
  - inversion N; subst. lia.
  - specialize (IH r N). lia.
Qed.

Lemma Forall_set_nth' {A} (P : A -> Prop) l i x : Forall P l -> P x -> Forall P (set_nth l i x).
Proof. intros F Px. revert i; induction F; intros [|i]; cbn; constructor; auto. Qed.

Definition wake_inc (r : list Z) : nat :=
  match r with [1; 1; _]%Z | [3; 1; _]%Z | [4; 1; _]%Z => 1 | _ => 0 end.

Lemma handle_of_some s h r : handle_of s h = Some r -> nth_error (handles s) h = Some (Some r).
Proof. unfold handle_of. destruct (nth_error (handles s) h) as [[x|]|]; congruence. Qed.

Lemma in_handles_range s h r : WInv s -> handle_of s h = Some r -> r < length (recs s).
Proof.
  intros (_ & F & _) H. apply handle_of_some in H. rewrite Forall_forall in F.
  apply (F (Some r)). eapply nth_error_In; eauto.
Qed.

Lemma hcount_pos hs h r : nth_error hs h = Some (Some r) -> 0 < hcount r hs.
Proof.
  revert h; induction hs as [|x hs IH]; intros [|h] N; cbn in *; try discriminate.
  - inversion N; subst. rewrite Nat.eqb_refl. lia.
  - specialize (IH h N). destruct x; lia.
Qed.

(* releasing one reference to record r through slot h (already cleared) *)
Lemma release_ok s h r x :
  WInv s -> handle_of s h = Some r -> nth_error (recs s) r = Some x ->
  forall w, exists s', release_handle true (kill_handle (mkw (recs s) (handles s) w (orig_clones s)) h) r = Ok s' /\
            WInv s' /\ wakes s' = w.
Proof.
  intros I H N w. pose proof I as (A & F & C & O). pose proof (handle_of_some _ _ _ H) as HN.
  pose proof (C r x N) as Cr. pose proof (hcount_pos _ _ _ HN) as P.
  assert (Lx : inner_live x = true).
  { rewrite Forall_forall in A. rewrite (A x (nth_error_In _ _ N)). destruct (Nat.eqb_spec (rc x) 0); [lia|reflexivity]. }
  unfold release_handle, kill_handle, get_rec; cbn [recs handles wakes orig_clones]. rewrite N.
  assert (HC : forall r', hcount r' (set_nth (handles s) h None) + (if r =? r' then 1 else 0) = hcount r' (handles s)).
  { intros r'. pose proof (hcount_set_none r' (handles s) h) as X. rewrite HN in X. exact X. }
  assert (FK : forall n, n = length (recs s) ->
            Forall (fun h0 => match h0 with Some r0 => r0 < n | None => True end) (set_nth (handles s) h None)).
  { intros n ->. apply Forall_set_nth'; auto. }
  destruct (rc x) as [|[|n]] eqn:RC; [lia| |].
  - rewrite Lx. eexists; split; [reflexivity|]. split; [|reflexivity].
    split; [|split; [|split]]; cbn [recs handles orig_clones].
    + apply Forall_set_nth'; auto.
    + apply FK. now rewrite set_nth_length.
    + intros r' y Ny. destruct (Nat.eq_dec r r') as [<-|D].
      * rewrite nth_error_set_nth_eq in Ny by (apply nth_error_Some; congruence). inversion Ny; subst. cbn [rc].
        specialize (HC r). rewrite Nat.eqb_refl in HC. lia.
      * rewrite nth_error_set_nth_neq in Ny by auto. specialize (HC r'). specialize (C r' y Ny).
        destruct (Nat.eqb_spec r r'); [contradiction|]. lia.
    + pose proof (livecount_set (recs s) r x (mkr 0 false) N) as LS. rewrite RC in LS. cbn [rc Nat.eqb] in LS. lia.
  - eexists; split; [reflexivity|]. split; [|reflexivity].
    split; [|split; [|split]]; cbn [recs handles orig_clones].
    + apply Forall_set_nth'; auto.
    + apply FK. now rewrite set_nth_length.
    + intros r' y Ny. destruct (Nat.eq_dec r r') as [<-|D].
      * rewrite nth_error_set_nth_eq in Ny by (apply nth_error_Some; congruence). inversion Ny; subst. cbn [rc].
        specialize (HC r). rewrite Nat.eqb_refl in HC. lia.
      * rewrite nth_error_set_nth_neq in Ny by auto. specialize (HC r'). specialize (C r' y Ny).
        destruct (Nat.eqb_spec r r'); [contradiction|]. lia.
    + pose proof (livecount_set (recs s) r x (mkr (S n) (inner_live x)) N) as LS. rewrite RC in LS. cbn [rc Nat.eqb] in LS. lia.
Qed.

Theorem wstep_inv s o : WInv s ->
  exists s' r, wstep s o = Ok (s', r) /\ WInv s' /\ wakes s' = wakes s + wake_inc r.
Proof.
  intros I. pose proof I as (A & F & C & O).
  assert (REJ : forall c, c <> 1%Z \/ True -> exists s' r, rejw s c = Ok (s', r) /\ WInv s' /\ wakes s' = wakes s + wake_inc r).
  { intros c _. exists s, [c; 0; -1]%Z. split; [reflexivity|]. split; [exact I|].
    unfold wake_inc. destruct c as [|[p|p|]|]; try lia; destruct p; try lia; destruct p; lia. }
  destruct o as [| |h|h|h|h|]; unfold wstep; cbn [wstep_gen].
  - (* clone in poll *)
    do 2 eexists; split; [reflexivity|]. split; [|cbn; lia].
    split; [|split; [|split]]; cbn [recs handles orig_clones].
    + apply Forall_app; split; auto.
    + apply Forall_app; split.
      * eapply Forall_impl; [|exact F]. intros [r|]; auto. rewrite app_length; cbn; lia.
      * constructor; auto. rewrite app_length; cbn; lia.
    + intros r x N. rewrite hcount_app. cbn [hcount].
      destruct (Nat.lt_ge_cases r (length (recs s))) as [L|L].
      * rewrite nth_error_app1 in N by auto. rewrite (C r x N).
        destruct (Nat.eqb_spec (length (recs s)) r); lia.
      * rewrite nth_error_app2 in N by auto. destruct (r - length (recs s)) as [|k] eqn:K.
        -- cbn in N. inversion N; subst. cbn [rc]. assert (r = length (recs s)) as -> by lia.
           rewrite Nat.eqb_refl. rewrite (hcount_out_of_range _ _ _ F) by lia. lia.
        -- cbn in N. destruct k; discriminate.
    + rewrite livecount_app. cbn. lia.
  - (* wake_by_ref in poll *)
    do 2 eexists; split; [reflexivity|]. split; [|cbn; lia]. split; [|split; [|split]]; auto.
  - (* clone *)
    destruct (handle_of s h) as [r|] eqn:H; [|apply REJ; auto].
    pose proof (in_handles_range s h r I H) as L.
    unfold get_rec. destruct (nth_error (recs s) r) as [x|] eqn:N; [|apply nth_error_None in N; lia].
    pose proof (C r x N) as Cr. pose proof (hcount_pos _ _ _ (handle_of_some _ _ _ H)) as P.
    destruct (Nat.eqb_spec (rc x) 0); [lia|].
    do 2 eexists; split; [reflexivity|]. split; [|cbn; lia].
    split; [|split; [|split]]; cbn [recs handles orig_clones].
    + apply Forall_set_nth'; auto. cbn [rc inner_live]. rewrite Forall_forall in A. rewrite (A x (nth_error_In _ _ N)).
      destruct (Nat.eqb_spec (rc x) 0); [lia|reflexivity].
    + rewrite set_nth_length. apply Forall_app; split; auto.
    + intros r' y Ny. rewrite hcount_app. cbn [hcount]. destruct (Nat.eq_dec r r') as [<-|D].
      * rewrite nth_error_set_nth_eq in Ny by auto. inversion Ny; subst. cbn [rc]. rewrite Nat.eqb_refl. lia.
      * rewrite nth_error_set_nth_neq in Ny by auto. rewrite (C r' y Ny). destruct (Nat.eqb_spec r r'); [contradiction|lia].
    + pose proof (livecount_set (recs s) r x (mkr (S (rc x)) (inner_live x)) N) as LS. cbn [rc] in LS.
      destruct (Nat.eqb_spec (rc x) 0); [lia|]. cbn [Nat.eqb] in LS. lia.
  - (* wake *)
    destruct (handle_of s h) as [r|] eqn:H; [|apply REJ; auto].
    pose proof (in_handles_range s h r I H) as L.
    unfold get_rec. destruct (nth_error (recs s) r) as [x|] eqn:N; [|apply nth_error_None in N; lia].
    pose proof (C r x N) as Cr. pose proof (hcount_pos _ _ _ (handle_of_some _ _ _ H)) as P.
    assert (Lx : inner_live x = true).
    { rewrite Forall_forall in A. rewrite (A x (nth_error_In _ _ N)). destruct (Nat.eqb_spec (rc x) 0); [lia|reflexivity]. }
    rewrite Lx. cbn [negb].
    destruct (release_ok s h r x I H N (S (wakes s))) as (s' & E & I' & W). rewrite E.
    do 2 eexists; split; [reflexivity|]. split; [exact I'|]. rewrite W. cbn. lia.
  - (* wake_by_ref *)
    destruct (handle_of s h) as [r|] eqn:H; [|apply REJ; auto].
    pose proof (in_handles_range s h r I H) as L.
    unfold get_rec. destruct (nth_error (recs s) r) as [x|] eqn:N; [|apply nth_error_None in N; lia].
    pose proof (C r x N) as Cr. pose proof (hcount_pos _ _ _ (handle_of_some _ _ _ H)) as P.
    assert (Lx : inner_live x = true).
    { rewrite Forall_forall in A. rewrite (A x (nth_error_In _ _ N)). destruct (Nat.eqb_spec (rc x) 0); [lia|reflexivity]. }
    rewrite Lx. cbn [negb].
    do 2 eexists; split; [reflexivity|]. split; [|cbn; lia]. split; [|split; [|split]]; auto.
  - (* drop *)
    destruct (handle_of s h) as [r|] eqn:H; [|apply REJ; auto].
    pose proof (in_handles_range s h r I H) as L.
    unfold get_rec. destruct (nth_error (recs s) r) as [x|] eqn:N; [|apply nth_error_None in N; lia].
    destruct (release_ok s h r x I H N (wakes s)) as (s' & E & I' & W).
    assert (SS : mkw (recs s) (handles s) (wakes s) (orig_clones s) = s) by (destruct s; reflexivity).
    rewrite SS in E. rewrite E.
    do 2 eexists; split; [reflexivity|]. split; [exact I'|]. rewrite W. cbn. lia.
  - do 2 eexists; split; [reflexivity|]. split; [exact I|]. cbn. lia.
Qed.

Lemma WInv_init : WInv winit.
Proof. split; [constructor|]. split; [constructor|]. split; [intros [|r] x N; discriminate|reflexivity]. Qed.

(* whole histories *)
Fixpoint wexec (s : wst) (ops : list wop) : option (wst * list (list Z)) :=
  match ops with
  | [] => Some (s, [])
  | o :: os => match wstep s o with
               | Ok (s1, r) => match wexec s1 os with Some (s2, rs) => Some (s2, r :: rs) | None => None end
               | _ => None
               end
  end.

Fixpoint sum_wakes (rs : list (list Z)) : nat := match rs with [] => 0 | r :: t => wake_inc r + sum_wakes t end.

Theorem wexec_inv ops : forall s, WInv s ->
  exists s' rs, wexec s ops = Some (s', rs) /\ WInv s' /\ wakes s' = wakes s + sum_wakes rs.
Proof.
  induction ops as [|o os IH]; intros s I; cbn [wexec].
  - exists s, []. cbn. auto.
  - destruct (wstep_inv s o I) as (s1 & r & E & I1 & W1). rewrite E.
    destruct (IH s1 I1) as (s2 & rs & E2 & I2 & W2). rewrite E2.
    exists s2, (r :: rs). split; [reflexivity|]. split; [exact I2|]. cbn [sum_wakes]. lia.
Qed.

(* when no handle is left, nothing of the caller's waker is held *)
Lemma all_gone s : WInv s -> Forall (fun h => h = None) (handles s) -> orig_clones s = 0.
Proof.
  intros (A & F & C & O) G. rewrite O.
  assert (Z : forall r, hcount r (handles s) = 0).
  { intros r. clear - G. induction G as [|h hs -> G IH]; cbn; auto. }
  assert (forall rs, (forall r x, nth_error rs r = Some x -> rc x = 0) -> livecount rs = 0) as K.
  { induction rs as [|x rs IH]; intros H; cbn; auto. rewrite (H 0 x eq_refl). cbn. apply IH. intros r y N. apply (H (S r) y N). }
  apply K. intros r x N. rewrite (C r x N). apply Z.
Qed.

(* the code before the repair: two foreign clones release the shared clone twice *)
Lemma v0_refuted :
  exists ops s1 s2 r1 r2,
    ops = [WCloneInPoll; WClone 0; WDrop 0] /\
    wstep_v0 winit WCloneInPoll = Ok (s1, r1) /\
    (exists s3 r3, wstep_v0 s1 (WClone 0) = Ok (s3, r3) /\ wstep_v0 s3 (WDrop 0) = Ok (s2, r2) /\
       orig_clones s2 = 0 /\ hcount 0 (handles s2) = 1 /\ wstep_v0 s2 (WDrop 1) = UB).
Proof. do 5 eexists. split; [reflexivity|]. split; [reflexivity|]. do 2 eexists. vm_compute. repeat split. Qed.
