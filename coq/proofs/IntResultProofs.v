Require Import Verif.common.Prelude Verif.model.IntResult.
Open Scope Z_scope.

Lemma into_int_err_nonzero e : exists c, into_int_err e = Some c /\ c <> 0.
Proof.
  destruct e as [c|k| |]; cbn.
  - destruct (Z.eqb_spec c 0) as [->|N]; cbn; [exists 65535; split; [reflexivity|lia]|].
    destruct (Z.eqb_spec c 0); [contradiction|]. exists c; auto.
  - exists 65535; split; [reflexivity|lia].
  - exists 1; split; [reflexivity|lia].
  - exists 1; split; [reflexivity|lia].
Qed.

Lemma out_zero_iff r s :
  exists code s', into_int_out_result r s = Some (code, s') /\
    (code = 0 <-> exists v, r = ROk v) /\
    (forall v, r = ROk v -> s' = Filled v) /\
    (forall e, r = RErr e -> code <> 0 /\ s' = s).
Proof.
  destruct r as [v|e]; cbn.
  - exists 0, (Filled v). repeat split; eauto; intros; try congruence; discriminate.
  - destruct (into_int_err_nonzero e) as (c & E & N). rewrite E. exists c, s. split; [reflexivity|]. split; [|split].
    + split; [intros Z; contradiction|intros (v & X); discriminate].
    + intros v X; discriminate.
    + intros e' X. auto.
Qed.

Lemma decode_ignores_slot t code s1 s2 : code <> 0 -> from_int_result t code s1 = from_int_result t code s2.
Proof. intros N. unfold from_int_result. destruct (Z.eqb_spec code 0); [contradiction|reflexivity]. Qed.

Lemma decode_zero_reads t s : from_int_result t 0 s = match s with Filled v => Ok (ROk v) | Uninit => UB end.
Proof. reflexivity. Qed.

(* encode then decode through a fresh (uninitialised) slot: never UB; Ok survives with its
   payload; an error stays an error; a non-zero OS code survives unchanged *)
Lemma roundtrip r :
  exists code s, into_int_out_result r Uninit = Some (code, s) /\
    match r with
    | ROk v => from_int_result (TIo) code s = Ok (ROk v) /\ from_int_result TUnit code s = Ok (ROk v) /\ from_int_result TFmt code s = Ok (ROk v)
    | RErr e => from_int_result (etype_of e) code s =
                  Ok (RErr (match e with
                            | EIoOs c => if c =? 0 then EIoOs 65535 else EIoOs c
                            | EIoOther _ => EIoOs 65535
                            | EUnit => EUnit | EFmt => EFmt end))
    end.
Proof.
  destruct r as [v|e]; cbn.
  - exists 0, (Filled v). repeat split.
  - destruct e as [c|k| |]; cbn.
    + destruct (Z.eqb_spec c 0) as [->|N]; cbn.
      * exists 65535, Uninit. split; reflexivity.
      * destruct (Z.eqb_spec c 0); [contradiction|]. exists c, Uninit. split; [reflexivity|].
        unfold from_int_result. destruct (Z.eqb_spec c 0); [contradiction|reflexivity].
    + exists 65535, Uninit. split; reflexivity.
    + exists 1, Uninit. split; reflexivity.
    + exists 1, Uninit. split; reflexivity.
Qed.

Lemma os_code_survives c : c <> 0 ->
  exists code, into_int_err (EIoOs c) = Some code /\ code = c /\ from_int_err TIo code = EIoOs c.
Proof.
  intros N. cbn. destruct (Z.eqb_spec c 0); [contradiction|]. cbn. destruct (Z.eqb_spec c 0); [contradiction|].
  exists c. auto.
Qed.

Lemma int_result_zero_iff r : exists c, into_int_result r = Some c /\ (c = 0 <-> exists v, r = ROk v).
Proof.
  destruct r as [v|e]; cbn.
  - exists 0. split; auto. split; eauto.
  - destruct (into_int_err_nonzero e) as (c & E & N). rewrite E. exists c. split; auto. split; [intros Z; contradiction|intros (v & X); discriminate].
Qed.
