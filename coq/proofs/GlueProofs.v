(* Proofs about the generator model (model/Glue.v). *)
Require Import Verif.common.Prelude Verif.model.IntResult Verif.model.Glue.
Open Scope Z_scope.

(* ---- arguments: Rust value -> C value -> Rust value is the identity, for every shape and every inhabitant ---- *)
Lemma arg_roundtrip_id a v : arg_ok (fst a) v = true -> arg_roundtrip a v = Some v.
Proof.
  destruct a as [s l]. unfold arg_roundtrip, arg_iconv, arg_wconv. cbn [fst].
  destruct s, v; cbn; try discriminate; try reflexivity.
  - intros H. destruct (addr =? 0) eqn:E; [discriminate|]. cbn. now rewrite E.
Qed.

(* ---- well-formed methods: the shapes the documentation supports ---------------------------------------------------- *)
Definition wf_method (t : trait_def) (m : method) : bool :=
  match m_ret m with
  | QResU8Err => negb (int_active t m)            (* u8 has no IntError impl: only as CResult *)
  | QResIoErr => int_active t m                   (* io::Error has no C repr: only as an integer code *)
  | _ => true
  end.

(* return values whose round trip is exact: for io errors, the non-zero OS codes *)
Definition ret_exact (r : rshape) (int : bool) (v : rval) : bool :=
  ret_ok r v &&
  match r, v with
  | QResIoErr, RvErr e => negb (e =? 0)
  | (QResUnitErr | QResEmpty), RvErr e => if int then e =? 0 else true     (* () carries no information *)
  | _, _ => true
  end.

Lemma nz_code e : e <> 0 -> into_int_err (EIoOs e) = Some e.
Proof. intros N. cbn. destruct (Z.eqb_spec e 0); [contradiction|]. cbn. destruct (Z.eqb_spec e 0); [contradiction|reflexivity]. Qed.

Lemma ret_through_id t pos m v :
  wf_method t m = true -> ret_exact (m_ret m) (int_active t m) v = true ->
  ret_through (gen_method t pos m) (m_ret m) v = Some v.
Proof.
  unfold wf_method, ret_exact, gen_method, ret_through. intros W E.
  apply andb_true_iff in E. destruct E as (O & X).
  destruct (m_ret m) eqn:R; destruct (int_active t m) eqn:I; cbn [ir_w_tail ir_i_tail] in *;
    destruct v; cbn in O; try discriminate; cbn in W; try discriminate; try reflexivity;
    cbn [err_of etype_of_r into_int_out_result into_int_result from_int_result from_int_result_empty into_int_err from_int_err Z.eqb] in *;
    try reflexivity.
  all: try (apply Z.eqb_eq in X; subst; reflexivity).
  - (* io error, non-zero code *)
    apply negb_true_iff in X. apply Z.eqb_neq in X.
    destruct (Z.eqb_spec e 0); [contradiction|]. cbn. destruct (Z.eqb_spec e 0); [contradiction|].
    unfold from_int_result. destruct (Z.eqb_spec e 0); [contradiction|]. reflexivity.
Qed.

(* ---- dispatch: the call reaches the method of the same index, once, with the same arguments ------------------------- *)
Lemma gen_from_nth t ms : forall pos k m, nth_error ms k = Some m ->
  nth_error (gen_from t pos ms) k = Some (gen_method t (pos + k) m).
Proof.
  induction ms as [|x ms IH]; intros pos [|k] m H; cbn in *; try discriminate.
  - inversion H; subst. now rewrite Nat.add_0_r.
  - rewrite (IH (S pos) k m H). f_equal. f_equal. lia.
Qed.

Lemma gen_from_length t ms pos : length (gen_from t pos ms) = length ms.
Proof. revert pos; induction ms; intros; cbn; auto. Qed.

Lemma conv_args_id shapes : forall vs,
  Forall2 (fun a v => arg_ok (fst a) v = true) shapes vs ->
  conv_args (map arg_iconv shapes) (map arg_wconv shapes) shapes vs = Some vs.
Proof.
  induction shapes as [|a sh IH]; intros vs F; inversion F; subst; [reflexivity|].
  cbn [map conv_args]. pose proof (arg_roundtrip_id a y H1) as RT. unfold arg_roundtrip in RT.
  destruct (to_c (arg_iconv a) y) as [c|]; [|discriminate]. rewrite RT.
  fold (conv_args (map arg_iconv sh) (map arg_wconv sh) sh l'). now rewrite (IH l' H3).
Qed.

Lemma gen_method_wiring t k m :
  ir_default (gen_method t k m) = k /\ ir_w_target (gen_method t k m) = k /\ ir_i_fetch (gen_method t k m) = k /\
  ir_i_convs (gen_method t k m) = map arg_iconv (m_args m) /\ ir_w_convs (gen_method t k m) = map arg_wconv (m_args m) /\
  ir_recv (gen_method t k m) = m_recv m /\ ir_w_access (gen_method t k m) = m_recv m /\ ir_i_cont (gen_method t k m) = m_recv m /\
  ir_i_guard (gen_method t k m) = match m_recv m with ROwn => true | _ => false end.
Proof. unfold gen_method. destruct (m_ret m), (int_active t m); cbn; repeat split. Qed.

Theorem dispatch_same t k m vs :
  nth_error (t_methods t) k = Some m ->
  Forall2 (fun a v => arg_ok (fst a) v = true) (m_args m) vs ->
  dispatch (gen_trait t) (t_methods t) k vs = Some (k, vs).
Proof.
  intros N F. unfold dispatch, gen_trait. rewrite (gen_from_nth t _ 0 k m N), N. cbn [Nat.add].
  destruct (gen_method_wiring t k m) as (D & T & Fe & IC & WC & _).
  rewrite Fe, (gen_from_nth t _ 0 k m N). cbn [Nat.add]. rewrite D, (gen_from_nth t _ 0 k m N). cbn [Nat.add].
  rewrite IC, WC, T. now rewrite (conv_args_id _ _ F).
Qed.

(* ---- layout of the vtable: one slot per method, in declaration order ------------------------------------------------- *)
Lemma vtbl_order t : length (gen_trait t) = length (t_methods t) /\
  forall k g, nth_error (gen_trait t) k = Some g -> ir_default g = k /\ ir_w_target g = k /\ ir_i_fetch g = k /\
    exists m, nth_error (t_methods t) k = Some m /\ ir_recv g = m_recv m.
Proof.
  split; [apply gen_from_length|]. intros k g H. unfold gen_trait in H.
  destruct (nth_error (t_methods t) k) as [m|] eqn:N.
  - rewrite (gen_from_nth t _ 0 k m N) in H. inversion H; subst. cbn [Nat.add].
    destruct (gen_method_wiring t k m) as (D & T & Fe & _ & _ & R & _). repeat split; auto. eauto.
  - apply nth_error_None in N. assert (nth_error (gen_from t 0 (t_methods t)) k = None) as X
      by (apply nth_error_None; rewrite gen_from_length; lia). congruence.
Qed.

(* ---- FFI safety of every vtable signature ---------------------------------------------------------------------------------- *)
Lemma arg_cty_safe a : ffi_safe (arg_cty a) = true.
Proof. destruct a as [[] l]; reflexivity. Qed.

Lemma sig_ffi_safe t pos m : wf_method t m = true ->
  forallb ffi_safe (ir_cargs (gen_method t pos m)) = true /\ ffi_safe (ir_cret (gen_method t pos m)) = true.
Proof.
  intros W. unfold wf_method in W. unfold gen_method.
  assert (B : forallb ffi_safe (map arg_cty (m_args m)) = true).
  { induction (m_args m); cbn; auto. rewrite arg_cty_safe. auto. }
  destruct (m_ret m) eqn:R; destruct (int_active t m) eqn:I; cbn [ir_cargs ir_cret]; try discriminate;
    rewrite ?forallb_app, ?B; cbn; auto.
Qed.

(* ---- integer results end to end: the out slot is read iff the callee returned 0 ----------------------------------------- *)
Lemma int_plumbing t pos m : int_active t m = true -> (m_ret m = QResUnitErr \/ m_ret m = QResIoErr) ->
  let g := gen_method t pos m in
  ir_w_tail g = WIntOut /\ ir_i_tail g = IFromInt /\ ir_i_okout g = true /\ ir_cret g = CInt32 /\
  ir_cargs g = map arg_cty (m_args m) ++ [COkOut (m_retleaf m)].
Proof.
  intros I [R|R]; unfold gen_method; rewrite R, I; cbn; repeat split.
Qed.

(* ---- #[cglue_forward] ---- *)
Lemma gen_forward_from_nth ms : forall pos k m, nth_error ms k = Some m ->
  nth_error (gen_forward_from pos ms) k = Some (gen_forward_method (pos + k) m).
Proof.
  induction ms as [|x ms IH]; intros pos [|k] m H; cbn in *; try discriminate.
  - inversion H; subst. now rewrite Nat.add_0_r.
  - rewrite (IH (S pos) k m H). f_equal. f_equal. lia.
Qed.

Theorem forward_same t k m vs :
  nth_error (t_methods t) k = Some m -> m_vtbl_only m = false -> m_recv m <> ROwn -> length vs = length (m_args m) ->
  fwd_dispatch (gen_forward t) k vs = Some (k, vs).
Proof.
  intros H V R L. unfold fwd_dispatch, gen_forward. rewrite (gen_forward_from_nth _ 0 k m H). cbn [Nat.add].
  unfold gen_forward_method. rewrite V. destruct (m_recv m); try contradiction; cbn [fw_convs fw_target fw_ret_id].
  all: rewrite map_length, L, Nat.eqb_refl; cbn [andb];
    replace (forallb _ (map (fun _ : ashape * leaf => VId) (m_args m))) with true by (clear; induction (m_args m); cbn; auto); reflexivity.
Qed.

Lemma forward_skips_consuming t k m vs :
  nth_error (t_methods t) k = Some m -> m_recv m = ROwn -> fwd_dispatch (gen_forward t) k vs = None.
Proof.
  intros H R. unfold fwd_dispatch, gen_forward. rewrite (gen_forward_from_nth _ 0 k m H). unfold gen_forward_method. rewrite R. now destruct (m_vtbl_only m).
Qed.

(* ---- #[skip_func]: a skipped method takes no slot and shifts nothing ---------------------------------------------- *)
Lemma enc_all_length l : forall pos, length (enc_all pos l) = length l.
Proof. induction l as [|x l IH]; intros pos; cbn [enc_all length]; [reflexivity|]. now rewrite IH. Qed.

Lemma dec_methods_length rows : forall ms, dec_methods rows = Some ms -> length ms = length rows.
Proof.
  induction rows as [|r rs IH]; intros ms H; cbn [dec_methods] in H.
  - inversion H. reflexivity.
  - destruct (dec_method r); [|discriminate]. destruct (dec_methods rs) as [l|]; [|discriminate].
    inversion H; subst. cbn [length]. now rewrite (IH l eq_refl).
Qed.

Lemma strip_merge rows : forall irs, length irs = length (exported rows) -> strip_skipped rows (merge_skipped rows irs) = irs.
Proof.
  induction rows as [|r rs IH]; intros irs L; cbn [exported filter] in L.
  - destruct irs; [reflexivity|discriminate].
  - cbn [merge_skipped]. destruct (is_skipped r) eqn:S; cbn [negb] in L.
    + cbn [strip_skipped]. rewrite S. apply IH. exact L.
    + destruct irs as [|i rest]; [discriminate|]. cbn [strip_skipped]. rewrite S. f_equal. apply IH. cbn [length] in L. now inversion L.
Qed.

Lemma merge_marks rows : forall irs k r, length irs = length (exported rows) ->
  nth_error rows k = Some r -> is_skipped r = true -> nth_error (merge_skipped rows irs) k = Some [-9; 0; 0; 0].
Proof.
  induction rows as [|x rs IH]; intros irs k r L H S; [destruct k; discriminate|].
  cbn [exported filter] in L. cbn [merge_skipped]. destruct k as [|k]; cbn [nth_error] in H.
  - inversion H; subst. now rewrite S.
  - destruct (is_skipped x) eqn:SX; cbn [negb] in L.
    + cbn [nth_error]. eapply IH; eauto.
    + destruct irs as [|i rest]; [discriminate|]. cbn [nth_error]. eapply IH; eauto; try (cbn [length] in L; now inversion L).
Qed.

Lemma exported_idem rows : exported (exported rows) = exported rows.
Proof.
  unfold exported. induction rows as [|r rs IH]; cbn [filter]; [reflexivity|].
  destruct (is_skipped r) eqn:S; cbn [negb]; [exact IH|]. cbn [filter]. rewrite S. cbn [negb]. now rewrite IH.
Qed.

Lemma filter_len_le {A} (f : A -> bool) l : (length (filter f l) <= length l)%nat.
Proof. induction l as [|x l IH]; cbn [filter length]; [lia|]. destruct (f x); cbn [length]; lia. Qed.

Lemma merge_none rows : forall irs, length irs = length rows -> exported rows = rows -> merge_skipped rows irs = irs.
Proof.
  induction rows as [|r rs IH]; intros irs L E.
  - destruct irs; [reflexivity|discriminate].
  - cbn [exported filter] in E. destruct (is_skipped r) eqn:S; cbn [negb] in E.
    + exfalso. assert (Hl : (length (filter (fun r0 => negb (is_skipped r0)) rs) <= length rs)%nat) by apply filter_len_le.
      rewrite E in Hl. cbn [length] in Hl. lia.
    + destruct irs as [|i rest]; [discriminate|]. cbn [merge_skipped]. rewrite S. f_equal. apply IH; [cbn [length] in L; now inversion L|].
      inversion E as [E']. unfold exported. now rewrite E'.
Qed.

Theorem skip_func_rows p rows ms : dec_methods (exported rows) = Some ms ->
  strip_skipped rows (run_gen p rows) = run_gen p (exported rows) /\
  (forall k r, nth_error rows k = Some r -> is_skipped r = true -> nth_error (run_gen p rows) k = Some [-9; 0; 0; 0]).
Proof.
  intros D. unfold run_gen. rewrite exported_idem, D.
  set (irs := enc_all 0 (gen_trait _)).
  assert (L : length irs = length (exported rows)).
  { unfold irs, gen_trait. rewrite enc_all_length, gen_from_length. cbn [t_methods]. now apply dec_methods_length. }
  split.
  - rewrite (strip_merge rows irs L). symmetry. apply merge_none; [exact L|apply exported_idem].
  - intros k r H S. eapply merge_marks; eauto.
Qed.
