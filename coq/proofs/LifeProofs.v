(* Proofs about the lifecycle/context model (model/Life.v). *)
Require Import Verif.common.Prelude Verif.model.Life.
From Coq Require Import Permutation.
Open Scope Z_scope.

Definition holds (h : lh) : Z := match h with LDead => 0 | _ => 1 end.
Definition alive_ids (h : lh) : list Z :=
  match h with
  | LDead => [] | LRef id => [id; id + 500]
  | LNode id | LChild id | LCl id | LGrp id _ | LGrpC id => [id]
  end.
Fixpoint sum_holds (p : list lh) : Z := match p with [] => 0 | h :: t => holds h + sum_holds t end.
Definition alive (p : list lh) : list Z := flat_map alive_ids p.

(* instances that the operation brings into existence *)
Definition created_by (s : lst) (o : lop) : list Z :=
  match o with
  | OCreateNode id | OCreateCl id | OCreateGrp id _ | OCreateZst id => [id]
  | OCreateRef id => [id; id + 500]
  | OChild h | OChildMut h | OGrpKid h => match lget s h with LNode id => [id + 100] | _ => [] end
  | OGrpChildMut h => match lget s h with LGrp id _ | LGrpC id => [id + 100] | _ => [] end
  | OIntoChild h => match lget s h with LNode id => [id + 200] | _ => [] end
  | OGrpIntoChild h => match lget s h with LGrp id _ | LGrpC id => [id + 200] | _ => [] end
  | OClone h => match lget s h with LCl id | LGrpC id => [id + 1000] | _ => [] end
  | OLastRefFin id => [id]
  | OLastRefIntoChild id => [id; id + 200]
  | _ => []
  end.
Definition uses_borrowed (o : lop) : bool := match o with OChildRef _ => true | _ => false end.

Definition LInv (s : lst) : Prop :=
  level s = sum_holds (lpool s) + leaked s /\ live s = nz (length (alive (lpool s))) /\ 0 <= leaked s.

Lemma sum_holds_app a b : sum_holds (a ++ b) = sum_holds a + sum_holds b.
Proof. induction a as [|x a IH]; cbn [sum_holds app]; lia. Qed.

Lemma alive_app a b : alive (a ++ b) = alive a ++ alive b.
Proof. unfold alive. apply flat_map_app. Qed.

Lemma lset_split p : forall i x, (i < length p)%nat ->
  exists a b, p = a ++ nth i p LDead :: b /\ lset p i x = a ++ x :: b.
Proof.
  induction p as [|y p IH]; intros [|i] x H; cbn in *; try lia.
  - exists [], p. auto.
  - destruct (IH i x ltac:(lia)) as (a & b & E1 & E2). exists (y :: a), b. cbn. split; congruence.
Qed.

Lemma lget_live s h : lget s h <> LDead -> (h < length (lpool s))%nat.
Proof.
  unfold lget. intros N. destruct (Nat.lt_ge_cases h (length (lpool s))); auto.
  rewrite nth_overflow in N by lia. contradiction.
Qed.

Lemma alive_single h : alive [h] = alive_ids h.
Proof. unfold alive. cbn [flat_map]. apply app_nil_r. Qed.

(* appending a handle *)
Lemma spawn_inv s h : LInv s ->
  LInv (mkl (lpool s ++ [h]) (level s + holds h) (leaked s) (live s + nz (length (alive_ids h)))) /\
  alive (lpool s ++ [h]) = alive (lpool s) ++ alive_ids h.
Proof.
  intros (IL & IV & IK). split.
  - unfold LInv; cbn [lpool level leaked live]. rewrite sum_holds_app, alive_app, app_length, alive_single. cbn [sum_holds].
    split; [lia|]. split; [|lia]. rewrite IV. unfold nz. lia.
  - now rewrite alive_app, alive_single.
Qed.

(* clearing slot h *)
Lemma kill_inv s h : LInv s -> (h < length (lpool s))%nat ->
  LInv (mkl (lset (lpool s) h LDead) (level s - holds (lget s h)) (leaked s) (live s - nz (length (alive_ids (lget s h))))) /\
  Permutation (alive (lpool s)) (alive (lset (lpool s) h LDead) ++ alive_ids (lget s h)).
Proof.
  intros (IL & IV & IK) L. destruct (lset_split (lpool s) h LDead L) as (a & b & E1 & E2). unfold lget.
  set (x := nth h (lpool s) LDead) in *.
  assert (P : Permutation (alive (lpool s)) (alive (lset (lpool s) h LDead) ++ alive_ids x)).
  { rewrite E2. rewrite E1 at 1. rewrite !alive_app.
    change (alive (x :: b)) with (alive_ids x ++ alive b). change (alive (LDead :: b)) with (alive b).
    rewrite <- app_assoc. apply Permutation_app_head. apply Permutation_app_comm. }
  split; [|exact P].
  unfold LInv; cbn [lpool level leaked live]. split; [|split; [|lia]].
  - rewrite E2. rewrite IL. rewrite E1 at 1. rewrite !sum_holds_app. cbn [sum_holds holds]. lia.
  - rewrite IV. pose proof (Permutation_length P) as LP. rewrite app_length in LP. unfold nz. lia.
Qed.

Lemma holds_live h : h <> LDead -> holds h = 1.
Proof. destruct h; cbn; auto; contradiction. Qed.

Lemma spawn_step s h c : LInv s -> holds h = 1 ->
  let '(s', (r, ds)) := lnew s h c 1 (nz (length (alive_ids h))) [] in
  LInv s' /\ Permutation (alive (lpool s) ++ alive_ids h) (alive (lpool s') ++ ds) /\ (false = false -> leaked s' = leaked s).
Proof.
  intros I H. cbn [lnew]. destruct (spawn_inv s h I) as (A & B). rewrite H in A. split; [exact A|].
  cbn [lpool leaked]. rewrite B, app_nil_r. split; [reflexivity|auto].
Qed.

Lemma kill_step s h : LInv s -> lget s h <> LDead ->
  LInv (mkl (lset (lpool s) h LDead) (level s - 1) (leaked s) (live s - nz (length (alive_ids (lget s h))))) /\
  Permutation (alive (lpool s) ++ []) (alive (lset (lpool s) h LDead) ++ alive_ids (lget s h)) /\
  (false = false -> leaked s = leaked s).
Proof.
  intros I N. destruct (kill_inv s h I (lget_live s h N)) as (A & B). rewrite (holds_live _ N) in A.
  rewrite app_nil_r. split; [exact A|]. split; [exact B|auto].
Qed.

Lemma move_step s h y c : LInv s -> lget s h <> LDead -> alive_ids y = alive_ids (lget s h) -> holds y = 1 ->
  let '(s', (r, ds)) := lnew (lkill s h) y c 0 0 [] in
  LInv s' /\ Permutation (alive (lpool s) ++ []) (alive (lpool s') ++ ds) /\ (false = false -> leaked s' = leaked s).
Proof.
  intros I N A H. cbn [lnew lkill lpool level leaked live]. destruct (kill_inv s h I (lget_live s h N)) as (K & P).
  rewrite (holds_live _ N) in K. destruct (spawn_inv _ y K) as (S & E). cbn [lpool level leaked live] in S, E. rewrite H, A in S.
  split; [|split; [|auto]].
  - replace (level s + 0) with (level s - 1 + 1) by lia.
    replace (live s + 0) with (live s - nz (length (alive_ids (lget s h))) + nz (length (alive_ids (lget s h)))) by lia. exact S.
  - rewrite E, A, !app_nil_r. exact P.
Qed.

Lemma rej_step s c (o : lop) : LInv s ->
  let '(s', (r, ds)) := lrej s c in
  LInv s' /\ Permutation (alive (lpool s) ++ []) (alive (lpool s') ++ ds) /\ (uses_borrowed o = false -> leaked s' = leaked s).
Proof. intros I. cbn. rewrite app_nil_r. repeat split; auto; apply I. Qed.

Theorem lstep_inv s o : LInv s ->
  let '(s', (r, ds)) := lstep s o in
  LInv s' /\ Permutation (alive (lpool s) ++ created_by s o) (alive (lpool s') ++ ds) /\
  (uses_borrowed o = false -> leaked s' = leaked s).
Proof.
  intros I. pose proof I as (IL & IV & IK).
  destruct o as [id|id|id|id e|h|h|h|h|h|h|h|h|h|id|id|id|h|h|h|h|h]; cbn [lstep created_by uses_borrowed].
  - exact (spawn_step s (LNode id) 0 I eq_refl).
  - exact (spawn_step s (LCl id) 8 I eq_refl).
  - exact (spawn_step s (LRef id) 9 I eq_refl).
  - exact (spawn_step s (LGrp id (Z.odd e)) 10 I eq_refl).
  - destruct (lget s h); try exact (rej_step s 1 (OCall h) I); cbn; rewrite app_nil_r; repeat split; auto.
  - destruct (lget s h) eqn:G; try exact (rej_step s 2 (OCall h) I).
    exact (spawn_step s (LChild (id + 100)) 2 I eq_refl).
  - destruct (lget s h) eqn:G; try exact (rej_step s 3 (OChildRef h) I).
    cbn [lpool level leaked live]. split; [|split; [reflexivity|discriminate]]. unfold LInv; cbn [lpool level leaked live]. repeat split; auto; lia.
  - (* into_child *)
    destruct (lget s h) eqn:G; try exact (rej_step s 4 (OCall h) I).
    assert (N : lget s h <> LDead) by (rewrite G; discriminate).
    cbn [lnew lkill lpool level leaked live]. destruct (kill_inv s h I (lget_live s h N)) as (K & P). rewrite G in K, P. cbn [holds alive_ids length] in K, P.
    destruct (spawn_inv _ (LChild (id + 200)) K) as (S & E). cbn [lpool level leaked live holds alive_ids length] in S, E.
    split; [|split; [|reflexivity]].
    + replace (level s + 0) with (level s - 1 + 1) by lia. replace (live s + 0) with (live s - nz 1 + nz 1) by lia. exact S.
    + rewrite E. rewrite <- app_assoc. cbn [app].
      etransitivity; [apply Permutation_app_tail, P|]. rewrite <- app_assoc. apply Permutation_app_head. apply perm_swap.
  - destruct (lget s h) eqn:G; try exact (rej_step s 5 (OCall h) I).
    assert (N : lget s h <> LDead) by (rewrite G; discriminate). pose proof (kill_step s h I N) as K. rewrite G in K. exact K.
  - destruct (lget s h) eqn:G; try exact (rej_step s 6 (OCall h) I).
    + exact (spawn_step s (LCl (id + 1000)) 6 I eq_refl).
    + exact (spawn_step s (LGrpC (id + 1000)) 6 I eq_refl).
  - destruct (lget s h) eqn:G; try exact (rej_step s 7 (OCall h) I).
    all: assert (N : lget s h <> LDead) by (rewrite G; discriminate); pose proof (kill_step s h I N) as K; rewrite G in K; exact K.
  - destruct (lget s h) as [| | | | |id [|]|] eqn:G; try exact (rej_step s 11 (OCall h) I).
    + assert (N : lget s h <> LDead) by (rewrite G; discriminate).
      pose proof (move_step s h (LGrpC id) 11 I N) as M. rewrite G in M. exact (M eq_refl eq_refl).
    + assert (N : lget s h <> LDead) by (rewrite G; discriminate). pose proof (kill_step s h I N) as K. rewrite G in K. exact K.
  - destruct (lget s h) eqn:G; try exact (rej_step s 12 (OCall h) I).
    assert (N : lget s h <> LDead) by (rewrite G; discriminate).
    pose proof (move_step s h (LGrp id true) 12 I N) as M. rewrite G in M. exact (M eq_refl eq_refl).
  - cbn. repeat split; auto.
  - cbn. repeat split; auto.
  - exact (spawn_step s (LChild id) 15 I eq_refl).
  - destruct (lget s h) eqn:G; try exact (rej_step s 16 (OCall h) I).
    all: assert (N : lget s h <> LDead) by (rewrite G; discriminate); pose proof (kill_step s h I N) as K; rewrite G in K; exact K.
  - destruct (lget s h) eqn:G; try exact (rej_step s 17 (OCall h) I).
    all: assert (N : lget s h <> LDead) by (rewrite G; discriminate);
      cbn [lnew lkill lpool level leaked live]; destruct (kill_inv s h I (lget_live s h N)) as (K & P); rewrite G in K, P; cbn [holds alive_ids length] in K, P;
      destruct (spawn_inv _ (LChild (id + 200)) K) as (S & E); cbn [lpool level leaked live holds alive_ids length] in S, E;
      (split; [|split; [|reflexivity]]);
      [ replace (level s + 0) with (level s - 1 + 1) by lia; replace (live s + 0) with (live s - nz 1 + nz 1) by lia; exact S
      | rewrite E; rewrite <- app_assoc; cbn [app];
        (etransitivity; [apply Permutation_app_tail, P|]); rewrite <- app_assoc; apply Permutation_app_head; apply perm_swap ].
  - destruct (lget s h) eqn:G; try exact (rej_step s 18 (OCall h) I).
    exact (spawn_step s (LChild (id + 100)) 18 I eq_refl).
  - destruct (lget s h) eqn:G; try exact (rej_step s 19 (OCall h) I).
    all: exact (spawn_step s (LChild (id + 100)) 19 I eq_refl).
  - destruct (lget s h) eqn:G; try exact (rej_step s 20 (OCall h) I).
    exact (spawn_step s (LGrp (id + 100) true) 20 I eq_refl).
Qed.

(* ---- whole histories ------------------------------------------------------------------------------------------ *)
Fixpoint lexec (s : lst) (ops : list lop) : lst * list Z * list Z :=      (* final state, all destructor runs, all creations *)
  match ops with
  | [] => (s, [], [])
  | o :: os => let '(s1, (_, ds)) := lstep s o in
               let '(s2, ds2, cr2) := lexec s1 os in
               (s2, ds ++ ds2, created_by s o ++ cr2)
  end.

Theorem lexec_inv ops : forall s, LInv s ->
  let '(s', ds, cr) := lexec s ops in
  LInv s' /\ Permutation (alive (lpool s) ++ cr) (alive (lpool s') ++ ds) /\
  (forallb (fun o => negb (uses_borrowed o)) ops = true -> leaked s' = leaked s).
Proof.
  induction ops as [|o os IH]; intros s I; cbn [lexec forallb].
  - rewrite !app_nil_r. split; [exact I|]. split; auto.
  - pose proof (lstep_inv s o I) as S. destruct (lstep s o) as [s1 [r ds]]. destruct S as (I1 & P1 & K1).
    specialize (IH s1 I1). destruct (lexec s1 os) as [[s2 ds2] cr2]. destruct IH as (I2 & P2 & K2).
    split; [exact I2|]. split.
    + rewrite !app_assoc. etransitivity; [apply Permutation_app_tail, P1|].
      rewrite <- !app_assoc. etransitivity; [apply Permutation_app_head, Permutation_app_comm|].
      rewrite !app_assoc. etransitivity; [apply Permutation_app_tail, P2|].
      rewrite <- !app_assoc. apply Permutation_app_head. apply Permutation_app_comm.
    + intros H. apply andb_true_iff in H. destruct H as (H1 & H2). apply negb_true_iff in H1.
      rewrite (K2 H2). now apply K1.
Qed.

Lemma lexec_app a : forall s b,
  lexec s (a ++ b) = let '(s1, d1, c1) := lexec s a in let '(s2, d2, c2) := lexec s1 b in (s2, d1 ++ d2, c1 ++ c2).
Proof.
  induction a as [|o a IH]; intros s b; cbn [lexec app].
  - destruct (lexec s b) as [[s2 d2] c2]. reflexivity.
  - destruct (lstep s o) as [s1 [r ds]]. rewrite IH. destruct (lexec s1 a) as [[s2 d2] c2].
    destruct (lexec s2 b) as [[s3 d3] c3]. now rewrite !app_assoc.
Qed.

(* dropping slot h leaves it dead, keeps the pool's length and the other slots *)
Lemma lset_length {A} (l : list A) i x : length (lset l i x) = length l.
Proof. revert i; induction l; intros [|i]; cbn; auto. Qed.
Lemma lset_nth_same {A} (l : list A) i x d : (i < length l)%nat -> nth i (lset l i x) d = x.
Proof. revert i; induction l; intros [|i] H; cbn in *; try lia; auto. apply IHl; lia. Qed.
Lemma lset_nth_other {A} (l : list A) i j x d : i <> j -> nth j (lset l i x) d = nth j l d.
Proof. revert i j; induction l; intros [|i] [|j] H; cbn; auto; try congruence. Qed.

Lemma drop_step_pool s h :
  let s' := fst (lstep s (ODrop h)) in
  length (lpool s') = length (lpool s) /\ lget s' h = LDead /\
  (forall j, lget s j = LDead -> lget s' j = LDead).
Proof.
  cbn [lstep]. unfold lget. destruct (nth h (lpool s) LDead) eqn:G; cbn [fst lrej lpool].
  1: repeat split; auto.
  all: assert (L : (h < length (lpool s))%nat) by (destruct (Nat.lt_ge_cases h (length (lpool s))); auto; rewrite nth_overflow in G by lia; discriminate).
    all: rewrite lset_length; split; [reflexivity|]; split; [now apply lset_nth_same|];
      intros j Hj; destruct (Nat.eq_dec h j) as [->|D]; [now apply lset_nth_same | now rewrite lset_nth_other].
Qed.

Lemma drop_all_dead k : forall s, (k <= length (lpool s))%nat ->
  let '(s', _, _) := lexec s (map ODrop (seq 0 k)) in
  length (lpool s') = length (lpool s) /\ forall j, (j < k)%nat -> lget s' j = LDead.
Proof.
  induction k as [|k IH]; intros s L.
  - cbn. split; auto. intros; lia.
  - rewrite seq_S, map_app, lexec_app. cbn [Nat.add map].
    specialize (IH s ltac:(lia)). destruct (lexec s (map ODrop (seq 0 k))) as [[s1 d1] c1]. destruct IH as (L1 & D1).
    cbn [lexec]. pose proof (drop_step_pool s1 k) as DS. destruct (lstep s1 (ODrop k)) as [s2 [r ds]]. cbn [fst] in DS.
    destruct DS as (L2 & Dk & Keep). split; [congruence|].
    intros j Hj. destruct (Nat.eq_dec j k) as [->|N]; [exact Dk|]. apply Keep. apply D1. lia.
Qed.

Lemma all_dead_empty p : (forall j, (j < length p)%nat -> nth j p LDead = LDead) -> alive p = [] /\ sum_holds p = 0.
Proof.
  induction p as [|x p IH]; intros H; [split; reflexivity|].
  pose proof (H 0%nat ltac:(cbn; lia)) as H0. cbn in H0. subst x.
  destruct IH as (A & B). { intros j Hj. apply (H (S j)). cbn. lia. }
  unfold alive in *. cbn [flat_map alive_ids sum_holds holds app]. rewrite A, B. split; reflexivity.
Qed.

(* the whole life of a pool: any history, then every remaining object is dropped *)
Definition full_history (ops : list lop) : lst * list Z * list Z :=
  let '(s1, d1, c1) := lexec linit ops in
  let '(s2, d2, c2) := lexec s1 (map ODrop (seq 0 (length (lpool s1)))) in
  (s2, d1 ++ d2, c1 ++ c2).

Lemma LInv_init : LInv linit.
Proof. unfold LInv, linit; cbn. repeat split; lia. Qed.

Theorem full_history_spec ops :
  let '(s, ds, cr) := full_history ops in
  Permutation cr ds /\ live s = 0 /\ level s = leaked s /\
  (forallb (fun o => negb (uses_borrowed o)) ops = true -> level s = 0).
Proof.
  unfold full_history.
  pose proof (lexec_inv ops linit LInv_init) as E1. destruct (lexec linit ops) as [[s1 d1] c1]. destruct E1 as (I1 & P1 & K1).
  set (cl := map ODrop (seq 0 (length (lpool s1)))).
  pose proof (lexec_inv cl s1 I1) as E2. pose proof (drop_all_dead (length (lpool s1)) s1 (Nat.le_refl _)) as DA. fold cl in DA.
  destruct (lexec s1 cl) as [[s2 d2] c2]. destruct E2 as (I2 & P2 & K2). destruct DA as (L2 & Dead).
  destruct (all_dead_empty (lpool s2)) as (AE & SH). { intros j Hj. apply Dead. lia. }
  destruct I2 as (IL & IV & IK). rewrite AE in *. rewrite SH in IL. cbn in IV.
  cbn [linit lpool alive flat_map app] in P1. cbn [app] in P2.
  assert (NB : forallb (fun o => negb (uses_borrowed o)) cl = true).
  { unfold cl. clear. induction (seq 0 (length (lpool s1))); cbn; auto. }
  split; [|split; [exact IV|split; [lia|]]].
  - (* created = destroyed, as multisets *)
    etransitivity; [apply Permutation_app_tail, P1|]. rewrite <- app_assoc.
    etransitivity; [apply Permutation_app_swap_app|]. apply Permutation_app_head. exact P2.
  - intros H. rewrite IL, (K2 NB), (K1 H). reflexivity.
Qed.

(* the known class is real: a borrowed wrapped child leaves the context count above its starting value for ever *)
Lemma borrowed_refuted :
  let '(s, _, _) := full_history [OCreateRef 3; OChildRef 0; OChildRef 0; OChildRef 0] in level s = 3.
Proof. vm_compute. reflexivity. Qed.

(* ---- casts ---- *)
Lemma cast_success_iff e castop req : (1 <= req <= 7) ->
  nth 2 (cast_row e castop req) 0 = 1 <-> Z.land req e = req.
Proof.
  intros R. unfold cast_row. replace (Z.max 1 (Z.min 7 req)) with req by lia. cbn [nth]. unfold subset_mask.
  destruct (Z.eqb_spec (Z.land req e) req); cbn; split; auto; lia.
Qed.
