Require Import Verif.common.Prelude Verif.model.Slice.
Open Scope Z_scope.

(* ---- specification of UTF-8: encoding of Unicode scalar values --------------------------------- *)
Definition scalar (c : Z) : Prop := (0 <= c <= 55295) \/ (57344 <= c <= 1114111).

Definition encode (c : Z) : list Z :=
  if c <? 128 then [c]
  else if c <? 2048 then [192 + c / 64; 128 + c mod 64]
  else if c <? 65536 then [224 + c / 4096; 128 + (c / 64) mod 64; 128 + c mod 64]
  else [240 + c / 262144; 128 + (c / 4096) mod 64; 128 + (c / 64) mod 64; 128 + c mod 64].

Definition encode_all (cs : list Z) : list Z := flat_map encode cs.

Ltac bools :=
  repeat match goal with
         | H : _ && _ = true |- _ => apply andb_true_iff in H; destruct H
         | H : inr_ _ _ _ = true |- _ => unfold inr_ in H
         | H : cont _ = true |- _ => unfold cont, inr_ in H
         | H : (_ <=? _) = true |- _ => apply Z.leb_le in H
         | H : (_ =? _) = true |- _ => apply Z.eqb_eq in H
         | H : (_ =? _) = false |- _ => apply Z.eqb_neq in H
         | H : (_ <? _) = true |- _ => apply Z.ltb_lt in H
         | H : (_ <? _) = false |- _ => apply Z.ltb_ge in H
         end.

Ltac Zify.zify_post_hook ::= Z.div_mod_to_equations.

Lemma inr_true lo hi b : lo <= b <= hi -> inr_ lo hi b = true.
Proof. intros H. unfold inr_. apply andb_true_iff. split; apply Z.leb_le; lia. Qed.
Lemma inr_false lo hi b : b < lo \/ hi < b -> inr_ lo hi b = false.
Proof. intros H. unfold inr_. apply andb_false_iff. destruct H; [left|right]; apply Z.leb_gt; lia. Qed.

(* completeness: every encoded scalar sequence is accepted *)
Lemma valid_encode_app c rest : scalar c -> utf8_valid (encode c ++ rest) = utf8_valid rest.
Proof.
  intros S. unfold encode.
  destruct (Z.ltb_spec c 128).
  - cbn [app utf8_valid]. rewrite inr_true; [reflexivity|]. destruct S; lia.
  - destruct (Z.ltb_spec c 2048).
    + cbn [app utf8_valid]. rewrite (inr_false 0 127) by lia. rewrite (inr_true 194 223) by lia.
      unfold cont. rewrite inr_true by lia. reflexivity.
    + destruct (Z.ltb_spec c 65536).
      * cbn [app utf8_valid]. rewrite (inr_false 0 127) by lia. rewrite (inr_false 194 223) by lia.
        rewrite (inr_true 224 239) by lia. unfold cont.
        rewrite (inr_true 128 191 (128 + c mod 64)) by lia.
        destruct (Z.eqb_spec (224 + c / 4096) 224).
        -- rewrite (inr_true 160 191) by lia. reflexivity.
        -- destruct (Z.eqb_spec (224 + c / 4096) 237).
           ++ rewrite (inr_true 128 159); [reflexivity|]. destruct S; lia.
           ++ rewrite (inr_true 128 191) by lia. reflexivity.
      * cbn [app utf8_valid]. rewrite (inr_false 0 127) by lia. rewrite (inr_false 194 223) by lia.
        rewrite (inr_false 224 239) by lia. assert (c <= 1114111) by (destruct S; lia).
        rewrite (inr_true 240 244) by lia. unfold cont.
        rewrite (inr_true 128 191 (128 + c mod 64)) by lia.
        rewrite (inr_true 128 191 (128 + (c / 64) mod 64)) by lia.
        destruct (Z.eqb_spec (240 + c / 262144) 240).
        -- rewrite (inr_true 144 191) by lia. reflexivity.
        -- destruct (Z.eqb_spec (240 + c / 262144) 244).
           ++ rewrite (inr_true 128 143) by lia. reflexivity.
           ++ rewrite (inr_true 128 191) by lia. reflexivity.
Qed.

Theorem utf8_complete cs : Forall scalar cs -> utf8_valid (encode_all cs) = true.
Proof.
  induction 1 as [|c cs Hc F IH]; [reflexivity|]. unfold encode_all in *. cbn [flat_map].
  now rewrite valid_encode_app.
Qed.

(* soundness: every accepted byte string is the encoding of a scalar sequence *)
Lemma sound_aux n : forall bs, (length bs <= n)%nat -> utf8_valid bs = true ->
  exists cs, Forall scalar cs /\ encode_all cs = bs.
Proof.
  induction n as [|n IH]; intros bs L V.
  - destruct bs; [|cbn in L; lia]. exists []. split; [constructor|reflexivity].
  - destruct bs as [|b0 r0]; [exists []; split; [constructor|reflexivity]|].
    cbn [utf8_valid] in V. cbn [length] in L.
    destruct (inr_ 0 127 b0) eqn:A0.
    { destruct (IH r0 ltac:(lia) V) as (cs & F & E). exists (b0 :: cs). bools. split.
      - constructor; auto. left; lia.
      - unfold encode_all in *. cbn [flat_map]. rewrite E. unfold encode.
        destruct (Z.ltb_spec b0 128); [reflexivity|lia]. }
    destruct r0 as [|b1 r1]; [discriminate|]. cbn [length] in L.
    destruct (inr_ 194 223 b0) eqn:A1.
    { bools. destruct (IH r1 ltac:(lia) H0) as (cs & F & E).
      exists ((b0 - 192) * 64 + (b1 - 128) :: cs). split.
      - constructor; auto. left; lia.
      - unfold encode_all in *. cbn [flat_map]. rewrite E. unfold encode.
        destruct (Z.ltb_spec ((b0 - 192) * 64 + (b1 - 128)) 128); [lia|].
        destruct (Z.ltb_spec ((b0 - 192) * 64 + (b1 - 128)) 2048); [|lia].
        cbn [app]. f_equal; [lia|]. f_equal. lia. }
    destruct r1 as [|b2 r2]; [discriminate|]. cbn [length] in L.
    destruct (inr_ 224 239 b0) eqn:A2.
    { apply andb_true_iff in V. destruct V as (V & VR). apply andb_true_iff in V. destruct V as (V1 & V2).
      destruct (IH r2 ltac:(lia) VR) as (cs & F & E).
      set (c := (b0 - 224) * 4096 + (b1 - 128) * 64 + (b2 - 128)).
      assert (B : 224 <= b0 <= 239 /\ 128 <= b1 <= 191 /\ 128 <= b2 <= 191 /\
                  (b0 = 224 -> 160 <= b1) /\ (b0 = 237 -> b1 <= 159)).
      { bools. destruct (Z.eqb_spec b0 224); [bools; lia|]. destruct (Z.eqb_spec b0 237); bools; lia. }
      exists (c :: cs). split.
      - constructor; auto. unfold scalar, c. destruct (Z.le_gt_cases b0 236); [left; lia|].
        destruct (Z.eq_dec b0 237); [left; lia|right; lia].
      - unfold encode_all in *. cbn [flat_map]. rewrite E. unfold encode.
        destruct (Z.ltb_spec c 128); [unfold c in *; lia|].
        destruct (Z.ltb_spec c 2048); [unfold c in *; lia|].
        destruct (Z.ltb_spec c 65536); [|unfold c in *; lia].
        cbn [app]. unfold c. f_equal; [lia|]. f_equal; [lia|]. f_equal. lia. }
    destruct r2 as [|b3 r3]; [discriminate|]. cbn [length] in L.
    destruct (inr_ 240 244 b0) eqn:A3; [|discriminate].
    apply andb_true_iff in V. destruct V as (V & VR). apply andb_true_iff in V. destruct V as (V & V3).
    apply andb_true_iff in V. destruct V as (V1 & V2).
    destruct (IH r3 ltac:(lia) VR) as (cs & F & E).
    set (c := (b0 - 240) * 262144 + (b1 - 128) * 4096 + (b2 - 128) * 64 + (b3 - 128)).
    assert (B : 240 <= b0 <= 244 /\ 128 <= b1 <= 191 /\ 128 <= b2 <= 191 /\ 128 <= b3 <= 191 /\
                (b0 = 240 -> 144 <= b1) /\ (b0 = 244 -> b1 <= 143)).
    { bools. destruct (Z.eqb_spec b0 240); [bools; lia|]. destruct (Z.eqb_spec b0 244); bools; lia. }
    exists (c :: cs). split.
    + constructor; auto. right. unfold c. lia.
    + unfold encode_all in *. cbn [flat_map]. rewrite E. unfold encode.
      destruct (Z.ltb_spec c 128); [unfold c in *; lia|].
      destruct (Z.ltb_spec c 2048); [unfold c in *; lia|].
      destruct (Z.ltb_spec c 65536); [unfold c in *; lia|].
      cbn [app]. unfold c. f_equal; [lia|]. f_equal; [lia|]. f_equal; [lia|]. f_equal. lia.
Qed.

Theorem utf8_sound bs : utf8_valid bs = true -> exists cs, Forall scalar cs /\ encode_all cs = bs.
Proof. apply (sound_aux (length bs)). lia. Qed.

(* ---- views and enums ------------------------------------------------------------------------------- *)
Lemma slice_rt a n : as_slice (from_slice a n) = (a, n).
Proof. reflexivity. Qed.

Lemma nth_error_firstn_lt' {A} (m : list A) i n : (i < n)%nat -> nth_error (firstn n m) i = nth_error m i.
Proof.
  revert m n; induction i as [|i IH]; intros m n H; destruct n; try lia; destruct m; cbn; try reflexivity.
  apply IH; lia.
Qed.

Lemma nth_error_skipn' {A} (m : list A) n i : nth_error (skipn n m) i = nth_error m (n + i).
Proof. revert m; induction n as [|n IH]; intros m; cbn; [reflexivity|]. destruct m; cbn; [now destruct i|apply IH]. Qed.

Lemma write_lands mem a n i v : (i < n)%nat -> (a + n <= length mem)%nat ->
  exists m', write_through mem (from_slice a n) i v = Some m' /\
             nth_error m' (a + i) = Some v /\ length m' = length mem /\
             (forall j, j <> (a + i)%nat -> nth_error m' j = nth_error mem j).
Proof.
  intros Hi Hb. unfold write_through, from_slice; cbn [slen data].
  destruct (Nat.ltb_spec i n); [|lia]. unfold set_cell, overwrite. cbn [length].
  destruct (Nat.leb_spec (a + i + 1) (length mem)); [|lia]. eexists; split; [reflexivity|].
  assert (LF : length (firstn (a + i) mem) = (a + i)%nat) by (apply firstn_length_le; lia).
  split; [|split].
  - rewrite nth_error_app2 by lia. rewrite LF, Nat.sub_diag. reflexivity.
  - rewrite !app_length, LF, skipn_length. cbn [length]. lia.
  - intros j Hj. destruct (Nat.lt_ge_cases j (a + i)).
    + rewrite nth_error_app1 by lia. now rewrite nth_error_firstn_lt' by lia.
    + rewrite nth_error_app2 by lia. rewrite LF.
      destruct (j - (a + i))%nat as [|d] eqn:D; [lia|]. cbn [app nth_error].
      rewrite nth_error_skipn'. f_equal. lia.
Qed.

Lemma copt_rt o : copt_into (copt_from o) = o. Proof. destruct o; reflexivity. Qed.
Lemma copt_rt' c : copt_from (copt_into c) = c. Proof. destruct c; reflexivity. Qed.
Lemma cres_rt r : cres_into (cres_from r) = r. Proof. destruct r; reflexivity. Qed.
Lemma cres_rt' c : cres_from (cres_into c) = c. Proof. destruct c; reflexivity. Qed.

(* ---- contents seen through a view ---- *)
Lemma view_contents mem a n : (a + n <= length mem)%nat ->
  exists l, read_view mem (from_slice a n) = Some l /\ length l = n /\
            forall i, (i < n)%nat -> nth_error l i = nth_error mem (a + i).
Proof.
  intros H. unfold read_view, from_slice, region. cbn [data slen].
  destruct (Nat.leb_spec (a + n) (length mem)) as [_|C]; [|lia].
  eexists; split; [reflexivity|]. split.
  - rewrite firstn_length, skipn_length. lia.
  - intros i Hi. rewrite nth_error_firstn_lt' by assumption. apply nth_error_skipn'.
Qed.

Lemma write_then_read mem a n i v : (i < n)%nat -> (a + n <= length mem)%nat ->
  exists m' l', write_through mem (from_slice a n) i v = Some m' /\ read_view m' (from_slice a n) = Some l' /\
                length l' = n /\ nth_error l' i = Some v /\
                (forall j, (j < n)%nat -> j <> i -> nth_error l' j = nth_error mem (a + j)).
Proof.
  intros Hi Hn. destruct (write_lands mem a n i v Hi Hn) as (m' & W & Hv & Hl & Ho).
  assert (Hn' : (a + n <= length m')%nat) by lia.
  destruct (view_contents m' a n Hn') as (l' & R & Ll & Hc).
  exists m', l'. repeat split; auto.
  - rewrite Hc by assumption. exact Hv.
  - intros j Hj Hne. rewrite Hc by assumption. apply Ho. lia.
Qed.
