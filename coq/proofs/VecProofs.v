(* Proofs about the CVec model: every operation refines the list specification,
   preserves well-formedness, and never reaches UB from a well-formed state. *)
Require Import Verif.common.Prelude Verif.model.Vec.

Definition abs (v : cvec) : list Z := firstn (len v) (buf v).
Definition wf (v : cvec) : Prop := len v <= cap v /\ cap v = length (buf v) /\ acap v = cap v.

(* ---- list-memory lemmas ---------------------------------------------------------- *)
Lemma region_0 {A} (m : list A) n : n <= length m -> region m 0 n = Some (firstn n m).
Proof.
  intros H. unfold region. cbn [skipn Nat.add].
  destruct (Nat.leb_spec n (length m)); [reflexivity | lia].
Qed.

Lemma overwrite_some {A} (m : list A) d c :
  d + length c <= length m ->
  overwrite m d c = Some (firstn d m ++ c ++ skipn (d + length c) m).
Proof.
  intros H. unfold overwrite. destruct (Nat.leb_spec (d + length c) (length m)); [reflexivity | lia].
Qed.

Lemma overwrite_length {A} (m m' : list A) d c : overwrite m d c = Some m' -> length m' = length m.
Proof.
  unfold overwrite. destruct (Nat.leb_spec (d + length c) (length m)) as [H|H]; [|discriminate].
  intros E; inversion E; subst. rewrite !app_length, firstn_length, skipn_length. lia.
Qed.

Lemma region_some {A} (m : list A) s n :
  s + n <= length m -> region m s n = Some (firstn n (skipn s m)).
Proof.
  intros H. unfold region. destruct (Nat.leb_spec (s + n) (length m)); [reflexivity | lia].
Qed.

Lemma firstn_app_exact {A} (a b : list A) n : n = length a -> firstn n (a ++ b) = a.
Proof. intros ->. rewrite firstn_app, Nat.sub_diag, firstn_all. cbn. apply app_nil_r. Qed.

Lemma firstn_firstn_le {A} (m : list A) a b : a <= b -> firstn a (firstn b m) = firstn a m.
Proof. intros H. rewrite firstn_firstn. f_equal. lia. Qed.

Lemma skipn_firstn_comm' {A} (m : list A) a b : skipn a (firstn (a + b) m) = firstn b (skipn a m).
Proof.
  revert m; induction a as [|a IH]; intros m; cbn; [reflexivity|].
  destruct m; cbn; [now rewrite firstn_nil | apply IH].
Qed.

Lemma nth_error_firstn_lt {A} (m : list A) i n : i < n -> nth_error (firstn n m) i = nth_error m i.
Proof.
  revert m n; induction i as [|i IH]; intros m n H; destruct n; try lia; destruct m; cbn; try reflexivity.
  apply IH; lia.
Qed.

Lemma nth_error_split' {A} (m : list A) i x :
  nth_error m i = Some x -> m = firstn i m ++ x :: skipn (S i) m.
Proof.
  revert m; induction i as [|i IH]; intros m H; destruct m; cbn in *; try discriminate.
  - now inversion H.
  - f_equal. now apply IH.
Qed.

Ltac len_simp := repeat (rewrite ?app_length, ?firstn_length, ?skipn_length, ?repeat_length); cbn [length].

(* ---- well-formedness & refinement, per operation ---------------------------------- *)
Section Refine.
Variable grow : nat -> nat -> nat -> nat.
Hypothesis grow_ok : forall l a c, l + a <= grow l a c.

Lemma reserve_fn_ok v add : wf v ->
  exists v', reserve_fn grow v add = Ok v' /\ wf v' /\ abs v' = abs v /\ len v' = len v /\
             (cap v - len v < add -> len v + add <= cap v').
Proof.
  intros (Hl & Hc & Ha). unfold reserve_fn.
  destruct (Nat.ltb_spec (cap v) (len v)); [lia|].
  destruct (Nat.ltb_spec (cap v - len v) add).
  - rewrite Ha, Nat.eqb_refl. cbn [negb]. rewrite region_0 by lia.
    eexists; split; [reflexivity|]. pose proof (grow_ok (len v) add (cap v)) as G.
    unfold wf, abs; cbn. rewrite app_length, firstn_length, repeat_length.
    repeat split; try lia.
    rewrite firstn_app_exact; [reflexivity | rewrite firstn_length; lia].
  - exists v. unfold wf. repeat split; auto; lia.
Qed.

Lemma reserve_ok v add : wf v ->
  exists v', reserve grow v add = Ok v' /\ wf v' /\ abs v' = abs v /\ len v' = len v /\ len v + add <= cap v'.
Proof.
  intros W. pose proof W as (Hl & Hc & Ha). unfold reserve.
  destruct (Nat.ltb_spec (cap v) (len v)); [lia|].
  destruct (Nat.ltb_spec (cap v - len v) add) as [L|L].
  - destruct (reserve_fn_ok v add W) as (v' & E & W' & A & Ln & C). exists v'. repeat split; auto; try apply W'.
  - exists v. repeat split; auto; lia.
Qed.

Lemma push_ok v x : wf v ->
  exists v', push grow v x = Ok v' /\ wf v' /\ abs v' = abs v ++ [x].
Proof.
  intros W. destruct (reserve_ok v 1 W) as (v1 & E & (Hl & Hc & Ha) & A & Ln & C).
  unfold push. rewrite E. destruct (Nat.leb_spec (cap v1) (len v1)); [lia|].
  unfold set_cell. rewrite overwrite_some by (cbn [length]; lia).
  eexists; split; [reflexivity|]. unfold wf, abs in *; cbn [buf len cap acap].
  split.
  - rewrite !app_length, firstn_length, skipn_length; cbn [length]. repeat split; lia.
  - rewrite <- A.
    replace (S (len v1)) with (length (firstn (len v1) (buf v1)) + 1) by (rewrite firstn_length; lia).
    rewrite firstn_app_2. reflexivity.
Qed.

Lemma firstn_app_le {A} (a b : list A) n : n <= length a -> firstn n (a ++ b) = firstn n a.
Proof. intros H. rewrite firstn_app. replace (n - length a) with 0 by lia. cbn. apply app_nil_r. Qed.

Lemma skipn_app_exact {A} (a b : list A) n : n = length a -> skipn n (a ++ b) = b.
Proof. intros ->. rewrite skipn_app, Nat.sub_diag, skipn_all. reflexivity. Qed.

Lemma firstn_skipn_mid {A} (m : list A) i L : i <= L -> firstn L m = firstn i m ++ firstn (L - i) (skipn i m).
Proof.
  revert m L; induction i as [|i IH]; intros m L H.
  - cbn. now rewrite Nat.sub_0_r.
  - destruct L as [|L]; [lia|]. destruct m as [|a m]; cbn [firstn skipn app Nat.sub].
    + now rewrite firstn_nil.
    + f_equal. apply IH. lia.
Qed.

Lemma insert_ok v i x : wf v -> i <= len v ->
  exists v', insert grow v i x = Ok v' /\ wf v' /\ abs v' = firstn i (abs v) ++ x :: skipn i (abs v).
Proof.
  intros W Hi. destruct (reserve_ok v 1 W) as (v1 & E & (Hl & Hc & Ha) & A & Ln & C).
  unfold insert. destruct (Nat.leb_spec i (len v)); [|lia]. cbn [negb]. rewrite E.
  destruct (Nat.leb_spec (cap v1) (len v1)); [lia|].
  unfold abs in *. rewrite <- A. rewrite Ln in *. clear E A.
  set (m := buf v1) in *. set (L := len v) in *.
  set (B := firstn (L - i) (skipn i m)).
  assert (LB : length B = L - i) by (unfold B; rewrite firstn_length_le; [lia | rewrite skipn_length; lia]).
  assert (LS : length (firstn (S i) m) = S i) by (apply firstn_length_le; lia).
  assert (LI : length (firstn i m) = i) by (apply firstn_length_le; lia).
  unfold memmove. rewrite region_some by lia. fold B.
  rewrite overwrite_some by lia.
  set (R := skipn (S i + length B) m).
  unfold set_cell. rewrite overwrite_some by (rewrite app_length; cbn [length]; lia).
  rewrite firstn_app_le by lia. rewrite firstn_firstn_le by lia.
  rewrite skipn_app_exact by (cbn [length]; lia).
  eexists; split; [reflexivity|]. unfold wf; cbn [buf len cap acap]. split.
  - rewrite !app_length, LI, LB. cbn [length]. unfold R. rewrite skipn_length. repeat split; lia.
  - rewrite (firstn_firstn_le m i L) by lia.
    replace (S L) with (length (firstn i m ++ [x] ++ B)) by (rewrite !app_length; cbn [length]; lia).
    rewrite !app_assoc. rewrite firstn_app_exact by reflexivity.
    rewrite <- !app_assoc. cbn [app]. f_equal. f_equal.
    rewrite (firstn_skipn_mid m i L) by lia. rewrite skipn_app_exact by lia. reflexivity.
Qed.

Lemma pop_ok v : wf v ->
  exists v' r, pop v = Ok (v', r) /\ wf v' /\
    match rev (abs v) with
    | [] => r = None /\ abs v' = abs v
    | x :: _ => r = Some x /\ abs v' = removelast (abs v)
    end.
Proof.
  intros (Hl & Hc & Ha). unfold pop. destruct (Nat.eqb_spec (len v) 0) as [Z|NZ].
  - exists v, None. unfold wf, abs. rewrite Z. cbn. repeat split; auto; lia.
  - destruct (Nat.leb_spec (cap v) (len v - 1)); [lia|].
    unfold get_cell. destruct (nth_error (buf v) (len v - 1)) eqn:N.
    2:{ apply nth_error_None in N. lia. }
    eexists _, _. split; [reflexivity|]. unfold wf, abs; cbn. split; [repeat split; lia|].
    assert (S : firstn (len v) (buf v) = firstn (len v - 1) (buf v) ++ [z]).
    { rewrite (firstn_skipn_mid (buf v) (len v - 1) (len v)) by lia. f_equal.
      replace (len v - (len v - 1)) with 1 by lia.
      rewrite (nth_error_split' _ _ _ N) at 1.
      rewrite skipn_app_exact by (rewrite firstn_length_le; lia). reflexivity. }
    rewrite S, rev_app_distr. cbn. split; [reflexivity|]. now rewrite removelast_last.
Qed.

Lemma remove_ok v i : wf v ->
  match nth_error (abs v) i with
  | Some x => exists v', remove v i = Ok (v', x) /\ wf v' /\ abs v' = firstn i (abs v) ++ skipn (S i) (abs v)
  | None => remove v i = Panic (v, 0%Z)
  end.
Proof.
  intros (Hl & Hc & Ha). unfold remove, abs.
  set (m := buf v) in *. set (L := len v) in *.
  destruct (nth_error (firstn L m) i) eqn:N.
  - assert (Hi : i < L).
    { assert (i < length (firstn L m)) by (apply nth_error_Some; congruence). rewrite firstn_length in *; lia. }
    destruct (Nat.ltb_spec i L); [|lia]. cbn [negb].
    destruct (Nat.ltb_spec (cap v) L); [lia|].
    rewrite nth_error_firstn_lt in N by lia. unfold get_cell. rewrite N.
    set (B := firstn (L - i - 1) (skipn (S i) m)).
    assert (LB : length B = L - i - 1) by (unfold B; rewrite firstn_length_le; [lia | rewrite skipn_length; lia]).
    assert (LI : length (firstn i m) = i) by (apply firstn_length_le; lia).
    unfold memmove. rewrite region_some by lia. fold B.
    rewrite overwrite_some by lia.
    eexists; split; [reflexivity|]. unfold wf; cbn [buf len cap acap]. split.
    + rewrite !app_length, LI, LB, skipn_length. repeat split; lia.
    + rewrite (firstn_firstn_le m i L) by lia.
      replace (L - 1) with (length (firstn i m ++ B)) by (rewrite app_length; lia).
      rewrite app_assoc, firstn_app_exact by reflexivity. f_equal.
      rewrite (firstn_skipn_mid m (S i) L) by lia.
      rewrite skipn_app_exact by (rewrite firstn_length_le; lia).
      unfold B. f_equal. lia.
  - apply nth_error_None in N. rewrite firstn_length in N.
    destruct (Nat.ltb_spec i L); [lia|]. reflexivity.
Qed.

Lemma write_ok v i x : wf v ->
  match nth_error (abs v) i with
  | Some old => exists v', write v i x = Ok (v', old) /\ wf v' /\ abs v' = firstn i (abs v) ++ x :: skipn (S i) (abs v)
  | None => write v i x = Panic (v, 0%Z)
  end.
Proof.
  intros (Hl & Hc & Ha). unfold write, abs.
  set (m := buf v) in *. set (L := len v) in *.
  destruct (Nat.ltb_spec (cap v) L); [lia|].
  destruct (nth_error (firstn L m) i) eqn:N.
  - assert (Hi : i < L).
    { assert (i < length (firstn L m)) by (apply nth_error_Some; congruence). rewrite firstn_length in *; lia. }
    destruct (Nat.ltb_spec i L); [|lia]. cbn [negb].
    rewrite nth_error_firstn_lt in N by lia. unfold get_cell, set_cell. rewrite N.
    assert (LI : length (firstn i m) = i) by (apply firstn_length_le; lia).
    rewrite overwrite_some by (cbn [length]; lia).
    eexists; split; [reflexivity|]. unfold wf; cbn [buf len cap acap length]. split.
    + rewrite !app_length, LI, skipn_length. cbn [length]. repeat split; lia.
    + rewrite (firstn_firstn_le m i L) by lia.
      rewrite (firstn_skipn_mid m (S i) L) at 1 by lia.
      rewrite skipn_app_exact by (rewrite firstn_length_le; lia).
      set (T := firstn (L - S i) (skipn (S i) m)).
      assert (LT : length T = L - S i) by (unfold T; rewrite firstn_length_le; [lia | rewrite skipn_length; lia]).
      replace (skipn (i + 1) m) with (skipn (S i) m) by (f_equal; lia).
      rewrite <- (firstn_skipn (L - S i) (skipn (S i) m)). fold T.
      replace L with (length (firstn i m ++ [x] ++ T)) at 1 by (rewrite !app_length; cbn [length]; lia).
      rewrite !app_assoc. rewrite firstn_app_exact by reflexivity.
      rewrite <- !app_assoc. reflexivity.
  - apply nth_error_None in N. rewrite firstn_length in N.
    destruct (Nat.ltb_spec i L); [lia|]. reflexivity.
Qed.

Lemma drop_ok v : wf v -> drop_vec v = Ok (abs v).
Proof.
  intros (Hl & Hc & Ha). unfold drop_vec. rewrite Ha, Nat.eqb_refl. cbn [negb].
  rewrite region_0 by lia. reflexivity.
Qed.

Lemma clone_ok v : wf v -> exists c, clone_vec v = Ok c /\ wf c /\ abs c = abs v.
Proof.
  intros (Hl & Hc & Ha). unfold clone_vec. rewrite region_0 by lia.
  eexists; split; [reflexivity|]. unfold wf, abs; cbn. rewrite firstn_length.
  repeat split; try lia. rewrite firstn_all2; [reflexivity | rewrite firstn_length; lia].
Qed.

Lemma from_vec_wf spare xs : wf (from_vec spare xs) /\ abs (from_vec spare xs) = xs.
Proof.
  unfold wf, abs, from_vec; cbn. rewrite app_length, repeat_length. repeat split; try lia.
  now rewrite firstn_app_exact.
Qed.

Lemma read_ok v : wf v -> read_row v = Ok (nz (length (abs v)) :: 1%Z :: abs v).
Proof.
  intros (Hl & Hc & Ha). unfold read_row, abs. rewrite region_0 by lia.
  destruct (Nat.leb_spec (len v) (cap v)); [|lia]. rewrite firstn_length.
  replace (Nat.min (len v) (length (buf v))) with (len v) by lia. reflexivity.
Qed.

Lemma nth_error_last_rev {A} (l : list A) :
  match rev l with [] => l = [] | x :: _ => nth_error l (length l - 1) = Some x end.
Proof.
  destruct l using rev_ind; [reflexivity|]. rewrite rev_app_distr. cbn.
  rewrite app_length. cbn. rewrite nth_error_app2 by lia.
  replace (length l + 1 - 1 - length l) with 0 by lia. reflexivity.
Qed.

(* The one-step refinement theorem *)
Theorem step_refines v o : wf v ->
  match step grow v o with
  | Ok (v', out) => wf v' /\ spec_step (abs v) o = (abs v', out, false)
  | Panic (v', out) => wf v' /\ abs v' = abs v /\ spec_step (abs v) o = (abs v, out, true)
  | UB => False
  end.
Proof.
  intros W. destruct o as [x| |i x|i|n| |i x|spare xs| | |dst]; cbn [step spec_step].
  - destruct (push_ok v x W) as (v' & E & W' & A). rewrite E, A. auto.
  - destruct (pop_ok v W) as (v' & r & E & W' & M). rewrite E.
    destruct (rev (abs v)); destruct M as (-> & ->); auto.
  - assert (L : length (abs v) = len v) by (destruct W as (?&?&?); unfold abs; rewrite firstn_length; lia).
    rewrite L. destruct (Nat.leb_spec i (len v)) as [Hi|Hi].
    + destruct (insert_ok v i x W Hi) as (v' & E & W' & A). rewrite E, A. auto.
    + unfold insert. destruct (Nat.leb_spec i (len v)); [lia|]. cbn. auto.
  - pose proof (remove_ok v i W) as R. destruct (nth_error (abs v) i).
    + destruct R as (v' & E & W' & A). rewrite E, A. auto.
    + rewrite R. auto.
  - destruct (reserve_ok v n W) as (v' & E & W' & A & _). rewrite E, A. auto.
  - destruct (clone_ok v W) as (c & E & Wc & A). rewrite E, (drop_ok v W), A. auto.
  - pose proof (write_ok v i x W) as R. destruct (nth_error (abs v) i).
    + destruct R as (v' & E & W' & A). rewrite E, A. auto.
    + rewrite R. auto.
  - rewrite (drop_ok v W). destruct (from_vec_wf spare xs) as (W' & A). rewrite A. auto.
  - rewrite (read_ok v W). auto.
  - assert (R : region (buf v) 0 (len v) = Some (abs v)) by (destruct W as (Hl & Hc & Ha); apply region_0; lia).
    rewrite R. destruct (existsb poison (abs v)).
    + auto.
    + destruct (clone_ok v W) as (c & E & Wc & A). rewrite E, (drop_ok v W), A. auto.
  - destruct (clone_ok v W) as (c & E & Wc & A). rewrite E, (drop_ok v W), A. auto.
Qed.

(* Lift to whole scripts: the model's output equals the specification's output. *)
Theorem run_refines ops : forall v, wf v -> run_from grow v ops = spec_run (abs v) ops.
Proof.
  induction ops as [|o os IH]; intros v W; cbn [run_from spec_run].
  - now rewrite (drop_ok v W).
  - pose proof (step_refines v o W) as S. destruct (step grow v o) as [[v' [r ds]]|[v' [r ds]]|]; [| |contradiction].
    + destruct S as (W' & ->). now rewrite IH.
    + destruct S as (W' & A & ->). rewrite IH by assumption. now rewrite A.
Qed.

(* every state reached by a script is well-formed (capacity >= length, capacity field =
   real allocation capacity = buffer size) *)
Fixpoint states_from (v : cvec) (ops : list vop) : list cvec :=
  match ops with
  | [] => [v]
  | o :: os => v :: match step grow v o with
                    | Ok (v', _) | Panic (v', _) => states_from v' os
                    | UB => []
                    end
  end.

Theorem reachable_wf ops : forall v, wf v -> Forall wf (states_from v ops).
Proof.
  induction ops as [|o os IH]; intros v W; cbn [states_from]; constructor; auto.
  pose proof (step_refines v o W) as S. destruct (step grow v o) as [[v' ?]|[v' ?]|]; [| |contradiction].
  - apply IH, S. - apply IH, S.
Qed.
End Refine.


(* ---- exactly-once accounting on the specification --------------------------------- *)
From Coq Require Import Permutation.

(* values handed to the vector's API (push/insert/write/clone/from_vec) *)
Definition entered (l : list Z) (o : vop) : list Z :=
  match o with
  | VPush x => [x]
  | VInsert i x => [x]
  | VWrite i x => [x]
  | VClone => l
  | VCloneP => if existsb poison l then cloned_before l else l
  | VCloneFrom dst => dst ++ l
  | VFromVec _ xs => xs
  | _ => []
  end.
(* values handed back to the caller by pop/remove, read off the result row *)
Definition returned (r : list Z) : list Z :=
  match r with [1;1;x]%Z => [x] | [3;1;x]%Z => [x] | _ => [] end.

Fixpoint entered_run (l : list Z) (ops : list vop) : list Z :=
  match ops with
  | [] => []
  | o :: os => let '(l', _, _) := spec_step l o in entered l o ++ entered_run l' os
  end.
Fixpoint rows_returned (rows : list (list Z)) : list Z :=
  match rows with r :: _ :: rest => returned r ++ rows_returned rest | _ => [] end.
Fixpoint rows_dropped (rows : list (list Z)) : list Z :=
  match rows with _ :: ds :: rest => ds ++ rows_dropped rest | _ => [] end.

Lemma spec_step_conserves l o :
  let '(l', (r, ds), _) := spec_step l o in
  Permutation (l ++ entered l o) (l' ++ returned r ++ ds).
Proof.
  destruct o as [x| |i x|i|n| |i x|spare xs| | |dst]; cbn [spec_step entered returned].
  - now rewrite !app_nil_r.
  - destruct (rev l) eqn:R.
    + reflexivity.
    + cbn [returned]. rewrite !app_nil_r.
      assert (E : l = rev l0 ++ [z]) by (rewrite <- (rev_involutive l), R; reflexivity).
      rewrite E at 2. rewrite removelast_last. now rewrite <- E.
  - destruct (Nat.leb_spec i (length l)).
    + cbn [returned app]. rewrite !app_nil_r. rewrite <- (firstn_skipn i l) at 1.
      rewrite <- app_assoc. apply Permutation_app_head. symmetry. apply Permutation_cons_append.
    + reflexivity.
  - destruct (nth_error l i) eqn:N.
    + cbn [returned app]. rewrite !app_nil_r. rewrite (nth_error_split' _ _ _ N) at 1.
      rewrite <- app_assoc. apply Permutation_app_head. apply Permutation_cons_append.
    + reflexivity.
  - reflexivity.
  - cbn [returned app]. reflexivity.
  - destruct (nth_error l i) eqn:N.
    + cbn [returned app]. rewrite (nth_error_split' _ _ _ N) at 1.
      rewrite <- !app_assoc. apply Permutation_app_head. cbn [app].
      set (T := skipn (S i) l).
      etransitivity; [apply (Permutation_app_comm (z :: T) [x])|]. cbn [app].
      apply perm_skip. apply Permutation_cons_append.
    + reflexivity.
  - cbn [returned app]. apply Permutation_app_comm.
  - cbn. now rewrite !app_nil_r.
  - destruct (existsb poison l); cbn [returned app]; reflexivity.
  - cbn [returned app]. reflexivity.
Qed.

(* Over any script (ending with the drop of the vector): everything that was in the
   vector initially or entered it is either handed back to the caller or destroyed,
   exactly once (multiset equality). *)
Theorem tokens_conserved ops : forall l,
  Permutation (l ++ entered_run l ops)
              (rows_returned (spec_run l ops) ++ rows_dropped (spec_run l ops)).
Proof.
  induction ops as [|o os IH]; intros l; cbn [spec_run entered_run rows_returned rows_dropped].
  - cbn. now rewrite !app_nil_r.
  - pose proof (spec_step_conserves l o) as S.
    destruct (spec_step l o) as [[l' [r ds]] p]. cbn [rows_returned rows_dropped].
    rewrite app_assoc. etransitivity; [apply Permutation_app_tail, S|].
    rewrite <- !app_assoc.
    etransitivity; [apply Permutation_app_comm|]. rewrite <- !app_assoc.
    specialize (IH l').
    (* goal: returned r ++ ds ++ entered_run ++ l'  ~  returned r ++ rows_returned ++ ds ++ rows_dropped *)
    apply Permutation_app_head.
    etransitivity; [| apply Permutation_app_swap_app].
    apply Permutation_app_head.
    etransitivity; [apply Permutation_app_comm | exact IH].
Qed.

(* Clone::clone_from: whatever the destination held, it ends up as a copy of the source — same contents, same length — its own elements are destroyed
   (they head the destructor row), and the source's old storage goes away with its elements when the copy takes its place. *)

(* Clone::clone_from: whatever the destination held, it ends up as a copy of the source — same contents, same length — its own elements are destroyed
   (they head the destructor row), and the source's old storage goes away with its elements when the copy takes its place. *)
Section CloneFrom.
Variable grow : nat -> nat -> nat -> nat.
Hypothesis grow_ok : forall l a c, l + a <= grow l a c.
Theorem clone_from_copies v dst : wf v ->
  exists c, step grow v (VCloneFrom dst) = Ok (c, ([5%Z], dst ++ abs v)) /\ wf c /\ abs c = abs v.
Proof.
  intros W. pose proof (step_refines grow grow_ok v (VCloneFrom dst) W) as R.
  destruct (step grow v (VCloneFrom dst)) as [[c out]|[c out]|]; cbn [spec_step] in R.
  - destruct R as (Wc & E). injection E as E1 E2. subst out. exists c. split; [reflexivity|]. split; [exact Wc|]. now symmetry.
  - destruct R as (_ & _ & E). discriminate.
  - contradiction.
Qed.
End CloneFrom.
