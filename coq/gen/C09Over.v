Require Import Verif.common.Prelude Verif.model.AutoTrait Verif.gen.AutoTraits_Src.
Eval vm_compute in overreach_rows env.
