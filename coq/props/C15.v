(* C15 — callbacks and iterators deliver every item once, in order, until told to stop. *)
Require Import Verif.common.Prelude Verif.model.IntResult Verif.model.Callback Verif.proofs.CallbackProofs.
Open Scope Z_scope.

(* feed_into_mut on ANY item list and ANY sink state: the sink receives, appended in order,
   exactly the prefix [offered] (all items up to and including the first on which it says
   stop); the returned count is the number of items offered; the rest is left to the source *)
Theorem C15_feed : forall items s,
  let off := offered (kind s) (length (got s)) items in
  feed_into_mut items s = (mksink (kind s) (got s ++ off), length off, skipn (length off) items)
  /\ off = firstn (length off) items.
Proof.
  intros items s. split; [unfold feed_into_mut; now rewrite feed_loop_spec | apply offered_prefix].
Qed.
Print Assumptions C15_feed.

(* the same for Extend on an OpaqueCallback *)
Theorem C15_extend : forall items s,
  let off := offered (kind s) (length (got s)) items in
  extend_loop items s = (mksink (kind s) (got s ++ off), skipn (length off) items).
Proof. intros. apply extend_loop_spec. Qed.
Print Assumptions C15_extend.

(* collecting sinks (Vec, from_extend) and never-stopping closures end up holding exactly the items *)
Theorem C15_collect : forall items s, (forall m, goes (kind s) m = true) ->
  feed_into_mut items s = (mksink (kind s) (got s ++ items), length items, []).
Proof.
  intros items s H. destruct (C15_feed items s) as (E & _). rewrite E.
  rewrite (offered_never_stops _ _ _ H). now rewrite skipn_all.
Qed.
Print Assumptions C15_collect.

(* a callback keeps no memory of an earlier stop: feeding a second sequence into the sink as the first feed left it is again [C15_feed] — the
   closure decides anew for every item (the tie: the refeed cases '2 stop method n items..' of run_case15, fed by the harness's kind 3) *)
Theorem C15_refeed : forall xs ys s,
  let s1 := fst (fst (feed_into_mut xs s)) in
  let off2 := offered (kind s) (length (got s1)) ys in
  kind s1 = kind s /\
  feed_into_mut ys s1 = (mksink (kind s) (got s1 ++ off2), length off2, skipn (length off2) ys).
Proof.
  intros xs ys s. destruct (C15_feed xs s) as (E1 & _). cbn zeta. rewrite E1. cbn [fst kind got].
  split; [reflexivity|]. destruct (C15_feed ys (mksink (kind s) (got s ++ offered (kind s) (length (got s)) xs))) as (E2 & _).
  cbn [kind got] in E2. exact E2.
Qed.
Print Assumptions C15_refeed.

(* a closure that says stop on its k-th call (k>0) receives exactly the first k items *)
Theorem C15_stop : forall items k, (0 < k)%nat ->
  feed_into_mut items (mksink (SClosure k) []) =
    (mksink (SClosure k) (firstn k items), length (firstn k items), skipn (length (firstn k items)) items).
Proof.
  intros items k Hk. destruct (C15_feed items (mksink (SClosure k) [])) as (E & _). rewrite E. cbn [kind got length app].
  now rewrite (offered_stop_at k items Hk).
Qed.
Print Assumptions C15_stop.

(* CIterator: each next() is the wrapped iterator's next(): the out slot is read only after a
   0 return, nothing is produced or dropped that the source did not yield; any interleaving of
   wrapper calls and direct calls sees the source's own sequence *)
Theorem C15_iter : forall s, citer_next s = Ok (src_next s).
Proof. exact citer_next_spec. Qed.
Print Assumptions C15_iter.

Theorem C15_iter_interleaved : forall ops s, run_iter_ops ops s = direct_ops ops s.
Proof. exact interleaved_is_direct. Qed.
Print Assumptions C15_iter_interleaved.
