(* C08 — group casts succeed exactly when the requested traits are present. *)
Require Import Verif.common.Prelude Verif.model.Group Verif.proofs.GroupProofs Verif.model.Life Verif.proofs.LifeProofs.
From Coq Require Import Permutation.
Open Scope Z_scope.

(* for ANY number of optional traits with distinct identifiers: whatever order the user lists the requested traits in,
   the macro's sorted request is exactly the sublist of the group's sorted optional list for which a function was generated *)
Theorem C08_macro : forall P opts req_in,
  NoDup (map ti_name opts) -> Permutation req_in (filter P opts) ->
  sort_ti req_in = filter P (sort_ti opts).
Proof. exact macro_meets_group. Qed.
Print Assumptions C08_macro.

(* that function validates exactly the requested vtables — every one of them, and no other *)
Theorem C08_validates : forall P opts, NoDup (map ti_name opts) ->
  map snd (mixed (sort_ti opts) (filter P (sort_ti opts))) = map P (sort_ti opts).
Proof. exact validated_exactly_requested. Qed.
Print Assumptions C08_validates.

(* hence success <-> requested is a subset of enabled (the five operations share the validation list) *)
Theorem C08_iff : forall e castop req, (1 <= req <= 7) ->
  nth 2 (cast_row e castop req) 0 = 1 <-> Z.land req e = req.
Proof. exact cast_success_iff. Qed.
Print Assumptions C08_iff.

(* a successful cast is a reinterpretation of the same fields: casting back yields the original group *)
Theorem C08_back : forall g req, shape (with_fields g req) = shape (base_fields g).
Proof. exact with_same_shape. Qed.
Print Assumptions C08_back.

(* cglue_impl_group!: whatever order (and however many aliased instantiations of one generic trait) the user lists, the vtables
   enabled for the type are exactly the listed traits — none lost, none added *)
Theorem C08_impl_group : forall nm listed,
  Permutation (impl_enabled listed) listed /\ length (impl_enabled listed) = length listed /\
  mask_of nm (impl_enabled listed) = mask_of nm listed.
Proof. exact impl_enables_listed. Qed.
Print Assumptions C08_impl_group.

(* cglue_impl_group!(T, G, { owned }, { forward }): the two lists are independent — the owned filler enables exactly the owned list, the Fwd filler
   exactly the forward list (forward modes of case id 204: the same list, its complement, its rotation) *)
Theorem C08_impl_group_fwd : forall g fm mask, fm <> 1 ->
  let nm := length (g_mand g) in
  let owned := rev (filter (in_mask nm mask) (g_opt g)) in
  let fwd := rev (filter (in_mask nm (fwd_mask (length (g_opt g)) fm mask)) (g_opt g)) in
  impl_row g fm mask = [mask; mask_of nm owned; nz (length owned); mask_of nm fwd; nz (length fwd); mask_of nm owned; 0].
Proof. exact impl_row_lists. Qed.
Print Assumptions C08_impl_group_fwd.
