(* C12 — slice views and C option/result/tuple types are lossless. *)
Require Import Verif.common.Prelude Verif.model.Slice Verif.proofs.SliceProofs.
Open Scope Z_scope.

(* the UTF-8 decision, against a specification (encodings of Unicode scalar values), not against itself *)
Theorem C12_utf8_sound : forall bs, utf8_valid bs = true -> exists cs, Forall scalar cs /\ encode_all cs = bs.
Proof. exact utf8_sound. Qed.
Print Assumptions C12_utf8_sound.

Theorem C12_utf8_complete : forall cs, Forall scalar cs -> utf8_valid (encode_all cs) = true.
Proof. exact utf8_complete. Qed.
Print Assumptions C12_utf8_complete.

(* conversion to &str is refused exactly for byte strings that are not valid UTF-8, and otherwise returns the same bytes *)
Theorem C12_str : forall bs,
  (try_into_str bs = Some bs /\ exists cs, Forall scalar cs /\ encode_all cs = bs) \/
  (try_into_str bs = None /\ ~ exists cs, Forall scalar cs /\ encode_all cs = bs).
Proof.
  intros bs. unfold try_into_str. destruct (utf8_valid bs) eqn:V.
  - left. split; [reflexivity|now apply utf8_sound].
  - right. split; [reflexivity|]. intros (cs & F & E). subst. rewrite utf8_complete in V by assumption. discriminate.
Qed.
Print Assumptions C12_str.

(* slice -> CSliceRef/CSliceMut -> slice: same address and length (any length, zero included);
   a write through the view lands in the original buffer and touches nothing else *)
Theorem C12_slice : forall a n, as_slice (from_slice a n) = (a, n).
Proof. exact slice_rt. Qed.
Print Assumptions C12_slice.

Theorem C12_write : forall mem a n i v, (i < n)%nat -> (a + n <= length mem)%nat ->
  exists m', write_through mem (from_slice a n) i v = Some m' /\
             nth_error m' (a + i) = Some v /\ length m' = length mem /\
             (forall j, j <> (a + i)%nat -> nth_error m' j = nth_error mem j).
Proof. exact write_lands. Qed.
Print Assumptions C12_write.

Theorem C12_enums :
  (forall o, copt_into (copt_from o) = o) /\ (forall c, copt_from (copt_into c) = c) /\
  (forall r, cres_into (cres_from r) = r) /\ (forall c, cres_from (cres_into c) = c) /\
  (forall t, ctup_into (ctup_from t) = t).
Proof. repeat split; [apply copt_rt|apply copt_rt'|apply cres_rt|apply cres_rt']. Qed.
Print Assumptions C12_enums.

Example C12_utf8_examples :
  utf8_valid [226; 130; 172] = true /\ utf8_valid [237; 160; 128] = false /\ utf8_valid [192; 128] = false /\
  utf8_valid [244; 144; 128; 128] = false /\ utf8_valid [240; 159; 152; 128] = true.
Proof. vm_compute. auto. Qed.

(* same CONTENTS: reading through the view of mem[a .. a+n) yields exactly those n cells in order; and after a write through a CSliceMut at index i
   the view reads v at i and the original contents everywhere else *)
Theorem C12_contents : forall mem a n, (a + n <= length mem)%nat ->
  exists l, read_view mem (from_slice a n) = Some l /\ length l = n /\
            forall i, (i < n)%nat -> nth_error l i = nth_error mem (a + i).
Proof. exact view_contents. Qed.
Print Assumptions C12_contents.

Theorem C12_write_read : forall mem a n i v, (i < n)%nat -> (a + n <= length mem)%nat ->
  exists m' l', write_through mem (from_slice a n) i v = Some m' /\ read_view m' (from_slice a n) = Some l' /\
                length l' = n /\ nth_error l' i = Some v /\
                (forall j, (j < n)%nat -> j <> i -> nth_error l' j = nth_error mem (a + j)).
Proof. exact write_then_read. Qed.
Print Assumptions C12_write_read.
