(* C18 — post-processed headers compile, are reproducible, keep foreign declarations; the command line is split at `--`.
   Model: model/Bindgen.v (split_cli) and model/BindgenHeader.v (declaration blocks, context monomorphisation order).
   [contexts_ordered_src] is REGENERATED from cglue-bindgen/src/codegen/c.rs on every run (gen/Bindgen_Src.v).  Compiler acceptance
   (gcc -std=c99, g++ -std=c++11) and the behaviour of the regular expressions on arbitrary text are observed on generated headers only
   (bin/checks/c18.py); the real binary's argument handling is exercised with a stub cbindgen. *)
Require Import Verif.common.Prelude Verif.model.Group Verif.model.Bindgen Verif.model.BindgenHeader.
Require Import Verif.proofs.BindgenProofs Verif.proofs.BindgenHeaderProofs Verif.gen.Bindgen_Src.
From Coq Require Import String Permutation.
Open Scope string_scope.

(* arguments before `--` configure the tool (last -c/--config wins, +nightly anywhere); arguments after it are passed to cbindgen except
   every `-o X` / `--output X` pair; the first X receives the processed header.  Domain: no output option takes `-o`/`--output` as its value *)
Theorem C18_cli : forall pre rest,
  ~ In "--" pre -> ok_args rest ->
  split_cli (pre ++ "--" :: rest)%list =
  (cfg_path pre None, existsb (String.eqb "+nightly") pre, strip_pairs rest, first_out rest).
Proof. exact split_cli_spec. Qed.
Print Assumptions C18_cli.

Theorem C18_cli_no_separator : forall argv, ~ In "--" argv ->
  split_cli argv = (cfg_path argv None, existsb (String.eqb "+nightly") argv, [], None).
Proof. exact split_cli_no_dashes. Qed.
Print Assumptions C18_cli_no_separator.

(* the collection of contexts iterates in sorted order ... *)
Theorem C18_contexts_ordered : contexts_ordered_src = true.
Proof. reflexivity. Qed.
Print Assumptions C18_contexts_ordered.

(* ... hence the emitted copies of context-generic structs do not depend on the process (hash seed) nor on the order in which the
   contexts were met in the header *)
Theorem C18_reproducible : forall hash1 hash2 ins1 ins2 h,
  Permutation ins1 ins2 -> NoDup (map ti_name ins1) ->
  process (iter_order contexts_ordered_src hash1 ins1) h = process (iter_order contexts_ordered_src hash2 ins2) h.
Proof. exact ordered_deterministic. Qed.
Print Assumptions C18_reproducible.

(* the repaired defect F-C18-order: with a hashed collection (the code as found) two contexts gave two different outputs *)
Theorem C18_hashed_not_reproducible :
  exists (hash1 hash2 : list tinfo -> list tinfo) ins h,
    (forall l, Permutation l (hash1 l)) /\ (forall l, Permutation l (hash2 l)) /\
    process (iter_order false hash1 ins) h <> process (iter_order false hash2 ins) h.
Proof. exact hashed_not_deterministic. Qed.
Print Assumptions C18_hashed_not_reproducible.

(* foreign declarations survive unmodified and in order, unless a user struct is NAMED like a context-generic struct (known finding) *)
Theorem C18_foreign : forall order h,
  (forall id, ~ In (HGeneric id true) h) -> foreign_out (process order h) = foreign_in h.
Proof. exact foreign_all_preserved. Qed.
Print Assumptions C18_foreign.

Theorem C18_foreign_named_like_generic_lost : forall order id,
  foreign_in [HGeneric id true] = [id] /\ foreign_out (process order [HGeneric id true]) = [].
Proof. exact foreign_named_like_generic_lost. Qed.
Print Assumptions C18_foreign_named_like_generic_lost.

(* non-vacuity *)
Example C18_cli_example :
  split_cli ["+nightly"; "-c"; "cglue.toml"; "--"; "--config"; "cb.toml"; "--crate"; "x"; "-o"; "out.h"; "-l"; "C"; "--output"; "other.h"] =
  (Some "cglue.toml", true, ["--config"; "cb.toml"; "--crate"; "x"; "-l"; "C"], Some "out.h").
Proof. reflexivity. Qed.
Example C18_blocks_example :
  let cs := [mkti 0 [78; 111]%Z; mkti 1 [67; 65]%Z] in        (* "No", "CA" in insertion order *)
  process (iter_order true (fun l => l) cs) [HForeign 0; HGeneric 1 false; HCglue 2; HForeign 3] =
  [OForeign 0; OCopy 1 (mkti 1 [67; 65]%Z); OCopy 1 (mkti 0 [78; 111]%Z); OForeign 3].
Proof. reflexivity. Qed.
